import SdnsVerif.Model.Blocklist
import SdnsVerif.Lemmas.Blocklist
import SdnsVerif.Gen.C18
/-!
# C18 — blocklist matching is exact and its persisted form converges to memory

Property theorems only (helper lemmas live in `Lemmas/Blocklist.lean`).
-/
namespace SdnsVerif.Props.C18
open SdnsVerif.Model.Blocklist SdnsVerif.Lemmas.Blocklist

/-! ## 1. Matching -/

/-
Statement with no restriction at all (FALSE, counter-witness `exists_ne_spec_root_entry`):

  ∀ P Wd Wh K,  «exists» (memOf P Wd Wh) (pres K) = specBlocked P Wd Wh (lowerName K)

It fails when the ROOT is an entry (recorded as a known finding; the oracle of
harness/c18 keeps flagging it).  Everything else is covered by the theorem below:
every query name, including labels with escaped dots, escaped backslashes and
`\DDD` — since the fix of the parent walk (`nextLabel`) the escaped-dot
restriction of the earlier `…_partial` version is gone.
-/

/-- **`Exists` is the property's rule**, for ALL names and all entry sets that
do not contain the root: the name is reported blocked exactly when it or a
parent is a plain entry, or a strict parent is a wildcard entry, and neither it
nor a parent is whitelisted — compared on whole labels (an escaped dot is part of
its label), case-insensitively (the query is folded; entries are stored folded).
`NameOK` only says that `K` is a list of presentation-form labels as miekg renders
them (non-empty, dots inside escaped, no dangling backslash). -/
theorem exists_iff_spec (P Wd Wh : List Name) (K : Name) (hK : NameOK K)
    (hP : ∀ e ∈ P, EntryOK e) (hWd : ∀ e ∈ Wd, EntryOK e) (hWh : ∀ e ∈ Wh, EntryOK e) :
    «exists» (memOf P Wd Wh) (pres K) = specBlocked P Wd Wh (lowerName K) := by
  rw [Bool.eq_iff_iff]
  unfold «exists»
  rw [canonical_of_fqdn _ (isFqdn_pres K hK), lower_pres, existsCanon_iff, specBlocked_iff]
  have hn := NameOK_lower K hK
  unfold memOf
  simp only
  rw [Hit_pres_iff _ hn Wh (fun e he => ⟨(hWh e he).1, (hWh e he).2.1⟩),
      Hit_pres_iff _ hn P (fun e he => ⟨(hP e he).1, (hP e he).2.1⟩),
      suffixHit_pres_iff _ hn Wd (fun e he => ⟨(hWd e he).1, (hWd e he).2.1⟩)]

/-- **Escaped dot is not a label boundary** (the former counter-witness, now in
agreement): with `example.com.` listed, the name whose labels are `x\.example`
and `com` is not blocked, for the code as for the rule; `x\\.example.com.`
(label `x\\`, then `example`, `com`) is a subdomain and is blocked. -/
theorem escaped_dot_not_boundary :
    «exists» (memOf [["example".toList, "com".toList]] [] [])
        (pres ["x\\.example".toList, "com".toList]) = false ∧
    specBlocked [["example".toList, "com".toList]] [] []
        (lowerName ["x\\.example".toList, "com".toList]) = false ∧
    «exists» (memOf [["example".toList, "com".toList]] [] [])
        (pres ["x\\\\".toList, "example".toList, "com".toList]) = true := by
  decide

/-- Counter-witness to the unrestricted statement — **root entry**: with the root
listed as a plain entry every name has a listed parent, but `Exists` only
reports the root itself. -/
theorem exists_ne_spec_root_entry :
    «exists» (memOf [[]] [] []) (pres ["example".toList, "com".toList]) = false ∧
    specBlocked [[]] [] [] (lowerName ["example".toList, "com".toList]) = true ∧
    «exists» (memOf [[]] [] []) (pres []) = true := by
  decide

-- non-vacuity of `exists_iff_spec`: plain parent, wildcard apex, whitelist precedence
example : «exists» (memOf [["example".toList, "com".toList]] [["ads".toList, "net".toList]] [["ok".toList, "example".toList, "com".toList]])
    (pres ["Sub".toList, "EXAMPLE".toList, "com".toList]) = true := by decide
example : «exists» (memOf [["example".toList, "com".toList]] [["ads".toList, "net".toList]] [["ok".toList, "example".toList, "com".toList]])
    (pres ["ads".toList, "net".toList]) = false := by decide
example : «exists» (memOf [["example".toList, "com".toList]] [["ads".toList, "net".toList]] [["ok".toList, "example".toList, "com".toList]])
    (pres ["x".toList, "ok".toList, "example".toList, "com".toList]) = false := by decide


/-- **Deep subdomains**: however many labels stand in front of a listed name
(1 or 120 — there is no depth at which the walk gives up), the name is blocked. -/
theorem deep_subdomain_blocked (E pre : Name) (hE : EntryOK E) (hpre : NameOK pre) :
    «exists» (memOf [E] [] []) (pres (pre ++ E)) = true ∧
    (pre ≠ [] → «exists» (memOf [] [E] []) (pres (pre ++ E)) = true) := by
  have hK : NameOK (pre ++ E) := by
    intro l hl
    rcases List.mem_append.mp hl with h | h
    · exact hpre l h
    · exact hE.2.1 l h
  have hlow : lowerName (pre ++ E) = lowerName pre ++ E := by
    unfold lowerName; rw [List.map_append]; congr 1; exact hE.2.2
  constructor
  · rw [exists_iff_spec [E] [] [] (pre ++ E) hK (by simpa using hE) (by simp) (by simp)]
    unfold specBlocked isSelfOrParent
    rw [hlow]
    simp
  · intro hne
    rw [exists_iff_spec [] [E] [] (pre ++ E) hK (by simp) (by simpa using hE) (by simp)]
    unfold specBlocked isSelfOrParent isStrictParent
    rw [hlow]
    have : E ≠ lowerName pre ++ E := by
      intro h
      have := congrArg List.length h
      simp [lowerName] at this
      exact hne this
    simp [this]

example : «exists» (memOf [["ads".toList, "example".toList, "com".toList]] [] [])
    (pres (List.replicate 30 "a".toList ++ ["ads".toList, "example".toList, "com".toList])) = true := by decide

/-- **Case-insensitive**: two spellings that differ only in ASCII case get the
same answer from every list — for queries … -/
theorem case_insensitive (b : Mem) (q q' : Str) (h : lower q = lower q') :
    «exists» b q = «exists» b q' := by
  unfold «exists»
  rw [canonical_congr q q' h]

/-- … and for entries: adding either spelling produces the same memory. -/
theorem case_insensitive_entry (b : Mem) (e e' : Str) (h : lower e = lower e') :
    setLocked b e = setLocked b e' ∧ removeLocked b e = removeLocked b e' := by
  unfold setLocked removeLocked
  rw [canonical_congr e e' h]
  exact ⟨rfl, rfl⟩

example : «exists» { m := ["example.com.".toList] } "Sub.EXAMPLE.Com".toList = true := by decide


/-- the ends of the fold: exactly `'A'..'Z'` are folded — both end letters are,
the bytes just outside the two letter ranges are left alone (so `a[b` and `a{b`,
`x@y` and ``x`y`` are different labels). -/
theorem fold_boundaries :
    lowerChar 'A' = 'a' ∧ lowerChar 'Z' = 'z' ∧ lowerChar 'B' = 'b' ∧ lowerChar 'Y' = 'y' ∧
    lowerChar '@' = '@' ∧ lowerChar '[' = '[' ∧ lowerChar '`' = '`' ∧ lowerChar '{' = '{' ∧
    «exists» { m := ["azure.example.com.".toList] } "AZure.example.com.".toList = true ∧
    «exists» { m := ["azure.example.com.".toList] } "aZure.exAmple.com.".toList = true ∧
    «exists» { m := ["a[b.net.".toList] } "a{b.net.".toList = false ∧
    «exists» { m := ["x`y.net.".toList] } "x@y.net.".toList = false := by
  decide

/-- **Label boundary**: text without a dot glued in front of an entry is never
matched by that entry (`notexample.com.` vs `example.com.`), whether the entry is
plain or a wildcard suffix.  (`hc`: the glued name is already in canonical form.) -/
theorem label_boundary (e pre : Str) (hpre : pre ≠ []) (hdot : '.' ∉ pre)
    (hc : canonical (pre ++ e) = pre ++ e) :
    «exists» { m := [e], wild := [e], w := [] } (pre ++ e) = false := by
  unfold «exists»
  rw [hc, Bool.eq_false_iff]
  intro h
  rw [existsCanon_iff] at h
  have hne : pre ++ e ≠ e := by
    intro h'
    have := congrArg List.length h'
    simp at this
    exact hpre this
  have hsuf : ∀ s ∈ dotSuffixes (pre ++ e), s ≠ e := by
    intro s hs h'
    have := dotSuffixes_glued_lt pre e s hdot hs
    rw [h'] at this
    omega
  rcases h.2 with (h | ⟨s, hs, h⟩) | ⟨s, hs, h⟩
  · exact hne (by simpa using h)
  · exact hsuf s hs (by simpa using h)
  · exact hsuf s hs (by simpa using h)

theorem label_boundary_example :
    «exists» { m := ["example.com.".toList], wild := ["example.com.".toList] } "notexample.com.".toList = false ∧
    «exists» { m := ["example.com.".toList] } "example.com.evil.".toList = false ∧
    «exists» { m := ["example.com.".toList] } "ample.com.".toList = false := by
  decide

/-- A wildcard entry covers strict subdomains only, never its apex. -/
theorem wildcard_not_apex (s : Str) (hc : canonical s = s) :
    «exists» { m := [], wild := [s], w := [] } s = false := by
  unfold «exists»
  rw [hc, Bool.eq_false_iff]
  intro h
  rw [existsCanon_iff] at h
  rcases h.2 with (h | ⟨t, ht, h⟩) | ⟨t, ht, h⟩
  · simp at h
  · simp at h
  · have := dotSuffixes_length_lt _ _ ht
    simp only [List.mem_singleton] at h
    rw [h] at this
    omega

/-! ## 2. Replies -/

/-- **Blocked reply shape**: `ServeDNS` lets the chain continue, untouched and
unanswered, exactly for the names `Exists` does not report; for the others it
cancels the chain (nothing after the blocklist runs: no cache, no upstream),
and writes one NOERROR reply — for `A` the configured null route, for `AAAA`
the configured IPv6 null route, for every other type no answer record and one
SOA in the authority section. -/
theorem blocked_reply_shape (cfg : Cfg) (b : Mem) (q : Str) (t : Nat) :
    («exists» b q = false →
        serveDNS cfg b q t = { next := true, cancelled := false, written := none }) ∧
    («exists» b q = true →
        ∃ r, serveDNS cfg b q t = { next := false, cancelled := true, written := some r } ∧
          r.rcode = 0 ∧ r.authoritative = true ∧
          (t = typeA → r.answer = [{ name := q, rrtype := typeA, ttl := 3600, data := cfg.nullroute }] ∧ r.ns = []) ∧
          (t = typeAAAA → r.answer = [{ name := q, rrtype := typeAAAA, ttl := 3600, data := cfg.null6route }] ∧ r.ns = []) ∧
          (t ≠ typeA → t ≠ typeAAAA → r.answer = [] ∧ ∃ soa, r.ns = [soa] ∧ soa.rrtype = typeSOA ∧ soa.name = q)) := by
  constructor
  · intro h
    unfold serveDNS
    simp [h]
  · intro h
    have hent : (decide (b.m.length > 0) || decide (b.wild.length > 0)) = true := by
      -- a list that reports something is not empty
      unfold «exists» at h
      rw [existsCanon_iff] at h
      rcases h.2 with (h | ⟨s, _, h⟩) | ⟨s, _, h⟩
      · simp [List.length_pos_of_mem h]
      · simp [List.length_pos_of_mem h]
      · simp [List.length_pos_of_mem h]
    unfold serveDNS
    simp only [hent, h, Bool.not_true, Bool.false_eq_true, if_false]
    by_cases hA : t = typeA
    · subst hA
      refine ⟨_, rfl, ?_⟩
      simp [typeA, typeAAAA]
    · by_cases h6 : t = typeAAAA
      · subst h6
        refine ⟨_, rfl, ?_⟩
        simp [typeA, typeAAAA]
      · refine ⟨_, rfl, ?_⟩
        simp [hA, h6]

example : (serveDNS { nullroute := "0.0.0.0".toList, null6route := "::".toList } { m := ["example.com.".toList] }
    "ads.example.com.".toList typeAAAA).written.map (·.answer.map (·.data)) = some ["::".toList] := by decide


/-- **Every reply is owned by its own query and stays what it was**: serving a
query appends one reply to the log of replies already handed to writers and
leaves all earlier ones untouched, and each record of a blocked reply is owned
by the name that was asked (never by another query's name).  The implementation
side of this (no record shared between two replies, an earlier reply unchanged
after later blocked queries) is what the `bl held` / `bl cserve` ops check. -/
theorem earlier_replies_unchanged (cfg : Cfg) (b : Mem) (log : List Outcome) (q : Str) (t : Nat) :
    (serveLog cfg b log q t).take log.length = log ∧
    (serveLog cfg b log q t).length = log.length + 1 ∧
    ∀ r, (serveDNS cfg b q t).written = some r → ∀ rr ∈ r.answer ++ r.ns, rr.name = q := by
  refine ⟨by simp [serveLog], by simp [serveLog], ?_⟩
  intro r hr rr hrr
  unfold serveDNS at hr
  simp only at hr
  split at hr
  · cases hr
  · split at hr
    · cases hr
    · simp only [Option.some.injEq] at hr
      subst hr
      split at hrr
      · simp at hrr; rw [hrr]
      · split at hrr
        · simp at hrr; rw [hrr]
        · simp at hrr; rw [hrr]


/-- **The pass-through fast path never hides a blocked name**: `ServeDNS` skips
the lookup when both maps are empty; whatever history of additions and removals
produced the maps, a name that `Exists` reports is never served through that
fast path — so the fast path and the lookup give the same outcome for every
list, name and type. -/
theorem fastpath_never_hides (cfg : Cfg) (b : Mem) (q : Str) (t : Nat) :
    («exists» b q = true → b.m.length > 0 ∨ b.wild.length > 0) ∧
    serveDNS cfg b q t =
      (if «exists» b q then serveDNS cfg { b with m := b.m, wild := b.wild } q t
       else { next := true, cancelled := false, written := none }) := by
  constructor
  · intro h
    unfold «exists» at h
    rw [existsCanon_iff] at h
    rcases h.2 with (h | ⟨s, _, h⟩) | ⟨s, _, h⟩
    · exact Or.inl (List.length_pos_of_mem h)
    · exact Or.inl (List.length_pos_of_mem h)
    · exact Or.inr (List.length_pos_of_mem h)
  · cases h : «exists» b q with
    | true => simp
    | false => exact (blocked_reply_shape cfg b q t).1 h

example : (serveDNS { nullroute := "0.0.0.0".toList, null6route := "::".toList }
    (removeLocked (setLocked (setLocked {} "*.tracker.net".toList).1 "ads.example".toList).1 "ads.example".toList).1
    "px.tracker.net.".toList typeA).next = false := by decide

/-- Fact regenerated from the tree: in the default chain the blocklist runs
before every handler that caches or goes upstream. -/
theorem blocklist_before_cache_and_upstream :
    ∀ h ∈ ["cache", "failover", "resolver", "forwarder"],
      (SdnsVerif.Gen.C18.chain_order.idxOf "blocklist") < (SdnsVerif.Gen.C18.chain_order.idxOf h) ∧
      h ∈ SdnsVerif.Gen.C18.chain_order := by
  decide


/-- Fact regenerated from the tree: the blocklist does NOT declare itself
`ClientOnly`, so `autoWire` keeps it in the internal and prefetch sub-pipelines —
a blocked name asked as an internal sub-query (the cache chasing a CNAME target,
a prefetch refresh, the resolver looking up an NS address) gets the same
`serveDNS` decision as a client query (the `bl iserve` op drives exactly that
route through the real `middleware.Setup`). -/
theorem blocklist_guards_internal_queries : SdnsVerif.Gen.C18.blocklist_client_only = false := by
  decide

/-! ## 3. Persistence

One `Step` is one critical section under `mu` (`mutate`), or one file-system
call of a `persist` that holds `saveMu`; `run s steps` for an arbitrary list of
steps is an arbitrary interleaving of any number of concurrent `Set` / `Remove`
/ `SetBatch` / `RemoveBatch` calls (a call's `persist` may start at any later
point, in any order relative to the others), with an I/O error possible at
every call.  -/

/-- **The persisted file converges to the newest snapshot** — for every
interleaving of API mutations, `persist` steps with I/O errors, AND directory
reloads (`dirLoad`: the `readBlocklists` walk of `refreshRemote`, which may run
while a `persist` is between `CreateTemp` and `Rename`): once no snapshot is
waiting, no `persist` is in progress and the `persist` of the newest snapshot did
not end in an I/O error, `<dir>/local` holds exactly the lines of the snapshot
with the highest version.  This rests on `dirLoad` writing no file
(`dirload_touches_no_file`; checked on the real `readBlocklists` by the `bl
dirload` op). -/
theorem persist_converges_file (s0 : PState) (h0 : Init s0) (steps : List Step) :
    let s := run s0 steps
    s.pending = [] → s.inflight = none → s.version > 0 → s.version ∉ s.failed →
    ∃ x ∈ s.taken, x.version = s.version ∧ s.main = some (render x) := by
  intro s hp hi hv hf
  have inv : Inv s0.main s := inv_run s0.main s0 steps (inv_init s0 h0)
  obtain ⟨t, ht, htv⟩ := inv.top_exists hv
  have hlp : s.lastPersisted = s.version := by
    rcases inv.accounted _ ht with h | ⟨f, hf', _⟩ | h | h
    · rw [hp] at h; cases h
    · rw [hi] at hf'; cases hf'
    · have := inv.lp_le; omega
    · rw [htv] at h; exact absurd h hf
  rcases inv.file (by intro f hf'; rw [hi] at hf'; cases hf') with ⟨h, _⟩ | ⟨x, hx, hxv, hmain⟩
  · omega
  · exact ⟨x, hx, by omega, hmain⟩

/-- **The persisted file converges to memory.**  As above, and that snapshot is
the current in-memory list, provided no directory reload has changed memory
since the last snapshot (`dirty = false`: `readBlocklists` merges with the
non-persisting `set`, so what it adds is on disk only after the next mutation). -/
theorem persist_converges (s0 : PState) (h0 : Init s0) (steps : List Step) :
    let s := run s0 steps
    s.pending = [] → s.inflight = none → s.version > 0 → s.version ∉ s.failed → s.dirty = false →
    s.main = some (render { version := s.version, exact := s.mem.m, wild := s.mem.wild }) := by
  intro s hp hi hv hf hd
  have inv : Inv s0.main s := inv_run s0.main s0 steps (inv_init s0 h0)
  obtain ⟨x, hx, hxv, hmain⟩ := persist_converges_file s0 h0 steps hp hi hv hf
  rw [hmain]
  have := inv.top_unique hd x hx hxv
  have hx' : x = { version := s.version, exact := s.mem.m, wild := s.mem.wild } := by
    cases x; simp only [Snap.mk.injEq]; simp only at this hxv; exact ⟨hxv, this.1, this.2⟩
  rw [hx']


/-- **A successful call always queues the whole memory for disk**, also when it
changed nothing: `Set` of a name that is already listed reports success (only the
whitelist makes it fail), and every successful mutation is a step that bumps the
version and appends a snapshot of the COMPLETE current maps.  So repeating a call
after a failed save brings the file up to memory (`retry_after_failed_save`). -/
theorem successful_call_snapshots (s : PState) (op : MutOp) (h : (applyOp s.mem op).2 = true) :
    (step s (.mutate op)).version = s.version + 1 ∧
    (step s (.mutate op)).pending = s.pending ++
      [{ version := s.version + 1, exact := (step s (.mutate op)).mem.m, wild := (step s (.mutate op)).mem.wild }] ∧
    (step s (.mutate op)).dirty = false := by
  unfold step
  simp [h]

theorem set_succeeds_unless_whitelisted (b : Mem) (k : Str) :
    (setLocked b k).2 = true ↔ matchHierarchy (canonical k) b.w = false := by
  unfold setLocked
  simp only
  cases matchHierarchy (canonical k) b.w with
  | true => simp
  | false =>
    simp only [Bool.false_eq_true, if_false]
    split <;> simp

/-- non-vacuity: the save of `a.com.` fails (`CreateTemp`), storage recovers,
the operator repeats `Set(a.com.)` — nothing new in memory — and the file is
brought up to date. -/
theorem retry_after_failed_save :
    let s1 := run {} [.mutate (.set "a.com.".toList), .begin 0 false]
    (s1.main = none ∧ s1.mem.m = ["a.com.".toList] ∧ s1.pending = [] ∧ s1.failed = [1]) ∧
    let s2 := run s1 [.mutate (.set "a.com.".toList), .begin 0 true, .write true, .write true, .sync true,
      .close true, .rename true, .commit]
    s2.mem.m = ["a.com.".toList] ∧ s2.main = some [headerLine, "a.com.".toList] := by
  decide


/-- **A batch is its keys one after the other, however it is chunked**: applying
`ks₁ ++ ks₂` in one go gives the memory and the count of applying `ks₁` and then
`ks₂` (so an implementation may release the lock between chunks of any size) —
and by `successful_call_snapshots` the one snapshot a batch owes is due whenever
the total count is positive, whatever the size of the last chunk. -/
theorem batch_chunking_irrelevant (b : Mem) (ks₁ ks₂ : List Str) :
    (setBatchLocked b (ks₁ ++ ks₂)).1 = (setBatchLocked (setBatchLocked b ks₁).1 ks₂).1 ∧
    (setBatchLocked b (ks₁ ++ ks₂)).2 = (setBatchLocked b ks₁).2 + (setBatchLocked (setBatchLocked b ks₁).1 ks₂).2 ∧
    (removeBatchLocked b (ks₁ ++ ks₂)).1 = (removeBatchLocked (removeBatchLocked b ks₁).1 ks₂).1 ∧
    (removeBatchLocked b (ks₁ ++ ks₂)).2 =
      (removeBatchLocked b ks₁).2 + (removeBatchLocked (removeBatchLocked b ks₁).1 ks₂).2 := by
  induction ks₁ generalizing b with
  | nil => simp [setBatchLocked, removeBatchLocked]
  | cons k t ih =>
    simp only [List.cons_append, setBatchLocked, removeBatchLocked]
    have h1 := ih (setLocked b k).1
    have h2 := ih (removeLocked b k).1
    exact ⟨h1.1, by rw [h1.2.1]; omega, h2.2.2.1, by rw [h2.2.2.2]; omega⟩

example : (setBatchLocked {} ["a.com".toList, "b.com".toList, "a.com".toList, "*.c.com".toList]).2 = 4 ∧
    (removeBatchLocked (setBatchLocked {} ["a.com".toList, "*.c.com".toList]).1 ["*.c.com".toList, "x.com".toList]).2 = 1 := by
  decide


/-- non-vacuity for overlapped calls of different kinds: a `Remove` whose rewrite
is overtaken by a later `Set` is not lost — the `Set`'s snapshot already lacks the
removed name, the stale rewrite is dropped, the file holds exactly memory. -/
theorem overlapped_remove_not_lost :
    let s := run {} ([.mutate (.set "a.com.".toList), .begin 0 true, .write true, .write true, .sync true,
      .close true, .rename true, .commit,
      .mutate (.remove "a.com.".toList), .mutate (.set "b.com.".toList),
      .begin 1 true, .write true, .write true, .sync true, .close true, .rename true, .commit, .begin 0 true])
    s.mem.m = ["b.com.".toList] ∧ s.main = some [headerLine, "b.com.".toList] ∧ s.pending = [] ∧ s.inflight = none := by
  decide

/-- **A directory reload touches no file**: it reads `local` and a staging file
but leaves the main file, the staging file of a `persist` in progress, the
pending snapshots and both version counters exactly as they were. -/
theorem dirload_touches_no_file (s : PState) :
    (step s .dirLoad).main = s.main ∧ (step s .dirLoad).inflight = s.inflight ∧
    (step s .dirLoad).pending = s.pending ∧ (step s .dirLoad).lastPersisted = s.lastPersisted ∧
    (step s .dirLoad).version = s.version ∧ crashImage (step s .dirLoad) = crashImage s := by
  refine ⟨rfl, rfl, rfl, rfl, rfl, rfl⟩

/-- **An interruption leaves a complete file.**  At every point of every
interleaving — in particular between any two of temp-file creation, each write,
`fsync`, `close`, `rename` and the bookkeeping after it — the main file is
either the file the process started with or the complete rendering of a
snapshot the memory really went through; never a partial one.  (The partial
content only ever lives in the temp file, the second component of `crashImage`.) -/
theorem crash_leaves_complete_file (s0 : PState) (h0 : Init s0) (steps : List Step) :
    let s := run s0 steps
    (crashImage s).1 = s0.main ∨ ∃ x ∈ s.taken, (crashImage s).1 = some (render x) := by
  intro s
  have inv : Inv s0.main s := inv_run s0.main s0 steps (inv_init s0 h0)
  show s.main = s0.main ∨ ∃ x ∈ s.taken, s.main = some (render x)
  by_cases hr : ∃ f, s.inflight = some f ∧ f.stage = .renamed
  · obtain ⟨f, hf, hst⟩ := hr
    obtain ⟨a, _, _, _, e⟩ := inv.inflight_ok f hf
    exact Or.inr ⟨f.snap, a, e hst⟩
  · rcases inv.file (by intro f hf hst; exact hr ⟨f, hf, hst⟩) with ⟨_, h⟩ | ⟨x, hx, _, h⟩
    · exact Or.inl h
    · exact Or.inr ⟨x, hx, h⟩




/-- **A name a list brings in is blocked at once** — whatever route it takes
into memory (a file in the directory, a downloaded remote list, the main file at
start-up: all go through `loadNames`), and without any API mutation or version
bump: as soon as the load has run, `Exists` reports the name (unless the
whitelist covers it), and `ServeDNS`, which is a function of the current maps
only, null-routes it — there is no remembered "this name was clean" that could
outlive the load.  (`hc`: the name is properly escaped; `*.` alone is the root
wildcard of known finding 2.) -/
theorem loaded_name_is_blocked (cfg : Cfg) (b : Mem) (ns : List Str) (n : Str) (t : Nat) (hn : n ∈ ns)
    (hc : canonical (canonical n) = canonical n) (hstar : canonical n ≠ ['*', '.'])
    (hwl : ¬ Hit (canonical n) b.w) :
    «exists» (loadNames b ns) n = true ∧ (serveDNS cfg (loadNames b ns) n t).next = false := by
  have h : «exists» (loadNames b ns) n = true := by
    rcases loadNames_blocks b ns n hn hc hstar with h | h
    · exact h
    · exact absurd h hwl
  refine ⟨h, ?_⟩
  obtain ⟨r, hr, _⟩ := (blocked_reply_shape cfg (loadNames b ns) n t).2 h
  rw [hr]

example : (serveDNS { nullroute := "0.0.0.0".toList, null6route := "::".toList }
    (parseHostFile { m := ["example.com.".toList] } "*.cdn.example.org\n0.0.0.0 other.example.net\n".toList)
    "Late2.cdn.example.org.".toList typeAAAA).next = false := by decide

/-- **A directory load only adds**: whatever the directory holds (the main file,
staging files, downloaded remote lists are all parsed the same way), merging it
never unlists an entry and never touches the whitelist. -/
theorem dirload_only_adds (s : PState) :
    (∀ e ∈ s.mem.m, e ∈ (step s .dirLoad).mem.m) ∧ (∀ e ∈ s.mem.wild, e ∈ (step s .dirLoad).mem.wild) ∧
    (step s .dirLoad).mem.w = s.mem.w :=
  dirLoadMem_mono s.mem s.main _

/-- nothing in the process ever makes the directory disappear: once it exists
(`New` creates it) it exists in every reachable state. -/
theorem directory_stays (s : PState) (steps : List Step) (h : s.dirMissing = false) :
    (run s steps).dirMissing = false := by
  induction steps generalizing s with
  | nil => exact h
  | cons st t ih =>
    apply ih
    cases st with
    | mutate op => unfold step; simp only; split <;> exact h
    | begin i ok =>
      unfold step; simp only
      split
      · exact h
      · split
        · exact h
        · split
          · exact h
          · split <;> exact h
    | write ok =>
      unfold step; simp only
      split
      · split
        · split
          · exact h
          · exact h
        · exact h
      · exact h
    | sync ok =>
      unfold step; simp only
      split
      · split
        · split <;> exact h
        · exact h
      · exact h
    | close ok =>
      unfold step; simp only
      split
      · split
        · split <;> exact h
        · exact h
      · exact h
    | rename ok =>
      unfold step; simp only
      split
      · split
        · split <;> exact h
        · exact h
      · exact h
    | commit =>
      unfold step; simp only
      split
      · split <;> exact h
      · exact h
    | dirLoad => exact h
    | mkdir => rfl

/-- **Fresh install**: `New` creates the blocklist directory before anything can
be persisted (fix 231fcf6; before it only `refreshRemote` did, one second later,
and a mutation in that second was lost — `missing_directory_fails_persist` is
that behaviour).  So in every state reachable after `New`, over a directory that
did not exist, `os.CreateTemp` does not fail by itself; concretely the first
`Set`, with every call succeeding, is on disk when it returns. -/
theorem fresh_install_persists (w c : List Str) (s : PState) (steps : List Step) :
    (run (restart w c s) steps).dirMissing = false ∧
    (let s1 := run (restart [] [] { dirMissing := true })
        ([.mutate (.set "a.com.".toList), .begin 0 true, .write true, .write true, .sync true, .close true,
          .rename true, .commit])
     s1.main = some [headerLine, "a.com.".toList] ∧ s1.mem.m = ["a.com.".toList] ∧ s1.failed = []) :=
  ⟨directory_stays _ steps rfl, by decide⟩

/-- what the fix removed, kept as the model's account of a directory that is
missing under a RUNNING process (removed by someone else: the `nodir` fault of the
harness): the `persist` fails by itself, the completed call leaves memory ahead
of the file, and the next mutation after the directory is back writes everything. -/
theorem missing_directory_fails_persist :
    let s0 : PState := { dirMissing := true }
    let s1 := run s0 [.mutate (.set "a.com.".toList), .begin 0 true]
    (s1.pending = [] ∧ s1.inflight = none ∧ s1.version = 1 ∧ s1.mem.m = ["a.com.".toList] ∧ s1.main = none ∧
      s1.failed = [1]) ∧
    let s2 := run s1 ([.mkdir, .mutate (.set "b.com.".toList), .begin 0 true] ++ List.replicate 3 (.write true) ++
      [.sync true, .close true, .rename true, .commit])
    s2.main = some [headerLine, "a.com.".toList, "b.com.".toList] ∧ s2.pending = [] ∧ s2.inflight = none := by
  decide

/-- **Kill, restart, repeat: the main file is always a complete list.**  Over a
whole life — any interleaving, killed at any point, restarted by `New` over what
is on disk (stranded staging files included), any further interleaving, killed
again, … — the main file is at every moment either the file the first process
found or the complete rendering of some snapshot; a restart itself leaves it
byte-for-byte alone (`restart_touches_no_file`; the real `New` is checked for
exactly this by the `bl restart` and `bl crash` ops). -/
theorem epochs_leave_complete_file (w c : List Str) (s0 : PState) (h0 : Init s0)
    (steps0 : List Step) (epochs : List (List Step)) :
    (runEpochs w c s0 steps0 epochs).main = s0.main ∨
      ∃ x : Snap, (runEpochs w c s0 steps0 epochs).main = some (render x) := by
  have base : (run s0 steps0).main = s0.main ∨ ∃ x : Snap, (run s0 steps0).main = some (render x) := by
    rcases crash_leaves_complete_file s0 h0 steps0 with h | ⟨x, _, h⟩
    · exact Or.inl h
    · exact Or.inr ⟨x, h⟩
  unfold runEpochs
  generalize run s0 steps0 = cur at base
  induction epochs generalizing cur with
  | nil => exact base
  | cons e t ih =>
    simp only [List.foldl_cons]
    apply ih
    have hinit : Init (restart w c cur) := ⟨rfl, rfl, rfl, rfl, rfl, rfl, rfl⟩
    rcases crash_leaves_complete_file (restart w c cur) hinit e with h | ⟨x, _, h⟩
    · have hm : (run (restart w c cur) e).main = cur.main := h
      rw [hm]
      exact base
    · exact Or.inr ⟨x, h⟩

/-- a restart reads the directory and writes nothing: the main file is the one
the dead process left, and the staging file it stranded is still there (it is
parsed on this and on every later directory walk, never promoted). -/
theorem restart_touches_no_file (w c : List Str) (s : PState) :
    (restart w c s).main = s.main ∧ (restart w c s).orphans = s.orphans ++ strandedNow s ∧
    Init (restart w c s) :=
  ⟨rfl, rfl, ⟨rfl, rfl, rfl, rfl, rfl, rfl, rfl⟩⟩

/-- non-vacuity: killed while the second line of a staging file is being written,
restarted; the main file is still the first list and the half-written name of
the staging file is what the restarted process additionally picks up. -/
theorem restart_example :
    let s := run {} ([.mutate (.set "a.com.".toList), .begin 0 true] ++ List.replicate 2 (.write true) ++
      [.sync true, .close true, .rename true, .commit, .mutate (.set "b.com.".toList), .begin 0 true,
       .write true, .write true])
    let r := restart [] [] s
    r.main = some [headerLine, "a.com.".toList] ∧ r.orphans = [[headerLine, "a.com.".toList]] ∧
      r.mem.m = ["a.com.".toList] := by
  decide

/-- The main file changes in exactly one step: a successful `rename` of a temp
file that holds every line of its snapshot (written, synced, closed). -/
theorem main_changes_only_by_complete_rename (m0 : Option (List Str)) (s : PState) (st : Step) (h : Inv m0 s) :
    (step s st).main = s.main ∨
      ∃ f, s.inflight = some f ∧ st = .rename true ∧ f.stage = .closed ∧ (step s st).main = some (render f.snap) := by
  cases st with
  | mutate op => left; unfold step; simp only; split <;> rfl
  | begin i ok =>
    left; unfold step; simp only
    split
    · rfl
    · split
      · rfl
      · split
        · rfl
        · split <;> rfl
  | write ok =>
    left; unfold step; simp only
    split
    · split
      · split
        · rfl
        · rfl
      · rfl
    · rfl
  | sync ok =>
    left; unfold step; simp only
    split
    · split
      · split <;> rfl
      · rfl
    · rfl
  | close ok =>
    left; unfold step; simp only
    split
    · split
      · split <;> rfl
      · rfl
    · rfl
  | commit =>
    left; unfold step; simp only
    split
    · split <;> rfl
    · rfl
  | dirLoad => left; rfl
  | mkdir => left; rfl
  | rename ok =>
    unfold step; simp only
    cases hin : s.inflight with
    | none => left; rfl
    | some f =>
      simp only
      by_cases hc : f.stage = .closed
      · rw [if_pos hc]
        cases ok with
        | false => left; rfl
        | true =>
          right
          obtain ⟨_, _, _, hfull, _⟩ := h.inflight_ok f hin
          exact ⟨f, rfl, rfl, hc, by simp only [if_true]; rw [hfull (by rw [hc]; decide)]⟩
      · rw [if_neg hc]; left; rfl

/-- the version check is what makes the newest snapshot win: a stale snapshot
that reaches `persist` after a newer one is dropped (non-vacuity of
`persist_converges`: two mutations, persisted newest first, with directory
reloads while the staging file is half written, complete, and gone). -/
theorem persist_converges_example :
    let a : Str := "a.com.".toList
    let b : Str := "*.b.com.".toList
    let s := run {} ([.mutate (.set a), .mutate (.set b), .begin 1 true] ++ List.replicate 2 (.write true) ++
      [.dirLoad, .write true, .sync true, .dirLoad, .close true, .rename true, .commit, .begin 0 true, .dirLoad])
    s.pending = [] ∧ s.inflight = none ∧ s.version = 2 ∧ s.failed = [] ∧ s.dirty = false ∧
      s.main = some [headerLine, "a.com.".toList, "*.b.com.".toList] := by
  decide

/-! ## 4. Reload

`loadNames r names` is `parseHostFile`'s loop over the names a file lists
(`if !b.Exists(n) { b.set(n) }`), `IsNameOf b n` says `n` is a line the snapshot
of `b` contains (`e` for a plain entry, `*.s` for a wildcard suffix `s`).  The
order of the lines is Go map iteration order, i.e. arbitrary: the theorems hold
for every list `names` with the right elements.  `WF b` is what `setLocked`
maintains (theorem `wf_api`). -/

/-- the maps stay well-formed under every API mutation whose keys are properly
escaped (`isFqdn (fqdn k)`: the key does not end in a dangling backslash). -/
theorem wf_api (b : Mem) (hwf : WF b) (op : MutOp)
    (hkeys : match op with
      | .set k => isFqdn (fqdn k) = true
      | .setBatch ks => ∀ k ∈ ks, isFqdn (fqdn k) = true
      | _ => True) :
    WF (applyOp b op).1 := by
  cases op with
  | set k => exact wf_setLocked b k hwf hkeys
  | remove k => exact wf_removeLocked b k hwf
  | setBatch ks =>
    simp only [applyOp]
    induction ks generalizing b with
    | nil => exact hwf
    | cons k t ih =>
      simp only [setBatchLocked]
      exact ih _ (wf_setLocked b k hwf (hkeys k (by simp))) (fun x hx => hkeys x (List.mem_cons_of_mem _ hx))
  | removeBatch ks =>
    simp only [applyOp]
    induction ks generalizing b with
    | nil => exact hwf
    | cons k t ih =>
      simp only [removeBatchLocked]
      exact ih _ (wf_removeLocked b k hwf) trivial

theorem wf_empty (w : List Str) : WF { m := [], wild := [], w := w } :=
  ⟨by simp, by simp, by simp, by simp, by simp⟩

/-- **Reload answers the same.**  Whatever the order of the lines, the list
reloaded from the file of `b` (same whitelist) gives, for every name, the answer
`b` gives.  NOTE the scope: this is a statement about the two lists as they are
right after the reload.  They are not the same list (`reload_ne_memory`), so the
equivalence does not survive a later mutation (`reload_then_remove_diverges`). -/
theorem reload_match_equivalent (b : Mem) (hwf : WF b) (names : List Str)
    (hnames : ∀ n, n ∈ names ↔ IsNameOf b n) (q : Str) :
    «exists» (loadNames { m := [], wild := [], w := b.w } names) q = «exists» b q := by
  have hsub0 : Sub { m := [], wild := [], w := b.w } b := ⟨by simp, by simp, rfl⟩
  obtain ⟨hsub, _, _, hcm, hcw⟩ :=
    loadNames_spec b hwf names (fun n hn => (hnames n).mp hn) _ hsub0
  generalize loadNames { m := [], wild := [], w := b.w } names = R at *
  rw [Bool.eq_iff_iff]
  unfold «exists»
  rw [existsCanon_iff, existsCanon_iff, hsub.w]
  generalize canonical q = k
  have key : Cov R k ↔ Cov b k := by
    constructor
    · exact Cov_mono R b hsub.m hsub.wild k
    · rintro ((h | ⟨s, hs, h⟩) | ⟨s, hs, h⟩)
      · exact hcm k ((hnames k).mpr (Or.inl h)) h
      · -- covered through a plain parent `s`
        rcases hcm s ((hnames s).mpr (Or.inl h)) h with h' | ⟨t, ht, h'⟩
        · exact Or.inl (Hit_of_suffix k s R.m hs h')
        · exact Or.inr ⟨t, dotSuffixes_trans k s t hs ht, h'⟩
      · -- covered through a wildcard suffix `s`
        have hs0 : s ≠ [] := ((mem_dotSuffixes k s).mp hs).1
        rcases hcw (wildName s) ((hnames _).mpr (Or.inr ⟨s, h, rfl⟩)) s h rfl with hc | hc
        · rw [Cov, Hit, dotSuffixes_wildName] at hc
          simp only [hs0, if_false, List.mem_cons] at hc
          rcases hc with (h' | ⟨t, ht, h'⟩) | ⟨t, ht, h'⟩
          · have := hwf.nowild_m _ (hsub.m _ h')
            rw [isWildKey_wildName] at this; cases this
          · rcases ht with rfl | ht
            · exact Or.inl (Or.inr ⟨t, hs, h'⟩)
            · exact Or.inl (Or.inr ⟨t, dotSuffixes_trans k s t hs ht, h'⟩)
          · rcases ht with rfl | ht
            · exact Or.inr ⟨t, hs, h'⟩
            · exact Or.inr ⟨t, dotSuffixes_trans k s t hs ht, h'⟩
        · exact Or.inr ⟨s, hs, hc⟩
  exact and_congr_right (fun _ => key)


/-- **The file itself reloads to the same answers**: the bytes `persist` writes
for the snapshot of `b`, parsed by `parseHostFile` into a fresh list with the same
whitelist, answer every name as `b` does — when every key is clean (no white
space, no `#`: the host-file syntax leaves it alone; otherwise
`reload_mangles_file_syntax`). -/
theorem reload_file_match_equivalent (b : Mem) (hwf : WF b) (v : Nat)
    (hclean : ∀ n ∈ snapNames { version := v, exact := b.m, wild := b.wild }, CleanName n) (q : Str) :
    «exists» (parseHostFile { m := [], wild := [], w := b.w }
        (fileText (render { version := v, exact := b.m, wild := b.wild }))) q = «exists» b q := by
  rw [parseHostFile_fileText _ _ hclean]
  apply reload_match_equivalent b hwf
  intro n
  unfold snapNames IsNameOf wildName
  simp only [List.mem_append, List.mem_map]
  constructor
  · rintro (h | ⟨s, hs, rfl⟩)
    · exact Or.inl h
    · exact Or.inr ⟨s, hs, rfl⟩
  · rintro (h | ⟨s, hs, rfl⟩)
    · exact Or.inl h
    · exact Or.inr ⟨s, hs, rfl⟩


/-- **Both halves together**: after any interleaving has completed (nothing
pending, nothing in progress, the newest snapshot written without I/O error) the
file on disk, reloaded by `parseHostFile`, answers every name exactly as the
in-memory list does — for clean keys; and it is exactly the in-memory list when
no entry covers another (`reload_equals_memory_partial`). -/
theorem converged_file_reloads (s0 : PState) (h0 : Init s0) (steps : List Step) (q : Str) :
    let s := run s0 steps
    s.pending = [] → s.inflight = none → s.version > 0 → s.version ∉ s.failed → s.dirty = false →
    WF s.mem →
    (∀ n ∈ snapNames { version := s.version, exact := s.mem.m, wild := s.mem.wild }, CleanName n) →
    ∃ lines, s.main = some lines ∧
      «exists» (parseHostFile { m := [], wild := [], w := s.mem.w } (fileText lines)) q = «exists» s.mem q := by
  intro s hp hi hv hf hd hwf hclean
  exact ⟨_, persist_converges s0 h0 steps hp hi hv hf hd, reload_file_match_equivalent s.mem hwf s.version hclean q⟩

/-
Full statement of `reload_equals_memory` (FALSE, counter-witness `reload_ne_memory`):

  ∀ b names, WF b → (∀ n, n ∈ names ↔ IsNameOf b n) →
    let R := loadNames {w := b.w} names;  (∀ e, e ∈ R.m ↔ e ∈ b.m) ∧ (∀ s, s ∈ R.wild ↔ s ∈ b.wild)

`parseHostFile` skips a name that is already covered, so entries under a listed
parent are lost.  What holds needs `NoCover b`: no entry is covered by another.
-/

/-- **Reload is exactly memory** when no entry is covered by another entry. -/
theorem reload_equals_memory_partial (b : Mem) (hwf : WF b) (hnc : NoCover b) (names : List Str)
    (hnames : ∀ n, n ∈ names ↔ IsNameOf b n) :
    let R := loadNames { m := [], wild := [], w := b.w } names
    (∀ e, e ∈ R.m ↔ e ∈ b.m) ∧ (∀ s, s ∈ R.wild ↔ s ∈ b.wild) ∧ R.w = b.w := by
  intro R
  have hsub0 : Sub { m := [], wild := [], w := b.w } b := ⟨by simp, by simp, rfl⟩
  obtain ⟨hsub, _, _, _, _⟩ := loadNames_spec b hwf names (fun n hn => (hnames n).mp hn) _ hsub0
  obtain ⟨hm, hw⟩ := loadNames_exact b hwf hnc names (fun n hn => (hnames n).mp hn) _ hsub0
  refine ⟨fun e => ⟨hsub.m e, fun h => hm e ((hnames e).mpr (Or.inl h)) h⟩,
          fun s => ⟨hsub.wild s, fun h => hw _ ((hnames _).mpr (Or.inr ⟨s, h, rfl⟩)) s h rfl⟩, hsub.w⟩

/-- Counter-witness to the full statement — **covered entries are dropped**:
memory `{example.com., sub.example.com.}` reloads as `{example.com.}` when the
parent's line comes first, and `{example.com., *.example.com.}` always does
(`persist` writes the exact entries before the wildcards). -/
theorem reload_ne_memory :
    (loadNames {} ["example.com.".toList, "sub.example.com.".toList]).m = ["example.com.".toList] ∧
    (loadNames {} ["example.com.".toList, "*.example.com.".toList]).wild = [] ∧
    (loadNames {} ["sub.example.com.".toList, "example.com.".toList]).m =
      ["sub.example.com.".toList, "example.com.".toList] := by
  decide

/-- … and this is why `reload_match_equivalent` is a statement about the moment
of the reload only: after the same `Remove(example.com.)` the original list still
blocks `sub.example.com.`, the reloaded one does not. -/
theorem reload_then_remove_diverges :
    let b : Mem := { m := ["example.com.".toList, "sub.example.com.".toList] }
    let r : Mem := loadNames {} ["example.com.".toList, "sub.example.com.".toList]
    «exists» b "sub.example.com.".toList = «exists» r "sub.example.com.".toList ∧
    «exists» (removeLocked b "example.com.".toList).1 "sub.example.com.".toList = true ∧
    «exists» (removeLocked r "example.com.".toList).1 "sub.example.com.".toList = false := by
  decide

/-- Second way a reload differs from memory — **the file has a syntax the keys
do not know about**: a key with `#` or white space is written verbatim and read
back as a different name (here `a.`), which memory never listed. -/
theorem reload_mangles_file_syntax :
    let b := (setLocked {} "a#b.example.com".toList).1
    b.m = ["a#b.example.com.".toList] ∧
    (parseHostFile {} (fileText (render { version := 1, exact := b.m, wild := b.wild }))).m = ["a.".toList] ∧
    (parseHostFile {} (fileText (render { version := 1, exact := ["sp ace.example.com.".toList], wild := [] }))).m
      = ["ace.example.com.".toList] := by
  decide

-- non-vacuity: a well-formed memory with nested entries, reloaded in the worst order
example : «exists» (loadNames {} ["example.com.".toList, "sub.example.com.".toList, "*.ads.net.".toList]) "x.sub.example.com.".toList = true := by
  decide

/-- Facts regenerated from the tree: the first line `persist` writes is the one
the model writes, and the loader takes it for a comment. -/
theorem persist_header_is_a_comment :
    SdnsVerif.Gen.C18.persist_header.toList = headerLine ∧ parseLine headerLine = [] := by
  decide

/-! ## 5. The HTTP API in front of the list -/

/-- **Only an authorized, well-formed request changes anything**: a request that
fails `checkToken` (401), a read (`exists`, `get`) and a batch without keys (400)
take no step at all — memory, version, pending snapshots and the file are
untouched; an authorized `set` / `remove` / batch is exactly one `mutate` step of
the persistence model (so `persist_converges` speaks about API traffic), and the
number it reports is the number of keys that changed. -/
theorem api_request_effect (authorized : Bool) (s : PState) (req : ApiReq) :
    (authorized = false → apiStep authorized s req = s ∧ apiStatus authorized s.mem req = 401) ∧
    (apiToOp req = none → apiStep authorized s req = s) ∧
    (authorized = true → ∀ op, apiToOp req = some op →
        apiStep authorized s req = step s (.mutate op) ∧ apiStatus authorized s.mem req = 200 ∧
        apiValue s.mem req = applyOpCount s.mem op) := by
  refine ⟨?_, ?_, ?_⟩
  · intro h; subst h; exact ⟨rfl, rfl⟩
  · intro h; unfold apiStep; rw [h]; cases authorized <;> rfl
  · intro h op hop
    subst h
    refine ⟨by unfold apiStep; rw [hop]; rfl, ?_, ?_⟩
    · cases req <;> simp [apiToOp] at hop <;> simp [apiStatus, *]
    · cases req <;> simp [apiToOp] at hop
      · rw [← hop]; rfl
      · rw [← hop]; rfl
      · rw [← hop.2]; rfl
      · rw [← hop.2]; rfl


/-- **A batch request with a bad body changes nothing**: malformed JSON, an
unknown field, a body over the size cap, `keys` missing / null / empty — the
handler answers 400 before it touches the list (and 401 comes first when the
token is wrong); only a well-formed non-empty `keys` list within the cap becomes
the one `mutate` step, with exactly those keys.  The cap itself is the
regenerated fact `max_batch_body` (at most 8 MiB). -/
theorem bad_batch_body_is_noop (authorized isSet : Bool) (s : PState) (body : BatchBody) :
    ((apiBatch authorized isSet s body).2 ≠ 200 → (apiBatch authorized isSet s body).1 = s) ∧
    ((apiBatch authorized isSet s body).2 = 200 ↔ authorized = true ∧ ∃ ks, body = .keys ks ∧ ks ≠ []) ∧
    (∀ ks, authorized = true → body = .keys ks → ks ≠ [] →
        (apiBatch authorized isSet s body).1 =
          step s (.mutate (if isSet then .setBatch ks else .removeBatch ks))) ∧
    SdnsVerif.Gen.C18.max_batch_body ≤ 8 * 1024 * 1024 := by
  refine ⟨?_, ?_, ?_, by decide⟩
  · intro h
    unfold apiBatch at *
    cases authorized with
    | false => rfl
    | true =>
      simp only [Bool.not_true, Bool.false_eq_true, if_false] at *
      cases hb : readBatchKeys body with
      | none => rfl
      | some ks => rw [hb] at h; exact absurd rfl h
  · unfold apiBatch
    cases authorized with
    | false => simp
    | true =>
      simp only [Bool.not_true, Bool.false_eq_true, if_false, true_and]
      cases body with
      | keys ks =>
        by_cases he : ks = []
        · subst he; simp [readBatchKeys]
        · have : ks.isEmpty = false := by cases ks <;> simp at he ⊢
          simp [readBatchKeys, this, he]
      | malformed => simp [readBatchKeys]
      | unknownField => simp [readBatchKeys]
      | tooLarge => simp [readBatchKeys]
  · intro ks ha hb hne
    subst ha; subst hb
    have : ks.isEmpty = false := by cases ks <;> simp at hne ⊢
    unfold apiBatch apiStep
    simp only [Bool.not_true, Bool.false_eq_true, if_false, readBatchKeys, this, if_true]
    cases isSet <;> simp [apiToOp, this]

example : (apiBatch true true {} .malformed).2 = 400 ∧ (apiBatch true false {} (.keys [])).2 = 400 ∧
    (apiBatch false true {} (.keys ["a.com".toList])).2 = 401 ∧
    (apiBatch true true {} (.keys ["a.com".toList])).1.mem.m = ["a.com.".toList] := by decide

/-- `get` is the exact-key lookup: it reports a key only if `Exists` does too,
unless the whitelist shadows it — and never a wildcard suffix. -/
theorem get_implies_listed (b : Mem) (k : Str) (h : getExact b k = true) :
    canonical k ∈ b.m ∧ («exists» b k = true ∨ matchHierarchy (canonical k) b.w = true) := by
  unfold getExact at h
  have hm : canonical k ∈ b.m := by simpa using h
  refine ⟨hm, ?_⟩
  unfold «exists» existsCanon
  cases hw : matchHierarchy (canonical k) b.w with
  | true => exact Or.inr rfl
  | false => left; simp [hm]

example : apiStatus false {} (.setKey "a.com".toList) = 401 ∧
    (apiStep true {} (.setKey "a.com".toList)).mem.m = ["a.com.".toList] ∧
    apiStatus true {} (.setBatch []) = 400 ∧ apiStatus true {} (.getKey "a.com".toList) = 404 := by decide


end SdnsVerif.Props.C18
