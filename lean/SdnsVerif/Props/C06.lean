import SdnsVerif.Model.Edns
import SdnsVerif.Lemmas.Edns
import SdnsVerif.Gen.C06
/-!
# C06 — every reply respects what the client sent and negotiated

Property theorems only (helper lemmas: `Lemmas/Edns.lean`).  The shaping
theorems are stated on `writeMsg` for ANY downstream message `m`, any length
functions `L` / `Lu`, and any writer `w` that carries the client's facts
(`WriterFor`); `writer_decoded_for` / `writer_wire_for` show that both writers
the edns handler builds (decoded request, wire-born request) do.  The
`serve_*` theorems then compose them through `EDNS.ServeDNS` for an arbitrary
rest-of-chain `next`.
-/
namespace SdnsVerif.Props.C06
open SdnsVerif.Model.Edns SdnsVerif.Lemmas.Edns

/-! ### vocabulary of the property -/

/-- the reply header is derived from the query and the question is echoed. -/
def Echoes (q : Query) (m : Msg) : Prop :=
  m.id = q.id ∧ m.opcode = q.opcode ∧ m.fl.qr = true ∧ m.question = some q.question

/-- a bare-header FORMERR / NOTIMP rejection. -/
def BareReject (q : Query) (m : Msg) : Prop :=
  m.id = q.id ∧ m.opcode = q.opcode ∧ m.fl.qr = true ∧ m.question = none ∧
  m.answer = [] ∧ m.ns = [] ∧ m.extra = [] ∧ (m.rcode = rcodeNotImp ∨ m.rcode = rcodeFormErr)

/-- the UDP size the client advertised (512 without EDNS). -/
def advertised (q : Query) : Nat := match q.opt with | some o => o.udp | none => 512

/-- the property's UDP bound. -/
def udpLimit (q : Query) : Nat := max 512 (min (advertised q) 1232)

/-- the client half of the cookie the client sent, if any. -/
def sentCookie (q : Query) : Option (List UInt8) := q.opt.bind (fun o => clientCookie o.options)

/-- the only options a reply may carry, each with its precondition. -/
def Allowed (cfg : Cfg) (proto : Proto) (q : Query) (upstream : List EOpt) (x : EOpt) : Prop :=
  (∃ c, x = .srvCookie c ∧ sentCookie q = some c) ∨
  (x = .srvNsid cfg.nsid ∧ cfg.nsid ≠ [] ∧ q.hasOption codeNSID = true) ∨
  (x = .srvKeepalive cfg.kaUnits ∧ proto = .tcp ∧ q.hasOption codeKeepalive = true) ∨
  (x.code = codeEDE ∧ x ∈ upstream)

/-- the options of the OPT a downstream message carried (the one `IsEdns0` sees), unless it is the request's own. -/
def upstreamOptions (m : Msg) : List EOpt :=
  match lastOpt m.extra with
  | some (o, false) => o.options
  | _ => []

/-- the two size constants point the harmless way. -/
def ConstsOk (c : Consts) : Prop := c.minSize ≤ 512 ∧ c.defSize ≤ 1232

/-- the writer carries exactly the client's facts. -/
structure WriterFor (cfg : Cfg) (proto : Proto) (q : Query) (w : Writer) : Prop where
  proto_eq : w.proto = proto
  noedns_eq : w.noedns = q.opt.isNone
  do_eq : w.do_ = q.clientDO
  noad_eq : w.noad = (q.cd || (!q.ad && !q.clientDO))
  cookie_eq : w.cookie = sentCookie q
  nsid_imp : w.nsid = true → q.hasOption codeNSID = true
  ka_imp : w.keepalive = true → proto = .tcp ∧ q.hasOption codeKeepalive = true
  size_udp : proto = .udp → w.size ≤ udpLimit q
  wopt_ecs : ∀ o, w.opt = some o → ∀ x ∈ o.options, x.code = codeECS

/-! ### the size clamp -/

/-- **Size clamp.** Whatever the client advertises, the size `SetEdns0` grants
is within the property's bound `max(512, min(advertised, 1232))`. -/
theorem clamp_bound (c : Consts) (hc : ConstsOk c) (adv : Nat) :
    clampSize c adv ≤ max 512 (min adv 1232) := by
  unfold clampSize
  obtain ⟨h1, h2⟩ := hc
  simp only
  split <;> split <;> omega

/-- the constants of the compiled tree point the harmless way, a request
without OPT is granted the default, and the real `SetEdns0` on the probe sizes
equals the model's clamp. -/
theorem consts_of_tree :
    ConstsOk { minSize := SdnsVerif.Gen.C06.min_msg_size, defSize := SdnsVerif.Gen.C06.default_msg_size,
               maxSize := SdnsVerif.Gen.C06.max_msg_size } ∧
    SdnsVerif.Gen.C06.clamp_table.all (fun row =>
      clampSize { minSize := SdnsVerif.Gen.C06.min_msg_size, defSize := SdnsVerif.Gen.C06.default_msg_size }
        (row.getD 0 0) == row.getD 1 0) = true := by
  unfold ConstsOk
  decide

/-! ### the two writers carry the client's facts -/

/-- `EDNS.ServeDNS`'s writer (decoded request, supported EDNS version). -/
theorem writer_decoded_for (c : Consts) (hc : ConstsOk c) (cfg : Cfg) (proto : Proto) (q : Query)
    (hv : ∀ o, q.opt = some o → o.version = 0) :
    WriterFor cfg proto q (writerDecoded c proto q (setEdns0 c cfg.ecs q.opt)) := by
  have hdo := clientDO_of_set0 c cfg.ecs q hv
  refine ⟨rfl, rfl, hdo, ?_, ?_, ?_, ?_, ?_, ?_⟩
  · simp [writerDecoded, hdo]
  · unfold writerDecoded sentCookie
    cases h : q.opt with
    | none => simp [setEdns0]
    | some o => simp only [setEdns0]; split <;> simp
  · unfold writerDecoded Query.hasOption
    cases h : q.opt with
    | none => simp [setEdns0]
    | some o => simp only [setEdns0]; split <;> simp
  · intro hk
    simp only [writerDecoded, Bool.and_eq_true, beq_iff_eq] at hk
    exact ⟨hk.2, hk.1⟩
  · intro hp
    subst hp
    unfold writerDecoded udpLimit advertised
    obtain ⟨h1, h2⟩ := hc
    cases h : q.opt with
    | none => simp; omega
    | some o =>
      have := clamp_bound c ⟨h1, h2⟩ o.udp
      have hs : (setEdns0 c cfg.ecs (some o)).size = clampSize c o.udp := by
        simp only [setEdns0]; split <;> rfl
      simp only [streamProto, Option.isNone_some, Bool.false_eq_true, if_false, hs]
      exact this
  · intro o ho
    simp only [writerDecoded, Option.some.injEq] at ho
    subst ho
    exact set0_options_ecs c cfg.ecs q.opt

/-- `EDNS.serveWire`'s writer (wire-born request). -/
theorem writer_wire_for (c : Consts) (hc : ConstsOk c) (cfg : Cfg) (proto : Proto) (q : Query) :
    WriterFor cfg proto q (writerWire c proto q) := by
  refine ⟨rfl, rfl, rfl, rfl, ?_, ?_, ?_, ?_, ?_⟩
  · unfold writerWire sentCookie; cases q.opt <;> rfl
  · intro h; exact h
  · intro hk
    simp only [writerWire, Bool.and_eq_true, beq_iff_eq] at hk
    exact ⟨hk.2, hk.1⟩
  · intro hp
    subst hp
    unfold writerWire udpLimit advertised
    obtain ⟨h1, h2⟩ := hc
    cases h : q.opt with
    | none => simp; omega
    | some o => simp [streamProto]; omega
  · intro o ho; simp [writerWire] at ho

/-! ### clause 1 — QR, ID, opcode and question are echoed -/

/-- `WriteMsg` never touches ID, opcode, QR, rcode or the question. -/
theorem writeMsg_header (L Lu : Msg → Nat) (cfg : Cfg) (w : Writer) (m : Msg) :
    (writeMsg L Lu cfg w m).id = m.id ∧ (writeMsg L Lu cfg w m).opcode = m.opcode ∧
    (writeMsg L Lu cfg w m).fl.qr = m.fl.qr ∧ (writeMsg L Lu cfg w m).question = m.question ∧
    (writeMsg L Lu cfg w m).rcode = m.rcode := by
  unfold writeMsg
  obtain ⟨a1, a2, a3, a4, a5, _⟩ := stageDnssec_frame w m
  obtain ⟨b1, b2, b3, b4, b5, _⟩ := stageOpt_frame cfg w (stageDnssec w m)
  obtain ⟨c1, c2, c3, c4, c5, _⟩ := stageAD_frame w (stageOpt cfg w (stageDnssec w m))
  obtain ⟨d1, d2, d3, d4, d5, _⟩ := stageTruncate_frame L Lu w (stageAD w (stageOpt cfg w (stageDnssec w m)))
  refine ⟨?_, ?_, ?_, ?_, ?_⟩
  · rw [d1, c1, b1, a1]
  · rw [d2, c2, b2, a2]
  · rw [d3, c3, b3, a3]
  · rw [d4, c4, b4, a4]
  · rw [d5, c5, b5, a5]

/-- `Msg.SetReply` derives the header from the request. -/
theorem setReply_echoes (m : Msg) (q : Query) : Echoes q (setReply m q) := by
  simp [Echoes, setReply]

/-- `CacheEntry.ToMsg`: a cache hit echoes ID, opcode and question of the query it answers. -/
theorem toMsg_echoes (e : Entry) (q : Query) : Echoes q (toMsg e q) := by
  unfold toMsg Echoes
  simp only
  split
  · split <;> (try split) <;> simp [setReply]
  · split <;> (try split) <;> simp [setReply]
  · simp [setReply]

/-- `Chain.CancelWithRcode` echoes. -/
theorem cancelWithRcode_echoes (q : Query) (rc : Nat) (d : Bool) : Echoes q (cancelWithRcode q rc d) := by
  simp [Echoes, cancelWithRcode]

/-- `dnsutil.NotSupported` is a bare-header NOTIMP echoing ID and opcode. -/
theorem notSupported_bare (q : Query) : BareReject q (notSupported q) := by
  simp [BareReject, notSupported]

/-- **Echo through the edns handler.** If the rest of the chain echoes the
request it is handed, every reply `EDNS.ServeDNS` lets out echoes the client's
query, or is the bare-header NOTIMP. -/
theorem reply_echo (L Lu : Msg → Nat) (c : Consts) (cfg : Cfg) (proto : Proto) (q : Query)
    (next : Query → Option Msg) (hnext : ∀ q' m, next q' = some m → Echoes q' m) (r : Msg)
    (h : serveDNS L Lu c cfg proto q next = some r) : Echoes q r ∨ BareReject q r := by
  unfold serveDNS at h
  by_cases hop : q.opcode > 0
  · simp only [hop, if_true, Option.some.injEq] at h
    subst h; exact Or.inr (notSupported_bare q)
  · simp only [hop, if_false] at h
    left
    split at h
    · simp only [Option.some.injEq] at h
      subst h
      exact cancelWithRcode_echoes _ _ _
    · cases hn : next (normalised q (setEdns0 c cfg.ecs q.opt)) with
      | none => rw [hn] at h; simp at h
      | some m =>
        rw [hn] at h
        simp only [Option.map_some, Option.some.injEq] at h
        subst h
        obtain ⟨e1, e2, e3, e4⟩ := hnext _ _ hn
        obtain ⟨w1, w2, w3, w4, _⟩ := writeMsg_header L Lu cfg (writerDecoded c proto q (setEdns0 c cfg.ecs q.opt)) m
        exact ⟨by rw [w1, e1]; rfl, by rw [w2, e2]; rfl, by rw [w3, e3], by rw [w4, e4]; rfl⟩

/-- the same on the wire-born path. -/
theorem reply_echo_wire (L Lu : Msg → Nat) (c : Consts) (cfg : Cfg) (proto : Proto) (q : Query)
    (next : Query → Option Msg) (hnext : ∀ q' m, next q' = some m → Echoes q' m) (r : Msg)
    (h : serveWireBorn L Lu c cfg proto q next = some r) : Echoes q r := by
  unfold serveWireBorn at h
  cases hn : next (normalised q (setEdns0 c cfg.ecs q.opt)) with
  | none => rw [hn] at h; simp at h
  | some m =>
    rw [hn] at h
    simp only [Option.map_some, Option.some.injEq] at h
    subst h
    obtain ⟨e1, e2, e3, e4⟩ := hnext _ _ hn
    obtain ⟨w1, w2, w3, w4, _⟩ := writeMsg_header L Lu cfg (writerWire c proto q) m
    exact ⟨by rw [w1, e1]; rfl, by rw [w2, e2]; rfl, by rw [w3, e3], by rw [w4, e4]; rfl⟩

/-- the in-place rejection of the datagram / stream engines: ID bytes and
opcode echoed, QR set, FORMERR or NOTIMP, every count zero. -/
theorem rejectBytes_echo (b0 b1 b2 b3 : Nat) (_hb : b2 < 256) (v : Verdict) :
    ∃ f r, rejectBytes b0 b1 b2 v = [b0, b1, f, r, 0, 0, 0, 0, 0, 0, 0, 0] ∧
      flagQR (f * 256 + r) = true ∧ flagOpcode (f * 256 + r) = flagOpcode (b2 * 256 + b3 % 256) ∧
      (r = rcodeNotImp ∨ r = rcodeFormErr) ∧ (r = rcodeNotImp ↔ v = .notimp) := by
  refine ⟨_, _, rfl, ?_, ?_, ?_, ?_⟩
  · unfold flagQR
    have : (128 + b2 / 8 % 16 * 8 + b2 % 2) * 256 + (if v = Verdict.notimp then rcodeNotImp else rcodeFormErr) < 65536 := by
      split <;> simp [rcodeNotImp, rcodeFormErr] <;> omega
    have h2 : (128 + b2 / 8 % 16 * 8 + b2 % 2) * 256 + (if v = Verdict.notimp then rcodeNotImp else rcodeFormErr) ≥ 32768 := by
      omega
    simp only [beq_iff_eq]
    omega
  · unfold flagOpcode
    have hr : (if v = Verdict.notimp then rcodeNotImp else rcodeFormErr) < 256 := by
      split <;> simp [rcodeNotImp, rcodeFormErr]
    omega
  · split <;> simp
  · by_cases hv : v = .notimp <;> simp [hv, rcodeNotImp, rcodeFormErr]

/-! ### clause 2 — no OPT unless the query carried one -/

/-- **No OPT unless asked** (shaping). -/
theorem writeMsg_no_opt (L Lu : Msg → Nat) (cfg : Cfg) (proto : Proto) (q : Query) (w : Writer)
    (hw : WriterFor cfg proto q w) (m : Msg) (hq : q.opt = none) :
    ∀ rr ∈ (writeMsg L Lu cfg w m).extra, rr.isOpt = false := by
  have hne : w.noedns = true := by rw [hw.noedns_eq, hq]; rfl
  intro rr hrr
  unfold writeMsg at hrr
  have h4 := (stageTruncate_frame L Lu w _).2.2.2.2.2.1 rr hrr
  rw [(stageAD_frame w _).2.2.2.2.2.2.2] at h4
  simp only [stageOpt, hne, Bool.not_true, Bool.false_eq_true, if_false, clearOPT, List.mem_filter,
    Bool.not_eq_eq_eq_not, Bool.not_true] at h4
  exact h4.2

/-- **No OPT unless asked** through `EDNS.ServeDNS`: a client that sent no OPT
never sees one, whatever the rest of the chain wrote. -/
theorem no_opt_unless_asked (L Lu : Msg → Nat) (c : Consts) (hc : ConstsOk c) (cfg : Cfg) (proto : Proto)
    (q : Query) (next : Query → Option Msg) (r : Msg) (hq : q.opt = none)
    (h : serveDNS L Lu c cfg proto q next = some r) : ∀ rr ∈ r.extra, rr.isOpt = false := by
  unfold serveDNS at h
  by_cases hop : q.opcode > 0
  · simp only [hop, if_true, Option.some.injEq] at h
    subst h; simp [notSupported]
  · simp only [hop, if_false] at h
    have hv0 : (setEdns0 c cfg.ecs q.opt).opt.version = 0 := by rw [hq]; rfl
    simp only [hv0, ne_eq, not_true_eq_false, if_false] at h
    cases hn : next (normalised q (setEdns0 c cfg.ecs q.opt)) with
    | none => rw [hn] at h; simp at h
    | some m =>
      rw [hn] at h
      simp only [Option.map_some, Option.some.injEq] at h
      subst h
      exact writeMsg_no_opt L Lu cfg proto q _
        (writer_decoded_for c hc cfg proto q (by intro o ho; rw [hq] at ho; cases ho)) m hq

/-- the wire-born path. -/
theorem no_opt_unless_asked_wire (L Lu : Msg → Nat) (c : Consts) (hc : ConstsOk c) (cfg : Cfg) (proto : Proto)
    (q : Query) (next : Query → Option Msg) (r : Msg) (hq : q.opt = none)
    (h : serveWireBorn L Lu c cfg proto q next = some r) : ∀ rr ∈ r.extra, rr.isOpt = false := by
  unfold serveWireBorn at h
  cases hn : next (normalised q (setEdns0 c cfg.ecs q.opt)) with
  | none => rw [hn] at h; simp at h
  | some m =>
    rw [hn] at h
    simp only [Option.map_some, Option.some.injEq] at h
    subst h
    exact writeMsg_no_opt L Lu cfg proto q _ (writer_wire_for c hc cfg proto q) m hq

/-- a cache hit built by `ToMsg` carries an OPT only for a query that had one. -/
theorem toMsg_no_opt (m : Msg) (e : Entry) (q : Query) (he : newCacheEntry m = some e) (hq : q.opt = none) :
    ∀ rr ∈ (toMsg e q).extra, rr.isOpt = false := by
  unfold newCacheEntry at he
  split at he
  · cases he
  · simp only [Option.some.injEq] at he
    subst he
    have hno : ∀ rr ∈ m.extra.filter (fun r => !r.isOpt), rr.isOpt = false := by
      intro rr hrr
      simp only [List.mem_filter, Bool.not_eq_eq_eq_not, Bool.not_true] at hrr
      exact hrr.2
    have hl : lastOpt (m.extra.filter (fun r => !r.isOpt)) = none := (lastOpt_none_iff _).mpr hno
    unfold toMsg
    simp only [hq, hl]
    split <;> first | exact hno | (rename_i h; cases h)

/-! ### clause 3 — no DNSSEC records unless DO or an RRSIG query -/

/-- **No RRSIG / NSEC / NSEC3 in answer or authority unless DO was set or type
RRSIG was asked** (the question tested is the reply's own, which clause 1 ties
to the query). -/
theorem no_dnssec_unless_do (L Lu : Msg → Nat) (cfg : Cfg) (proto : Proto) (q : Query) (w : Writer)
    (hw : WriterFor cfg proto q w) (m : Msg) (hdo : q.clientDO = false)
    (hq : m.question = some q.question) (ht : q.question.qtype ≠ typeRRSIG) :
    ∀ rr ∈ (writeMsg L Lu cfg w m).answer ++ (writeMsg L Lu cfg w m).ns, rr.isDnssec = false := by
  have hwdo : w.do_ = false := by rw [hw.do_eq]; exact hdo
  have hclear : ∀ rr ∈ (clearDNSSEC m).answer ++ (clearDNSSEC m).ns, rr.isDnssec = false := by
    intro rr hrr
    unfold clearDNSSEC at hrr
    rw [hq] at hrr
    have : (q.question.qtype == typeRRSIG) = false := by simpa using ht
    simp only [this, Bool.false_eq_true, if_false, List.mem_append, List.mem_filter,
      Bool.not_eq_eq_eq_not, Bool.not_true] at hrr
    rcases hrr with h | h <;> exact h.2
  intro rr hrr
  unfold writeMsg at hrr
  obtain ⟨_, _, _, _, _, _, t1, t2, _⟩ := stageTruncate_frame L Lu w (stageAD w (stageOpt cfg w (stageDnssec w m)))
  obtain ⟨_, _, _, _, _, c1, c2, _⟩ := stageAD_frame w (stageOpt cfg w (stageDnssec w m))
  obtain ⟨_, _, _, _, _, b1, b2⟩ := stageOpt_frame cfg w (stageDnssec w m)
  have hd : stageDnssec w m = clearDNSSEC m := by simp [stageDnssec, hwdo]
  apply hclear rr
  rcases List.mem_append.mp hrr with h | h
  · have := t1 rr h
    rw [c1, b1, hd] at this
    exact List.mem_append.mpr (Or.inl this)
  · have := t2 rr h
    rw [c2, b2, hd] at this
    exact List.mem_append.mpr (Or.inr this)

/-! ### clause 4 — AD discipline -/

/-- **AD is clear whenever the client set CD, or set neither DO nor AD.** -/
theorem ad_discipline (L Lu : Msg → Nat) (cfg : Cfg) (proto : Proto) (q : Query) (w : Writer)
    (hw : WriterFor cfg proto q w) (m : Msg)
    (h : q.cd = true ∨ (q.clientDO = false ∧ q.ad = false)) :
    (writeMsg L Lu cfg w m).fl.ad = false := by
  have hna : w.noad = true := by
    rw [hw.noad_eq]
    rcases h with h | ⟨h1, h2⟩
    · simp [h]
    · simp [h1, h2]
  unfold writeMsg
  exact (stageTruncate_frame L Lu w _).2.2.2.2.2.2.2.2 (stageAD_clears w _ hna)

/-- **AD discipline through `EDNS.ServeDNS`** for every query it does not
reject with the bare NOTIMP (BADVERS included). -/
theorem serve_ad_discipline (L Lu : Msg → Nat) (c : Consts) (hc : ConstsOk c) (cfg : Cfg) (proto : Proto)
    (q : Query) (next : Query → Option Msg) (r : Msg) (hop : q.opcode = 0)
    (hcl : q.cd = true ∨ (q.clientDO = false ∧ q.ad = false))
    (h : serveDNS L Lu c cfg proto q next = some r) : r.fl.ad = false := by
  unfold serveDNS at h
  simp only [hop, Nat.lt_irrefl, if_false] at h
  split at h
  · simp only [Option.some.injEq] at h
    subst h; simp [cancelWithRcode]
  · rename_i hv
    have hv0 : ∀ o, q.opt = some o → o.version = 0 := by
      intro o ho
      rw [ho] at hv
      simp only [setEdns0, ne_eq, Decidable.not_not] at hv
      by_cases hvo : o.version = 0
      · exact hvo
      · simp [hvo] at hv
    cases hn : next (normalised q (setEdns0 c cfg.ecs q.opt)) with
    | none => rw [hn] at h; simp at h
    | some m =>
      rw [hn] at h
      simp only [Option.map_some, Option.some.injEq] at h
      subst h
      exact ad_discipline L Lu cfg proto q _ (writer_decoded_for c hc cfg proto q hv0) m hcl

/-! ### clause 5 — options -/

/-- **Options.** Every option of every OPT record of a shaped reply is one of:
the server cookie for the client cookie that was sent; the configured NSID,
asked for; the server's keepalive, asked for over TCP; an extended error of
the downstream response.  In particular the client's subnet, an upstream's
keepalive / cookie / padding / NSID and unknown options are never passed on. -/
theorem no_ecs_no_foreign_options (L Lu : Msg → Nat) (cfg : Cfg) (proto : Proto) (q : Query) (w : Writer)
    (hw : WriterFor cfg proto q w) (m : Msg) :
    ∀ o own, RR.opt o own ∈ (writeMsg L Lu cfg w m).extra →
      ∀ x ∈ o.options, Allowed cfg proto q (upstreamOptions m) x := by
  -- what the shaped message (before truncation) carries
  have hshape : ∀ m' : Msg, m'.extra = m.extra → ∀ o own, RR.opt o own ∈ (shapeOpt cfg w m').extra →
      ∀ x ∈ o.options, Allowed cfg proto q (upstreamOptions m) x := by
    intro m' hm' o own ho x hx
    have fin : ∀ os, x ∈ finishOptions cfg w os →
        (∀ y ∈ os, y.code ≠ codeECS → y.code ≠ codeKeepalive → Allowed cfg proto q (upstreamOptions m) y) →
        Allowed cfg proto q (upstreamOptions m) x := by
      intro os hxo hall
      rcases finishOptions_mem cfg w os x hxo with ⟨h1, h2, h3⟩ | ⟨h1, h2⟩
      · exact hall x h1 h2 h3
      · exact Or.inr (Or.inr (Or.inl ⟨h1, hw.ka_imp h2⟩))
    have fromW : ∀ y ∈ writerOptions cfg w, y.code ≠ codeECS → y.code ≠ codeKeepalive →
        Allowed cfg proto q (upstreamOptions m) y := by
      intro y hy hne _
      rcases writerOptions_mem cfg w hw.wopt_ecs y hy with h | ⟨c, hc1, hc2⟩ | ⟨h1, h2, h3⟩
      · exact absurd h hne
      · exact Or.inl ⟨c, hc1, by rw [← hw.cookie_eq, hc2]⟩
      · exact Or.inr (Or.inl ⟨h1, h2, hw.nsid_imp h3⟩)
    unfold shapeOpt at ho
    rw [hm'] at ho
    cases hl : lastOpt m.extra with
    | none =>
      rw [hl] at ho
      simp only [List.mem_append, List.mem_singleton, RR.opt.injEq] at ho
      rcases ho with ho | ⟨rfl, _⟩
      · have := (lastOpt_none_iff m.extra).mp hl _ ho
        simp [RR.isOpt] at this
      · exact fin _ hx fromW
    | some p =>
      obtain ⟨ro, own'⟩ := p
      rw [hl] at ho
      simp only at ho
      obtain ⟨b, hb⟩ := opt_of_shaped _ m.extra _ ho rfl
      simp only [RR.opt.injEq] at hb
      obtain ⟨rfl, _⟩ := hb
      refine fin _ hx ?_
      intro y hy hne hnk
      cases own' with
      | true => simp only [if_true] at hy; exact fromW y hy hne hnk
      | false =>
        simp only [Bool.false_eq_true, if_false] at hy
        rcases List.mem_append.mp hy with hy | hy
        · unfold keepExtendedErrors at hy
          simp only [List.mem_filter, Bool.or_eq_true, beq_iff_eq] at hy
          rcases hy.2 with he | he
          · right; right; right
            exact ⟨he, by unfold upstreamOptions; rw [hl]; exact hy.1⟩
          · exact absurd he hne
        · exact fromW y hy hne hnk
  intro o own ho x hx
  unfold writeMsg at ho
  have h4 := (stageTruncate_frame L Lu w _).2.2.2.2.2.1 _ ho
  rw [(stageAD_frame w _).2.2.2.2.2.2.2] at h4
  unfold stageOpt at h4
  split at h4
  · exact hshape _ (stageDnssec_frame w m).2.2.2.2.2 o own h4 x hx
  · simp only [clearOPT, List.mem_filter] at h4
    simp [RR.isOpt] at h4

/-- no option of a reply has the client-subnet code (a corollary worth naming). -/
theorem no_ecs_in_reply (L Lu : Msg → Nat) (cfg : Cfg) (proto : Proto) (q : Query) (w : Writer)
    (hw : WriterFor cfg proto q w) (m : Msg) (o : Opt) (own : Bool)
    (ho : RR.opt o own ∈ (writeMsg L Lu cfg w m).extra) : ∀ x ∈ o.options, x.code ≠ codeECS := by
  intro x hx
  rcases no_ecs_no_foreign_options L Lu cfg proto q w hw m o own ho x hx with ⟨c, rfl, _⟩ | ⟨rfl, _⟩ | ⟨rfl, _⟩ | ⟨he, _⟩
  · simp [EOpt.code, codeCookie, codeECS]
  · simp [EOpt.code, codeNSID, codeECS]
  · simp [EOpt.code, codeKeepalive, codeECS]
  · rw [he]; simp [codeEDE, codeECS]

/-- the BADVERS reply carries the request's OPT with version 0 and NO option (the forwarded subnet is stripped). -/
theorem badvers_reply (L Lu : Msg → Nat) (c : Consts) (cfg : Cfg) (proto : Proto) (q : Query)
    (next : Query → Option Msg) (o : Opt) (hop : q.opcode = 0) (hq : q.opt = some o) (hv : o.version ≠ 0) :
    ∃ r, serveDNS L Lu c cfg proto q next = some r ∧ r.rcode = rcodeBadVers ∧ Echoes q r ∧
      r.answer = [] ∧ r.ns = [] ∧ r.fl.ad = false ∧
      ∃ ro, r.extra = [.opt ro true] ∧ ro.version = 0 ∧ ro.options = [] := by
  unfold serveDNS
  have hv' : (setEdns0 c cfg.ecs q.opt).opt.version ≠ 0 := by rw [hq]; simp [setEdns0, hv]
  simp only [hop, Nat.lt_irrefl, if_false, hv', ne_eq, not_false_eq_true, if_true]
  refine ⟨_, rfl, rfl, cancelWithRcode_echoes _ _ _, rfl, rfl, rfl, ?_⟩
  simp only [cancelWithRcode, normalised]
  refine ⟨_, rfl, rfl, ?_⟩
  simp only [stripECS_of_all_ecs _ (set0_options_ecs c cfg.ecs q.opt), List.filter_nil]

/-! ### clause 6 — the UDP size bound -/

/-- **UDP size.** Over UDP the reply is no longer than the size the writer
holds, or it is a TC=1 reply with empty answer and authority whose additional
section holds nothing but OPT.  `L` is the length the transport will emit,
`Lu` any upper bound of it (the code uses the uncompressed length). -/
theorem writeMsg_udp_bound (L Lu : Msg → Nat) (hL : ∀ m, L m ≤ Lu m) (cfg : Cfg) (w : Writer) (m : Msg)
    (hp : w.proto = .udp) :
    L (writeMsg L Lu cfg w m) ≤ w.size ∨
      ((writeMsg L Lu cfg w m).fl.tc = true ∧ (writeMsg L Lu cfg w m).answer = [] ∧
       (writeMsg L Lu cfg w m).ns = [] ∧ ∀ rr ∈ (writeMsg L Lu cfg w m).extra, rr.isOpt = true) := by
  unfold writeMsg
  generalize stageAD w (stageOpt cfg w (stageDnssec w m)) = m3
  unfold stageTruncate
  simp only [hp, beq_self_eq_true, Bool.true_and]
  split
  · right
    exact ⟨rfl, rfl, rfl, keepOPTOnly_all_opt _⟩
  · rename_i hov
    left
    unfold udpOverflow at hov
    split at hov
    · rename_i hle; exact Nat.le_trans (hL _) hle
    · simpa using hov

/-- **UDP size bound of the property**: at most `max(512, min(advertised, 1232))`
bytes, or truncated to question + OPT. -/
theorem udp_size_bound (L Lu : Msg → Nat) (hL : ∀ m, L m ≤ Lu m) (cfg : Cfg) (q : Query) (w : Writer)
    (hw : WriterFor cfg .udp q w) (m : Msg) :
    L (writeMsg L Lu cfg w m) ≤ udpLimit q ∨
      ((writeMsg L Lu cfg w m).fl.tc = true ∧ (writeMsg L Lu cfg w m).answer = [] ∧
       (writeMsg L Lu cfg w m).ns = [] ∧ ∀ rr ∈ (writeMsg L Lu cfg w m).extra, rr.isOpt = true) := by
  rcases writeMsg_udp_bound L Lu hL cfg w m hw.proto_eq with h | h
  · exact Or.inl (Nat.le_trans h (hw.size_udp rfl))
  · exact Or.inr h

/-! ### clause 7 — what the listeners and the handler reject -/

/-- **Header admission.** Responses are ignored; opcodes other than Query and
Notify get NOTIMP; a Query/Notify header with QDCOUNT ≠ 1 (or over-long other
counts) gets FORMERR; only a non-response Query/Notify with one question is
served. -/
theorem accept_verdicts (flags qd an ns ar : Nat) :
    (flagQR flags = true → acceptHeader flags qd an ns ar = .ignore) ∧
    (flagQR flags = false → flagOpcode flags ≠ 0 → flagOpcode flags ≠ 4 → acceptHeader flags qd an ns ar = .notimp) ∧
    (flagQR flags = false → (flagOpcode flags = 0 ∨ flagOpcode flags = 4) → qd ≠ 1 → acceptHeader flags qd an ns ar = .formerr) ∧
    (acceptHeader flags qd an ns ar = .ok →
      flagQR flags = false ∧ (flagOpcode flags = 0 ∨ flagOpcode flags = 4) ∧ qd = 1 ∧ an ≤ 1 ∧ ns ≤ 1 ∧ ar ≤ 2) := by
  unfold acceptHeader
  refine ⟨?_, ?_, ?_, ?_⟩
  · intro h; simp [h]
  · intro h h0 h4; simp [h, h0, h4]
  · intro h hop hqd
    simp only [h, Bool.false_eq_true, if_false]
    rcases hop with hop | hop <;> simp [hop, hqd]
  · intro h
    split at h
    · cases h
    · split at h
      · cases h
      · split at h
        · cases h
        · rename_i h1 h2 h3
          refine ⟨by simpa using h1, ?_, ?_, ?_, ?_, ?_⟩ <;> omega

/-- a packet that is itself a response gets NO reply from a datagram / stream listener. -/
theorem listener_silent_on_responses (b0 b1 b2 b3 q0 q1 a0 a1 n0 n1 r0 r1 : Nat) (rest : List Nat)
    (hqr : flagQR (b2 * 256 + b3) = true) :
    listenerHeaderStep (b0 :: b1 :: b2 :: b3 :: q0 :: q1 :: a0 :: a1 :: n0 :: n1 :: r0 :: r1 :: rest) = some none := by
  unfold listenerHeaderStep
  simp [(accept_verdicts (b2 * 256 + b3) (q0 * 256 + q1) (a0 * 256 + a1) (n0 * 256 + n1) (r0 * 256 + r1)).1 hqr]

/-- **An accepted header over an undecodable body gets the bare FORMERR**,
echoing ID and opcode (Notify included), from either engine. -/
theorem listener_undecodable_formerr (pkt : List Nat) (h : listenerHeaderStep pkt = none) :
    listenerStep pkt false =
      some (some (rejectBytes (pkt.getD 0 0) (pkt.getD 1 0) (pkt.getD 2 0) .formerr)) ∧
    (rejectBytes (pkt.getD 0 0) (pkt.getD 1 0) (pkt.getD 2 0) .formerr).getD 3 0 = rcodeFormErr ∧
    (rejectBytes (pkt.getD 0 0) (pkt.getD 1 0) (pkt.getD 2 0) .formerr).getD 2 0 / 8 % 16 = pkt.getD 2 0 / 8 % 16 := by
  refine ⟨by simp [listenerStep, h], by simp [rejectBytes], ?_⟩
  simp only [rejectBytes, List.getD_cons_succ, List.getD_cons_zero]
  omega

/-- **Non-query opcodes reaching the edns handler (Notify) get the bare NOTIMP.** -/
theorem nonquery_gets_notimp (L Lu : Msg → Nat) (c : Consts) (cfg : Cfg) (proto : Proto) (q : Query)
    (next : Query → Option Msg) (hop : q.opcode > 0) :
    serveDNS L Lu c cfg proto q next = some (notSupported q) ∧ (notSupported q).rcode = rcodeNotImp := by
  unfold serveDNS
  simp [hop, notSupported]

/-- **The real `acceptHeader` is the model's**, on the complete table of header
classes (QR × opcode 0..15 × every section count in {0,1,2,3}; `packRow` packs
the model's verdicts the way the harness packs the real ones, through
`acceptCode`, which `acceptCode_eq` proves equal to `acceptHeader`) and on
far-out counts / other flag bits. -/
theorem accept_table_matches :
    (List.range 512).map packRow = SdnsVerif.Gen.C06.accept_table ∧
    SdnsVerif.Gen.C06.accept_extreme.all (fun row =>
      acceptCode (row.getD 0 0) (row.getD 1 0) (row.getD 2 0) (row.getD 3 0) (row.getD 4 0) == row.getD 5 9) = true ∧
    ∀ flags qd an ns ar, acceptCode flags qd an ns ar = (acceptHeader flags qd an ns ar).toNat := by
  refine ⟨by decide +kernel, by decide +kernel, acceptCode_eq⟩

/-- the header-word accessors of `internal/wire` read the bits the model
reads, and `wire.ApplyReply` stamps ID, QR, opcode, RD and CD, clears AA and
leaves every other bit. -/
theorem header_bits_match :
    SdnsVerif.Gen.C06.hdr_bits.all (fun row =>
      let f := 2 ^ (row.getD 0 0)
      (if flagQR f then 1 else 0) == row.getD 1 9 && flagOpcode f == row.getD 2 99 &&
      (if flagAD f then 1 else 0) == row.getD 3 9 && flagRcode f == row.getD 4 99) = true ∧
    SdnsVerif.Gen.C06.apply_reply.all (fun row =>
      let inp := row.getD 0 0
      let keep := inp % 2 ^ 4 + (inp / 2 ^ 5 % 2 ^ 3) * 2 ^ 5 + (inp / 2 ^ 9 % 2) * 2 ^ 9
      row.getD 4 0 == keep + 2 ^ 15 + (row.getD 1 0) * 2 ^ 11 + (row.getD 2 0) * 2 ^ 8 + (row.getD 3 0) * 2 ^ 4
        && row.getD 5 0 == 0xBEEF) = true := by
  constructor <;> decide +kernel

/-- option codes and rcodes of the library are the ones the model names. -/
theorem codes_match :
    SdnsVerif.Gen.C06.code_nsid = codeNSID ∧ SdnsVerif.Gen.C06.code_ecs = codeECS ∧
    SdnsVerif.Gen.C06.code_cookie = codeCookie ∧ SdnsVerif.Gen.C06.code_keepalive = codeKeepalive ∧
    SdnsVerif.Gen.C06.code_padding = codePadding ∧ SdnsVerif.Gen.C06.code_ede = codeEDE ∧
    SdnsVerif.Gen.C06.rcode_formerr = rcodeFormErr ∧ SdnsVerif.Gen.C06.rcode_notimp = rcodeNotImp ∧
    SdnsVerif.Gen.C06.rcode_badvers = rcodeBadVers ∧ SdnsVerif.Gen.C06.opcode_query = 0 ∧
    SdnsVerif.Gen.C06.opcode_notify = 4 := by
  decide

/-! ### non-vacuity -/

private def qDO0 : Query :=
  { id := 7, opcode := 0, rd := true, ad := false, cd := false, question := { name := 7, qtype := 1, qlen := 17 },
    opt := some { udp := 4096, options := [.raw codeCookie [1, 2, 3, 4, 5, 6, 7, 8], .raw codeECS [0, 1, 24, 0, 203, 0, 113], .raw codeNSID []] } }

private def upMsg : Msg :=
  { id := 7, fl := { qr := true, ad := true, ra := true }, question := some qDO0.question,
    answer := [.data .other 1 30 44, .data .rrsig 2 110 124],
    extra := [.opt { udp := 512, options := [.raw codeCookie [9, 9], .raw codeECS [0, 1, 24, 24, 1, 2, 3],
                                             .raw codeKeepalive [0x12, 0x34], .raw 65001 [0xbe], .raw codeEDE [0, 3]] } false] }

-- a full run: signatures stripped, AD cleared, upstream cookie / ECS / keepalive / unknown dropped,
-- the extended error kept, server cookie and NSID added
example :
    serveDNS (msgLen true) (msgLen false) {} { nsid := [110, 115], ecs := true } .udp qDO0 (fun _ => some upMsg) =
      some { upMsg with fl := { qr := true, ra := true }, answer := [.data .other 1 30 44],
                        extra := [.opt { udp := 1232, options := [.raw codeEDE [0, 3], .srvCookie [1, 2, 3, 4, 5, 6, 7, 8], .srvNsid [110, 115]] } false] } := by
  decide

-- the same answer made 1300 bytes long: truncated to question + OPT
example :
    (serveDNS (msgLen true) (msgLen false) {} {} .udp qDO0
      (fun _ => some { upMsg with answer := [.data .other 1 1300 1310] })).map
        (fun r => (r.fl.tc, r.answer, r.ns, r.extra.length)) = some (true, [], [], 1) := by
  decide

-- the hypotheses of the shaping theorems are satisfiable: the decoded writer for that query
example : WriterFor { nsid := [110, 115], ecs := true } .udp qDO0
    (writerDecoded {} .udp qDO0 (setEdns0 {} true qDO0.opt)) :=
  writer_decoded_for {} (by unfold ConstsOk; decide) _ _ _ (by intro o ho; cases ho; rfl)

-- BADVERS: version 1 with a forwarded subnet comes back with an empty OPT
example : (serveDNS (msgLen true) (msgLen false) {} { ecs := true } .tcp
    { qDO0 with opt := some { udp := 1232, version := 1, options := [.raw codeECS [0, 1, 24, 0, 203, 0, 113]] } }
    (fun _ => none)).map (fun r => (r.rcode, r.extra)) = some (16, [.opt { udp := 1232 } true]) := by
  decide

-- a NOTIFY whose body does not decode: FORMERR with opcode 4 echoed
example : listenerStep [0x12, 0x34, 0x20, 0, 0, 1, 0, 0, 0, 0, 0, 0, 0xff] false =
    some (some [0x12, 0x34, 0xa0, 1, 0, 0, 0, 0, 0, 0, 0, 0]) := by decide

-- header admission: a response, an IQUERY, a Notify, two questions, a good query
example : acceptHeader 0x8100 1 0 0 0 = .ignore ∧ acceptHeader 0x0800 1 0 0 0 = .notimp ∧
    acceptHeader 0x2000 1 0 0 0 = .ok ∧ acceptHeader 0x0100 2 0 0 0 = .formerr ∧
    acceptHeader 0x0100 1 0 0 1 = .ok := by decide

/-! ### the recovery panic path -/

/-- **A downstream panic is answered within what the client sent.** The
SERVFAIL the recovery middleware writes (through the base writer, from the
request edns hands back) echoes the query, carries no OPT for a client that
sent none, and for an EDNS client one OPT without any option — the forwarded
client subnet included — with empty sections and AD clear. -/
theorem panic_reply (L Lu : Msg → Nat) (c : Consts) (cfg : Cfg) (proto : Proto) (q : Query) (wb : Bool)
    (next : Query → Outcome) (hop : q.opcode = 0) (hv : ∀ o, q.opt = some o → o.version = 0)
    (hp : next (normalised q (setEdns0 c cfg.ecs q.opt)) = .panic ∨
          next (normalised q (setEdns0 c cfg.ecs q.opt)) = .panicUndecoded) :
    ∃ r, serveGuarded L Lu c cfg proto q wb next = some r ∧ Echoes q r ∧ r.rcode = rcodeServFail ∧
      r.answer = [] ∧ r.ns = [] ∧ r.fl.ad = false ∧
      (q.opt = none → r.extra = []) ∧
      (∀ o own, RR.opt o own ∈ r.extra → o.options = [] ∧ q.opt ≠ none) := by
  have hv0 : (setEdns0 c cfg.ecs q.opt).opt.version = 0 := by
    cases h : q.opt with
    | none => rfl
    | some o => simp [setEdns0, hv o h]
  have hecs := set0_options_ecs c cfg.ecs q.opt
  unfold serveGuarded
  rcases hp with hp | hp
  all_goals
    simp only [hop, Nat.lt_irrefl, if_false, hv0, ne_eq, not_true_eq_false, hp]
    refine ⟨_, rfl, ?_, rfl, rfl, rfl, rfl, ?_, ?_⟩
    · simp only [Echoes, cancelWithRcode, clientView, restoreClientView, normalised]
      cases q.opt.isSome <;> cases q.opt.isNone <;> simp
    · intro hq
      simp [cancelWithRcode, clientView, restoreClientView, normalised, hq]
    · intro o own ho
      cases hq : q.opt with
      | none => simp [cancelWithRcode, clientView, restoreClientView, normalised, hq] at ho
      | some qo =>
        rw [hq] at hecs
        simp only [cancelWithRcode, clientView, restoreClientView, normalised, hq, Option.isNone_some,
          Option.isSome_some, Bool.false_eq_true, if_false, if_true, Option.map_some, List.mem_singleton,
          RR.opt.injEq] at ho
        obtain ⟨rfl, _⟩ := ho
        refine ⟨?_, by simp⟩
        first
          | exact filter_cookie_of_all_ecs _ (fun x hx => hecs x (stripECS_sub _ x hx))
          | exact filter_cookie_of_all_ecs _ hecs

/-- **Every rcode rejection written by `Chain.CancelWithRcode`** — ratelimit's
BADCOOKIE and reflex's REFUSED ahead of edns, BADVERS in it, recovery's SERVFAIL
behind it — echoes the query and carries an OPT only if the request (as the
client sent it: `clientView`) has one, holding nothing but COOKIE options: the
client's subnet, keepalive, padding, NSID request and unknown codes never come back. -/
theorem cancel_reply_options (reqNow : Query) (sent : Bool) (rc : Nat) (d : Bool) :
    Echoes reqNow (cancelWithRcode (clientView reqNow sent) rc d) ∧
    (sent = false → (cancelWithRcode (clientView reqNow sent) rc d).extra = []) ∧
    (∀ o own, RR.opt o own ∈ (cancelWithRcode (clientView reqNow sent) rc d).extra →
      ∀ x ∈ o.options, x.code = codeCookie ∧ ∃ ro, reqNow.opt = some ro ∧ x ∈ ro.options) := by
  refine ⟨?_, ?_, ?_⟩
  · unfold Echoes cancelWithRcode clientView; cases sent <;> simp
  · intro hs; simp [cancelWithRcode, clientView, hs]
  · intro o own ho x hx
    cases sent with
    | false => simp [cancelWithRcode, clientView] at ho
    | true =>
      cases hq : reqNow.opt with
      | none => simp [cancelWithRcode, clientView, hq] at ho
      | some ro =>
        simp only [cancelWithRcode, clientView, if_true, hq, List.mem_singleton, RR.opt.injEq] at ho
        obtain ⟨rfl, _⟩ := ho
        simp only [List.mem_filter, beq_iff_eq] at hx
        exact ⟨hx.2, ro, rfl, hx.1⟩

/-- when the rest of the chain returns, the guarded handler is `EDNS.ServeDNS` / `serveWire`. -/
theorem serveGuarded_done (L Lu : Msg → Nat) (c : Consts) (cfg : Cfg) (proto : Proto) (q : Query)
    (next : Query → Option Msg) :
    serveGuarded L Lu c cfg proto q false (fun x => .done (next x)) = serveDNS L Lu c cfg proto q next := by
  unfold serveGuarded serveDNS
  simp

/-! ### the byte path (`WireReady` / `WriteWire`): the same rules on bytes -/

/-- the body reaches the client unchanged but for AD and the appended OPT. -/
theorem writeWire_header (L : Msg → Nat) (cfg : Cfg) (w : Writer) (body r : Msg) (info : WireInfo)
    (h : writeWire L cfg w body info = some r) :
    r.id = body.id ∧ r.opcode = body.opcode ∧ r.fl.qr = body.fl.qr ∧ r.question = body.question ∧
    r.rcode = body.rcode ∧ r.answer = body.answer ∧ r.ns = body.ns := by
  obtain ⟨a1, a2, a3, a4, a5, a6, a7, _⟩ := wireBody_frame w body info
  rcases (writeWire_some L cfg w body r info h).2.1 with ⟨_, rfl⟩ | ⟨_, rfl⟩
  · exact ⟨a1, a2, a3, a4, a5, a6, a7⟩
  · exact ⟨a1, a2, a3, a4, a5, a6, a7⟩

/-- **No OPT unless asked, on bytes**: a body that carries none (the cache
strips it at admission) reaches a non-EDNS client without one. -/
theorem writeWire_no_opt (L : Msg → Nat) (cfg : Cfg) (proto : Proto) (q : Query) (w : Writer)
    (hw : WriterFor cfg proto q w) (body r : Msg) (info : WireInfo) (hq : q.opt = none)
    (hb : ∀ rr ∈ body.extra, rr.isOpt = false) (h : writeWire L cfg w body info = some r) :
    ∀ rr ∈ r.extra, rr.isOpt = false := by
  have hne : w.noedns = true := by rw [hw.noedns_eq, hq]; rfl
  rcases (writeWire_some L cfg w body r info h).2.1 with ⟨_, rfl⟩ | ⟨hf, _⟩
  · rw [(wireBody_frame w body info).2.2.2.2.2.2.2]; exact hb
  · rw [hne] at hf; cases hf

/-- **Options on bytes**: the appended OPT holds the server cookie for the
client cookie sent, the configured NSID when asked, the keepalive when asked
over TCP, and the entry's extended error — nothing else. -/
theorem writeWire_options (L : Msg → Nat) (cfg : Cfg) (proto : Proto) (q : Query) (w : Writer)
    (hw : WriterFor cfg proto q w) (body r : Msg) (info : WireInfo)
    (hb : ∀ rr ∈ body.extra, rr.isOpt = false)
    (hede : ∀ e, info.ede = some e → e.code = codeEDE)
    (h : writeWire L cfg w body info = some r) :
    ∀ o own, RR.opt o own ∈ r.extra → ∀ x ∈ o.options,
      Allowed cfg proto q (match info.ede with | some e => [e] | none => []) x := by
  intro o own ho x hx
  have hex := (wireBody_frame w body info).2.2.2.2.2.2.2
  have hnob : RR.opt o own ∈ body.extra → False := by
    intro hin
    have := hb _ hin
    simp [RR.isOpt] at this
  rcases (writeWire_some L cfg w body r info h).2.1 with ⟨_, rfl⟩ | ⟨_, rfl⟩
  · rw [hex] at ho; exact (hnob ho).elim
  · simp only [withWireOPT, hex, List.mem_append, List.mem_singleton, RR.opt.injEq] at ho
    rcases ho with ho | ⟨rfl, _⟩
    · exact (hnob ho).elim
    · simp only [wireOPT, List.mem_append] at hx
      rcases hx with ((hx | hx) | hx) | hx
      · unfold cookieOpts at hx
        cases hc : w.cookie with
        | none => rw [hc] at hx; simp at hx
        | some ck =>
          rw [hc] at hx
          simp only [List.mem_singleton] at hx
          exact Or.inl ⟨ck, hx, by rw [← hw.cookie_eq, hc]⟩
      · unfold nsidOpts at hx
        split at hx
        · rename_i hn
          simp only [List.mem_singleton] at hx
          exact Or.inr (Or.inl ⟨hx, hn.1, hw.nsid_imp hn.2⟩)
        · simp at hx
      · unfold keepaliveOpts at hx
        split at hx
        · rename_i hk
          simp only [List.mem_singleton] at hx
          exact Or.inr (Or.inr (Or.inl ⟨hx, hw.ka_imp hk⟩))
        · simp at hx
      · cases he : info.ede with
        | none => rw [he] at hx; simp at hx
        | some e =>
          rw [he] at hx
          simp only [List.mem_singleton] at hx
          exact Or.inr (Or.inr (Or.inr ⟨by rw [hx]; exact hede e he, by rw [hx]; simp⟩))

/-- **AD discipline on bytes** (given `info.ad` mirrors the body's AD bit — the `WireInfo` contract). -/
theorem writeWire_ad (L : Msg → Nat) (cfg : Cfg) (proto : Proto) (q : Query) (w : Writer)
    (hw : WriterFor cfg proto q w) (body r : Msg) (info : WireInfo) (hi : info.ad = body.fl.ad)
    (hcl : q.cd = true ∨ (q.clientDO = false ∧ q.ad = false))
    (h : writeWire L cfg w body info = some r) : r.fl.ad = false := by
  have hna : w.noad = true := by
    rw [hw.noad_eq]
    rcases hcl with h | ⟨h1, h2⟩
    · simp [h]
    · simp [h1, h2]
  have key : (wireBody w body info).fl.ad = false := by
    unfold wireBody
    rw [hna, hi]
    cases hb : body.fl.ad <;> simp [hb]
  rcases (writeWire_some L cfg w body r info h).2.1 with ⟨_, rfl⟩ | ⟨_, rfl⟩
  · exact key
  · exact key

/-- **DNSSEC on bytes**: a DO=0 client is never sent a body flagged as carrying
DNSSEC records (the writer falls back to the message path, which strips). -/
theorem writeWire_dnssec_fallback (L : Msg → Nat) (cfg : Cfg) (proto : Proto) (q : Query) (w : Writer)
    (hw : WriterFor cfg proto q w) (body : Msg) (info : WireInfo)
    (hdo : q.clientDO = false) (hf : info.hasDnssec = true) : writeWire L cfg w body info = none := by
  have : w.do_ = false := by rw [hw.do_eq]; exact hdo
  simp [writeWire, this, hf]

/-- **UDP size on bytes**: what is written fits the property's bound — an
overflow is never written, it falls back (and the message path truncates). -/
theorem writeWire_udp_bound (L : Msg → Nat) (cfg : Cfg) (q : Query) (w : Writer)
    (hw : WriterFor cfg .udp q w) (body r : Msg) (info : WireInfo)
    (h : writeWire L cfg w body info = some r) : L r ≤ udpLimit q :=
  Nat.le_trans ((writeWire_some L cfg w body r info h).2.2 hw.proto_eq) (hw.size_udp rfl)

/-- **The cache's side of the contract** (`prepareWireServe`, `wireBodyFor`,
`wireInfoFor`): whatever body the cache hands the byte path, if it is NOT
flagged `hasDnssec` and the question is not RRSIG, a DO=0 client's body holds
no RRSIG / NSEC / NSEC3 in answer or authority — signed or not. -/
theorem cacheWire_dnssec_contract (m : Msg) (e : WEntry) (q : Query) (b : Msg) (info : WireInfo)
    (he : newWEntry m = some e) (h : serveWireInto e q false = some (b, info))
    (ht : storedQtype e.stored ≠ typeRRSIG) (hf : info.hasDnssec = false) :
    ∀ rr ∈ b.answer ++ b.ns, rr.isDnssec = false := by
  unfold newWEntry at he
  cases hn : newCacheEntry m with
  | none => rw [hn] at he; cases he
  | some ce =>
    rw [hn] at he
    simp only [Option.some.injEq] at he
    subst he
    have hq : (storedQtype ce.msg == typeRRSIG) = false := by simpa using ht
    have hq' : (storedQtype ce.msg != typeRRSIG) = true := by simp [bne, hq]
    unfold serveWireInto wireBodyFor at h
    simp only [Bool.false_or, hq, Bool.or_false, hq', Bool.and_true] at h
    cases hany : (ce.msg.answer ++ ce.msg.ns).any RR.isDnssec with
    | false =>
      simp only [hany, Bool.not_false, if_true, Option.some.injEq, Prod.mk.injEq] at h
      obtain ⟨rfl, _⟩ := h
      intro rr hrr
      simp only at hrr
      cases hd : rr.isDnssec with
      | false => rfl
      | true => exact absurd (List.any_eq_true.mpr ⟨rr, hrr, hd⟩) (by simp [hany])
    | true =>
      simp only [hany, Bool.not_true, Bool.false_eq_true, if_false, if_true, Option.map_some,
        Option.some.injEq, Prod.mk.injEq] at h
      obtain ⟨rfl, _⟩ := h
      intro rr hrr
      simp only at hrr
      unfold clearDNSSEC at hrr
      have hqt : ∀ qq, ce.msg.question = some qq → (qq.qtype == typeRRSIG) = false := by
        intro qq hqq
        unfold storedQtype at hq
        rw [hqq] at hq
        exact hq
      split at hrr
      · rename_i qq hqq
        simp only [hqt qq hqq, Bool.false_eq_true, if_false, List.mem_append, List.mem_filter,
          Bool.not_eq_eq_eq_not, Bool.not_true] at hrr
        rcases hrr with h1 | h1 <;> exact h1.2
      · simp only [List.mem_append, List.mem_filter, Bool.not_eq_eq_eq_not, Bool.not_true] at hrr
        rcases hrr with h1 | h1 <;> exact h1.2

/-- the cache's byte body echoes the query (`wire.ApplyReply` + question spelling) and never asserts AD to a CD client. -/
theorem cacheWire_echoes (e : WEntry) (q : Query) (d : Bool) (b : Msg) (info : WireInfo)
    (h : serveWireInto e q d = some (b, info)) : Echoes q b ∧ info.ad = b.fl.ad ∧ (q.cd = true → b.fl.ad = false) := by
  unfold serveWireInto at h
  split at h
  · cases h
  · simp only [Option.some.injEq, Prod.mk.injEq] at h
    obtain ⟨rfl, rfl⟩ := h
    refine ⟨⟨rfl, rfl, rfl, rfl⟩, rfl, ?_⟩
    intro hcd
    simp [hcd]

/-- **A cache hit on the byte path respects DO=0**, end to end in the model:
either nothing is written (fallback to the message path) or what is written
holds no RRSIG / NSEC / NSEC3 in answer or authority. -/
theorem cache_hit_bytes_no_dnssec (L : Msg → Nat) (cfg : Cfg) (proto : Proto) (q : Query) (w : Writer)
    (hw : WriterFor cfg proto q w) (m : Msg) (e : WEntry) (b : Msg) (info : WireInfo)
    (he : newWEntry m = some e) (hdo : q.clientDO = false) (ht : storedQtype e.stored ≠ typeRRSIG)
    (hs : serveWireInto e q false = some (b, info)) (r : Msg) (h : writeWire L cfg w b info = some r) :
    ∀ rr ∈ r.answer ++ r.ns, rr.isDnssec = false := by
  cases hf : info.hasDnssec with
  | true => rw [writeWire_dnssec_fallback L cfg proto q w hw b info hdo hf] at h; cases h
  | false =>
    obtain ⟨_, _, _, _, _, ha, hn⟩ := writeWire_header L cfg w b r info h
    rw [ha, hn]
    exact cacheWire_dnssec_contract m e q b info he hs ht hf

/-! ### `Request.ParseWire`: what may enter the chain undecoded -/

/-- **Only plain queries are served without decoding**: a packet `ParseWire`
admits is a non-response QUERY with exactly one question, empty answer and
authority, at most one additional record, and every option of its OPT passed
the per-option checks; in particular a client-subnet option has a known family
and SOURCE and SCOPE prefix lengths within that family's maximum. -/
theorem parseWire_admits_only (raw : List Nat) (f : WireFacts) (h : parseWire raw = some f) :
    raw.length ≥ 12 ∧ flagQR (be16 raw 2) = false ∧ flagOpcode (be16 raw 2) = 0 ∧
    be16 raw 4 = 1 ∧ be16 raw 6 = 0 ∧ be16 raw 8 = 0 ∧ be16 raw 10 ≤ 1 ∧
    (∀ o ∈ f.options, wireOptionOk o.1 o.2 = true) ∧ (f.options.filter (fun o => o.1 == codeCookie)).length ≤ 1 := by
  unfold parseWire at h
  split at h
  · cases h
  · rename_i hlen
    simp only at h
    split at h
    · cases h
    · rename_i hfl
      split at h
      · cases h
      · rename_i hcnt
        have hbase : raw.length ≥ 12 ∧ flagQR (be16 raw 2) = false ∧ flagOpcode (be16 raw 2) = 0 ∧
            be16 raw 4 = 1 ∧ be16 raw 6 = 0 ∧ be16 raw 8 = 0 ∧ be16 raw 10 ≤ 1 := by
          refine ⟨by omega, ?_, ?_, ?_, ?_, ?_, ?_⟩
          · cases hq : flagQR (be16 raw 2) with
            | false => rfl
            | true => exact absurd (Or.inr hq) hfl
          · apply Classical.byContradiction; intro hn; exact hfl (Or.inl hn)
          all_goals omega
        split at h
        · cases h
        · split at h
          · cases h
          · split at h
            · split at h
              · cases h
              · split at h
                · cases h
                · split at h
                  · cases h
                  · rename_i opts _
                    split at h
                    · rename_i hok
                      simp only [Option.some.injEq] at h
                      subst h
                      simp only [Bool.and_eq_true, List.all_eq_true, decide_eq_true_eq] at hok
                      obtain ⟨a1, a2, a3, a4, a5, a6, a7⟩ := hbase
                      exact ⟨a1, a2, a3, a4, a5, a6, a7, hok.1, hok.2⟩
                    · cases h
            · split at h
              · cases h
              · simp only [Option.some.injEq] at h
                subst h
                obtain ⟨a1, a2, a3, a4, a5, a6, a7⟩ := hbase
                exact ⟨a1, a2, a3, a4, a5, a6, a7, by simp, by simp⟩

/-- what the client-subnet check means (`EDNS0_SUBNET.unpack`'s own conditions). -/
theorem wireOptionOk_ecs (d : List Nat) (h : wireOptionOk codeECS d = true) :
    d.length ≥ 4 ∧
    ((d.getD 0 0 * 256 + d.getD 1 0 = 0 ∧ d.getD 2 0 = 0) ∨
     (d.getD 0 0 * 256 + d.getD 1 0 = 1 ∧ d.getD 2 0 ≤ 32 ∧ d.getD 3 0 ≤ 32) ∨
     (d.getD 0 0 * 256 + d.getD 1 0 = 2 ∧ d.getD 2 0 ≤ 128 ∧ d.getD 3 0 ≤ 128)) := by
  unfold wireOptionOk at h
  simp only [codeECS, codeCookie, codeNSID, Nat.reduceEqDiff, if_false, if_true, Bool.and_eq_true,
    decide_eq_true_eq] at h
  refine ⟨h.1, ?_⟩
  have h2 := h.2
  split at h2
  · rename_i hf; left; exact ⟨hf, by simpa using h2⟩
  · split at h2
    · rename_i hf; right; left; exact ⟨hf, by simpa using h2⟩
    · split at h2
      · rename_i hf; right; right; exact ⟨hf, by simpa using h2⟩
      · cases h2

-- non-vacuity: BADCOOKIE ahead of edns for a client that sent cookie + subnet + an unknown option: only the cookie comes back
example : (cancelWithRcode (clientView { qDO0 with opt := some { udp := 1232, options := [.raw codeCookie [1, 2], .raw codeECS [0, 1, 24, 0, 1, 2, 3], .raw 65001 [9]] } } true) 23 false).extra =
    [.opt { udp := 1232, options := [.raw codeCookie [1, 2]] } true] := by decide
example : (serveGuarded (msgLen true) (msgLen false) {} { ecs := true } .udp { qDO0 with opt := none } true (fun _ => .panicUndecoded)).map (·.extra) = some [] := by decide

-- non-vacuity: a panic behind edns for a client without EDNS and with [ecs] on
example : serveGuarded (msgLen true) (msgLen false) {} { ecs := true } .udp
    { qDO0 with opt := none } false (fun _ => .panic) =
      some { id := 7, rcode := 2, fl := { qr := true, rd := true, ra := true }, question := some qDO0.question } := by
  decide
example : (serveGuarded (msgLen true) (msgLen false) {} { ecs := true } .udp qDO0 true (fun _ => .panic)).map (·.extra) =
    some [.opt { udp := 1232, doBit := false, options := [] } true] := by decide

-- non-vacuity: an unsigned NSEC3 in the authority is stripped for DO=0 on the byte path, kept (and flagged) for DO=1
private def nodata : Msg :=
  { id := 1, fl := { qr := true, ra := true }, question := some qDO0.question,
    ns := [.data .other 1 40 50, .data .nsec3 2 60 70] }
example : (newWEntry nodata).bind (fun e => (serveWireInto e qDO0 false).map (fun p => (p.1.ns, p.2.hasDnssec))) =
    some ([.data .other 1 40 50], false) := by decide
example : (newWEntry nodata).bind (fun e => (serveWireInto e qDO0 true).map (fun p => (p.1.ns.length, p.2.hasDnssec))) =
    some (2, true) := by decide
-- and the byte writer appends cookie + NSID, refusing an oversize UDP reply
example : (writeWire (fun _ => 100) { nsid := [110, 115] } (writerDecoded {} .udp qDO0 (setEdns0 {} false qDO0.opt))
    { nodata with ns := [] } {}).map (fun r => r.extra) =
    some [.opt { udp := 1232, options := [.srvCookie [1, 2, 3, 4, 5, 6, 7, 8], .srvNsid [110, 115]] } true] := by decide
example : writeWire (fun _ => 5000) {} (writerDecoded {} .udp qDO0 (setEdns0 {} false qDO0.opt)) nodata {} = none := by decide
-- ParseWire: a plain query with a well-formed subnet is admitted, a scope of 33 is not
example : (parseWire [0,7, 1,0, 0,1, 0,0, 0,0, 0,1, 1,97,0, 0,1, 0,1, 0, 0,41, 4,208, 0,0,0,0, 0,11, 0,8, 0,7, 0,1,24,0, 1,2,3]).isSome = true := by decide
example : parseWire [0,7, 1,0, 0,1, 0,0, 0,0, 0,1, 1,97,0, 0,1, 0,1, 0, 0,41, 4,208, 0,0,0,0, 0,11, 0,8, 0,7, 0,1,24,33, 1,2,3] = none := by decide

/-! ### end to end in the model: a cache hit, on bytes and as a message -/

/-- **A byte-path cache hit respects every clause**, with no assumption left
about the cache's half: for ANY admitted response `m`, any client `q` and its
writer, whatever `WriteWire` writes echoes the query, carries no OPT unless
asked, only allowed options (the entry's extended error being the only
non-server one), AD clear under the rule, no DNSSEC records for DO=0, and over
UDP fits the negotiated size. -/
theorem cache_hit_bytes_respects_client (L : Msg → Nat) (cfg : Cfg) (proto : Proto) (q : Query) (w : Writer)
    (hw : WriterFor cfg proto q w) (m : Msg) (e : WEntry) (b r : Msg) (info : WireInfo)
    (he : newWEntry m = some e) (hs : serveWireInto e q q.clientDO = some (b, info))
    (h : writeWire L cfg w b info = some r) :
    Echoes q r ∧
    (q.opt = none → ∀ rr ∈ r.extra, rr.isOpt = false) ∧
    (∀ o own, RR.opt o own ∈ r.extra → ∀ x ∈ o.options,
      Allowed cfg proto q (match e.ede with | some x => [x] | none => []) x) ∧
    ((q.cd = true ∨ (q.clientDO = false ∧ q.ad = false)) → r.fl.ad = false) ∧
    (q.clientDO = false → storedQtype e.stored ≠ typeRRSIG → ∀ rr ∈ r.answer ++ r.ns, rr.isDnssec = false) ∧
    (proto = .udp → L r ≤ udpLimit q) := by
  -- what the cache handed over
  obtain ⟨⟨e1, e2, e3, e4⟩, hiad, _⟩ := cacheWire_echoes e q q.clientDO b info hs
  have hce : ∃ ce, newCacheEntry m = some ce ∧ e.stored = ce.msg ∧ e.ede = ce.ede := by
    unfold newWEntry at he
    cases hn : newCacheEntry m with
    | none => rw [hn] at he; cases he
    | some ce =>
      rw [hn] at he
      simp only [Option.some.injEq] at he
      subst he
      exact ⟨ce, rfl, rfl, rfl⟩
  obtain ⟨ce, hce1, hst, hed⟩ := hce
  obtain ⟨hnoopt, hedecode, _⟩ := newCacheEntry_facts m ce hce1
  have hbx : ∀ rr ∈ b.extra, rr.isOpt = false := by
    -- the body's additional section is the stored one (stripped or not)
    have hsub : ∀ rr ∈ b.extra, rr ∈ e.stored.extra := by
      unfold serveWireInto wireBodyFor at hs
      split at hs
      · cases hs
      · rename_i bb flag hbf
        simp only [Option.some.injEq, Prod.mk.injEq] at hs
        obtain ⟨rfl, _⟩ := hs
        split at hbf
        · simp only [Option.some.injEq, Prod.mk.injEq] at hbf
          obtain ⟨rfl, _⟩ := hbf
          intro rr hrr; exact hrr
        · cases hstr : e.stripped with
          | none => rw [hstr] at hbf; cases hbf
          | some sb =>
            rw [hstr] at hbf
            simp only [Option.map_some, Option.some.injEq, Prod.mk.injEq] at hbf
            obtain ⟨rfl, _⟩ := hbf
            -- the stripped body is clearDNSSEC of the stored one
            unfold newWEntry at he
            rw [hce1] at he
            simp only [Option.some.injEq] at he
            subst he
            simp only at hstr
            split at hstr
            · simp only [Option.some.injEq] at hstr
              subst hstr
              intro rr hrr
              simp only at hrr
              rw [(clearDNSSEC_frame ce.msg).2.2.2.2.2] at hrr
              exact hrr
            · cases hstr
    intro rr hrr
    have := hsub rr hrr
    rw [hst] at this
    exact hnoopt rr this
  obtain ⟨w1, w2, w3, w4, _, w6, w7⟩ := writeWire_header L cfg w b r info h
  have hinfoede : info.ede = e.ede := by
    unfold serveWireInto at hs
    split at hs
    · cases hs
    · simp only [Option.some.injEq, Prod.mk.injEq] at hs
      obtain ⟨_, rfl⟩ := hs
      rfl
  refine ⟨⟨by rw [w1, e1], by rw [w2, e2], by rw [w3, e3], by rw [w4, e4]⟩, ?_, ?_, ?_, ?_, ?_⟩
  · intro hq; exact writeWire_no_opt L cfg proto q w hw b r info hq hbx h
  · have := writeWire_options L cfg proto q w hw b r info hbx
      (by intro x hx; rw [hinfoede, hed] at hx; exact hedecode x hx) h
    rw [hinfoede] at this
    exact this
  · intro hcl; exact writeWire_ad L cfg proto q w hw b r info hiad hcl h
  · intro hdo ht
    rw [hdo] at hs
    exact cache_hit_bytes_no_dnssec L cfg proto q w hw m e b info he hdo ht hs r h
  · intro hp; subst hp; exact writeWire_udp_bound L cfg q w hw b r info h

/-- **A message-path cache hit echoes the query through the edns handler** —
the hypothesis of `reply_echo` discharged for the cache (`ToMsg` installs the
client's own question, 0x20 spelling included, whatever spelling the entry was
admitted under). -/
theorem cache_hit_msg_echoes (L Lu : Msg → Nat) (c : Consts) (cfg : Cfg) (proto : Proto) (q : Query)
    (e : Entry) (r : Msg)
    (h : serveDNS L Lu c cfg proto q (fun q' => some (toMsg e q')) = some r) : Echoes q r ∨ BareReject q r :=
  reply_echo L Lu c cfg proto q _ (by intro q' m hm; simp only [Option.some.injEq] at hm; subst hm; exact toMsg_echoes e q') r h

/-- **Over DoQ every reply leaves with ID 0** and is otherwise what the handler wrote. -/
theorem doq_reply_id_zero (m : Msg) :
    (doqWriteMsg m).id = 0 ∧ (doqWriteMsg m).opcode = m.opcode ∧ (doqWriteMsg m).fl = m.fl ∧
    (doqWriteMsg m).question = m.question ∧ (doqWriteMsg m).rcode = m.rcode ∧
    (doqWriteMsg m).answer = m.answer ∧ (doqWriteMsg m).ns = m.ns ∧ (doqWriteMsg m).extra = m.extra := by
  simp [doqWriteMsg]

-- non-vacuity: an entry admitted under one spelling (name 7) answers a query in another (name 7 + 65536·5) with the client's
example : ((newCacheEntry nodata).map (fun e => (toMsg e { qDO0 with question := { qDO0.question with name := 7 + 65536 * 5 } }).question)) =
    some (some { qDO0.question with name := 7 + 65536 * 5 }) := by decide
-- non-vacuity: the byte-path hit of that entry for the DO=0 client with cookie: written, echoing, cookie appended
example : ((newWEntry nodata).bind (fun e => (serveWireInto e qDO0 qDO0.clientDO).bind (fun p =>
    writeWire (fun _ => 100) {} (writerWire {} .udp qDO0) p.1 p.2))).map (fun r => (r.id, r.ns, r.extra.length)) =
    some (7, [.data .other 1 40 50], 1) := by decide
example : (doqWriteMsg { nodata with id := 0x1234 }).id = 0 := rfl

/-! ### the byte-path alias chase -/

/-- **A composed alias chain asserts AD only when every segment was
authenticated and the client did not set CD**, tells the writer chain exactly
that (`info.ad` mirrors the body), and echoes the query. -/
theorem chase_ad (alias : Msg) (segAD : List Bool) (answers : List RR) (sd : Bool) (q : Query) :
    let p := composeChase alias segAD answers sd q
    p.2.ad = p.1.fl.ad ∧ Echoes q p.1 ∧ (q.cd = true → p.1.fl.ad = false) ∧
    (false ∈ segAD → p.1.fl.ad = false) ∧ (∀ rr ∈ p.1.extra, rr.isOpt = false) := by
  refine ⟨rfl, ⟨rfl, rfl, rfl, rfl⟩, ?_, ?_, by simp [composeChase]⟩
  · intro hcd; simp [composeChase, chaseAD, hcd]
  · intro hmem
    simp only [composeChase, chaseAD, Bool.and_eq_false_imp, List.all_eq_true, id]
    intro hall
    exact absurd (hall false hmem) (by simp)

/-- **AD discipline for a composed chain on bytes**: whatever the stored AD
bits, a client that set CD, or neither DO nor AD, never sees AD. -/
theorem chase_hit_ad_discipline (L : Msg → Nat) (cfg : Cfg) (proto : Proto) (q : Query) (w : Writer)
    (hw : WriterFor cfg proto q w) (alias : Msg) (segAD : List Bool) (answers : List RR) (sd : Bool) (r : Msg)
    (hcl : q.cd = true ∨ (q.clientDO = false ∧ q.ad = false))
    (h : writeWire L cfg w (composeChase alias segAD answers sd q).1 (composeChase alias segAD answers sd q).2 = some r) :
    r.fl.ad = false :=
  writeWire_ad L cfg proto q w hw _ r _ (chase_ad alias segAD answers sd q).1 hcl h

-- non-vacuity: a validated alias (AD=1) onto an insecure target (AD=0), asked by a client with neither DO nor AD
example : ((composeChase { nodata with fl := { qr := true, ad := true } } [true, false] [.data .other 1 20 30, .data .other 2 20 30] false qDO0).1.fl.ad,
           (composeChase { nodata with fl := { qr := true, ad := true } } [true, true] [] false qDO0).1.fl.ad) = (false, true) := by decide

/-! ### the rate limiter ahead of edns -/

/-- **An unsupported EDNS version is never answered BADCOOKIE**: the rate
limiter's cookie exchange leaves it alone, and if the query is let through the
edns handler answers BADVERS (`badvers_reply`). BADCOOKIE itself is only sent
over UDP to a version-0 client that did send a cookie. -/
theorem ratelimit_leaves_bad_version (proto : Proto) (q : Query) (known same allow : Bool) :
    (∀ o, q.opt = some o → o.version ≠ 0 → ratelimitStep proto q known same allow ≠ .badcookie) ∧
    (ratelimitStep proto q known same allow = .badcookie →
      proto = .udp ∧ ∃ o, q.opt = some o ∧ o.version = 0 ∧ (clientCookie o.options).isSome = true) := by
  constructor
  · intro o ho hv
    simp [ratelimitStep, ho, hv]
    split <;> simp
  · intro h
    unfold ratelimitStep at h
    cases ho : q.opt with
    | none => rw [ho] at h; simp only at h; split at h <;> cases h
    | some o =>
      rw [ho] at h
      simp only at h
      split at h
      · rename_i hc
        split at h
        · cases h
        · split at h
          · rename_i hp
            exact ⟨by simpa using hp, o, rfl, hc.1, hc.2⟩
          · split at h <;> cases h
      · split at h <;> cases h

example : ratelimitStep .udp { qDO0 with opt := some { udp := 1232, version := 1, options := [.raw codeCookie [1,2,3,4,5,6,7,8]] } } true false true = .next ∧
    ratelimitStep .udp qDO0 true false true = .badcookie := by decide

/-! ### bodies the cache synthesises itself -/

/-- **On bytes AD can only be cleared, never set**: whatever `WireInfo` says, a
body whose AD bit is clear reaches the client with AD clear. -/
theorem writeWire_ad_of_body (L : Msg → Nat) (cfg : Cfg) (w : Writer) (body r : Msg) (info : WireInfo)
    (hb : body.fl.ad = false) (h : writeWire L cfg w body info = some r) : r.fl.ad = false := by
  have key : (wireBody w body info).fl.ad = false := by
    unfold wireBody; split <;> simp [hb]
  rcases (writeWire_some L cfg w body r info h).2.1 with ⟨_, rfl⟩ | ⟨_, rfl⟩
  · exact key
  · exact key

/-- **A cached-failure hit on the byte route respects the client**: the
synthesised SERVFAIL echoes the query, never carries AD (whatever AD / CD the
client set), has no OPT for a non-EDNS client, and only allowed options
(the cached-error EDE being the one non-server option). -/
theorem failure_hit_bytes_respects_client (L : Msg → Nat) (cfg : Cfg) (proto : Proto) (q : Query) (w : Writer)
    (hw : WriterFor cfg proto q w) (ede : EOpt) (hede : ede.code = codeEDE) (r : Msg)
    (h : writeWire L cfg w (failureWire q ede).1 (failureWire q ede).2 = some r) :
    Echoes q r ∧ r.rcode = rcodeServFail ∧ r.fl.ad = false ∧ r.answer = [] ∧ r.ns = [] ∧
    (q.opt = none → ∀ rr ∈ r.extra, rr.isOpt = false) ∧
    (∀ o own, RR.opt o own ∈ r.extra → ∀ x ∈ o.options, Allowed cfg proto q [ede] x) := by
  obtain ⟨w1, w2, w3, w4, w5, w6, w7⟩ := writeWire_header L cfg w _ r _ h
  have hbx : ∀ rr ∈ (failureWire q ede).1.extra, rr.isOpt = false := by simp [failureWire]
  refine ⟨⟨by rw [w1]; rfl, by rw [w2]; rfl, by rw [w3]; rfl, by rw [w4]; rfl⟩, by rw [w5]; rfl,
    writeWire_ad_of_body L cfg w _ r _ rfl h, by rw [w6]; rfl, by rw [w7]; rfl, ?_, ?_⟩
  · intro hq; exact writeWire_no_opt L cfg proto q w hw _ r _ hq hbx h
  · have := writeWire_options L cfg proto q w hw _ r _ hbx
      (by intro e he; simp only [failureWire, Option.some.injEq] at he; rw [← he]; exact hede) h
    simpa [failureWire] using this

-- non-vacuity: a CD=1, AD=1 client hitting a cached failure gets SERVFAIL without AD
example : (writeWire (fun _ => 60) {} (writerWire {} .udp { qDO0 with ad := true, cd := true })
    (failureWire { qDO0 with ad := true, cd := true } (.raw codeEDE [0, 13])).1
    (failureWire { qDO0 with ad := true, cd := true } (.raw codeEDE [0, 13])).2).map (fun r => (r.rcode, r.fl.ad, r.fl.cd)) =
    some (2, false, true) := by decide

/-! ### the cache handler's plain hit, whichever route it takes -/

/-- **A plain cache hit respects the client on either route.** Whatever the
cache decides (byte route or message route, by writer capability, body
availability, size, or a late `WriteWire` fallback), the reply echoes the
query, has AD clear when the client set CD or neither DO nor AD, and carries no
OPT for a client that sent none. -/
theorem cacheHit_respects_client (L Lu Lp : Msg → Nat) (c : Consts) (cfg : Cfg) (secretLen : Nat) (proto : Proto)
    (q : Query) (w : Writer) (hw : WriterFor cfg proto q w) (ready : Bool) (m r : Msg)
    (h : cacheHit L Lu Lp cfg secretLen w ready m (normalised q (setEdns0 c cfg.ecs q.opt)) = some r) :
    Echoes q r ∧
    ((q.cd = true ∨ (q.clientDO = false ∧ q.ad = false)) → r.fl.ad = false) ∧
    (q.opt = none → ∀ rr ∈ r.extra, rr.isOpt = false) := by
  -- the message route
  have hmsg : ∀ e : Entry, r = writeMsg L Lu cfg w (toMsg e (normalised q (setEdns0 c cfg.ecs q.opt))) →
      Echoes q r ∧ ((q.cd = true ∨ (q.clientDO = false ∧ q.ad = false)) → r.fl.ad = false) ∧
      (q.opt = none → ∀ rr ∈ r.extra, rr.isOpt = false) := by
    intro e hr
    subst hr
    obtain ⟨e1, e2, e3, e4⟩ := toMsg_echoes e (normalised q (setEdns0 c cfg.ecs q.opt))
    obtain ⟨w1, w2, w3, w4, _⟩ := writeMsg_header L Lu cfg w (toMsg e (normalised q (setEdns0 c cfg.ecs q.opt)))
    exact ⟨⟨by rw [w1, e1]; rfl, by rw [w2, e2]; rfl, by rw [w3, e3], by rw [w4, e4]; rfl⟩,
      fun hcl => ad_discipline L Lu cfg proto q w hw _ hcl,
      fun hq => writeMsg_no_opt L Lu cfg proto q w hw _ hq⟩
  unfold cacheHit at h
  cases hwe : newWEntry m with
  | none => rw [hwe] at h; simp at h
  | some we =>
    cases hce : newCacheEntry m with
    | none => rw [hwe, hce] at h; simp at h
    | some e =>
      rw [hwe, hce] at h
      simp only at h
      cases hcp : wireReady cfg secretLen w ready with
      | none => rw [hcp] at h; simp only [Option.some.injEq] at h; exact hmsg e h.symm
      | some cp =>
        rw [hcp] at h
        simp only at h
        cases hs : serveWireInto we (normalised q (setEdns0 c cfg.ecs q.opt)) cp.do_ with
        | none => rw [hs] at h; simp only [Option.some.injEq] at h; exact hmsg e h.symm
        | some p =>
          obtain ⟨b, info⟩ := p
          rw [hs] at h
          simp only at h
          split at h
          · simp only [Option.some.injEq] at h; exact hmsg e h.symm
          · split at h
            · rename_i r' hwr
              simp only [Option.some.injEq] at h
              subst h
              -- the byte route
              obtain ⟨⟨e1, e2, e3, e4⟩, hiad, _⟩ := cacheWire_echoes we _ cp.do_ b info hs
              obtain ⟨w1, w2, w3, w4, _⟩ := writeWire_header _ cfg w b r' info hwr
              have hbx : ∀ rr ∈ b.extra, rr.isOpt = false := by
                obtain ⟨hnoopt, _, _⟩ := newCacheEntry_facts m e hce
                have hst : we.stored = e.msg ∧ (∀ sb, we.stripped = some sb → sb.extra = e.msg.extra) := by
                  unfold newWEntry at hwe
                  rw [hce] at hwe
                  simp only [Option.some.injEq] at hwe
                  subst hwe
                  refine ⟨rfl, ?_⟩
                  intro sb hsb
                  simp only at hsb
                  split at hsb
                  · simp only [Option.some.injEq] at hsb
                    subst hsb
                    exact (clearDNSSEC_frame e.msg).2.2.2.2.2
                  · cases hsb
                unfold serveWireInto wireBodyFor at hs
                split at hs
                · cases hs
                · rename_i bb flag hbf
                  simp only [Option.some.injEq, Prod.mk.injEq] at hs
                  obtain ⟨rfl, _⟩ := hs
                  split at hbf
                  · simp only [Option.some.injEq, Prod.mk.injEq] at hbf
                    obtain ⟨rfl, _⟩ := hbf
                    intro rr hrr; simp only at hrr; rw [hst.1] at hrr; exact hnoopt rr hrr
                  · cases hstr : we.stripped with
                    | none => rw [hstr] at hbf; cases hbf
                    | some sb =>
                      rw [hstr] at hbf
                      simp only [Option.map_some, Option.some.injEq, Prod.mk.injEq] at hbf
                      obtain ⟨rfl, _⟩ := hbf
                      intro rr hrr; simp only at hrr; rw [hst.2 _ hstr] at hrr; exact hnoopt rr hrr
              exact ⟨⟨by rw [w1, e1]; rfl, by rw [w2, e2]; rfl, by rw [w3, e3], by rw [w4, e4]; rfl⟩,
                fun hcl => writeWire_ad _ cfg proto q w hw b r' info hiad hcl hwr,
                fun hq => writeWire_no_opt _ cfg proto q w hw b r' info hq hbx hwr⟩
            · simp only [Option.some.injEq] at h; exact hmsg e h.symm

-- non-vacuity: the same entry served on the byte route (fits) and on the message route (too large for UDP: truncated)
example : ((cacheHit (msgLen true) (msgLen false) (fun _ => 90) {} 0 (writerWire {} .udp qDO0) true nodata
              (normalised qDO0 (setEdns0 {} false qDO0.opt))).map (fun r => (r.fl.tc, r.ns.length)),
           (cacheHit (fun _ => 5000) (fun _ => 5000) (fun _ => 5000) {} 0 (writerWire {} .udp qDO0) true nodata
              (normalised qDO0 (setEdns0 {} false qDO0.opt))).map (fun r => (r.fl.tc, r.ns.length))) =
    (some (false, 1), some (true, 0)) := by decide

/-! ### failover, DoH -/

theorem failoverPick_echoes (q : Query) (m : Msg) (hm : Echoes q m) :
    ∀ (l : List (Option Msg)) (ff : Option Msg),
      (∀ r, some r ∈ l → r.opcode = m.opcode ∧ r.fl.qr = true ∧ r.question = m.question) →
      (∀ f, ff = some f → Echoes q f) → Echoes q (failoverPick m l ff) := by
  intro l
  induction l with
  | nil =>
    intro ff _ hff
    unfold failoverPick
    cases ff with
    | none => exact hm
    | some f => exact hff f rfl
  | cons x t ih =>
    intro ff hl hff
    cases x with
    | none =>
      unfold failoverPick
      exact ih ff (fun r hr => hl r (List.mem_cons_of_mem _ hr)) hff
    | some r =>
      obtain ⟨h1, h2, h3⟩ := hl r List.mem_cons_self
      obtain ⟨m1, m2, _, m4⟩ := hm
      have hr' : Echoes q { r with id := m.id, fl := { r.fl with cd := m.fl.cd } } :=
        ⟨m1, by simp only; rw [h1, m2], h2, by simp only; rw [h3, m4]⟩
      unfold failoverPick
      simp only
      split
      · apply ih _ (fun r hr => hl r (List.mem_cons_of_mem _ hr))
        intro f hf
        cases ff with
        | none => simp only [Option.some.injEq] at hf; subst hf; exact hr'
        | some f0 => simp only [Option.some.injEq] at hf; subst hf; exact hff _ rfl
      · exact hr'

/-- **Whatever failover hands on echoes the client's query**: the downstream
SERVFAIL itself, a fallback server's answer, or — when every fallback also
failed — the retained failure reply; each is stamped with the ID the request
carried (the fallback exchange's own random ID never leaves). Fallback answers
are assumed to answer the question failover asked (the client library checks
that). -/
theorem failover_echoes (q : Query) (m : Msg) (hm : Echoes q m) (l : List (Option Msg))
    (hl : ∀ r, some r ∈ l → r.opcode = m.opcode ∧ r.fl.qr = true ∧ r.question = m.question) :
    Echoes q (failover m l) := by
  unfold failover
  split
  · exact hm
  · split
    · exact hm
    · exact failoverPick_echoes q m hm l none hl (by intro f hf; cases hf)

/-- **DoH wire format: the reply carries the ID the handler wrote** (GET and POST alike) — with `reply_echo`, the query's. -/
theorem doh_reply_keeps_id (m : Msg) : (dohWireReply m).id = m.id ∧ dohWireReply m = m := ⟨rfl, rfl⟩

-- non-vacuity: both fallbacks answer SERVFAIL under their own IDs: the client still gets its own ID
example : (failover { nodata with id := 7, rcode := 2, fl := { qr := true, rd := true } }
    [some { nodata with id := 4242, rcode := 2 }, none, some { nodata with id := 999, rcode := 2 }]).id = 7 := by decide
example : ((failover { nodata with id := 7, rcode := 2, fl := { qr := true, rd := true } }
    [some { nodata with id := 4242, rcode := 2 }, some { nodata with id := 999, rcode := 0 }]).rcode,
   (failover { nodata with id := 7, rcode := 2, fl := { qr := true, rd := false } } [some { nodata with id := 1, rcode := 0 }]).rcode) = (0, 2) := by decide

/-- **A plain UDP cache hit stays within the negotiated size on either route.**
On the byte route the datagram is the packed body (`Lp`) plus the exact
encoding of the appended OPT — every option of it, the entry's extended error
included — and that sum is within `max(512, min(advertised, 1232))`; on the
message route the reply is within the bound or truncated to question + OPT. -/
theorem cacheHit_udp_bound (L Lu Lp : Msg → Nat) (hL : ∀ m, L m ≤ Lu m) (c : Consts) (cfg : Cfg) (secretLen : Nat)
    (q : Query) (w : Writer) (hw : WriterFor cfg .udp q w) (ready : Bool) (m r : Msg)
    (h : cacheHit L Lu Lp cfg secretLen w ready m (normalised q (setEdns0 c cfg.ecs q.opt)) = some r) :
    (∃ b, Lp b + ((r.extra.filter RR.isOpt).map (rrLen true)).sum ≤ udpLimit q) ∨
    L r ≤ udpLimit q ∨
    (r.fl.tc = true ∧ r.answer = [] ∧ r.ns = [] ∧ ∀ rr ∈ r.extra, rr.isOpt = true) := by
  have hmsg : ∀ e : Entry, r = writeMsg L Lu cfg w (toMsg e (normalised q (setEdns0 c cfg.ecs q.opt))) →
      (∃ b, Lp b + ((r.extra.filter RR.isOpt).map (rrLen true)).sum ≤ udpLimit q) ∨
      L r ≤ udpLimit q ∨ (r.fl.tc = true ∧ r.answer = [] ∧ r.ns = [] ∧ ∀ rr ∈ r.extra, rr.isOpt = true) := by
    intro e hr
    subst hr
    exact Or.inr (udp_size_bound L Lu hL cfg q w hw _)
  unfold cacheHit at h
  cases hwe : newWEntry m with
  | none => rw [hwe] at h; simp at h
  | some we =>
    cases hce : newCacheEntry m with
    | none => rw [hwe, hce] at h; simp at h
    | some e =>
      rw [hwe, hce] at h
      simp only at h
      cases hcp : wireReady cfg secretLen w ready with
      | none => rw [hcp] at h; simp only [Option.some.injEq] at h; exact hmsg e h.symm
      | some cp =>
        rw [hcp] at h
        simp only at h
        cases hs : serveWireInto we (normalised q (setEdns0 c cfg.ecs q.opt)) cp.do_ with
        | none => rw [hs] at h; simp only [Option.some.injEq] at h; exact hmsg e h.symm
        | some p =>
          obtain ⟨b, info⟩ := p
          rw [hs] at h
          simp only at h
          split at h
          · simp only [Option.some.injEq] at h; exact hmsg e h.symm
          · split at h
            · rename_i r' hwr
              simp only [Option.some.injEq] at h
              subst h
              left
              exact ⟨b, Nat.le_trans ((writeWire_some _ cfg w b r' info hwr).2.2 hw.proto_eq) (hw.size_udp rfl)⟩
            · simp only [Option.some.injEq] at h; exact hmsg e h.symm

-- non-vacuity: an entry with an extended error whose body + OPT fits 512 but + EDE does not: the byte route declines, the message route truncates
example : ((cacheHit (fun x => 480 + ((x.extra.filter RR.isOpt).map (rrLen true)).sum + x.answer.length * 20) (fun _ => 5000) (fun _ => 480) {} 0
      (writerWire {} .udp { qDO0 with opt := some { udp := 512 } }) true
      { nodata with answer := [.data .other 1 20 20], ns := [], extra := [.opt { udp := 1232, options := [.raw codeEDE [0, 3, 115, 116, 97, 108, 101, 115, 116, 97, 108, 101, 115, 116, 97, 108, 101, 115, 116, 97]] } false] }
      (normalised { qDO0 with opt := some { udp := 512 } } (setEdns0 {} false (some { udp := 512 })))).map (fun r => (r.fl.tc, r.answer.length))) =
    some (true, 0) := by decide

/-- **The cache's byte-route alias chase obeys the AD rule and echoes the
query**, whatever AD bits the alias and the target were admitted with. -/
theorem chaseHit_respects_client (cfg : Cfg) (secretLen : Nat) (proto : Proto) (q q' : Query) (w : Writer)
    (hw : WriterFor cfg proto q w) (hq : q'.id = q.id ∧ q'.opcode = q.opcode ∧ q'.question = q.question ∧ q'.cd = q.cd)
    (ready : Bool) (alias target r : Msg)
    (h : chaseHit cfg secretLen w ready alias target q' = some r) :
    Echoes q r ∧ ((q.cd = true ∨ (q.clientDO = false ∧ q.ad = false)) → r.fl.ad = false) := by
  unfold chaseHit at h
  cases ha : newWEntry alias with
  | none => rw [ha] at h; simp at h
  | some a =>
    cases ht : newWEntry target with
    | none => rw [ha, ht] at h; simp at h
    | some t =>
      rw [ha, ht] at h
      simp only at h
      cases hcp : wireReady cfg secretLen w ready with
      | none => rw [hcp] at h; simp at h
      | some cp =>
        rw [hcp] at h
        simp only at h
        cases hab : wireBodyFor a cp.do_ with
        | none => rw [hab] at h; simp at h
        | some pa =>
          cases htb : wireBodyFor t cp.do_ with
          | none => rw [hab, htb] at h; simp at h
          | some pt =>
            obtain ⟨ab, af⟩ := pa
            obtain ⟨tb, tf⟩ := pt
            rw [hab, htb] at h
            simp only at h
            obtain ⟨w1, w2, w3, w4, _⟩ := writeWire_header _ cfg w _ r _ h
            obtain ⟨h1, h2, h3, _⟩ := hq
            refine ⟨⟨by rw [w1]; exact h1, by rw [w2]; exact h2, by rw [w3]; rfl, by rw [w4]; simp [composeChase, h3]⟩, ?_⟩
            intro hcl
            exact writeWire_ad _ cfg proto q w hw _ r _ rfl hcl h

-- non-vacuity: a validated alias (AD=1) over an insecure target (AD=0), asked wire-born by a DO=1 client: composed, AD clear
example : (chaseHit {} 0 (writerWire {} .tcp { qDO0 with opt := some { udp := 1232, doBit := true } }) true
    { nodata with fl := { qr := true, ad := true, ra := true }, ns := [], answer := [.data .cname 9 20 20] }
    { nodata with fl := { qr := true, ra := true }, ns := [], answer := [.data .other 1 20 20] }
    (normalised { qDO0 with opt := some { udp := 1232, doBit := true } } (setEdns0 {} false (some { udp := 1232, doBit := true })))).map
      (fun r => (r.fl.ad, r.answer)) = some (false, [.data .cname 9 20 20, .data .other 1 20 20]) := by decide

/-! ### the AS112 empty zones -/

/-- **An AS112 answer echoes the whole question** — name, type and CLASS as the
client sent them — with ID and opcode, on the wire body as on the decoded one;
through the edns handler every clause of the shaping theorems then applies. -/
theorem as112_echoes (L Lu : Msg → Nat) (c : Consts) (cfg : Cfg) (proto : Proto) (q : Query) (r : Msg)
    (h : serveDNS L Lu c cfg proto q (fun q' => some (as112Reply q')) = some r) :
    Echoes q r ∨ BareReject q r :=
  reply_echo L Lu c cfg proto q _
    (by intro q' m hm; simp only [Option.some.injEq] at hm; subst hm; exact ⟨rfl, rfl, rfl, rfl⟩) r h

-- non-vacuity: a CH-class query (the class rides in the opaque question) for a private reverse name
example : ((serveDNS (msgLen true) (msgLen false) {} {} .udp
    { qDO0 with question := { name := 7 + 4294967296 * 3, qtype := 12, qlen := 30 } } (fun q' => some (as112Reply q'))).map
      (fun r => (r.rcode, r.question, r.fl.aa))) = some (3, some { name := 7 + 4294967296 * 3, qtype := 12, qlen := 30 }, true) := by decide

/-! ### the rate limiter's BADCOOKIE, compared with the real handler through `edns ratelimit` -/

/-- **BADCOOKIE respects the client**: it echoes the query, is only ever sent
to a client that sent an OPT (with a cookie, over UDP, EDNS version 0), and its
OPT carries COOKIE-coded options only — the client's subnet, keepalive, NSID
request, padding and unknown options never come back. -/
theorem ratelimit_badcookie_reply (L Lu : Msg → Nat) (c : Consts) (cfg : Cfg) (proto : Proto) (q : Query) (wb : Bool)
    (known same allow : Bool) (next : Query → Outcome)
    (hs : ratelimitStep proto q known same allow = .badcookie) :
    ratelimitServe L Lu c cfg proto q wb known same allow next = some (badCookieReply q) ∧
    Echoes q (badCookieReply q) ∧ (badCookieReply q).rcode = rcodeBadCookie ∧ q.opt ≠ none ∧
    (∀ o own, RR.opt o own ∈ (badCookieReply q).extra → ∀ x ∈ o.options, x.code = codeCookie) := by
  obtain ⟨_, o, ho, _, _⟩ := (ratelimit_leaves_bad_version proto q known same allow).2 hs
  refine ⟨by simp [ratelimitServe, hs], ?_, rfl, by rw [ho]; simp, ?_⟩
  · simp [Echoes, badCookieReply, cancelWithRcode, clientView]
  · intro o' own ho' x hx
    simp only [badCookieReply, cancelWithRcode, clientView, if_true, ho, Option.map_some, List.mem_singleton,
      RR.opt.injEq] at ho'
    obtain ⟨rfl, _⟩ := ho'
    simp only [List.mem_filter, beq_iff_eq] at hx
    exact hx.2

-- non-vacuity: cookie + subnet + unknown option against a remembered other cookie: BADCOOKIE with the completed cookie alone
example : (ratelimitServe (msgLen true) (msgLen false) {} {} .udp qDO0 false true false true (fun _ => .done none)).map
    (fun r => (r.rcode, r.extra)) =
    some (23, [.opt { udp := 4096, options := [.srvCookie [1, 2, 3, 4, 5, 6, 7, 8]] } true]) := by decide

end SdnsVerif.Props.C06
