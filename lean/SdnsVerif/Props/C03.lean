import SdnsVerif.Model.CacheKey
import SdnsVerif.Lemmas.CacheKey
import SdnsVerif.Gen.C03
/-!
# C03 — a cached response only answers the exact question and audience it was stored for

Property theorems only (helper lemmas live in `Lemmas/CacheKey.lean`).  Each of
them quantifies over an ARBITRARY hash `H : Bytes → UInt64` and an ARBITRARY
store: whatever sequence of stores, refreshes, purges and evictions produced the
store, and whatever two preimages collide under `H`, the statement holds.
-/
namespace SdnsVerif.Props.C03
open SdnsVerif.Model.CacheKey SdnsVerif.Lemmas.CacheKey

/-- **The identity of the property.**  Entry `e` was admitted for the question
`(name, qtype, qclass)` in CD partition `cd` for the audience `scope`
(`normalizeKeyScope`: /0 and "no scope" are the shared audience, host bits ignored).
Names compare after lowering ASCII `A–Z` and nothing else. -/
def Identical (e : Entry) (name : Bytes) (qtype qclass : UInt16) (cd : Bool) (scope : Scope) : Prop :=
  foldName e.name = foldName name ∧ e.qtype = qtype ∧ e.qclass = qclass ∧ e.cd = cd ∧
    e.scope = normalizeKeyScope scope

/-! ## Folding -/

/-- **The fold is ASCII only.** `A–Z` move to `a–z`; every other octet — all of
0x80–0xFF in particular, so no Unicode case pair — is left alone. -/
theorem fold_is_ascii_only (b : UInt8) :
    (0x41 ≤ b ∧ b ≤ 0x5A → foldByte b = b + 0x20) ∧ (¬(0x41 ≤ b ∧ b ≤ 0x5A) → foldByte b = b) := by
  unfold foldByte
  constructor <;> intro h <;> simp [h]

/-- The name comparator of the verifiers is equality after that fold: same
length, and octet by octet equal up to ASCII case. -/
theorem equalNameASCIIFold_iff_fold (a b : Bytes) :
    equalNameASCIIFold a b = true ↔ foldName a = foldName b :=
  equalNameASCIIFold_iff a b

-- non-vacuity / no Unicode folding: KELVIN SIGN (e2 84 aa) is not `k`, `É` is not `é`, `[` is not `{`
example : equalNameASCIIFold [0xE2, 0x84, 0xAA, 0x2E] [0x6B, 0x2E] = false := by decide
example : equalNameASCIIFold [0xC3, 0x89, 0x2E] [0xC3, 0xA9, 0x2E] = false := by decide
example : equalNameASCIIFold [0x5B, 0x2E] [0x7B, 0x2E] = false := by decide
example : equalNameASCIIFold [0x4B, 0x2E] [0x6B, 0x2E] = true := by decide

/-! ## Wire and presentation keys are the same key -/

/-- **Names are keyed identically as wire labels and as presentation text.**
For a well-formed uncompressed wire name `w` (all label octets 0–255, specials,
non-printables) whose decoder spelling is `p`, `KeyWire` hashes byte for byte the
preimage `Key`/`KeyString` hash for `p` — so under ANY hash the two keys are equal. -/
theorem wire_pres_preimage_eq (w p : Bytes) (qtype qclass : UInt16) (cd : Bool)
    (h : present w = some p) :
    keyWirePreimage w qtype qclass cd = some (keyPreimage p qtype qclass cd) :=
  keyWire_eq_of_present w p qtype qclass cd h

/-- … and with the ECS extension (`KeyWireWithPrefix` vs `KeyWithPrefix`), for every scope. -/
theorem wire_pres_preimage_eq_scoped (w p : Bytes) (qtype qclass : UInt16) (cd : Bool) (scope : Scope)
    (h : present w = some p) :
    keyWireWithPrefixPreimage w qtype qclass cd scope = some (keyWithPrefixPreimage p qtype qclass cd scope) := by
  cases scope with
  | none => exact keyWire_eq_of_present w p qtype qclass cd h
  | some s =>
    unfold keyWireWithPrefixPreimage keyWithPrefixPreimage
    rw [keyWire_eq_of_present w p qtype qclass cd h]
    rfl

/-- `KeyWire` refuses exactly the names that have no decoder spelling (malformed,
compressed, over 255 octets, trailing bytes). -/
theorem keyWire_defined_iff (w : Bytes) (qtype qclass : UInt16) (cd : Bool) :
    (keyWirePreimage w qtype qclass cd).isSome = (present w).isSome :=
  present_isSome_iff w qtype qclass cd

-- non-vacuity: "A\.b" + 0xFF label, mixed case, escapes: wire 04 41 2e 62 ff 00
example : present [0x04, 0x41, 0x2E, 0x62, 0xFF, 0x00] =
    some [0x41, 0x5C, 0x2E, 0x62, 0x5C, 0x32, 0x35, 0x35, 0x2E] := by decide
example : keyWirePreimage [0x04, 0x41, 0x2E, 0x62, 0xFF, 0x00] 1 1 true =
    some (keyPreimage [0x41, 0x5C, 0x2E, 0x62, 0x5C, 0x32, 0x35, 0x35, 0x2E] 1 1 true) :=
  wire_pres_preimage_eq _ _ 1 1 true (by decide)

/-- **`WireNameEqualsPresentation` is exact**: true iff the wire name is well
formed and its decoder spelling equals the stored name up to ASCII case. -/
theorem wireNameEq_iff (w name : Bytes) :
    wireNameEqualsPresentation w name = true ↔
      ∃ p, present w = some p ∧ foldName p = foldName name :=
  wireNameEq_iff' w name

/-! ## Every exact-answer route serves only the identical entry -/

/-- **`Store.LookupByKeyVerified` / the `handleCacheHit` chokepoint**, for ANY key
the probe used — the question's own, or one another question collides on. -/
theorem route_identity_lookupByKeyVerified (st : Store) (key : UInt64) (want : CacheKey) (e : Entry)
    (h : lookupByKeyVerified st key want = some e) :
    st key = some e ∧ Identical e want.name want.qtype want.qclass want.cd want.scope := by
  unfold lookupByKeyVerified at h
  cases hs : st key with
  | none => simp [hs] at h
  | some e' =>
    simp only [hs] at h
    by_cases hm : entryMatchesKey e' want = true
    · simp only [hm, if_true, Option.some.injEq] at h
      subst h
      obtain ⟨⟨_, h2, h3, h4, h5⟩, h6⟩ := (entryMatchesKey_iff _ _).mp hm
      exact ⟨rfl, h6, h2, h3, h4, h5⟩
    · simp [hm] at h

/-- **`Store.Lookup` / `Get` / `GetWithContext`** (resolver-internal DS/DNSKEY
lookups): only the shared entry of exactly this question and CD partition. -/
theorem route_identity_storeLookup (H : Bytes → UInt64) (st : Store) (name : Bytes) (qtype qclass : UInt16)
    (cd : Bool) (e : Entry) (h : storeLookup H st name qtype qclass cd = some e) :
    Identical e name qtype qclass cd none :=
  (route_identity_lookupByKeyVerified st _ _ e h).2

/-- **Scoped stage** (`scopedLookup` + chokepoint): the entry served is identical
to the question for one of the scopes probed — a prefix of the client's own
source prefix of length 1 … client bits. -/
theorem route_identity_scopedHit (H : Bytes → UInt64) (st : Store) (name : Bytes) (qtype qclass : UInt16)
    (cd : Bool) (client : Scope) (e : Entry) (h : scopedHit H st name qtype qclass cd client = some e) :
    ∃ c b, client = some c ∧ 1 ≤ b ∧ b ≤ c.bits ∧ Identical e name qtype qclass cd (some (c.withBits b)) := by
  unfold scopedHit scopedLookup at h
  cases client with
  | none => simp at h
  | some c =>
    simp only at h
    cases hp : scopedProbe H st name qtype qclass cd c c.bits with
    | none => simp [hp] at h
    | some r =>
      obtain ⟨e', key, sc⟩ := r
      simp only [hp] at h
      by_cases hm : entryMatchesKey e' ⟨name, qtype, qclass, cd, some sc⟩ = true
      · simp only [hm, if_true, Option.some.injEq] at h
        subst h
        obtain ⟨b, hb1, hb2, hsc, _, _⟩ := scopedProbe_spec H st name qtype qclass cd c c.bits e' key sc hp
        obtain ⟨⟨_, h2, h3, h4, h5⟩, h6⟩ := (entryMatchesKey_iff _ _).mp hm
        subst hsc
        exact ⟨c, b, rfl, hb1, hb2, h6, h2, h3, h4, h5⟩
      · simp [hm] at h

/-- **Decoded path of `Cache.ServeDNS`** (scoped probe, then the shared fallback). -/
theorem route_identity_decodedHit (H : Bytes → UInt64) (st : Store) (name : Bytes) (qtype qclass : UInt16)
    (cd : Bool) (client : Scope) (e : Entry) (h : decodedHit H st name qtype qclass cd client = some e) :
    Identical e name qtype qclass cd none ∨
      ∃ c b, client = some c ∧ 1 ≤ b ∧ b ≤ c.bits ∧ Identical e name qtype qclass cd (some (c.withBits b)) := by
  unfold decodedHit at h
  cases hs : scopedHit H st name qtype qclass cd client with
  | some e' =>
    simp only [hs, Option.some.injEq] at h
    subst h
    exact Or.inr (route_identity_scopedHit H st name qtype qclass cd client e' hs)
  | none =>
    simp only [hs] at h
    exact Or.inl (route_identity_storeLookup H st name qtype qclass cd e h)

/-- **Wire fast path** (`serveWire`'s exact stage, and each hop of the
cache-contained chase): only the shared entry of the question the wire bytes spell. -/
theorem route_identity_wireHit (H : Bytes → UInt64) (st : Store) (w : Bytes) (qtype qclass : UInt16)
    (cd : Bool) (e : Entry) (h : wireHit H st w qtype qclass cd = some e) :
    ∃ p, present w = some p ∧ Identical e p qtype qclass cd none := by
  unfold wireHit at h
  cases hk : keyWirePreimage w qtype qclass cd with
  | none => simp [hk] at h
  | some pre =>
    simp only [hk] at h
    cases hs : st (H pre) with
    | none => simp [hs] at h
    | some e' =>
      simp only [hs] at h
      by_cases hm : entryMatchesWireQuestion e' w qtype qclass cd = true
      · simp only [hm, if_true, Option.some.injEq] at h
        subst h
        obtain ⟨⟨_, h2, h3, h4, h5⟩, p, hp, hf⟩ := (entryMatchesWireQuestion_iff _ _ _ _ _).mp hm
        exact ⟨p, hp, hf.symm, h2, h3, h4, by simpa [normalizeKeyScope] using h5⟩
      · simp [hm] at h

/-- consecutive entries of a composed alias chain: the successor is the shared
entry of the question (`target of the predecessor`, same type/class/CD). -/
def Linked (qtype qclass : UInt16) (cd : Bool) : List Entry → Prop
  | a :: b :: rest =>
    (∃ target p, a.alias = some target ∧ present target = some p ∧ Identical b p qtype qclass cd none) ∧
      Linked qtype qclass cd (b :: rest)
  | _ => True

/-- **Cache-contained alias chase** (`collectWireChase`): the chain starts at the
verified alias entry and every hop is verified against the full preimage of the
question its predecessor's CNAME names. -/
theorem route_identity_chase (H : Bytes → UInt64) (st : Store) (reqName : Bytes) (qtype qclass : UInt16) (cd : Bool) :
    ∀ (fuel : Nat) (e : Entry) (visited : List UInt64) (es : List Entry),
      collectWireChase H st reqName qtype qclass cd fuel e visited = some es →
      es.head? = some e ∧ Linked qtype qclass cd es := by
  intro fuel
  induction fuel with
  | zero => intro e v es h; simp [collectWireChase] at h
  | succ n ih =>
    intro e v es h
    unfold collectWireChase at h
    cases ha : e.alias with
    | none =>
      simp only [ha, Option.some.injEq] at h
      subst h
      exact ⟨rfl, trivial⟩
    | some target =>
      simp only [ha] at h
      split at h
      · cases h
      · cases hk : keyWirePreimage target qtype qclass cd with
        | none => simp [hk] at h
        | some pre =>
          simp only [hk] at h
          split at h
          · cases h
          · cases hs : st (H pre) with
            | none => simp [hs] at h
            | some next =>
              simp only [hs] at h
              by_cases hm : entryMatchesWireQuestion next target qtype qclass cd = true
              · simp only [hm, if_true] at h
                cases hr : collectWireChase H st reqName qtype qclass cd n next (v ++ [H pre]) with
                | none => simp [hr] at h
                | some tl =>
                  simp only [hr, Option.map_some, Option.some.injEq] at h
                  subst h
                  obtain ⟨hh, hl⟩ := ih next _ tl hr
                  refine ⟨rfl, ?_⟩
                  cases tl with
                  | nil => simp at hh
                  | cons b rest =>
                    simp only [List.head?_cons, Option.some.injEq] at hh
                    subst hh
                    obtain ⟨⟨_, h2, h3, h4, h5⟩, p, hp, hf⟩ := (entryMatchesWireQuestion_iff _ _ _ _ _).mp hm
                    exact ⟨⟨target, p, ha, hp, hf.symm, h2, h3, h4, by simpa [normalizeKeyScope] using h5⟩, hl⟩
              · simp [hm] at h

/-- **A forged or colliding key behaves as a miss** (decoded chokepoint): if the
entry found under the probed key is not identical to the question, nothing is served. -/
theorem collision_is_miss (st : Store) (key : UInt64) (want : CacheKey) (a : Entry)
    (hst : st key = some a)
    (hne : ¬ Identical a want.name want.qtype want.qclass want.cd want.scope) :
    lookupByKeyVerified st key want = none := by
  cases h : lookupByKeyVerified st key want with
  | none => rfl
  | some e =>
    obtain ⟨h1, h2⟩ := route_identity_lookupByKeyVerified st key want e h
    rw [hst] at h1
    cases h1
    exact absurd h2 hne

/-- … and on the wire path. -/
theorem collision_is_miss_wire (H : Bytes → UInt64) (st : Store) (w p pre : Bytes) (qtype qclass : UInt16) (cd : Bool)
    (a : Entry) (hp : present w = some p) (hk : keyWirePreimage w qtype qclass cd = some pre)
    (hst : st (H pre) = some a) (hne : ¬ Identical a p qtype qclass cd none) :
    wireHit H st w qtype qclass cd = none := by
  cases h : wireHit H st w qtype qclass cd with
  | none => rfl
  | some e =>
    obtain ⟨p', hp', hid⟩ := route_identity_wireHit H st w qtype qclass cd e h
    rw [hp] at hp'
    cases hp'
    unfold wireHit at h
    simp only [hk, hst] at h
    split at h
    · cases h; exact absurd hid hne
    · cases h

-- non-vacuity: the answer for `a.` filed under the key of `b.` (any hash, here a constant
-- one, so EVERY pair of questions collides): asking `b.` misses, asking `a.` hits.
example :
    let a : Entry := { id := 1, name := [0x61, 0x2E], qtype := 1, qclass := 1, cd := false, scope := none }
    let st : Store := fun _ => some a
    storeLookup (fun _ => 7) st [0x62, 0x2E] 1 1 false = none ∧
    storeLookup (fun _ => 7) st [0x41, 0x2E] 1 1 false = some a ∧
    storeLookup (fun _ => 7) st [0x61, 0x2E] 1 1 true = none ∧
    wireHit (fun _ => 7) st [0x01, 0x62, 0x00] 1 1 false = none ∧
    wireHit (fun _ => 7) st [0x01, 0x41, 0x00] 1 1 false = some a := by decide

/-! ## Audience -/

/-- **A scoped answer is served only to clients inside its scope.**  Whatever the
decoded path serves is either a shared entry or an entry whose scope is a prefix
containing the client's whole source prefix (same family, not longer, equal on
the scope's bits). -/
theorem scoped_hit_contains_client (H : Bytes → UInt64) (st : Store) (name : Bytes) (qtype qclass : UInt16)
    (cd : Bool) (client : Scope) (e : Entry) (h : decodedHit H st name qtype qclass cd client = some e) :
    e.scope = none ∨ ∃ s c, e.scope = some s ∧ client = some c ∧ s.containsPrefix c := by
  rcases route_identity_decodedHit H st name qtype qclass cd client e h with hid | ⟨c, b, hc, hb1, hb2, hid⟩
  · exact Or.inl (by simpa [normalizeKeyScope] using hid.2.2.2.2)
  · right
    refine ⟨c.withBits b, c, ?_, hc, withBits_contains c b hb2⟩
    rw [hid.2.2.2.2, normalize_withBits c b hb1]

/-- the wire path, the chase and the resolver-internal lookups serve shared entries only. -/
theorem wire_and_store_routes_serve_shared_only (H : Bytes → UInt64) (st : Store) (n : Bytes) (qtype qclass : UInt16)
    (cd : Bool) (e : Entry) :
    (wireHit H st n qtype qclass cd = some e → e.scope = none) ∧
    (storeLookup H st n qtype qclass cd = some e → e.scope = none) := by
  constructor
  · intro h
    obtain ⟨_, _, hid⟩ := route_identity_wireHit H st n qtype qclass cd e h
    simpa [normalizeKeyScope] using hid.2.2.2.2
  · intro h
    simpa [normalizeKeyScope] using (route_identity_storeLookup H st n qtype qclass cd e h).2.2.2.2

-- non-vacuity: a /24-scoped answer (under its own key, with a hash that separates these preimages)
-- reaches 192.0.2.77/32 and 192.0.2.0/25, not 192.0.3.77/32, not the wider 192.0.0.0/16, not a client without ECS
example :
    let Hh : Bytes → UInt64 := fun b => UInt64.ofNat (b.foldl (fun acc x => acc * 257 + x.toNat + 1) 0)
    let s : Prefix := { v6 := false, bits := 24, addr := [192, 0, 2, 0] }
    let a : Entry := { id := 1, name := [0x61, 0x2E], qtype := 1, qclass := 1, cd := false, scope := some s }
    let st : AStore := [((CacheKey.mk a.name 1 1 false (some s)).hash Hh, a)]
    decodedHit Hh st.get [0x41, 0x2E] 1 1 false (some { v6 := false, bits := 32, addr := [192, 0, 2, 77] }) = some a ∧
    decodedHit Hh st.get [0x61, 0x2E] 1 1 false (some { v6 := false, bits := 25, addr := [192, 0, 2, 0] }) = some a ∧
    decodedHit Hh st.get [0x61, 0x2E] 1 1 false (some { v6 := false, bits := 32, addr := [192, 0, 3, 77] }) = none ∧
    decodedHit Hh st.get [0x61, 0x2E] 1 1 false (some { v6 := false, bits := 16, addr := [192, 0, 0, 0] }) = none ∧
    decodedHit Hh st.get [0x61, 0x2E] 1 1 false none = none := by decide

/-! ## Subtree cuts and cached failures -/

/-- what a cached failure may be served for. -/
def FailOK (name : Bytes) (qtype qclass : UInt16) (cd : Bool) (scope : Scope) (f : FEntry) : Prop :=
  f.active = true ∧
    ((f.kind = FKind.question ∧ f.name = canonicalName name ∧ f.qtype = qtype ∧ f.qclass = qclass ∧
        f.cd = cd ∧ f.scope = normalizeKeyScope scope) ∨
     (f.kind = FKind.zone ∧ f.qclass = qclass ∧
        f.name ∈ failureZones (canonicalName name).length (canonicalName name)))

/-- **Failure lookups** (`FailureCache.Lookup`): a question-kind state only for
exactly this question, CD partition and audience; a zone-kind state only for a
name on the question's own ancestor walk and the same class — whatever sits
under the hash that was probed. -/
theorem route_identity_failureLookup (H : Bytes → UInt64) (fs : FStore) (name : Bytes) (qtype qclass : UInt16)
    (cd : Bool) (scope : Scope) (f : FEntry)
    (h : failureLookup H fs name qtype qclass cd scope = some f) :
    FailOK name qtype qclass cd scope f := by
  unfold failureLookup at h
  simp only at h
  have zone : ∀ g, firstZone H fs qclass (failureZones (canonicalName name).length (canonicalName name)) = some g →
      FailOK name qtype qclass cd scope g := by
    intro g hg
    obtain ⟨a, b, c, d⟩ := firstZone_spec H fs qclass _ g hg
    exact ⟨a, Or.inr ⟨b, c, d⟩⟩
  cases hl : loadQuestion H fs (canonicalName name) qtype qclass cd (normalizeKeyScope scope) with
  | none => simp only [hl] at h; exact zone f h
  | some e =>
    simp only [hl] at h
    by_cases ha : e.active = true
    · simp only [ha, if_true, Option.some.injEq] at h
      subst h
      unfold loadQuestion at hl
      cases hs : fs (failureQuestionHash H (canonicalName name) qtype qclass cd (normalizeKeyScope scope)) with
      | none => simp [hs] at hl
      | some e' =>
        simp only [hs] at hl
        split at hl
        · rename_i hc
          simp only [Option.some.injEq] at hl
          subst hl
          simp only [Bool.and_eq_true, beq_iff_eq, decide_eq_true_eq] at hc
          exact ⟨ha, Or.inl ⟨hc.1.1.1.1.1, hc.1.1.1.1.2, hc.1.1.1.2, hc.1.1.2, hc.1.2, hc.2⟩⟩
        · cases hl
    · simp only [ha] at h
      exact zone f h

/-- what the wire failure lookup may serve. -/
def WireFailOK (w : Bytes) (qtype qclass : UInt16) (cd : Bool) (f : FEntry) : Prop :=
  f.active = true ∧
    ((f.kind = FKind.question ∧ f.qtype = qtype ∧ f.qclass = qclass ∧ f.cd = cd ∧ f.scope = none ∧
        ∃ p, present w = some p ∧ foldName p = foldName f.name) ∨
     (f.kind = FKind.zone ∧ f.qclass = qclass ∧
        ∃ z ∈ wireSuffixes w.length w, ∃ pz, present z = some pz ∧ foldName pz = foldName f.name))

/-- **Failure lookups on the wire** (`FailureCache.LookupWire`): name, type,
class, CD and the shared audience are re-verified; zone states only for a
suffix of the question's own wire name. -/
theorem route_identity_failureLookupWire (H : Bytes → UInt64) (fs : FStore) (w : Bytes) (qtype qclass : UInt16)
    (cd : Bool) (f : FEntry) (h : failureLookupWire H fs w qtype qclass cd = some f) :
    WireFailOK w qtype qclass cd f := by
  unfold failureLookupWire at h
  simp only at h
  have zone : ∀ g, firstZoneWire H fs qclass (wireSuffixes w.length w) = some g → WireFailOK w qtype qclass cd g := by
    intro g hg
    obtain ⟨a, b, c, d⟩ := firstZoneWire_spec H fs qclass _ g hg
    exact ⟨a, Or.inr ⟨b, c, d⟩⟩
  cases hk : keyWirePreimage w qtype qclass cd with
  | none => simp only [hk] at h; exact zone f h
  | some pre =>
    simp only [hk] at h
    cases hs : fs (H pre ^^^ failureQuestionHashSalt) with
    | none => simp only [hs] at h; exact zone f h
    | some e =>
      simp only [hs] at h
      by_cases hcond : (e.kind == FKind.question && e.scope.isNone && e.qtype == qtype && e.qclass == qclass &&
          e.cd == cd && wireNameEqualsPresentation w e.name && e.active) = true
      · simp only [hcond, if_true, Option.some.injEq] at h
        subst h
        simp only [Bool.and_eq_true, beq_iff_eq, Option.isNone_iff_eq_none] at hcond
        obtain ⟨p, hp, hf⟩ := (wireNameEq_iff' w e.name).mp hcond.1.2
        exact ⟨hcond.2, Or.inl ⟨hcond.1.1.1.1.1.1, hcond.1.1.1.1.2, hcond.1.1.1.2, hcond.1.1.2,
          hcond.1.1.1.1.1.2, p, hp, hf⟩⟩
      · simp only [hcond] at h
        exact zone f h

/-- **Subtree-cut lookup** (`nxDomainCutCache.lookup`): only a cut recorded for
the question's own name or one of its ancestors (label boundaries, escapes
honoured), in the same class. -/
theorem route_identity_cutLookup (cs : CutStore) (name : Bytes) (qclass : UInt16) (c : Cut)
    (h : cutLookup cs name qclass = some c) :
    c ∈ cs.entries ∧ c.active = true ∧ c.qclass = qclass ∧ c.name ∈ cutSuffixes (canonicalName name) := by
  unfold cutLookup at h
  split at h
  · cases h
  · exact firstCut_spec _ _ _ _ h

/-- **Subtree-cut lookup on the wire** (`lookupWire`): whatever the hash index
returns is re-verified — class and the denied name against a suffix of the
question's own wire name. -/
theorem route_identity_cutLookupWire (H : Bytes → UInt64) (cs : CutStore) (w : Bytes) (qclass : UInt16) (c : Cut)
    (h : cutLookupWire H cs w qclass = some c) :
    c.active = true ∧ c.qclass = qclass ∧
      ∃ z ∈ wireSuffixes w.length w, ∃ pz, present z = some pz ∧ foldName pz = foldName c.name := by
  unfold cutLookupWire at h
  split at h
  · cases h
  · exact firstCutWire_spec H _ _ _ _ h

/-! ## The complete hit ladders -/

/-- an exact entry served to `client` for the question. -/
def ExactOK (name : Bytes) (qtype qclass : UInt16) (cd : Bool) (client : Scope) (e : Entry) : Prop :=
  Identical e name qtype qclass cd none ∨
    ∃ c b, client = some c ∧ 1 ≤ b ∧ b ≤ c.bits ∧ Identical e name qtype qclass cd (some (c.withBits b))

/-- **Decoded body of `Cache.ServeDNS`**, all rungs: exact entries are identical
to the question and audience; a subtree cut is used only for CD=0 requests
without ECS, for an ancestor-or-self name of the same class; a cached failure
only for this question/partition/audience or for an ancestor zone. -/
theorem ladder_identity_serveMsg (H : Bytes → UInt64) (W : World) (name : Bytes) (qtype qclass : UInt16) (cd : Bool)
    (client : Scope) (hasECS : Bool) :
    match serveMsg H W name qtype qclass cd client hasECS with
    | Outcome.hit es => ∃ e, es = [e] ∧ ExactOK name qtype qclass cd client e
    | Outcome.cut c => cd = false ∧ client = none ∧ hasECS = false ∧
        c.qclass = qclass ∧ c.name ∈ cutSuffixes (canonicalName name)
    | Outcome.fail f => FailOK name qtype qclass cd client f
    | Outcome.miss => True := by
  unfold serveMsg
  cases hd : decodedHit H W.st name qtype qclass cd client with
  | some e => exact ⟨e, rfl, route_identity_decodedHit H W.st name qtype qclass cd client e hd⟩
  | none =>
    by_cases hg : (cd || client.isSome || hasECS) = true
    · simp only [hg, if_true]
      cases hf : failureLookup H W.fs name qtype qclass cd client with
      | some f => exact route_identity_failureLookup H W.fs name qtype qclass cd client f hf
      | none => trivial
    · simp only [hg]
      cases hc : cutLookup W.cs name qclass with
      | some c =>
        simp only [Bool.or_eq_true, not_or, Bool.not_eq_true, Option.isSome_eq_false_iff,
          Option.isNone_iff_eq_none] at hg
        obtain ⟨_, _, h3, h4⟩ := route_identity_cutLookup W.cs name qclass c hc
        exact ⟨hg.1.1, hg.1.2, hg.2, h3, h4⟩
      | none =>
        cases hf : failureLookup H W.fs name qtype qclass cd client with
        | some f => exact route_identity_failureLookup H W.fs name qtype qclass cd client f hf
        | none => trivial

/-- **`Store.GetWithContext`** (resolver-internal lookups), all rungs. -/
theorem ladder_identity_storeGet (H : Bytes → UInt64) (W : World) (name : Bytes) (qtype qclass : UInt16) (cd : Bool)
    (hasECS : Bool) :
    match storeGet H W name qtype qclass cd hasECS with
    | Outcome.hit es => ∃ e, es = [e] ∧ Identical e name qtype qclass cd none
    | Outcome.cut c => cd = false ∧ hasECS = false ∧ c.qclass = qclass ∧ c.name ∈ cutSuffixes (canonicalName name)
    | Outcome.fail f => FailOK name qtype qclass cd none f
    | Outcome.miss => True := by
  unfold storeGet
  cases hd : storeLookup H W.st name qtype qclass cd with
  | some e => exact ⟨e, rfl, route_identity_storeLookup H W.st name qtype qclass cd e hd⟩
  | none =>
    by_cases hg : (cd || hasECS) = true
    · simp only [hg, if_true]
      cases hf : failureLookup H W.fs name qtype qclass cd none with
      | some f => exact route_identity_failureLookup H W.fs name qtype qclass cd none f hf
      | none => trivial
    · simp only [hg]
      cases hc : cutLookup W.cs name qclass with
      | some c =>
        simp only [Bool.or_eq_true, not_or, Bool.not_eq_true] at hg
        obtain ⟨_, _, h3, h4⟩ := route_identity_cutLookup W.cs name qclass c hc
        exact ⟨hg.1, hg.2, h3, h4⟩
      | none =>
        cases hf : failureLookup H W.fs name qtype qclass cd none with
        | some f => exact route_identity_failureLookup H W.fs name qtype qclass cd none f hf
        | none => trivial

/-- a reply composed on the wire path: the first entry is the shared entry of
the question the wire bytes spell, every further one is linked. -/
def WireHitOK (w : Bytes) (qtype qclass : UInt16) (cd : Bool) (es : List Entry) : Prop :=
  ∃ e rest p, es = e :: rest ∧ present w = some p ∧ Identical e p qtype qclass cd none ∧ Linked qtype qclass cd es

/-- what the wire path may answer a wire-born question with. -/
def WireOutcomeOK (w : Bytes) (qtype qclass : UInt16) (cd : Bool) : Outcome → Prop
  | Outcome.hit es => WireHitOK w qtype qclass cd es
  | Outcome.cut c => cd = false ∧ c.qclass = qclass ∧
      ((∃ z ∈ wireSuffixes w.length w, ∃ pz, present z = some pz ∧ foldName pz = foldName c.name) ∨
       (∃ p, present w = some p ∧ c.name ∈ cutSuffixes (canonicalName p)))
  | Outcome.fail f => WireFailOK w qtype qclass cd f ∨ ∃ p, present w = some p ∧ FailOK p qtype qclass cd none f
  | Outcome.miss => True

/-- **Byte rungs of the wire path** (`serveWire` exact stage, chase, `serveCompositeFromWire`). -/
theorem ladder_identity_serveWireCore (H : Bytes → UInt64) (W : World) (w : Bytes) (qtype qclass : UInt16) (cd : Bool)
    (due : Entry → Bool) (o : Outcome) (h : serveWireCore H W w qtype qclass cd due = some o) :
    WireOutcomeOK w qtype qclass cd o := by
  unfold serveWireCore at h
  cases hw : wireHit H W.st w qtype qclass cd with
  | some e =>
    simp only [hw] at h
    obtain ⟨p, hp, hid⟩ := route_identity_wireHit H W.st w qtype qclass cd e hw
    by_cases hdue : due e = true
    · simp [hdue] at h
    have hdf : due e = false := by simpa using hdue
    simp only [hdf, Bool.false_eq_true, if_false] at h
    cases ha : e.alias with
    | none =>
      simp only [ha, Option.some.injEq] at h
      subst h
      exact ⟨e, [], p, rfl, hp, hid, trivial⟩
    | some t =>
      simp only [ha] at h
      cases hc : collectWireChase H W.st w qtype qclass cd maxWireChaseHops e [] with
      | none => simp [hc] at h
      | some es =>
        simp only [hc, Option.map_some, Option.some.injEq] at h
        subst h
        obtain ⟨hh, hl⟩ := route_identity_chase H W.st w qtype qclass cd _ e [] es hc
        cases es with
        | nil => simp at hh
        | cons e0 rest =>
          simp only [List.head?_cons, Option.some.injEq] at hh
          subst hh
          exact ⟨e0, rest, p, rfl, hp, hid, hl⟩
  | none =>
    simp only [hw] at h
    cases cd with
    | true =>
      rw [if_pos rfl] at h
      cases hf : failureLookupWire H W.fs w qtype qclass true with
      | some f =>
        simp only [hf, Option.map_some, Option.some.injEq] at h
        subst h
        exact Or.inl (route_identity_failureLookupWire H W.fs w qtype qclass true f hf)
      | none => simp [hf] at h
    | false =>
      rw [if_neg Bool.false_ne_true] at h
      cases hc : cutLookupWire H W.cs w qclass with
      | some c =>
        simp only [hc, Option.some.injEq] at h
        subst h
        obtain ⟨_, h2, h3⟩ := route_identity_cutLookupWire H W.cs w qclass c hc
        exact ⟨rfl, h2, Or.inl h3⟩
      | none =>
        simp only [hc] at h
        cases hf : failureLookupWire H W.fs w qtype qclass false with
        | some f =>
          simp only [hf, Option.map_some, Option.some.injEq] at h
          subst h
          exact Or.inl (route_identity_failureLookupWire H W.fs w qtype qclass false f hf)
        | none => simp [hf] at h

/-- **Wire path of `Cache.ServeDNS`** (byte rungs, then the decoded fallback), all rungs. -/
theorem ladder_identity_serveWire (H : Bytes → UInt64) (W : World) (w : Bytes) (qtype qclass : UInt16) (cd : Bool)
    (due : Entry → Bool) :
    WireOutcomeOK w qtype qclass cd (serveWire H W w qtype qclass cd due) := by
  unfold serveWire
  cases hc : serveWireCore H W w qtype qclass cd due with
  | some o => exact ladder_identity_serveWireCore H W w qtype qclass cd due o hc
  | none =>
    simp only
    cases hp : present w with
    | none => trivial
    | some p =>
      simp only
      have := ladder_identity_serveMsg H W p qtype qclass cd none false
      cases hs : serveMsg H W p qtype qclass cd none false with
      | hit es =>
        rw [hs] at this
        obtain ⟨e, rfl, hid⟩ := this
        rcases hid with hid | ⟨c, _, hc', _⟩
        · exact ⟨e, [], p, rfl, hp, hid, trivial⟩
        · cases hc'
      | cut c =>
        rw [hs] at this
        exact ⟨this.1, this.2.2.2.1, Or.inr ⟨p, hp, this.2.2.2.2⟩⟩
      | fail f =>
        rw [hs] at this
        exact Or.inr ⟨p, hp, this⟩
      | miss => trivial

/-! ## The decoded CNAME chase -/

/-- a hop of the decoded chase: the SHARED entry of some question of the requested type,
class and CD partition. -/
def HopOK (qtype qclass : UInt16) (cd : Bool) (e : Entry) : Prop := ∃ n, Identical e n qtype qclass cd none

/-- the entries whose records a reply carries. -/
def replyEntries : MsgReply → List Entry
  | MsgReply.answer es => es
  | MsgReply.nx es _ => es
  | _ => []

theorem chaseLoop_spec (sub : Bytes → MsgReply) (qname : Bytes) (qtype qclass : UInt16) (cd : Bool)
    (hsub : ∀ t, ∀ e ∈ replyEntries (sub t), HopOK qtype qclass cd e) :
    ∀ (fuel : Nat) (target : Bytes) (targets : List Bytes) (acc : List Entry),
      replyEntries (chaseLoop sub qname qtype fuel target targets acc) = [] ∨
      ∃ more, replyEntries (chaseLoop sub qname qtype fuel target targets acc) = acc ++ more ∧
        ∀ e ∈ more, HopOK qtype qclass cd e := by
  intro fuel
  induction fuel with
  | zero => intro t ts acc; exact Or.inr ⟨[], by simp [chaseLoop, replyEntries], by simp⟩
  | succ n ih =>
    intro t ts acc
    unfold chaseLoop
    split
    · exact Or.inl rfl
    · have hs := hsub t
      cases hst : sub t with
      | answer es =>
        rw [hst] at hs
        simp only
        split
        · exact Or.inl rfl
        · split
          · rcases ih (lastCnameTarget es) (ts ++ [t]) (acc ++ es) with h | ⟨more, h1, h2⟩
            · exact Or.inl h
            · refine Or.inr ⟨es ++ more, by rw [h1, List.append_assoc], ?_⟩
              intro e he
              rcases List.mem_append.mp he with he | he
              · exact hs e he
              · exact h2 e he
          · exact Or.inr ⟨es, rfl, hs⟩
      | nx es c =>
        rw [hst] at hs
        exact Or.inr ⟨es, rfl, hs⟩
      | failed f => exact Or.inl rfl
      | miss => exact Or.inr ⟨[], by simp [replyEntries], by simp⟩

/-- **Decoded alias chase** (`handleCacheHit` → `additionalAnswer` → Queryer → the decoded
body again, nested up to `maxCnameChaseDepth`): the first entry of a reply is the verified
entry of the client's question and audience; every further entry went through the same
full-preimage verification for a question of the same type, class and CD partition, shared
audience.  (Before /repo 016280b the hop was asked in class IN; the witness that exposed it
is corpus/C03/09-chase-class.ops.) -/
theorem route_identity_msgChase (H : Bytes → UInt64) (W : World) (qtype : UInt16) (cd hasECS : Bool) :
    ∀ (d : Nat) (name : Bytes) (qclass : UInt16) (client : Scope),
      replyEntries (msgReplyAt H W qtype cd hasECS d name qclass client) = [] ∨
      ∃ e0 rest, replyEntries (msgReplyAt H W qtype cd hasECS d name qclass client) = e0 :: rest ∧
        ExactOK name qtype qclass cd client e0 ∧ ∀ e ∈ rest, HopOK qtype qclass cd e := by
  intro d
  induction d with
  | zero =>
    intro name qclass client
    unfold msgReplyAt
    have := ladder_identity_serveMsg H W name qtype qclass cd client hasECS
    cases hs : serveMsg H W name qtype qclass cd client hasECS with
    | hit es =>
      rw [hs] at this
      obtain ⟨e, rfl, hid⟩ := this
      exact Or.inr ⟨e, [], rfl, hid, by simp⟩
    | cut c => exact Or.inl rfl
    | fail f => exact Or.inl rfl
    | miss => exact Or.inl rfl
  | succ n ih =>
    intro name qclass client
    -- every sub-query reply consists of hop entries
    have hsub : ∀ t, ∀ e ∈ replyEntries (msgReplyAt H W qtype cd hasECS n t qclass none), HopOK qtype qclass cd e := by
      intro t e he
      rcases ih t qclass none with h | ⟨e0, rest, h, h0, hr⟩
      · rw [h] at he; cases he
      · rw [h] at he
        rcases List.mem_cons.mp he with rfl | he
        · rcases h0 with hid | ⟨c, _, hc, _⟩
          · exact ⟨t, hid⟩
          · cases hc
        · exact hr e he
    unfold msgReplyAt
    have hl := ladder_identity_serveMsg H W name qtype qclass cd client hasECS
    cases hs : serveMsg H W name qtype qclass cd client hasECS with
    | hit es =>
      rw [hs] at hl
      obtain ⟨e, rfl, hid⟩ := hl
      simp only
      unfold additionalAnswer
      split
      · exact Or.inr ⟨e, [], rfl, hid, by simp⟩
      · cases ha : e.alias with
        | none => exact Or.inr ⟨e, [], rfl, hid, by simp⟩
        | some t =>
          simp only
          cases hp : present t with
          | none => exact Or.inr ⟨e, [], rfl, hid, by simp⟩
          | some tp =>
            simp only
            split
            · exact Or.inl rfl
            · split
              · exact Or.inr ⟨e, [], rfl, hid, by simp⟩
              · rcases chaseLoop_spec _ name qtype qclass cd hsub maxCnameHops tp [] [e] with h | ⟨more, h1, h2⟩
                · exact Or.inl h
                · exact Or.inr ⟨e, more, by rw [h1]; rfl, hid, h2⟩
    | cut c => exact Or.inl rfl
    | fail f => exact Or.inl rfl
    | miss => exact Or.inl rfl

/-- **Write-back chase** (`ResponseWriter.WriteMsg` → `additionalAnswer` on the upstream's
answer `fresh`, before it is stored): whatever the cache contributes to the reply handed to
the asking client are entries verified for a question of the answer's own type, class and CD
partition, shared audience. -/
theorem writeback_chase_hops_verified (H : Bytes → UInt64) (W : World) (qtype qclass : UInt16) (cd hasECS : Bool)
    (d : Nat) (name : Bytes) (fresh : Entry) (reply : MsgReply)
    (hreply : reply = additionalAnswer (fun t => msgReplyAt H W qtype cd hasECS d t qclass none) name qtype fresh) :
    replyEntries reply = [] ∨ ∃ more, replyEntries reply = fresh :: more ∧ ∀ e ∈ more, HopOK qtype qclass cd e := by
  subst hreply
  have hsub : ∀ t, ∀ e ∈ replyEntries (msgReplyAt H W qtype cd hasECS d t qclass none), HopOK qtype qclass cd e := by
    intro t e he
    rcases route_identity_msgChase H W qtype cd hasECS d t qclass none with h | ⟨e0, rest, h, h0, hr⟩
    · rw [h] at he; cases he
    · rw [h] at he
      rcases List.mem_cons.mp he with rfl | he
      · rcases h0 with hid | ⟨c, _, hc, _⟩
        · exact ⟨t, hid⟩
        · cases hc
      · exact hr e he
  unfold additionalAnswer
  split
  · exact Or.inr ⟨[], rfl, by simp⟩
  · cases ha : fresh.alias with
    | none => exact Or.inr ⟨[], rfl, by simp⟩
    | some t =>
      simp only
      cases hp : present t with
      | none => exact Or.inr ⟨[], rfl, by simp⟩
      | some tp =>
        simp only
        split
        · exact Or.inl rfl
        · split
          · exact Or.inr ⟨[], rfl, by simp⟩
          · rcases chaseLoop_spec _ name qtype qclass cd hsub maxCnameHops tp [] [fresh] with h | ⟨more, h1, h2⟩
            · exact Or.inl h
            · exact Or.inr ⟨more, by rw [h1]; rfl, h2⟩

-- non-vacuity: the upstream answers `h. A → CNAME a.`; `a. A` is cached: the asker is told both
example :
    let Hh : Bytes → UInt64 := fun b => UInt64.ofNat (b.foldl (fun acc x => acc * 257 + x.toNat + 1) 0)
    let a : Entry := { id := 2, name := [0x61, 0x2E], qtype := 1, qclass := 1, cd := false, scope := none }
    let st : AStore := [((CacheKey.mk a.name 1 1 false none).hash Hh, a)]
    let W : World := { st := st.get, fs := fun _ => none, cs := {} }
    let fresh : Entry := { id := 9, name := [0x68, 0x2E], qtype := 1, qclass := 1, cd := false, scope := none, alias := some [1, 0x41, 0] }
    (replyEntries (additionalAnswer (fun t => msgReplyAt Hh W 1 false false 9 t 1 none) [0x68, 0x2E] 1 fresh)).map (·.id) = [9, 2] := by
  decide

theorem chaseLoopVisits_from_sub (sub : Bytes → MsgReply) (subV : Bytes → List (Bytes × Entry)) (qname : Bytes)
    (qtype : UInt16) :
    ∀ (fuel : Nat) (target : Bytes) (targets : List Bytes) (v : Bytes × Entry),
      v ∈ chaseLoopVisits sub subV qname qtype fuel target targets → ∃ t, v ∈ subV t := by
  intro fuel
  induction fuel with
  | zero => intro t ts v h; simp [chaseLoopVisits] at h
  | succ n ih =>
    intro t ts v h
    unfold chaseLoopVisits at h
    by_cases hc : ts.contains t = true
    · rw [if_pos hc] at h; cases h
    · rw [if_neg hc] at h
      rcases List.mem_append.mp h with h | h
      · exact ⟨t, h⟩
      · cases hst : sub t with
        | answer es =>
          rw [hst] at h
          simp only at h
          by_cases h1 : (lastCnameTarget es == qname) = true
          · simp [h1] at h
          · simp only [h1] at h
            by_cases h2 : ((es.any fun x => x.alias.isSome) && decide (n > 0) && !es.any fun x => hasQtypeRecord x qtype) = true
            · simp only [h2, if_true] at h
              exact ih _ _ v h
            · simp [h2] at h
        | nx es c => rw [hst] at h; cases h
        | failed f => rw [hst] at h; cases h
        | miss => rw [hst] at h; cases h

/-- **Every hit the decoded body makes while answering a request — the client's own and each
hop of the alias chase — is a verified hit for the question it was asked with**: the pair
(question name, entry) that `handleCacheHit` sees, and under which a due entry claims its
background refresh, is identical in name, type, class, CD partition and audience.  Together
with `refresh_answers_own_question` this covers refreshes queued by chase hops. -/
theorem msgVisits_are_verified (H : Bytes → UInt64) (W : World) (qtype : UInt16) (cd hasECS : Bool) :
    ∀ (d : Nat) (name : Bytes) (qclass : UInt16) (client : Scope) (v : Bytes × Entry),
      v ∈ msgVisitsAt H W qtype cd hasECS d name qclass client →
      (v.1 = name ∧ ExactOK name qtype qclass cd client v.2) ∨ Identical v.2 v.1 qtype qclass cd none := by
  intro d
  induction d with
  | zero =>
    intro name qclass client v h
    unfold msgVisitsAt at h
    have hl := ladder_identity_serveMsg H W name qtype qclass cd client hasECS
    cases hs : serveMsg H W name qtype qclass cd client hasECS with
    | hit es =>
      rw [hs] at hl h
      obtain ⟨e, rfl, hid⟩ := hl
      simp only [List.mem_singleton] at h
      subst h
      exact Or.inl ⟨rfl, hid⟩
    | cut c => rw [hs] at h; cases h
    | fail f => rw [hs] at h; cases h
    | miss => rw [hs] at h; cases h
  | succ n ih =>
    intro name qclass client v h
    unfold msgVisitsAt at h
    have hl := ladder_identity_serveMsg H W name qtype qclass cd client hasECS
    cases hs : serveMsg H W name qtype qclass cd client hasECS with
    | hit es =>
      rw [hs] at hl h
      obtain ⟨e, rfl, hid⟩ := hl
      simp only at h
      rcases List.mem_cons.mp h with rfl | h
      · exact Or.inl ⟨rfl, hid⟩
      · right
        unfold additionalVisits at h
        split at h
        · cases h
        · split at h
          · cases h
          · split at h
            · cases h
            · split at h
              · cases h
              · split at h
                · cases h
                · obtain ⟨t, ht⟩ := chaseLoopVisits_from_sub _ _ name qtype _ _ _ v h
                  rcases ih t qclass none v ht with ⟨rfl, hid'⟩ | hid'
                  · rcases hid' with hid' | ⟨c, _, hc, _⟩
                    · exact hid'
                    · cases hc
                  · exact hid'
    | cut c => rw [hs] at h; cases h
    | fail f => rw [hs] at h; cases h
    | miss => rw [hs] at h; cases h

-- non-vacuity: h. → a.: the request for h. hits both entries, each under its own question name
example :
    let Hh : Bytes → UInt64 := fun b => UInt64.ofNat (b.foldl (fun acc x => acc * 257 + x.toNat + 1) 0)
    let a : Entry := { id := 2, name := [0x61, 0x2E], qtype := 1, qclass := 1, cd := false, scope := none }
    let h : Entry := { id := 9, name := [0x68, 0x2E], qtype := 1, qclass := 1, cd := false, scope := none, alias := some [1, 0x41, 0] }
    let st : AStore := [((CacheKey.mk a.name 1 1 false none).hash Hh, a), ((CacheKey.mk h.name 1 1 false none).hash Hh, h)]
    let W : World := { st := st.get, fs := fun _ => none, cs := {} }
    (msgVisitsAt Hh W 1 false false 10 [0x48, 0x2E] 1 none).map (fun v => (v.1, v.2.id)) = [([0x48, 0x2E], 9), ([0x41, 0x2E], 2)] := by
  decide

/-- every entry the decoded body composes into a reply has the question's own type,
class and CD partition. -/
theorem msgChase_entries_in_partition (H : Bytes → UInt64) (W : World) (name : Bytes) (qtype qclass : UInt16) (cd : Bool)
    (client : Scope) (hasECS : Bool) (e : Entry)
    (he : e ∈ replyEntries (serveMsgFull H W name qtype qclass cd client hasECS)) :
    e.qtype = qtype ∧ e.qclass = qclass ∧ e.cd = cd := by
  unfold serveMsgFull at he
  rcases route_identity_msgChase H W qtype cd hasECS maxCnameChaseDepth name qclass client with h | ⟨e0, rest, h, h0, hr⟩
  · rw [h] at he; cases he
  · rw [h] at he
    rcases List.mem_cons.mp he with rfl | he
    · rcases h0 with hid | ⟨_, _, _, _, _, hid⟩ <;> exact ⟨hid.2.1, hid.2.2.1, hid.2.2.2.1⟩
    · obtain ⟨_, hid⟩ := hr e he
      exact ⟨hid.2.1, hid.2.2.1, hid.2.2.2.1⟩

-- non-vacuity: a CH-class alias with both a CH- and an IN-class target cached: the CH one is composed
example :
    let Hh : Bytes → UInt64 := fun b => UInt64.ofNat (b.foldl (fun acc x => acc * 257 + x.toNat + 1) 0)
    let a : Entry := { id := 1, name := [0x61, 0x2E], qtype := 1, qclass := 3, cd := false, scope := none, alias := some [1, 0x74, 0] }
    let t : Entry := { id := 2, name := [0x74, 0x2E], qtype := 1, qclass := 1, cd := false, scope := none }
    let u : Entry := { id := 3, name := [0x54, 0x2E], qtype := 1, qclass := 3, cd := false, scope := none }
    let st : AStore := [((CacheKey.mk a.name 1 3 false none).hash Hh, a), ((CacheKey.mk t.name 1 1 false none).hash Hh, t),
                        ((CacheKey.mk u.name 1 3 false none).hash Hh, u)]
    let W : World := { st := st.get, fs := fun _ => none, cs := {} }
    (replyEntries (serveMsgFull Hh W [0x61, 0x2E] 1 3 false none false)).map (fun e => (e.id, e.qclass)) = [(1, 3), (3, 3)] := by
  decide

/-! ## Stores, refreshes, purge -/

/-- **Admission records the identity** (`setFromResponseWithKey`): the entry filed
under `key` carries the response's question, the CD partition the caller keyed
with (`e.cd = keyCD`) and the normalised scope; no other key changes. -/
theorem admission_records_identity (s : AStore) (key : UInt64) (id : Nat) (name : Bytes) (qtype qclass : UInt16)
    (keyCD : Bool) (scope : Scope) (alias : Option Bytes) :
    (∃ e, (setFromResponse s key id name qtype qclass keyCD scope alias).get key = some e ∧
        Identical e name qtype qclass keyCD scope) ∧
    ∀ k, k ≠ key → (setFromResponse s key id name qtype qclass keyCD scope alias).get k = s.get k := by
  unfold setFromResponse
  refine ⟨⟨_, AStore.get_set_self _ _ _, rfl, rfl, rfl, rfl, rfl⟩, ?_⟩
  intro k hk
  exact AStore.get_set_other _ _ _ _ hk

/-- **A refresh keeps the partition** (`ReplaceIfCurrent`): a successful
replacement sits under the same key with `expected`'s CD partition and ECS scope,
whatever CD bit the refreshed response carries; a failed one changes nothing; no
other key is ever touched. -/
theorem replacement_keeps_partition (s : AStore) (key : UInt64) (expected : Entry) (id : Nat) (name : Bytes)
    (qtype qclass : UInt16) (alias : Option Bytes) :
    let r := replaceIfCurrent s key expected id name qtype qclass alias
    (r.2 = true → ∃ e, r.1.get key = some e ∧ e.cd = expected.cd ∧ e.scope = expected.scope ∧
        e.name = name ∧ e.qtype = qtype ∧ e.qclass = qclass) ∧
    (r.2 = false → r.1 = s) ∧
    (∀ k, k ≠ key → r.1.get k = s.get k) := by
  unfold replaceIfCurrent
  cases hg : s.get key with
  | none => simp
  | some cur =>
    by_cases hc : cur.id = expected.id
    · simp only [hc, if_true]
      refine ⟨fun _ => ⟨_, AStore.get_set_self _ _ _, rfl, rfl, rfl, rfl, rfl⟩, by simp, ?_⟩
      intro k hk
      exact AStore.get_set_other _ _ _ _ hk
    · simp [hc]

/-- **What `Purge` may remove, exactly.**  With `k0`/`k1` the two shared keys of
the purged question and `EF` the comparator of the scoped sweep
(`strings.EqualFold`): a stored pair survives iff it is under neither shared key
and is not a scoped entry of the same type and class whose name `EF`-matches.
Nothing is ever added.  (So `Purge` can over-delete — whatever squats on `k0`/`k1`,
and scoped entries whose names are equal only under Unicode folding — but it never
makes an entry reachable.) -/
theorem purge_over_deletes_only (H : Bytes → UInt64) (EF : Bytes → Bytes → Bool) (s : AStore) (name : Bytes)
    (qtype qclass : UInt16) (p : UInt64 × Entry) :
    p ∈ purgeAnswers H EF s name qtype qclass ↔
      p ∈ s ∧ p.1 ≠ (CacheKey.mk name qtype qclass false none).hash H ∧
        p.1 ≠ (CacheKey.mk name qtype qclass true none).hash H ∧
        ¬(p.2.scope.isSome = true ∧ p.2.name ≠ [] ∧ p.2.qtype = qtype ∧ p.2.qclass = qclass ∧
          EF p.2.name name = true) := by
  unfold purgeAnswers
  obtain ⟨k, e⟩ := p
  rw [List.mem_filter, mem_remove, mem_remove]
  simp only
  constructor
  · rintro ⟨⟨⟨h1, h2⟩, h3⟩, h4⟩
    refine ⟨h1, h2, h3, ?_⟩
    rintro ⟨a, b, c, d, f⟩
    have hb : e.name.isEmpty = false := by
      cases hn : e.name with
      | nil => exact absurd hn b
      | cons _ _ => rfl
    simp [a, hb, c, d, f] at h4
  · rintro ⟨h1, h2, h3, h4⟩
    refine ⟨⟨⟨h1, h2⟩, h3⟩, ?_⟩
    cases hef : (e.scope.isSome && !e.name.isEmpty && e.qtype == qtype && e.qclass == qclass && EF e.name name) with
    | false => rfl
    | true =>
      exfalso
      apply h4
      simp only [Bool.and_eq_true, beq_iff_eq, Bool.not_eq_true'] at hef
      refine ⟨hef.1.1.1.1, ?_, hef.1.1.2, hef.1.2, hef.2⟩
      intro hn
      have := hef.1.1.1.2
      rw [hn] at this
      cases this

/-- **`Purge` removes every entry of the purged question** that sits under its own
key — both CD partitions, every scope, any ASCII case spelling — provided `EF` is at
least as coarse as the ASCII fold (which `strings.EqualFold` is). -/
theorem purge_removes_question (H : Bytes → UInt64) (EF : Bytes → Bytes → Bool)
    (hEF : ∀ a b, foldName a = foldName b → EF a b = true)
    (s : AStore) (name : Bytes) (qtype qclass : UInt16) (k : UInt64) (e : Entry)
    (hmem : (k, e) ∈ purgeAnswers H EF s name qtype qclass)
    (hname : foldName e.name = foldName name) (hne : e.name ≠ []) (ht : e.qtype = qtype) (hc : e.qclass = qclass)
    (hown : k = (CacheKey.mk e.name e.qtype e.qclass e.cd e.scope).hash H) : False := by
  obtain ⟨_, h0, h1, hs⟩ := (purge_over_deletes_only H EF s name qtype qclass (k, e)).mp hmem
  simp only at h0 h1 hs
  have shared : ∀ cd, cacheKeyPreimage e.name e.qtype e.qclass cd none = cacheKeyPreimage name qtype qclass cd none := by
    intro cd
    simp only [cacheKeyPreimage, keyPreimage, hname, ht, hc]
  cases hsc : e.scope with
  | none =>
    rw [hsc] at hown
    cases hcd : e.cd with
    | false =>
      rw [hcd] at hown
      apply h0
      rw [hown]
      simp only [CacheKey.hash, shared]
    | true =>
      rw [hcd] at hown
      apply h1
      rw [hown]
      simp only [CacheKey.hash, shared]
  | some sp =>
    apply hs
    exact ⟨by simp [hsc], hne, ht, hc, hEF _ _ hname⟩

-- non-vacuity: purge of `a. A IN` with an injective-enough hash removes both CD variants and the
-- scoped variant, keeps `b.`; and removes a squatter filed under the purged key
example :
    let Hh : Bytes → UInt64 := fun b => UInt64.ofNat (b.foldl (fun acc x => acc * 257 + x.toNat + 1) 0)
    let mk := fun (id : Nat) (n : Bytes) (cd : Bool) (sc : Scope) => ({ id := id, name := n, qtype := 1, qclass := 1, cd := cd, scope := sc } : Entry)
    let key := fun (e : Entry) => (CacheKey.mk e.name e.qtype e.qclass e.cd e.scope).hash Hh
    let sc : Scope := some { v6 := false, bits := 24, addr := [192, 0, 2, 0] }
    let a0 := mk 1 [0x61, 0x2E] false none
    let a1 := mk 2 [0x41, 0x2E] true none
    let a2 := mk 3 [0x41, 0x2E] false sc
    let b0 := mk 4 [0x62, 0x2E] false none
    let b2 := mk 5 [0x62, 0x2E] false sc
    let s : AStore := [(key a0, a0), (key a1, a1), (key a2, a2), (key b0, b0), (key b2, b2)]
    (purgeAnswers Hh (fun x y => foldName x == foldName y) s [0x61, 0x2E] 1 1).map (·.2.id) = [4, 5] := by
  decide

/-- **`FailureCache.PurgeQuestion` is exact**: it removes the question-kind states of
exactly the purged (canonical) name, type and class — every CD/ECS variant — and a zone
state owned by that name and class; nothing else. -/
theorem purge_failures_exact (s : AFStore) (name : Bytes) (qtype qclass : UInt16) (p : UInt64 × FEntry) :
    p ∈ purgeFailures s name qtype qclass ↔
      p ∈ s ∧ ¬(p.2.name = canonicalName name ∧ p.2.qclass = qclass ∧
        (p.2.kind = FKind.zone ∨ p.2.qtype = qtype)) := by
  unfold purgeFailures
  obtain ⟨k, e⟩ := p
  simp only [List.mem_filter]
  cases hk : e.kind <;> simp
  · intro _
    by_cases h1 : e.name = canonicalName name <;> by_cases h2 : e.qtype = qtype <;>
      by_cases h3 : e.qclass = qclass <;> simp [h1, h2, h3]
  · intro _
    by_cases h1 : e.name = canonicalName name <;> by_cases h3 : e.qclass = qclass <;> simp [h1, h3]

/-- **The cut purge is exact**: it removes the cuts whose denied name is the purged name or
one of its ancestors (label-wise) in the purged class; nothing else. -/
theorem purge_cuts_exact (cs : List Cut) (name : Bytes) (qclass : UInt16) (c : Cut) :
    c ∈ purgeCuts cs name qclass ↔
      c ∈ cs ∧ ¬(c.name ∈ cutSuffixes (canonicalName name) ∧ c.qclass = qclass) := by
  unfold purgeCuts
  simp [List.mem_filter]
  intro _
  by_cases h1 : c.name ∈ cutSuffixes (canonicalName name) <;> by_cases h2 : c.qclass = qclass <;> simp [h1, h2]

/-- the suffix walk of `nxDomainCutCache.purge` removes a cut exactly when its denied name is
one of the candidates walked (and the class is the purged one) — every candidate, not the first. -/
theorem purgeCutsWalk_mem (qclass : UInt16) (cands : List Bytes) (cs : List Cut) (c : Cut) :
    c ∈ purgeCutsWalk cs qclass cands ↔ c ∈ cs ∧ ¬(c.name ∈ cands ∧ c.qclass = qclass) := by
  induction cands generalizing cs with
  | nil => simp [purgeCutsWalk]
  | cons cand rest ih =>
    unfold purgeCutsWalk
    rw [ih]
    simp only [List.mem_filter, List.mem_cons]
    by_cases h1 : c.name = cand <;> by_cases h2 : c.qclass = qclass <;> simp [h1, h2]

/-- **Purge over nested cuts removes EVERY covering cut**: after `nxDomainCutCache.purge` for a
question — the loop as written, suffix by suffix — the decoded cut lookup for the purged name
finds nothing, however many validated cuts covered it before (a cut at the name, one at its
parent, one at the TLD, …) and whatever the wire index holds; and the decoded ladder built on
that store never answers the purged question from a cut. -/
theorem purge_removes_every_covering_cut (H : Bytes → UInt64) (cs : List Cut) (bh : UInt64 → Option Cut)
    (name : Bytes) (qtype qclass : UInt16) :
    cutLookup { entries := purgeCutsLoop cs name qclass, byHash := bh } name qclass = none ∧
    (∀ c, c ∈ purgeCutsLoop cs name qclass ↔ c ∈ purgeCuts cs name qclass) ∧
    (∀ st fs cd client hasECS c,
      serveMsg H { st := st, fs := fs, cs := { entries := purgeCutsLoop cs name qclass, byHash := bh } }
        name qtype qclass cd client hasECS ≠ Outcome.cut c) ∧
    (∀ st fs cd hasECS c,
      storeGet H { st := st, fs := fs, cs := { entries := purgeCutsLoop cs name qclass, byHash := bh } }
        name qtype qclass cd hasECS ≠ Outcome.cut c) := by
  have hnone : ∀ bh', cutLookup { entries := purgeCutsLoop cs name qclass, byHash := bh' } name qclass = none := by
    intro bh'
    cases hl : cutLookup { entries := purgeCutsLoop cs name qclass, byHash := bh' } name qclass with
    | none => rfl
    | some c =>
      obtain ⟨hm, _, hq, hn⟩ := route_identity_cutLookup _ name qclass c hl
      have := (purgeCutsWalk_mem qclass (cutSuffixes (canonicalName name)) cs c).mp hm
      exact absurd ⟨hn, hq⟩ this.2
  refine ⟨hnone bh, ?_, ?_, ?_⟩
  · intro c
    rw [purge_cuts_exact]
    exact purgeCutsWalk_mem qclass _ cs c
  · intro st fs cd client hasECS c h
    unfold serveMsg at h
    simp only [hnone bh, ite_self] at h
    cases hd : decodedHit H st name qtype qclass cd client with
    | some e => simp [hd] at h
    | none =>
      simp only [hd] at h
      cases hf : failureLookup H fs name qtype qclass cd client <;> simp [hf] at h
  · intro st fs cd hasECS c h
    unfold storeGet at h
    simp only [hnone bh, ite_self] at h
    cases hd : storeLookup H st name qtype qclass cd with
    | some e => simp [hd] at h
    | none =>
      simp only [hd] at h
      cases hf : failureLookup H fs name qtype qclass cd none <;> simp [hf] at h

/-- non-vacuity: three nested cuts (the name, its parent, the TLD) and one of another class —
the purge leaves only the other-class cut, and the lookup that hit before finds nothing. -/
example :
    let n : Bytes := [97, 46, 98, 46, 99, 46]
    let cs : List Cut := [
      { id := 1, name := [98, 46, 99, 46], qclass := 1, active := true, wireOk := true },
      { id := 2, name := [99, 46], qclass := 1, active := true, wireOk := true },
      { id := 3, name := n, qclass := 1, active := true, wireOk := true },
      { id := 4, name := [99, 46], qclass := 3, active := true, wireOk := true }]
    (cutLookup { entries := cs } n 1).map (·.id) = some 3 ∧
      (purgeCutsLoop cs n 1).map (·.id) = [4] ∧
      cutLookup { entries := purgeCutsLoop cs n 1 } n 1 = none := by decide

/-! ### Lazy expiry of cuts (round 9, final stretch) -/

theorem findCut_some {cs : List Cut} {name : Bytes} {q : UInt16} {c : Cut} (h : findCut cs name q = some c) :
    c ∈ cs ∧ c.name = name ∧ c.qclass = q := by
  unfold findCut at h
  have hp := List.find?_some h
  simp only [Bool.and_eq_true, beq_iff_eq] at hp
  exact ⟨List.mem_of_find?_eq_some h, hp.1, hp.2⟩

theorem findCut_filter_other (cs : List Cut) (cand cand' : Bytes) (q q' : UInt16) (hk : ¬(cand' = cand ∧ q' = q)) :
    findCut (cs.filter fun x => !(x.name == cand && x.qclass == q)) cand' q' = findCut cs cand' q' := by
  unfold findCut
  induction cs with
  | nil => rfl
  | cons a t ih =>
    by_cases ha : a.name = cand ∧ a.qclass = q
    · have hf : (!(a.name == cand && a.qclass == q)) = false := by simp [ha.1, ha.2]
      have hn : (a.name == cand' && a.qclass == q') = false := by
        rw [ha.1, ha.2]
        by_cases h1 : cand = cand' <;> by_cases h2 : q = q' <;> simp [h1, h2]
        exact hk ⟨h1.symm, h2.symm⟩
      rw [List.filter_cons, hf, List.find?_cons, hn]
      simpa using ih
    · have hf : (!(a.name == cand && a.qclass == q)) = true := by
        by_cases h1 : a.name = cand <;> by_cases h2 : a.qclass = q <;> simp [h1, h2]
        exact ha ⟨h1, h2⟩
      rw [List.filter_cons, hf]
      simp only [if_true, List.find?_cons]
      cases hm : (a.name == cand' && a.qclass == q')
      · simpa using ih
      · rfl

theorem findCut_filter_same (cs : List Cut) (cand : Bytes) (q : UInt16) :
    findCut (cs.filter fun x => !(x.name == cand && x.qclass == q)) cand q = none := by
  unfold findCut
  rw [List.find?_eq_none]
  intro x hx
  have := (List.mem_filter.mp hx).2
  cases h1 : (x.name == cand && x.qclass == q)
  · simp
  · simp [h1] at this

/-- removing every entry filed under the key of an EXPIRED cut changes no lookup. -/
theorem firstCut_filter_expired (cs : List Cut) (cand : Bytes) (q : UInt16) (c : Cut)
    (hc : findCut cs cand q = some c) (hx : c.active = false) (q' : UInt16) (cands' : List Bytes) :
    firstCut (cs.filter fun x => !(x.name == cand && x.qclass == q)) q' cands' = firstCut cs q' cands' := by
  induction cands' with
  | nil => rfl
  | cons cand' t ih =>
    unfold firstCut
    by_cases hk : cand' = cand ∧ q' = q
    · obtain ⟨hk1, hk2⟩ := hk
      subst hk1
      subst hk2
      rw [findCut_filter_same, hc]
      simp only [hx, Bool.false_eq_true, if_false]
      exact ih
    · rw [findCut_filter_other cs cand cand' q q' hk, ih]

/-- **the walk of `nxDomainCutCache.lookup` changes no lookup**: whatever it removed on its
way, every later decoded cut lookup — any name, any class — returns what it would have
returned on the untouched map. -/
theorem cutWalkPrune_keeps_lookup (q : UInt16) (cands : List Bytes) (cs : List Cut) (q' : UInt16) (cands' : List Bytes) :
    firstCut (cutWalkPrune cs q cands) q' cands' = firstCut cs q' cands' := by
  induction cands generalizing cs with
  | nil => rfl
  | cons cand t ih =>
    unfold cutWalkPrune
    cases hc : findCut cs cand q with
    | none => exact ih cs
    | some c =>
      simp only
      by_cases ha : c.active = true
      · simp [ha]
      · have hx : c.active = false := by simpa using ha
        simp only [hx, Bool.false_eq_true, if_false]
        rw [ih]
        exact firstCut_filter_expired cs cand q c hc hx q' cands'

/-- **the walk removes only expired state**: nothing is added, and an entry that disappears
has the purged class, a name on the walk, and shares its map key with an EXPIRED entry
(itself, in a map keyed by (name, class)). -/
theorem cutWalkPrune_removes_only_expired (q : UInt16) (cands : List Bytes) (cs : List Cut) :
    (∀ x, x ∈ cutWalkPrune cs q cands → x ∈ cs) ∧
    (∀ x, x ∈ cs → x ∉ cutWalkPrune cs q cands →
      x.qclass = q ∧ x.name ∈ cands ∧ ∃ c ∈ cs, c.active = false ∧ c.name = x.name ∧ c.qclass = x.qclass) := by
  induction cands generalizing cs with
  | nil => exact ⟨fun _ h => h, fun x hx hn => absurd hx hn⟩
  | cons cand t ih =>
    unfold cutWalkPrune
    cases hc : findCut cs cand q with
    | none =>
      refine ⟨(ih cs).1, ?_⟩
      intro x hx hn
      obtain ⟨a, b, c⟩ := (ih cs).2 x hx hn
      exact ⟨a, List.mem_cons_of_mem _ b, c⟩
    | some c =>
      simp only
      by_cases ha : c.active = true
      · simp only [ha, if_true]
        exact ⟨fun _ h => h, fun x hx hn => absurd hx hn⟩
      · have hxa : c.active = false := by simpa using ha
        simp only [hxa, Bool.false_eq_true, if_false]
        obtain ⟨hcm, hcn, hcq⟩ := findCut_some hc
        refine ⟨fun x h => (List.mem_filter.mp ((ih _).1 x h)).1, ?_⟩
        intro x hx hn
        by_cases hk : x.name = cand ∧ x.qclass = q
        · exact ⟨hk.2, by rw [hk.1]; exact List.mem_cons_self, c, hcm, hxa, by rw [hcn, hk.1], by rw [hcq, hk.2]⟩
        · have hxf : x ∈ cs.filter fun x => !(x.name == cand && x.qclass == q) := by
            rw [List.mem_filter]
            refine ⟨hx, ?_⟩
            by_cases h1 : x.name = cand <;> by_cases h2 : x.qclass = q <;> simp [h1, h2]
            exact hk ⟨h1, h2⟩
          obtain ⟨a, b, c', hc'm, rest⟩ := (ih _).2 x hxf hn
          exact ⟨a, List.mem_cons_of_mem _ b, c', (List.mem_filter.mp hc'm).1, rest⟩

/-- dropping hash slots that point at EXPIRED cuts changes no wire lookup. -/
theorem firstCutWire_drop_expired (H : Bytes → UInt64) (bh bh' : UInt64 → Option Cut)
    (hrel : ∀ h, bh' h = bh h ∨ (bh' h = none ∧ ∃ c, bh h = some c ∧ c.active = false))
    (q : UInt16) (cands : List Bytes) :
    firstCutWire H bh' q cands = firstCutWire H bh q cands := by
  induction cands with
  | nil => rfl
  | cons cand t ih =>
    unfold firstCutWire
    cases hk : keyWirePreimage cand 0 q false with
    | none => exact ih
    | some pre =>
      simp only
      rcases hrel (H pre ^^^ nxDomainCutHashSalt) with h | ⟨h, c, hc, hx⟩
      · rw [h, ih]
      · rw [h, hc]
        simp only [hx, Bool.and_false, Bool.false_eq_true, if_false]
        exact ih

/-- **Expiry pruning is invisible**: after the decoded cut lookup for ANY question has
removed the expired cuts it walked past (`cutLookupPrune`; the hash index losing only slots
that pointed at expired cuts), every cut lookup on both routes and all three hit ladders
return — for every question, partition and client — exactly what they returned before. -/
theorem expiry_pruning_is_invisible (H : Bytes → UInt64) (W : World) (pname : Bytes) (pclass : UInt16)
    (bh' : UInt64 → Option Cut)
    (hrel : ∀ h, bh' h = W.cs.byHash h ∨ (bh' h = none ∧ ∃ c, W.cs.byHash h = some c ∧ c.active = false)) :
    let W' : World := { st := W.st, fs := W.fs,
                        cs := { entries := cutLookupPrune W.cs.entries pname pclass, byHash := bh' } }
    (∀ n q, cutLookup W'.cs n q = cutLookup W.cs n q) ∧
    (∀ w q, cutLookupWire H W'.cs w q = cutLookupWire H W.cs w q) ∧
    (∀ n t q cd cl e, serveMsg H W' n t q cd cl e = serveMsg H W n t q cd cl e) ∧
    (∀ n t q cd e, storeGet H W' n t q cd e = storeGet H W n t q cd e) ∧
    (∀ w t q cd due, serveWire H W' w t q cd due = serveWire H W w t q cd due) := by
  intro W'
  have h1 : ∀ n q, cutLookup W'.cs n q = cutLookup W.cs n q := by
    intro n q
    show cutLookup { entries := cutLookupPrune W.cs.entries pname pclass, byHash := bh' } n q = _
    unfold cutLookup cutLookupPrune
    by_cases hq : (q == 0) = true
    · simp [hq]
    · simp only [hq]
      by_cases hp : (pclass == 0) = true
      · simp [hp]
      · simp only [hp]
        exact cutWalkPrune_keeps_lookup pclass _ _ q _
  have h2 : ∀ w q, cutLookupWire H W'.cs w q = cutLookupWire H W.cs w q := by
    intro w q
    show cutLookupWire H { entries := cutLookupPrune W.cs.entries pname pclass, byHash := bh' } w q = _
    unfold cutLookupWire
    by_cases hq : (q == 0) = true
    · simp [hq]
    · simp only [hq]
      exact firstCutWire_drop_expired H _ _ hrel q _
  have h3 : ∀ n t q cd cl e, serveMsg H W' n t q cd cl e = serveMsg H W n t q cd cl e := by
    intro n t q cd cl e
    unfold serveMsg
    rw [h1]
  have h5 : ∀ w t q cd due, serveWireCore H W' w t q cd due = serveWireCore H W w t q cd due := by
    intro w t q cd due
    unfold serveWireCore
    rw [h2]
  refine ⟨h1, h2, h3, ?_, ?_⟩
  · intro n t q cd e
    unfold storeGet
    rw [h1]
  · intro w t q cd due
    unfold serveWire
    rw [h5]
    simp only [h3]

/-- non-vacuity: an expired cut at the parent above a live cut at the TLD: the decoded
lookup answers from the TLD's cut and removes the expired one; lookups before and after agree. -/
example :
    let n : Bytes := [97, 46, 98, 46, 99, 46]
    let cs : List Cut := [
      { id := 1, name := [98, 46, 99, 46], qclass := 1, active := false, wireOk := true },
      { id := 2, name := [99, 46], qclass := 1, active := true, wireOk := true }]
    (cutLookup { entries := cs } n 1).map (·.id) = some 2 ∧
      (cutLookupPrune cs n 1).map (·.id) = [2] ∧
      (cutLookup { entries := cutLookupPrune cs n 1 } n 1).map (·.id) = some 2 := by decide

/-! ### The single-flight key of a miss (final stretch, second leg) -/

theorem loadQuestion_some {H : Bytes → UInt64} {fs : FStore} {n : Bytes} {qtype qclass : UInt16} {cd : Bool}
    {sc : Scope} {e : FEntry} (h : loadQuestion H fs n qtype qclass cd sc = some e) :
    fs (failureQuestionHash H n qtype qclass cd sc) = some e ∧ e.kind = FKind.question ∧ e.name = n ∧
      e.qtype = qtype ∧ e.qclass = qclass ∧ e.cd = cd ∧ e.scope = sc := by
  unfold loadQuestion at h
  cases hs : fs (failureQuestionHash H n qtype qclass cd sc) with
  | none => simp [hs] at h
  | some e' =>
    simp only [hs] at h
    split at h
    · rename_i hc
      simp only [Option.some.injEq] at h
      subst h
      simp only [Bool.and_eq_true, beq_iff_eq, decide_eq_true_eq] at hc
      exact ⟨rfl, hc.1.1.1.1.1, hc.1.1.1.1.2, hc.1.1.1.2, hc.1.1.2, hc.1.2, hc.2⟩
    · cases h

theorem loadZone_some {H : Bytes → UInt64} {fs : FStore} {z : Bytes} {qclass : UInt16} {e : FEntry}
    (h : loadZone H fs z qclass = some e) :
    fs (failureZoneHash H z qclass) = some e ∧ e.kind = FKind.zone ∧ e.name = z ∧ e.qclass = qclass := by
  unfold loadZone at h
  cases hs : fs (failureZoneHash H z qclass) with
  | none => simp [hs] at h
  | some e' =>
    simp only [hs] at h
    split at h
    · rename_i hc
      simp only [Option.some.injEq] at h
      subst h
      simp only [Bool.and_eq_true, beq_iff_eq] at hc
      exact ⟨rfl, hc.1.1, hc.1.2, hc.2⟩
    · cases h

/-- the ancestor walk of `RetryKey`: it reports an active zone exactly when the failure
lookup's own walk finds one; otherwise the key it remembers is the slot of an EXPIRED zone
state on the walk (the accumulator is passed through untouched when it was already set). -/
theorem retryZones_spec (H : Bytes → UInt64) (fs : FStore) (qclass : UInt16) (zs : List Bytes) (acc : Option UInt64) :
    match retryZones H fs qclass zs acc with
    | (true, _) => ∃ f, firstZone H fs qclass zs = some f
    | (false, a) => firstZone H fs qclass zs = none ∧
        (a = acc ∨ (acc = none ∧ ∃ z ∈ zs, ∃ e, loadZone H fs z qclass = some e ∧ e.active = false ∧
                      a = some (failureZoneHash H z qclass))) := by
  induction zs generalizing acc with
  | nil => exact ⟨rfl, Or.inl rfl⟩
  | cons z t ih =>
    unfold retryZones firstZone
    cases hl : loadZone H fs z qclass with
    | none =>
      simp only
      have := ih acc
      cases hr : retryZones H fs qclass t acc with
      | mk b a =>
        rw [hr] at this
        cases b with
        | true => exact this
        | false =>
          refine ⟨this.1, ?_⟩
          rcases this.2 with h | ⟨h0, z', hz', e, he⟩
          · exact Or.inl h
          · exact Or.inr ⟨h0, z', List.mem_cons_of_mem _ hz', e, he⟩
    | some e =>
      simp only
      by_cases ha : e.active = true
      · simp only [ha, if_true]
        exact ⟨e, rfl⟩
      · have hx : e.active = false := by simpa using ha
        simp only [hx, Bool.false_eq_true, if_false]
        cases acc with
        | some h0 =>
          have := ih (some h0)
          cases hr : retryZones H fs qclass t (some h0) with
          | mk b a =>
            rw [hr] at this
            cases b with
            | true => exact this
            | false =>
              refine ⟨this.1, ?_⟩
              rcases this.2 with h | ⟨h1, _⟩
              · exact Or.inl h
              · cases h1
        | none =>
          have := ih (some (failureZoneHash H z qclass))
          cases hr : retryZones H fs qclass t (some (failureZoneHash H z qclass)) with
          | mk b a =>
            rw [hr] at this
            cases b with
            | true => exact this
            | false =>
              refine ⟨this.1, ?_⟩
              rcases this.2 with h | ⟨h1, _⟩
              · exact Or.inr ⟨rfl, z, List.mem_cons_self, e, hl, hx, h⟩
              · cases h1

/-- what a probe generation's key may be: the slot of an EXPIRED state verified for this question. -/
def RetryOK (H : Bytes → UInt64) (fs : FStore) (name : Bytes) (qtype qclass : UInt16) (cd : Bool) (scope : Scope)
    (k : UInt64) : Prop :=
  ∃ f, fs k = some f ∧ f.active = false ∧
    ((f.kind = FKind.question ∧ f.name = canonicalName name ∧ f.qtype = qtype ∧ f.qclass = qclass ∧ f.cd = cd ∧
        f.scope = normalizeKeyScope scope ∧
        k = failureQuestionHash H (canonicalName name) qtype qclass cd (normalizeKeyScope scope)) ∨
     (f.kind = FKind.zone ∧ f.qclass = qclass ∧
        f.name ∈ failureZones (canonicalName name).length (canonicalName name) ∧
        k = failureZoneHash H f.name qclass))

/-- **`FailureCache.RetryKey`**: a probe generation is opened only when NO live failure state
answers the question (the failure lookup misses), and its key is the slot of an expired state
that is verified for the question: an exact one only for exactly this name, type, class, CD
partition and audience; a zone one only for an ancestor-or-self zone of the same class. -/
theorem retryKey_spec (H : Bytes → UInt64) (fs : FStore) (name : Bytes) (qtype qclass : UInt16) (cd : Bool)
    (scope : Scope) (k : UInt64) (h : retryKey H fs name qtype qclass cd scope = some k) :
    failureLookup H fs name qtype qclass cd scope = none ∧ RetryOK H fs name qtype qclass cd scope k := by
  unfold retryKey at h
  simp only at h
  have hz := retryZones_spec H fs qclass (failureZones (canonicalName name).length (canonicalName name)) none
  have zonePart : ∀ a, retryZones H fs qclass (failureZones (canonicalName name).length (canonicalName name)) none = (false, some a) →
      RetryOK H fs name qtype qclass cd scope a := by
    intro a hr
    rw [hr] at hz
    rcases hz.2 with h0 | ⟨_, z, hzm, e, he, hx, ha⟩
    · cases h0
    · obtain ⟨h1, h2, h3, h4⟩ := loadZone_some he
      simp only [Option.some.injEq] at ha
      subst ha
      exact ⟨e, h1, hx, Or.inr ⟨h2, h4, by rw [h3]; exact hzm, by rw [h3]⟩⟩
  unfold failureLookup
  simp only
  cases hr : retryZones H fs qclass (failureZones (canonicalName name).length (canonicalName name)) none with
  | mk b a =>
    rw [hr] at hz h
    cases b with
    | true =>
      cases hq : loadQuestion H fs (canonicalName name) qtype qclass cd (normalizeKeyScope scope) with
      | none => simp [hq] at h
      | some e => by_cases ha : e.active = true <;> simp [hq, ha] at h
    | false =>
      have hnone := hz.1
      cases hq : loadQuestion H fs (canonicalName name) qtype qclass cd (normalizeKeyScope scope) with
      | none =>
        simp only [hq] at h
        refine ⟨hnone, ?_⟩
        cases a with
        | none => simp at h
        | some a' =>
          simp only [Option.some.injEq] at h
          subst h
          exact zonePart a' hr
      | some e =>
        by_cases ha : e.active = true
        · simp [hq, ha] at h
        · have hx : e.active = false := by simpa using ha
          simp only [hq, hx, Bool.false_eq_true, if_false] at h
          refine ⟨by simp only [hx, Bool.false_eq_true, if_false]; exact hnone, ?_⟩
          cases a with
          | some a' =>
            simp only [Option.some.injEq] at h
            subst h
            exact zonePart a' hr
          | none =>
            simp only [Option.some.injEq] at h
            subst h
            obtain ⟨h1, h2, h3, h4, h5, h6, h7⟩ := loadQuestion_some hq
            exact ⟨e, h1, hx, Or.inl ⟨h2, h3, h4, h5, h6, h7, rfl⟩⟩

/-- **The single-flight key of a miss** (`dedupKey` in `Cache.ServeDNS`): it is the request's
own `CacheKey` hash — question, CD partition and the client's audience, the very key function
the exact-answer lookup and the insert use — or, when the failure lookup misses, the slot of an
expired failure state verified for this question (`RetryOK`).  Nothing else ever keys a flight. -/
theorem dedupKey_spec (H : Bytes → UInt64) (fs : FStore) (name : Bytes) (qtype qclass : UInt16) (cd : Bool)
    (client : Scope) :
    dedupKey H fs name qtype qclass cd client = (CacheKey.mk name qtype qclass cd client).hash H ∨
    (failureLookup H fs name qtype qclass cd client = none ∧
      RetryOK H fs name qtype qclass cd client (dedupKey H fs name qtype qclass cd client)) := by
  unfold dedupKey
  cases hr : retryKey H fs name qtype qclass cd client with
  | none => exact Or.inl rfl
  | some k => exact Or.inr (retryKey_spec H fs name qtype qclass cd client k hr)

/-- non-vacuity: an expired CD=0 state gives the CD=0 request its slot as the flight key; the
CD=1 twin keeps its own request key; a live state gives no retry key at all. -/
example :
    let H : Bytes → UInt64 := fun b => b.foldl (fun a x => a * 31 + x.toUInt64) 7
    let n : Bytes := [97, 46]
    let f : FEntry := { id := 1, kind := FKind.question, name := n, qtype := 1, qclass := 1, cd := false,
                        scope := none, active := false }
    let fs : FStore := fun h => if h = failureQuestionHash H n 1 1 false none then some f else none
    let live : FStore := fun h => if h = failureQuestionHash H n 1 1 false none then some { f with active := true } else none
    retryKey H fs n 1 1 false none = some (failureQuestionHash H n 1 1 false none) ∧
      retryKey H fs n 1 1 true none = none ∧
      dedupKey H fs n 1 1 true none = (CacheKey.mk n 1 1 true none).hash H ∧
      retryKey H live n 1 1 false none = none := by decide +kernel

/-- **Failure lookups never cross the CD partition, on any route**: a question-kind failure
state handed out by the Store wrapper (`Store.LookupFailure`), by the wire lookup, or by any of
the three ladders carries exactly the CD bit of the request that received it.  (Zone-kind
states are CD-independent by design and carry no CD bit.) -/
theorem failure_lookup_never_crosses_cd (H : Bytes → UInt64) (W : World) (name w : Bytes) (qtype qclass : UInt16)
    (cd : Bool) (scope : Scope) (hasECS : Bool) (due : Entry → Bool) (f : FEntry) (hk : f.kind = FKind.question) :
    (storeLookupFailure H W.fs name qtype qclass cd scope = some f → f.cd = cd) ∧
    (failureLookupWire H W.fs w qtype qclass cd = some f → f.cd = cd) ∧
    (serveMsg H W name qtype qclass cd scope hasECS = Outcome.fail f → f.cd = cd) ∧
    (storeGet H W name qtype qclass cd hasECS = Outcome.fail f → f.cd = cd) ∧
    (serveWire H W w qtype qclass cd due = Outcome.fail f → f.cd = cd) := by
  have ofFail : ∀ n sc, FailOK n qtype qclass cd sc f → f.cd = cd := by
    intro n sc h
    rcases h.2 with h | h
    · exact h.2.2.2.2.1
    · rw [hk] at h; exact absurd h.1 (by decide)
  have ofWire : WireFailOK w qtype qclass cd f → f.cd = cd := by
    intro h
    rcases h.2 with h | h
    · exact h.2.2.2.1
    · rw [hk] at h; exact absurd h.1 (by decide)
  refine ⟨?_, ?_, ?_, ?_, ?_⟩
  · intro h
    exact ofFail _ _ (route_identity_failureLookup H W.fs name qtype qclass cd scope f h)
  · intro h
    exact ofWire (route_identity_failureLookupWire H W.fs w qtype qclass cd f h)
  · intro h
    have := ladder_identity_serveMsg H W name qtype qclass cd scope hasECS
    rw [h] at this
    exact ofFail _ _ this
  · intro h
    have := ladder_identity_storeGet H W name qtype qclass cd hasECS
    rw [h] at this
    exact ofFail _ _ this
  · intro h
    have := ladder_identity_serveWire H W w qtype qclass cd due
    rw [h] at this
    rcases this with h | ⟨p, _, h⟩
    · exact ofWire h
    · exact ofFail _ _ h

/-- non-vacuity: a CD=0 failure is found by the CD=0 request through the Store wrapper and NOT
by the CD=1 twin (which misses rather than borrowing the other partition's state). -/
example :
    let H : Bytes → UInt64 := fun b => b.foldl (fun a x => a * 31 + x.toUInt64) 7
    let n : Bytes := [97, 46]
    let f : FEntry := { id := 1, kind := FKind.question, name := n, qtype := 1, qclass := 1, cd := false,
                        scope := none, active := true }
    let fs : FStore := fun h => if h = failureQuestionHash H n 1 1 false none then some f else none
    (storeLookupFailure H fs n 1 1 false none).map (·.id) = some 1 ∧
      storeLookupFailure H fs n 1 1 true none = none := by decide +kernel

/-- **`FailureCache.ResetQuestion` only deletes its own question**: a state disappears
only if it sits under the hash of the (canonical name, type, class, CD, audience) being
reset AND carries exactly that identity — a colliding state of another question stays. -/
theorem reset_question_exact (H : Bytes → UInt64) (s : AFStore) (name : Bytes) (qtype qclass : UInt16) (cd : Bool)
    (scope : Scope) (p : UInt64 × FEntry) (hp : p ∈ s) (hgone : p ∉ resetQuestion H s name qtype qclass cd scope) :
    p.1 = failureQuestionHash H (canonicalName name) qtype qclass cd (normalizeKeyScope scope) ∧
      ∃ e, s.get p.1 = some e ∧ e.kind = FKind.question ∧ e.name = canonicalName name ∧ e.qtype = qtype ∧
        e.qclass = qclass ∧ e.cd = cd ∧ e.scope = normalizeKeyScope scope := by
  unfold resetQuestion at hgone
  simp only at hgone
  cases hl : loadQuestion H s.get (canonicalName name) qtype qclass cd (normalizeKeyScope scope) with
  | none => simp [hl] at hgone; exact absurd hp hgone
  | some e =>
    simp only [hl, List.mem_filter, hp, true_and, bne_iff_ne, ne_eq, Decidable.not_not] at hgone
    refine ⟨hgone, e, ?_⟩
    unfold loadQuestion at hl
    rw [hgone]
    cases hs : s.get (failureQuestionHash H (canonicalName name) qtype qclass cd (normalizeKeyScope scope)) with
    | none => simp [hs] at hl
    | some e' =>
      simp only [hs] at hl
      split at hl
      · rename_i hc
        simp only [Option.some.injEq] at hl
        subst hl
        simp only [Bool.and_eq_true, beq_iff_eq, decide_eq_true_eq] at hc
        exact ⟨rfl, hc.1.1.1.1.1, hc.1.1.1.1.2, hc.1.1.1.2, hc.1.1.2, hc.1.2, hc.2⟩
      · cases hl

/-! ## Admission through the miss path and background refresh -/

/-- **`ClampScope` is exact**: same family and address as the authority's scope, and
as many bits as the smallest of SCOPE, SOURCE and the operator's floor OF THAT FAMILY. -/
theorem clampScope_bits (p : Policy) (scope source : Prefix) :
    (clampScope p scope source).v6 = scope.v6 ∧
    (clampScope p scope source).bits =
      min (min scope.bits source.bits) (if scope.v6 then p.minScopeV6 else p.minScopeV4) ∧
    (clampScope p scope source).addr = maskBytes (clampScope p scope source).bits scope.addr := by
  unfold clampScope Prefix.withBits
  refine ⟨rfl, ?_, rfl⟩
  cases hv : scope.v6 <;>
    simp only [if_true, if_false, Bool.false_eq_true, Nat.min_def] <;>
    (repeat' split) <;> omega

/-- **The audience an answer is admitted for, exactly** (`WriteMsg` with an ECS option in
the response): the network of the address THE AUTHORITY NAMED, of
`min(SCOPE, SOURCE, floor of that address's family)` bits — never wider than the floor of
that family allows, whatever the other family's floor is. -/
theorem admitted_audience_exact (p : Policy) (src ec s : Prefix)
    (h : admitScope p (some src) (some ec) = some s) :
    s.v6 = ec.v6 ∧
    s.bits = min (min ec.bits src.bits) (if ec.v6 then p.minScopeV6 else p.minScopeV4) ∧
    s.addr = maskBytes s.bits ec.addr := by
  unfold admitScope responseScope at h
  by_cases h0 : ec.bits = 0 ∨ ec.bits > 8 * ec.addr.length
  · simp [h0] at h
  · simp only [h0, if_false, Option.some.injEq] at h
    subst h
    obtain ⟨h1, h2, h3⟩ := clampScope_bits p (ec.withBits ec.bits) src
    have hb : (clampScope p (ec.withBits ec.bits) src).bits ≤ ec.bits := by
      rw [h2]; simp only [Prefix.withBits]; omega
    refine ⟨h1, h2, ?_⟩
    rw [h3]; simp only [Prefix.withBits]
    exact maskBytes_maskBytes_le _ _ hb _

/-- … and when the authority echoes the subnet it was sent (RFC 7871 §7.3), that network
contains the asking client. -/
theorem admitted_audience_contains_asker (p : Policy) (src ec s : Prefix)
    (hfam : ec.v6 = src.v6) (haddr : ec.addr = src.addr)
    (h : admitScope p (some src) (some ec) = some s) : s.containsPrefix src := by
  obtain ⟨h1, h2, h3⟩ := admitted_audience_exact p src ec s h
  refine ⟨by rw [h1, hfam], by rw [h2]; omega, ?_⟩
  rw [h3, haddr]

/-- **Audience, end to end**: an entry that carries the scope an answer was admitted with
(`WriteMsg`, any echoed subnet `ec`, any operator floors) is served by the decoded path only
to a client whose source prefix lies inside the network of
`min(SCOPE, SOURCE, floor of ec's family)` bits around the address the authority named —
storage-side clamp and lookup-side verification composed, for every store and hash. -/
theorem audience_end_to_end (H : Bytes → UInt64) (p : Policy) (st : Store) (src ec s : Prefix)
    (name : Bytes) (qtype qclass : UInt16) (cd : Bool) (client : Scope) (e : Entry)
    (hadm : admitScope p (some src) (some ec) = some s)
    (hscope : e.scope = normalizeKeyScope (some s)) (hbits : s.bits ≠ 0)
    (hhit : decodedHit H st name qtype qclass cd client = some e) :
    ∃ c, client = some c ∧ c.v6 = ec.v6 ∧
      min (min ec.bits src.bits) (if ec.v6 then p.minScopeV6 else p.minScopeV4) ≤ c.bits ∧
      maskBytes s.bits c.addr = maskBytes s.bits ec.addr := by
  obtain ⟨h1, h2, h3⟩ := admitted_audience_exact p src ec s hadm
  have hs : e.scope = some s.masked := by
    rw [hscope]; unfold normalizeKeyScope; simp [hbits]
  rcases scoped_hit_contains_client H st name qtype qclass cd client e hhit with hn | ⟨s', c, hs', hc, hcont⟩
  · rw [hs] at hn; cases hn
  · rw [hs] at hs'
    cases hs'
    obtain ⟨hv, hb, ha⟩ := hcont
    simp only [Prefix.masked, Prefix.withBits] at hv hb ha
    refine ⟨c, hc, by rw [← hv, h1], by rw [← h2]; exact hb, ?_⟩
    rw [ha, h3, maskBytes_idem]

/-- **The allow-list sees an IPv4-mapped peer as the IPv4 client it is**: whatever byte
form the transport reports (4 bytes, or 16-byte `::ffff:a.b.c.d` from a dual-stack
listener), the eligibility verdict — which the cache and the edns layer must share, or a
scoped answer is filed under the shared key — is the same. -/
theorem allowlist_mapped_peer_is_v4 (nets : List Prefix) (a : Bytes) (ha : a.length = 4) :
    policyAllows nets { v6 := true, bits := 128, addr := [0, 0, 0, 0, 0, 0, 0, 0, 0, 0, 0xFF, 0xFF] ++ a } =
    policyAllows nets { v6 := false, bits := 32, addr := a } := by
  unfold policyAllows unmapPeer
  simp

-- non-vacuity: 198.51.100.77 in either form is inside 198.51.100.0/24, 2001:db8::1 is not
example :
    let nets : List Prefix := [{ v6 := false, bits := 24, addr := [198, 51, 100, 0] }]
    policyAllows nets { v6 := false, bits := 32, addr := [198, 51, 100, 77] } = true ∧
    policyAllows nets { v6 := true, bits := 128, addr := [0, 0, 0, 0, 0, 0, 0, 0, 0, 0, 0xFF, 0xFF, 198, 51, 100, 77] } = true ∧
    policyAllows nets { v6 := true, bits := 128, addr := [0x20, 1, 0x0d, 0xb8, 0, 0, 0, 0, 0, 0, 0, 0, 0, 0, 0, 1] } = false ∧
    policyAllows nets { v6 := false, bits := 32, addr := [198, 51, 101, 77] } = false := by decide

/-- **A failed resolution is filed for its own question, partition and audience**
(`WriteMsg` → `Store.RecordFailure` → `RecordQuestion`): afterwards the state found under
the hash of (canonical name, type, class, CD, normalised audience) carries exactly that
identity — so by `route_identity_failureLookup` no other audience's lookup is answered
from it. -/
theorem recorded_failure_keeps_audience (H : Bytes → UInt64) (s : AFStore) (id : Nat) (name : Bytes)
    (qtype qclass : UInt16) (cd : Bool) (scope : Scope) :
    ∃ f, loadQuestion H (recordFailure H s id name qtype qclass cd scope).get (canonicalName name) qtype qclass cd
          (normalizeKeyScope scope) = some f ∧
      f.kind = FKind.question ∧ f.name = canonicalName name ∧ f.qtype = qtype ∧ f.qclass = qclass ∧
      f.cd = cd ∧ f.scope = normalizeKeyScope scope := by
  unfold recordFailure
  simp only
  cases hl : loadQuestion H s.get (canonicalName name) qtype qclass cd (normalizeKeyScope scope) with
  | some f =>
    simp only
    refine ⟨f, hl, ?_⟩
    unfold loadQuestion at hl
    cases hs : s.get (failureQuestionHash H (canonicalName name) qtype qclass cd (normalizeKeyScope scope)) with
    | none => simp [hs] at hl
    | some e =>
      simp only [hs] at hl
      split at hl
      · rename_i hc
        simp only [Option.some.injEq] at hl
        subst hl
        simp only [Bool.and_eq_true, beq_iff_eq, decide_eq_true_eq] at hc
        exact ⟨hc.1.1.1.1.1, hc.1.1.1.1.2, hc.1.1.1.2, hc.1.1.2, hc.1.2, hc.2⟩
      · cases hl
  | none =>
    simp only
    refine ⟨{ id := id, kind := FKind.question, name := canonicalName name, qtype := qtype, qclass := qclass,
              cd := cd, scope := normalizeKeyScope scope, active := true }, ?_, rfl, rfl, rfl, rfl, rfl, rfl⟩
    unfold loadQuestion AFStore.get
    simp [List.find?]

-- non-vacuity: the failure of `a. A` for 192.0.2.0/24 is found by that audience and by no other
example :
    let Hh : Bytes → UInt64 := fun b => UInt64.ofNat (b.foldl (fun acc x => acc * 257 + x.toNat + 1) 0)
    let aud : Scope := some { v6 := false, bits := 24, addr := [192, 0, 2, 0] }
    let fs := recordFailure Hh [] 7 [0x41, 0x2E] 1 1 false aud
    (failureLookup Hh fs.get [0x61, 0x2E] 1 1 false aud).map (·.id) = some 7 ∧
    failureLookup Hh fs.get [0x61, 0x2E] 1 1 false none = none ∧
    failureLookup Hh fs.get [0x61, 0x2E] 1 1 false (some { v6 := false, bits := 24, addr := [192, 0, 3, 0] }) = none ∧
    failureLookup Hh fs.get [0x61, 0x2E] 1 1 true aud = none := by decide +kernel

/-- **A zone reachability failure is filed in the class of the question that met it**
(`Store.RecordZoneFailure` → `RecordZone`): the state under the zone hash of
(canonical zone, that class) carries exactly that zone and class — by
`route_identity_failureLookup` a question of another class is never answered from it. -/
theorem recorded_zone_failure_keeps_class (H : Bytes → UInt64) (s : AFStore) (id : Nat) (zone : Bytes) (qclass : UInt16) :
    ∃ f, loadZone H (recordZoneFailure H s id zone qclass).get (canonicalName zone) qclass = some f ∧
      f.kind = FKind.zone ∧ f.name = canonicalName zone ∧ f.qclass = qclass := by
  unfold recordZoneFailure
  simp only
  cases hl : loadZone H s.get (canonicalName zone) qclass with
  | some f =>
    simp only
    refine ⟨f, hl, ?_⟩
    unfold loadZone at hl
    cases hs : s.get (failureZoneHash H (canonicalName zone) qclass) with
    | none => simp [hs] at hl
    | some e =>
      simp only [hs] at hl
      split at hl
      · rename_i hc
        simp only [Option.some.injEq] at hl
        subst hl
        simp only [Bool.and_eq_true, beq_iff_eq] at hc
        exact ⟨hc.1.1, hc.1.2, hc.2⟩
      · cases hl
  | none =>
    simp only
    refine ⟨{ id := id, kind := FKind.zone, name := canonicalName zone, qtype := 0, qclass := qclass,
              cd := false, scope := none, active := true }, ?_, rfl, rfl, rfl⟩
    unfold loadZone AFStore.get
    simp [List.find?]

-- non-vacuity: every server of `example.` failed for a CH question: CH names below it fail, IN names do not
example :
    let Hh : Bytes → UInt64 := fun b => UInt64.ofNat (b.foldl (fun acc x => acc * 257 + x.toNat + 1) 0)
    let fs := recordZoneFailure Hh [] 7 [0x45, 0x78, 0x2E] 3
    (failureLookup Hh fs.get [0x61, 0x2E, 0x65, 0x78, 0x2E] 16 3 false none).map (·.id) = some 7 ∧
    failureLookup Hh fs.get [0x61, 0x2E, 0x65, 0x78, 0x2E] 16 1 false none = none ∧
    (failureLookup Hh fs.get [0x65, 0x58, 0x2E] 1 3 true none).map (·.id) = some 7 := by decide +kernel

/-- `ecs.Build` defaults: ceilings /24 and /56, floors equal to the ceilings — with the
default configuration no admitted scope is wider than what was forwarded. -/
theorem buildPolicy_defaults :
    buildPolicy 0 0 0 0 = { forwardV4 := 24, forwardV6 := 56, minScopeV4 := 24, minScopeV6 := 56 } ∧
    ∀ f4 f6, (buildPolicy f4 f6 0 0).minScopeV4 = (buildPolicy f4 f6 0 0).forwardV4 ∧
             (buildPolicy f4 f6 0 0).minScopeV6 = (buildPolicy f4 f6 0 0).forwardV6 := by
  refine ⟨rfl, ?_⟩
  intro f4 f6
  simp [buildPolicy]

-- non-vacuity of audience_end_to_end: the /56 answer admitted at the /48 floor, looked up from the same /48
example :
    let Hh : Bytes → UInt64 := fun b => UInt64.ofNat (b.foldl (fun acc x => acc * 257 + x.toNat + 1) 0)
    let pol := buildPolicy 24 56 24 48
    let src : Prefix := { v6 := true, bits := 56, addr := [0x20, 0x01, 0x0d, 0xb8, 0xaa, 0xaa, 0xbb, 0, 0, 0, 0, 0, 0, 0, 0, 0] }
    let st := admitAnswer Hh pol [] 7 [0x61, 0x2E] 1 1 false (some src) (some src)
    (decodedHit Hh st.get [0x61, 0x2E] 1 1 false
        (some { v6 := true, bits := 56, addr := [0x20, 0x01, 0x0d, 0xb8, 0xaa, 0xaa, 0xff, 0, 0, 0, 0, 0, 0, 0, 0, 0] })).map (·.id) = some 7 ∧
    (decodedHit Hh st.get [0x61, 0x2E] 1 1 false
        (some { v6 := true, bits := 56, addr := [0x20, 0x01, 0x0d, 0xb8, 0xbb, 0xbb, 0xcc, 0, 0, 0, 0, 0, 0, 0, 0, 0] })) = none := by
  decide

/-- no ECS option in the response, SCOPE 0, or a request outside ECS-aware caching: shared. -/
theorem admitted_shared_otherwise (p : Policy) (client : Scope) (echo : Option Prefix)
    (h : client = none ∨ echo = none ∨ ∃ ec, echo = some ec ∧ ec.bits = 0) : admitScope p client echo = none := by
  unfold admitScope responseScope
  rcases h with h | h | ⟨ec, h, h0⟩ <;> subst h
  · rfl
  · cases client <;> rfl
  · cases client <;> simp [h0]

/-- **`WriteMsg` files the answer under its own key with that identity**: question and CD
of the response, the clamped scope both in the key preimage and on the entry. -/
theorem admit_records_identity (H : Bytes → UInt64) (p : Policy) (s : AStore) (id : Nat) (name : Bytes)
    (qtype qclass : UInt16) (cd : Bool) (client : Scope) (echo : Option Prefix) :
    ∃ e, (admitAnswer H p s id name qtype qclass cd client echo).get
          ((CacheKey.mk name qtype qclass cd (admitScope p client echo)).hash H) = some e ∧
      Identical e name qtype qclass cd (admitScope p client echo) := by
  unfold admitAnswer
  exact (admission_records_identity s _ id name qtype qclass cd _ none).1

/-- **A refresh asks, and files, the question of the partition it refreshes.**  If the hit
that queued the refresh was verified for `trigger` (as `handleCacheHit` does) and the CAS
succeeds, the new entry is identical to the question `processPrefetch` SENT UPSTREAM —
name, type, class and above all the CD bit — and keeps the audience. -/
theorem refresh_answers_own_question (s : AStore) (key : UInt64) (expected : Entry) (trigger : Req) (newId : Nat)
    (scope : Scope)
    (hver : entryMatchesKey expected ⟨trigger.name, trigger.qtype, trigger.qclass, trigger.cd, scope⟩ = true)
    (hok : (processPrefetch s key expected trigger newId).2 = true) :
    let asked := prefetchRequest trigger
    ∃ e, (processPrefetch s key expected trigger newId).1.get key = some e ∧
      Identical e asked.name asked.qtype asked.qclass asked.cd scope := by
  intro asked
  have := (replacement_keeps_partition s key expected newId asked.name asked.qtype asked.qclass none).1
  unfold processPrefetch at hok ⊢
  simp only [Option.getD_none] at hok ⊢
  obtain ⟨e, he, hcd, hsc, hn, ht, hc⟩ := this hok
  obtain ⟨⟨_, _, _, h4, h5⟩, _⟩ := (entryMatchesKey_iff _ _).mp hver
  refine ⟨e, he, by rw [hn], ht, hc, ?_, ?_⟩
  · rw [hcd, h4]; rfl
  · rw [hsc, h5]

/-- **A refresh that comes back answering ANOTHER question is retained as that question**
(`ReplaceIfCurrent` takes `resp.Question[0]`, only CD and scope are inherited) … -/
theorem refresh_retains_response_question (s : AStore) (key : UInt64) (expected : Entry) (trigger : Req) (newId : Nat)
    (rn : Bytes) (rt rc : UInt16)
    (hok : (processPrefetch s key expected trigger newId (some (rn, rt, rc))).2 = true) :
    ∃ e, (processPrefetch s key expected trigger newId (some (rn, rt, rc))).1.get key = some e ∧
      e.name = rn ∧ e.qtype = rt ∧ e.qclass = rc ∧ e.cd = expected.cd ∧ e.scope = expected.scope := by
  have := (replacement_keeps_partition s key expected newId rn rt rc none).1
  unfold processPrefetch at hok ⊢
  simp only [Option.getD_some] at hok ⊢
  obtain ⟨e, he, hcd, hsc, hn, ht, hc⟩ := this hok
  exact ⟨e, he, hn, ht, hc, hcd, hsc⟩

/-- … **so under the refreshed key it is a miss for the original question** on the
verified routes: the answer obtained for another name, type or class is never served
for the question that triggered the refresh. -/
theorem refresh_of_other_question_is_miss (s : AStore) (key : UInt64) (expected : Entry) (trigger : Req) (newId : Nat)
    (rn : Bytes) (rt rc : UInt16) (scope : Scope)
    (hother : ¬(foldName rn = foldName trigger.name ∧ rt = trigger.qtype ∧ rc = trigger.qclass))
    (hok : (processPrefetch s key expected trigger newId (some (rn, rt, rc))).2 = true) :
    lookupByKeyVerified (processPrefetch s key expected trigger newId (some (rn, rt, rc))).1.get key
      ⟨trigger.name, trigger.qtype, trigger.qclass, trigger.cd, scope⟩ = none := by
  obtain ⟨e, he, hn, ht, hc, _, _⟩ := refresh_retains_response_question s key expected trigger newId rn rt rc hok
  apply collision_is_miss _ key _ e he
  rintro ⟨h1, h2, h3, _, _⟩
  exact hother ⟨by rw [← hn]; exact h1, by rw [← ht]; exact h2, by rw [← hc]; exact h3⟩

/-- the refresh request is the trigger's question in the trigger's CD partition. -/
theorem refresh_request_keeps_partition (t : Req) :
    (prefetchRequest t).name = t.name ∧ (prefetchRequest t).qtype = t.qtype ∧
    (prefetchRequest t).qclass = t.qclass ∧ (prefetchRequest t).cd = t.cd := ⟨rfl, rfl, rfl, rfl⟩

-- non-vacuity: forward /56, floor /48 (v6) and /24 (v4): a /56-scoped answer for 2001:db8:aaaa:bb00::/56
-- is admitted for 2001:db8:aaaa::/48 — not for the /24 the IPv4 floor would give
example :
    admitScope { forwardV4 := 24, forwardV6 := 56, minScopeV4 := 24, minScopeV6 := 48 }
      (some { v6 := true, bits := 56, addr := [0x20, 0x01, 0x0d, 0xb8, 0xaa, 0xaa, 0xbb, 0, 0, 0, 0, 0, 0, 0, 0, 0] })
      (some { v6 := true, bits := 56, addr := [0x20, 0x01, 0x0d, 0xb8, 0xaa, 0xaa, 0xbb, 0, 0, 0, 0, 0, 0, 0, 0, 0] }) =
    some { v6 := true, bits := 48, addr := [0x20, 0x01, 0x0d, 0xb8, 0xaa, 0xaa, 0, 0, 0, 0, 0, 0, 0, 0, 0, 0] } := by decide
-- non-vacuity: the refresh of `a. A` comes back answering `b. A`: asking `a.` under that key is a miss, the entry is `b.`'s
example :
    let e : Entry := { id := 1, name := [0x61, 0x2E], qtype := 1, qclass := 1, cd := false, scope := none }
    let r := processPrefetch [(5, e)] 5 e ⟨[0x61, 0x2E], 1, 1, false, false⟩ 2 (some ([0x62, 0x2E], 1, 1))
    r.2 = true ∧ lookupByKeyVerified r.1.get 5 ⟨[0x61, 0x2E], 1, 1, false, none⟩ = none ∧
      (r.1.get 5).map (·.name) = some [0x62, 0x2E] := by decide
-- non-vacuity: a CD=1 entry refreshed: the replacement is in the CD=1 partition
example :
    let e : Entry := { id := 1, name := [0x61, 0x2E], qtype := 1, qclass := 1, cd := true, scope := none }
    (processPrefetch [(5, e)] 5 e ⟨[0x41, 0x2E], 1, 1, true, false⟩ 2).1.get 5 =
      some { id := 2, name := [0x41, 0x2E], qtype := 1, qclass := 1, cd := true, scope := none } := by decide

/-! ## Facts regenerated from the tree -/

/-- The renderer tables of the current tree: `isPresentationSpecial` evaluated on all
256 octets is the model's special set, the decoder (`dns.UnpackDomainName`) backslash-
escapes exactly that set and spells exactly 0x00–0x1F and 0x7F–0xFF as `\DDD` — i.e. both
sides of the wire/presentation bridge use the escaping `escByte` models. -/
theorem renderer_tables_match :
    SdnsVerif.Gen.C03.special_bytes = [32, 34, 39, 40, 41, 46, 59, 64, 92] ∧
    SdnsVerif.Gen.C03.decoder_escaped_bytes = SdnsVerif.Gen.C03.special_bytes ∧
    SdnsVerif.Gen.C03.decoder_ddd_bytes = [0, 31, 127, 255] ∧
    SdnsVerif.Gen.C03.max_wire_name_octets = maxWireNameOctets := by
  decide

/-- the model's special set is that table (all 256 octets). -/
theorem model_special_set : ∀ b : UInt8,
    isPresentationSpecial b = decide (b.toNat ∈ [32, 34, 39, 40, 41, 46, 59, 64, 92]) := by
  apply forall_uint8
  decide +kernel

/-- the model's `\DDD` range is that table (all 256 octets). -/
theorem model_ddd_range : ∀ b : UInt8,
    (b < 0x20 || b > 0x7E) = decide (b.toNat ≤ 31 ∨ (127 ≤ b.toNat ∧ b.toNat ≤ 255)) := by
  apply forall_uint8
  decide +kernel

/-- **The library functions the model abstracts, pinned on their whole ASCII domain.**
`strings.EqualFold` (the scoped sweep of `Store.Purge`) equates every ASCII octet with its
case twin — the hypothesis `hEF` of `purge_removes_question` on one-octet names — and no two
other ASCII octets; `dns.CanonicalName` is "lower-case `A–Z`" on every octet below 0x80
and rewrites exactly the octets 0x80–0xFF (which no decoder in the tree leaves unescaped):
the domain on which `canonicalName = foldName`. -/
theorem library_folds_match :
    SdnsVerif.Gen.C03.equalfold_covers_ascii_fold = true ∧
    SdnsVerif.Gen.C03.equalfold_extra_ascii_pairs = [] ∧
    SdnsVerif.Gen.C03.canonicalname_rewritten_bytes = [128, 255] := by
  decide

/-- index salts and the chase bound of the current tree are the model's; the three
salted index spaces are pairwise distinct from each other and from the answer keys. -/
theorem index_constants_match :
    SdnsVerif.Gen.C03.failure_question_salt = failureQuestionHashSalt.toNat ∧
    SdnsVerif.Gen.C03.failure_zone_salt = failureZoneHashSalt.toNat ∧
    SdnsVerif.Gen.C03.cut_salt = nxDomainCutHashSalt.toNat ∧
    SdnsVerif.Gen.C03.max_wire_chase_hops ≤ maxWireChaseHops ∧
    failureQuestionHashSalt ≠ failureZoneHashSalt ∧ failureQuestionHashSalt ≠ nxDomainCutHashSalt ∧
    failureZoneHashSalt ≠ nxDomainCutHashSalt ∧ failureQuestionHashSalt ≠ 0 ∧ failureZoneHashSalt ≠ 0 ∧
    nxDomainCutHashSalt ≠ 0 := by
  decide

end SdnsVerif.Props.C03
