import SdnsVerif.Model.Bailiwick
import SdnsVerif.Lemmas.Bailiwick
import SdnsVerif.Gen.C07
/-!
# C07 — authoritative data is trusted only inside the sender's bailiwick

Property theorems only (helper lemmas live in `Lemmas/Bailiwick.lean`).

Names are label lists as `dns.NextLabel` splits them (`labelsOf`); "inside a
zone" is `LabelSuffix zone name`: the labels of `zone` are the last labels of
`name`, compared label by label up to ASCII case — never a string suffix.

PARTIAL only in this sense: the clauses about *later* queries (nothing the
attacker said is cached under a victim name or used for another question) are
judged on the real pipeline by the l3 oracle; the guards and filters,
including the relay filter added by /repo commit fdb9218, are proved here.
-/
namespace SdnsVerif.Props.C07
open SdnsVerif.Model.Bailiwick SdnsVerif.Lemmas.Bailiwick

/-! ## names are compared label-wise -/

/-- **`dnsname.Sub` is the label-wise suffix relation**, for all names: it
holds exactly when the zone's labels are the trailing labels of the name
(each compared up to ASCII case). -/
theorem sub_is_labelwise (zone name : Name) : sub zone name = true ↔ LabelSuffix zone name :=
  sub_iff zone name

/-- **Zone membership ignores the case either name is spelled in**: lower-casing
(what `dns.CanonicalName` / `strings.ToLower` do before the comparisons) commutes
with label splitting, because it neither creates nor removes a dot or a backslash. -/
theorem zone_membership_ignores_case (zone name : Str) :
    LabelSuffix (labelsOf (lower zone)) (labelsOf (lower name)) ↔
      LabelSuffix (labelsOf zone) (labelsOf name) :=
  labelSuffix_lower_iff zone name

example : labelsOf (lower "X\\.Example.COM.".toList) = (labelsOf "X\\.Example.COM.".toList).map lower := by decide

/-- `CompareSuffix` never reports more shared labels than either name has. -/
theorem compareSuffix_bounded (a b : Name) :
    compareSuffix a b ≤ a.length ∧ compareSuffix a b ≤ b.length :=
  ⟨compareSuffix_le_left a b, compareSuffix_le_right a b⟩

-- a string suffix is not a subdomain; case and depth do not matter; an escaped dot does not split
example : sub (labelsOf "example.com.".toList) (labelsOf "evil-example.com.".toList) = false := by decide
example : sub (labelsOf "example.com.".toList) (labelsOf "a.b.EXAMPLE.Com.".toList) = true := by decide
example : sub (labelsOf "example.com.".toList) (labelsOf "x\\.example.com.".toList) = false := by decide
example : labelsOf "x\\.example.com.".toList = ["x\\.example.".toList, "com.".toList] := by decide
example : sub (labelsOf ".".toList) (labelsOf "anything.test.".toList) = true := by decide

/-! ## the exchange guard -/

/-- **A reply is accepted only if it matches the outstanding query.** Whatever
`(*Conn).Exchange` returns without error is one of the candidates that
arrived, was readable, carries the query's ID and — when the query has a
question — exactly one question with the same type, class and (case-folded)
name. On a datagram socket everything skipped before it had another ID; on a
stream only the first message is ever looked at. -/
theorem exchange_accepts_only_matching (udp : Bool) (qid : Nat) (q : Option Question)
    (cands : List Cand) (i used : Nat) (h : exchange udp qid q cands = (XRes.ok i, used)) :
    ∃ c, cands[i]? = some c ∧ c.bad = false ∧ c.id = qid ∧
      (∀ qq, q = some qq → ∃ r, c.qs = [r] ∧ r.qtype = qq.qtype ∧ r.qclass = qq.qclass ∧
        lower r.name = lower qq.name) ∧
      (udp = true → ∀ k, k < i → ∃ d, cands[k]? = some d ∧ d.bad = false ∧ d.id ≠ qid) ∧
      (udp = false → i = 0) := by
  unfold exchange at h
  -- what `pick` selected
  have key : ∀ j c u, pick udp qid cands = (Picked.got j c, u) →
      cands[j]? = some c ∧ c.bad = false ∧ c.id = qid ∧
      (udp = true → ∀ k, k < j → ∃ d, cands[k]? = some d ∧ d.bad = false ∧ d.id ≠ qid) ∧
      (udp = false → j = 0) := by
    intro j c u hp
    unfold pick at hp
    cases udp with
    | true =>
      simp only [if_true] at hp
      cases hl : udpLoop qid cands 0 with
      | mk r u' =>
        rw [hl] at hp
        cases r with
        | none => simp at hp
        | some p =>
          obtain ⟨j', c'⟩ := p
          simp only [Prod.mk.injEq, Picked.got.injEq] at hp
          obtain ⟨⟨rfl, rfl⟩, rfl⟩ := hp
          obtain ⟨_, _, h3, h4, h5, h6⟩ := udpLoop_spec qid cands 0 j' c' u' hl
          exact ⟨by simpa using h3, h4, h5, fun _ k hk => h6 k (by simpa using hk), by simp⟩
    | false =>
      simp only [Bool.false_eq_true, if_false] at hp
      cases cands with
      | nil => simp at hp
      | cons d t =>
        simp only at hp
        by_cases hb : d.bad = true
        · simp [hb] at hp
        · have hb' : d.bad = false := by simpa using hb
          by_cases hid : d.id = qid
          · simp only [hb', Bool.false_eq_true, if_false, hid, if_true, Prod.mk.injEq,
              Picked.got.injEq] at hp
            obtain ⟨⟨rfl, rfl⟩, _⟩ := hp
            exact ⟨by simp, hb', hid, by simp, fun _ => rfl⟩
          · simp [hb', hid] at hp
  cases hp : pick udp qid cands with
  | mk r u =>
    rw [hp] at h
    cases r with
    | readErr => simp at h
    | idErr => simp at h
    | got j c =>
      obtain ⟨k1, k2, k3, k4, k5⟩ := key j c u hp
      cases q with
      | none =>
        simp only [Prod.mk.injEq, XRes.ok.injEq] at h
        obtain ⟨rfl, _⟩ := h
        exact ⟨c, k1, k2, k3, (by intro qq hq; cases hq), k4, k5⟩
      | some qq =>
        simp only at h
        by_cases hm : questionMatches qq c.qs = true
        · simp only [hm, if_true, Prod.mk.injEq, XRes.ok.injEq] at h
          obtain ⟨rfl, _⟩ := h
          refine ⟨c, k1, k2, k3, ?_, k4, k5⟩
          intro qq' hq
          cases hq
          unfold questionMatches at hm
          cases hqs : c.qs with
          | nil => rw [hqs] at hm; simp at hm
          | cons r t =>
            cases t with
            | nil =>
              rw [hqs] at hm
              simp only [Bool.and_eq_true, beq_iff_eq] at hm
              exact ⟨r, rfl, hm.1.1, hm.1.2, hm.2⟩
            | cons r' t' => rw [hqs] at hm; simp at hm
        · simp [hm] at h

/-- On a stream transport a first message with another ID is an error
(`dns.ErrId`), never skipped and never returned. -/
theorem stream_wrong_id_is_error (qid : Nat) (q : Option Question) (c : Cand) (t : List Cand)
    (hb : c.bad = false) (hid : c.id ≠ qid) :
    exchange false qid q (c :: t) = (XRes.errId, 1) := by
  simp [exchange, pick, hb, hid]

/-- A readable reply with the right ID but another question ends the exchange
with `ErrQuestion`: it is not returned and nothing behind it is read. -/
theorem wrong_question_is_error (udp : Bool) (qid : Nat) (qq : Question) (c : Cand) (t : List Cand)
    (hb : c.bad = false) (hid : c.id = qid) (hq : questionMatches qq c.qs = false) :
    exchange udp qid (some qq) (c :: t) = (XRes.errQuestion, 1) := by
  cases udp <;> simp [exchange, pick, udpLoop, hb, hid, hq]

/-- **Header bits buy a reply nothing.** `Exchange` decides on readability, ID
and question section alone: rewriting the header word of every candidate (TC,
AA, QR, rcode, …) in any way changes neither which candidate is returned nor
the error. In particular a truncated (TC=1) reply is held to the ID and
question guards like any other, on a stream as on a datagram socket. -/
theorem exchange_ignores_header (udp : Bool) (qid : Nat) (q : Option Question) (cands : List Cand)
    (f : Cand → Nat) (g : Cand → Bool) :
    exchange udp qid q (cands.map fun c => { c with hdr := f c, tc := g c }) = exchange udp qid q cands := by
  have loop : ∀ (cs : List Cand) (i : Nat),
      udpLoop qid (cs.map fun c => { c with hdr := f c, tc := g c }) i =
        ((udpLoop qid cs i).1.map fun p => (p.1, { p.2 with hdr := f p.2, tc := g p.2 }), (udpLoop qid cs i).2) := by
    intro cs
    induction cs with
    | nil => intro i; simp [udpLoop]
    | cons c t ih =>
      intro i
      simp only [List.map_cons, udpLoop]
      by_cases hb : c.bad = true
      · simp [hb]
      · by_cases hid : c.id = qid
        · simp [hb, hid]
        · simp only [hb, hid, if_false, Bool.false_eq_true]
          exact ih (i + 1)
  unfold exchange pick
  cases udp with
  | true =>
    simp only [if_true]
    rw [loop cands 0]
    cases h : udpLoop qid cands 0 with
    | mk r u =>
      cases r with
      | none => simp
      | some p => cases q <;> simp
  | false =>
    simp only [Bool.false_eq_true, if_false]
    cases cands with
    | nil => simp
    | cons c t =>
      simp only [List.map_cons]
      by_cases hb : c.bad = true
      · simp [hb]
      · by_cases hid : c.id = qid
        · cases q <;> simp [hb, hid]
        · simp [hb, hid]

/-- A reply over a stream with the right ID, any header bits (TC=1 included)
and another question is refused with `ErrQuestion` — nobody retries a stream. -/
theorem stream_truncated_wrong_question_is_error (qid hdr : Nat) (qq : Question) (qs : List Question)
    (t : List Cand) (hq : questionMatches qq qs = false) :
    exchange false qid (some qq) (⟨false, qid, qs, hdr, false⟩ :: t) = (XRes.errQuestion, 1) :=
  wrong_question_is_error false qid qq ⟨false, qid, qs, hdr, false⟩ t rfl rfl hq

/-- No transaction ID has a special standing on a stream — not 0 (what a DoH
gateway normalises to), not 0xffff: unless it equals the query's, the reply is
`dns.ErrId` whatever else it carries. -/
theorem stream_special_id_is_error (qid id hdr : Nat) (q : Option Question) (qs : List Question)
    (t : List Cand) (hne : id ≠ qid) :
    exchange false qid q (⟨false, id, qs, hdr, false⟩ :: t) = (XRes.errId, 1) :=
  stream_wrong_id_is_error qid q ⟨false, id, qs, hdr, false⟩ t rfl hne

example : exchange false 4711 (some ⟨"mail.victim.test.".toList, 1, 1⟩)
    [⟨false, 0, [⟨"mail.victim.test.".toList, 1, 1⟩], 0, false⟩] = (XRes.errId, 1) := by decide

/-- What `pick` selects: a readable candidate with the query's ID; on a datagram
socket everything before it had another ID, on a stream it is the first message. -/
theorem pick_got_spec (udp : Bool) (qid : Nat) (cands : List Cand) (j : Nat) (c : Cand) (u : Nat)
    (hp : pick udp qid cands = (Picked.got j c, u)) :
    cands[j]? = some c ∧ c.bad = false ∧ c.id = qid ∧ (udp = false → j = 0) := by
  unfold pick at hp
  cases udp with
  | true =>
    simp only [if_true] at hp
    cases hl : udpLoop qid cands 0 with
    | mk r u' =>
      rw [hl] at hp
      cases r with
      | none => simp at hp
      | some p =>
        obtain ⟨j', c'⟩ := p
        simp only [Prod.mk.injEq, Picked.got.injEq] at hp
        obtain ⟨⟨rfl, rfl⟩, rfl⟩ := hp
        obtain ⟨_, _, h3, h4, h5, _⟩ := udpLoop_spec qid cands 0 j' c' u' hl
        exact ⟨by simpa using h3, h4, h5, by simp⟩
  | false =>
    simp only [Bool.false_eq_true, if_false] at hp
    cases cands with
    | nil => simp at hp
    | cons d t =>
      simp only at hp
      by_cases hb : d.bad = true
      · simp [hb] at hp
      · have hb' : d.bad = false := by simpa using hb
        by_cases hid : d.id = qid
        · simp only [hb', Bool.false_eq_true, if_false, hid, if_true, Prod.mk.injEq,
            Picked.got.injEq] at hp
          obtain ⟨⟨rfl, rfl⟩, _⟩ := hp
          exact ⟨by simp, hb', hid, fun _ => rfl⟩
        · simp [hb', hid] at hp

theorem clientLeg_accept (udp : Bool) (qid : Nat) (q : Option Question) (cands : List Cand)
    (i : Nat) (c : Cand) (h : clientLeg udp qid q false cands = Sum.inr (i, c)) :
    cands[i]? = some c ∧ c.bad = false ∧ c.id = qid ∧ (udp = false → i = 0) ∧
      (∀ qq, q = some qq → questionMatches qq c.qs = true) := by
  unfold clientLeg at h
  cases hp : pick udp qid cands with
  | mk r u =>
    rw [hp] at h
    cases r with
    | readErr => simp at h
    | idErr => simp at h
    | got j d =>
      obtain ⟨k1, k2, k3, k4⟩ := pick_got_spec udp qid cands j d u hp
      cases q with
      | none =>
        simp only [Sum.inr.injEq, Prod.mk.injEq] at h
        obtain ⟨rfl, rfl⟩ := h
        exact ⟨k1, k2, k3, k4, by intro qq hq; cases hq⟩
      | some qq =>
        simp only [Bool.false_or] at h
        by_cases hm : questionMatches qq d.qs = true
        · simp only [hm, if_true, Sum.inr.injEq, Prod.mk.injEq] at h
          obtain ⟨rfl, rfl⟩ := h
          exact ⟨k1, k2, k3, k4, by intro qq' hq; cases hq; exact hm⟩
        · simp [hm] at h

/-- **`dnsclient.Client.Exchange` (udp upstream, question guard on): both legs
are held to the ID and the question.** A reply returned from the datagram leg
is readable, not truncated, has the query's ID and exactly its question; a
reply returned from the stream leg that follows a truncated datagram is the
first message on that stream and — again — has the query's ID and exactly its
question. Having answered the datagram correctly buys the stream nothing. -/
theorem client_accepts_only_matching (qid : Nat) (q : Option Question) (us ts : List Cand) :
    (∀ i, clientExchange qid q false us ts = CliRes.udp i →
      ∃ c, us[i]? = some c ∧ c.id = qid ∧ c.tc = false ∧
        ∀ qq, q = some qq → questionMatches qq c.qs = true) ∧
    (∀ j, clientExchange qid q false us ts = CliRes.tcp j →
      j = 0 ∧ ∃ c, ts[0]? = some c ∧ c.id = qid ∧ ∀ qq, q = some qq → questionMatches qq c.qs = true) := by
  unfold clientExchange
  cases h1 : clientLeg true qid q false us with
  | inl e => simp
  | inr p =>
    obtain ⟨i, c⟩ := p
    obtain ⟨a1, _, a3, _, a5⟩ := clientLeg_accept true qid q us i c h1
    simp only
    by_cases htc : c.tc = true
    · simp only [htc, if_true]
      cases h2 : clientLeg false qid q false ts with
      | inl e => simp
      | inr p2 =>
        obtain ⟨j, d⟩ := p2
        obtain ⟨b1, _, b3, b4, b5⟩ := clientLeg_accept false qid q ts j d h2
        have hj : j = 0 := b4 rfl
        subst hj
        simp only [reduceCtorEq, false_implies, implies_true, CliRes.tcp.injEq, true_and]
        intro j hj
        subst hj
        exact ⟨rfl, d, b1, b3, b5⟩
    · have htc' : c.tc = false := by simpa using htc
      simp only [htc', Bool.false_eq_true, if_false, CliRes.udp.injEq, reduceCtorEq, false_implies,
        implies_true, and_true]
      intro i' hi
      subst hi
      exact ⟨c, a1, a3, htc', a5⟩

-- the seeded shape of C07-22: a correct truncated datagram, then a stream reply with the right ID for another question
example : clientExchange 4711 (some ⟨"q.test.".toList, 1, 1⟩) false
    [⟨false, 4711, [⟨"q.test.".toList, 1, 1⟩], 116, true⟩]
    [⟨false, 4711, [⟨"www.victim.test.".toList, 1, 1⟩], 0, false⟩] = CliRes.err XRes.errQuestion := by decide
example : clientExchange 4711 (some ⟨"q.test.".toList, 1, 1⟩) false
    [⟨false, 4712, [], 0, false⟩, ⟨false, 4711, [⟨"q.test.".toList, 1, 1⟩], 116, true⟩]
    [⟨false, 4711, [⟨"Q.TEST.".toList, 1, 1⟩], 0, false⟩] = CliRes.tcp 0 := by decide

/-- **DoH: the reply's ID is the query's or the RFC 8484 zero, nothing else**,
also when the query's own ID is 0; and the question guard applies unless the
caller switched it off. -/
theorem doh_accepts_only_matching (qid : Nat) (q : Option Question) (skip : Bool) (c : Cand) (i : Nat)
    (h : dohExchange qid q skip c = XRes.ok i) :
    c.bad = false ∧ (c.id = qid ∨ c.id = 0) ∧
      (∀ qq, q = some qq → skip = false → questionMatches qq c.qs = true) := by
  unfold dohExchange at h
  by_cases hb : c.bad = true
  · simp [hb] at h
  · have hb' : c.bad = false := by simpa using hb
    simp only [hb', Bool.false_eq_true, if_false] at h
    by_cases hid : c.id ≠ qid ∧ c.id ≠ 0
    · simp [hid] at h
    · simp only [hid, if_false] at h
      refine ⟨hb', by omega, ?_⟩
      intro qq hq hs
      subst hq hs
      simp only [Bool.false_or] at h
      by_cases hm : questionMatches qq c.qs = true
      · exact hm
      · simp [hm] at h

-- a query with ID 0 gets no free pass: 0xBEEF is refused, 0 is accepted
example : dohExchange 0 (some ⟨"q.test.".toList, 1, 1⟩) false ⟨false, 48879, [⟨"q.test.".toList, 1, 1⟩], 0, false⟩
    = XRes.errId := by decide
example : dohExchange 4711 (some ⟨"q.test.".toList, 1, 1⟩) false ⟨false, 0, [⟨"Q.test.".toList, 1, 1⟩], 0, false⟩
    = XRes.ok 0 := by decide

-- non-vacuity: two stray datagrams (wrong id; right id comes third, case differs) — the third is returned
example : exchange true 7 (some ⟨"www.victim.test.".toList, 1, 1⟩)
    [⟨false, 8, [⟨"www.victim.test.".toList, 1, 1⟩], 0, false⟩, ⟨false, 6, [], 0, false⟩,
     ⟨false, 7, [⟨"WWW.Victim.test.".toList, 1, 1⟩], 0, false⟩] = (XRes.ok 2, 3) := by decide
example : exchange true 7 (some ⟨"mail.victim.test.".toList, 1, 1⟩)
    [⟨false, 7, [⟨"www.victim.test.".toList, 1, 1⟩], 0, false⟩, ⟨false, 7, [⟨"mail.victim.test.".toList, 1, 1⟩], 0, false⟩]
      = (XRes.errQuestion, 1) := by decide
-- a TC=1 reply (header word 116 = 't') over a stream with the right id and a victim-zone question is refused
example : exchange false 7 (some ⟨"x.sub.evil.test.".toList, 1, 1⟩)
    [⟨false, 7, [⟨"x.sub.victim.test.".toList, 1, 1⟩], 116, false⟩] = (XRes.errQuestion, 1) := by decide

/-! ## glue -/

/-- **`usableAddr` never yields loopback or one of the machine's own
addresses**, in either spelling of an IPv4 address. -/
theorem usable_addr_sound (locals : List IP) (ip a : IP) (h : usableAddr locals ip = some a) :
    unmap ip = some a ∧ isLoopback a = false ∧ a ∉ locals := by
  unfold usableAddr at h
  cases hu : unmap ip with
  | none => rw [hu] at h; simp at h
  | some b =>
    rw [hu] at h
    simp only at h
    by_cases hc : (isLoopback b || isLocal locals b) = true
    · simp [hc] at h
    · simp only [hc, Bool.false_eq_true, if_false, Option.some.injEq] at h
      subst h
      simp only [Bool.or_eq_true, not_or, Bool.not_eq_true] at hc
      refine ⟨rfl, hc.1, ?_⟩
      intro hm
      have : isLocal locals b = true := by unfold isLocal; simpa using hm
      rw [hc.2] at this; cases this

/-- **Accepted glue is in bailiwick.** Every `(host, address)` that
`checkGlueRR` accepts (and therefore caches and dials) comes from an address
record of the message whose owner is a name-server of the referral's NS set,
lies label-wise inside the delegating zone — the last `level` labels of the
name that was asked, all of which exist — and whose address is neither
loopback nor a local interface address. -/
theorem glue_in_bailiwick (locals : List IP) (ipv6 : Bool) (level : Nat) (qname : Str)
    (hosts : List Str) (extras : List Extra) (host : Str) (a : IP)
    (hm : (host, a) ∈ (checkGlue locals ipv6 level qname hosts extras).v4 ∨
          (host, a) ∈ (checkGlue locals ipv6 level qname hosts extras).v6) :
    host ∈ hosts ∧
    level ≤ (labelsOf qname).length ∧
    LabelSuffix ((labelsOf qname).drop ((labelsOf qname).length - level)) (labelsOf host) ∧
    isLoopback a = false ∧ a ∉ locals ∧
    ∃ e ∈ extras, lower e.owner = host ∧ unmap e.addr = some a := by
  have one : ∀ e, glueOne locals level qname hosts e = some (host, a) →
      host ∈ hosts ∧ level ≤ (labelsOf qname).length ∧
      LabelSuffix ((labelsOf qname).drop ((labelsOf qname).length - level)) (labelsOf host) ∧
      isLoopback a = false ∧ a ∉ locals ∧ lower e.owner = host ∧ unmap e.addr = some a := by
    intro e he
    unfold glueOne at he
    simp only at he
    split at he
    · cases he
    · rename_i hlt
      split at he
      · rename_i hh
        split at he
        · cases he
        · rename_i b hu
          simp only [Option.some.injEq, Prod.mk.injEq] at he
          obtain ⟨rfl, rfl⟩ := he
          obtain ⟨u1, u2, u3⟩ := usable_addr_sound locals e.addr b hu
          have hmem : lower e.owner ∈ hosts := by simpa using hh
          have hge : level ≤ compareSuffix (labelsOf (lower e.owner)) (prevSuffix (labelsOf qname) level) :=
            Nat.le_of_not_lt hlt
          by_cases hl0 : level = 0
          · subst hl0
            exact ⟨hmem, Nat.zero_le _, ⟨labelsOf (lower e.owner), [], by simp, by simp [LabelsEq]⟩,
              u2, u3, rfl, u1⟩
          · have hps : prevSuffix (labelsOf qname) level =
                (labelsOf qname).drop ((labelsOf qname).length - level) := by
              unfold prevSuffix; simp [hl0]
            rw [hps] at hge
            have hr := compareSuffix_le_right (labelsOf (lower e.owner))
              ((labelsOf qname).drop ((labelsOf qname).length - level))
            have hlen : level ≤ (labelsOf qname).length := by
              simp only [List.length_drop] at hr; omega
            have hzl : ((labelsOf qname).drop ((labelsOf qname).length - level)).length = level := by
              simp only [List.length_drop]; omega
            have hsub : sub ((labelsOf qname).drop ((labelsOf qname).length - level))
                (labelsOf (lower e.owner)) = true := by
              unfold sub
              rw [compareSuffix_comm]
              simp only [beq_iff_eq]
              omega
            exact ⟨hmem, hlen, (sub_iff _ _).mp hsub, u2, u3, rfl, u1⟩
      · cases he
  have pass : ∀ rt, (host, a) ∈ gluePass locals level qname hosts rt extras →
      ∃ e ∈ extras, glueOne locals level qname hosts e = some (host, a) := by
    intro rt hp
    unfold gluePass at hp
    obtain ⟨e, he, hx⟩ := List.mem_filterMap.mp hp
    by_cases ht : e.rtype = rt
    · simp only [ht, if_true] at hx; exact ⟨e, he, hx⟩
    · simp [ht] at hx
  have fin : ∀ rt, (host, a) ∈ gluePass locals level qname hosts rt extras →
      host ∈ hosts ∧ level ≤ (labelsOf qname).length ∧
      LabelSuffix ((labelsOf qname).drop ((labelsOf qname).length - level)) (labelsOf host) ∧
      isLoopback a = false ∧ a ∉ locals ∧ ∃ e ∈ extras, lower e.owner = host ∧ unmap e.addr = some a := by
    intro rt hp
    obtain ⟨e, he, hx⟩ := pass rt hp
    obtain ⟨a1, a2, a3, a4, a5, a6, a7⟩ := one e hx
    exact ⟨a1, a2, a3, a4, a5, e, he, a6, a7⟩
  unfold checkGlue at hm
  simp only at hm
  rcases hm with hm | hm
  · exact fin 1 hm
  · cases ipv6 with
    | true => simp only [if_true] at hm; exact fin 28 hm
    | false => simp at hm

/-- **Glue stays inside the delegating zone — provided the level handed to
`checkGlueRR` is at least the zone's depth.** `checkGlueRR` does not know the
zone whose servers answered; it trusts `rs.level`. If the delegating zone is an
ancestor-or-self of the name asked and has at most `level` labels, every
accepted host lies label-wise inside that zone. The hypothesis
`(labelsOf zone).length ≤ level` is an invariant of the resolver's descent
(`rs.level` vs `rs.servers.Zone`) that is NOT established here: it is what the
l3 shape `race-cached-delegation` probes, and where it fails the bailiwick is
wider than the zone (see the example below and notes/C07.md). -/
theorem glue_inside_delegating_zone (locals : List IP) (ipv6 : Bool) (level : Nat) (qname zone : Str)
    (hosts : List Str) (extras : List Extra) (host : Str) (a : IP)
    (hzone : LabelSuffix (labelsOf zone) (labelsOf qname))
    (hlevel : (labelsOf zone).length ≤ level)
    (hm : (host, a) ∈ (checkGlue locals ipv6 level qname hosts extras).v4 ∨
          (host, a) ∈ (checkGlue locals ipv6 level qname hosts extras).v6) :
    LabelSuffix (labelsOf zone) (labelsOf host) := by
  obtain ⟨_, _, hin, _⟩ := glue_in_bailiwick locals ipv6 level qname hosts extras host a hm
  exact (hzone.drop_of_le level hlevel).trans hin

-- with the right level (3 = labels of evil.co.test.) the sibling zone's name server is refused …
example : (checkGlue [] false 3 "y.c1.evil.co.test.".toList ["ns1.victim.co.test.".toList]
    [⟨"ns1.victim.co.test.".toList, 1, [198, 51, 100, 6]⟩]).servers = [] := by decide
-- … with a level one short of the zone's depth (2: the bailiwick is `co.test.`) it is accepted
example : (checkGlue [] false 2 "y.c1.evil.co.test.".toList ["ns1.victim.co.test.".toList]
    [⟨"ns1.victim.co.test.".toList, 1, [198, 51, 100, 6]⟩]).servers = [[198, 51, 100, 6]] := by decide

theorem searchCacheWalk_suffix (cached : List Str) : ∀ (l : Name), ∃ pre, l = pre ++ searchCacheWalk cached l := by
  intro l
  induction l with
  | nil => exact ⟨[], rfl⟩
  | cons x t ih =>
    unfold searchCacheWalk
    split
    · exact ⟨[], rfl⟩
    · cases t with
      | nil => exact ⟨[x], by simp⟩
      | cons y t' =>
        obtain ⟨pre, hpre⟩ := ih
        exact ⟨x :: pre, by simp only [List.cons_append]; rw [← hpre]⟩

/-- **Authority selection: the cached zone whose servers are asked is an
ancestor-or-self of the question name, label for label** (for a DS question:
of its parent name). Whatever sits in the delegation cache and however the
name is spelled — `foo\.evil.test.` is one label `foo\.evil.` under `test.` —
the servers of a zone are never handed a question for a name outside it. -/
theorem searchCache_selects_ancestor (cached : List Str) (qname : Str) (isDS : Bool) :
    LabelSuffix (searchCache cached qname isDS).1 (labelsOf qname) ∧
    (isDS = true → LabelSuffix (searchCache cached qname isDS).1 ((labelsOf qname).drop 1)) := by
  unfold searchCache
  simp only
  constructor
  · obtain ⟨pre, hpre⟩ := searchCacheWalk_suffix cached (if isDS = true then (labelsOf qname).drop 1 else labelsOf qname)
    cases isDS with
    | false =>
      simp only [Bool.false_eq_true, if_false] at hpre ⊢
      exact ⟨pre, _, hpre, LabelsEq.refl _⟩
    | true =>
      simp only [if_true] at hpre ⊢
      refine ⟨(labelsOf qname).take 1 ++ pre, _, ?_, LabelsEq.refl _⟩
      rw [List.append_assoc, ← hpre, List.take_append_drop]
  · intro hds
    subst hds
    simp only [if_true]
    obtain ⟨pre, hpre⟩ := searchCacheWalk_suffix cached ((labelsOf qname).drop 1)
    exact ⟨pre, _, hpre, LabelsEq.refl _⟩

-- the seeded shape of C07-23: with evil.test. cached, `foo\.evil.test.` goes to the root / test. side, never to evil.test.
example : (searchCache ["evil.test.".toList] "foo\\.evil.test.".toList false).1 = [] := by decide
example : (searchCache ["evil.test.".toList, "test.".toList] "foo\\.evil.test.".toList false)
    = (["test.".toList], 1) := by decide
example : (searchCache ["evil.test.".toList] "A.Evil.test.".toList false) = (["Evil.".toList, "test.".toList], 2) := by decide
example : (searchCache ["evil.test.".toList, "test.".toList] "evil.test.".toList true) = (["test.".toList], 1) := by decide

/-- **The level is never below the depth of the zone being asked**, along any
sequence of the descent's steps (seed from the delegation cache, follow a
referral, take a cached delegation, minimisation steps upwards). This is the
hypothesis `glue_inside_delegating_zone` needs; that these steps are the only
writes to `rs.level` is the regenerated fact `shape_level_is_zone_depth`. -/
theorem level_never_below_zone_depth (steps : List LevelStep) (d : Descent)
    (h : d.zoneDepth ≤ d.level) :
    (steps.foldl levelStep d).zoneDepth ≤ (steps.foldl levelStep d).level := by
  induction steps generalizing d with
  | nil => exact h
  | cons st t ih =>
    apply ih
    cases st <;> simp [levelStep] <;> omega

-- the step taken before /repo 97282c4 breaks it: a three-label zone reached from level 1 through a cache hit
example : (([LevelStep.seed 1, LevelStep.cachedHit 3].foldl levelStepOld {}).level,
    ([LevelStep.seed 1, LevelStep.cachedHit 3].foldl levelStepOld {}).zoneDepth) = (2, 3) := by decide
example : ([LevelStep.seed 1, LevelStep.cachedHit 3, LevelStep.minimiseUp].foldl levelStep {}) = ⟨4, 3⟩ := by decide

/-- Every server `checkGlueRR` hands to the resolver is the address of some
accepted glue record (so `glue_in_bailiwick` applies to it). -/
theorem glue_servers_are_accepted (locals : List IP) (ipv6 : Bool) (level : Nat) (qname : Str)
    (hosts : List Str) (extras : List Extra) (a : IP)
    (hm : a ∈ (checkGlue locals ipv6 level qname hosts extras).servers) :
    ∃ host, (host, a) ∈ (checkGlue locals ipv6 level qname hosts extras).v4 ∨
            (host, a) ∈ (checkGlue locals ipv6 level qname hosts extras).v6 := by
  unfold checkGlue at hm ⊢
  simp only at hm ⊢
  have := mem_of_mem_dedup a _ hm
  obtain ⟨p, hp, rfl⟩ := List.mem_map.mp this
  rcases List.mem_append.mp hp with h | h
  · exact ⟨p.1, Or.inr h⟩
  · exact ⟨p.1, Or.inl h⟩

-- non-vacuity: in-bailiwick glue accepted; out-of-zone host, string-suffix host, host outside
-- the NS set, loopback (both spellings) and a local address are all dropped
example : (checkGlue [[192, 0, 2, 2]] false 2 "x.sub.evil.test.".toList
    ["ns.sub.evil.test.".toList, "ns1.victim.test.".toList, "nsevil.test.".toList]
    [⟨"NS.sub.evil.test.".toList, 1, [198, 51, 100, 7]⟩, ⟨"ns1.victim.test.".toList, 1, [198, 51, 100, 8]⟩,
     ⟨"nsevil.test.".toList, 1, [198, 51, 100, 9]⟩, ⟨"other.evil.test.".toList, 1, [198, 51, 100, 10]⟩,
     ⟨"ns.sub.evil.test.".toList, 1, [127, 0, 0, 1]⟩,
     ⟨"ns.sub.evil.test.".toList, 1, [0, 0, 0, 0, 0, 0, 0, 0, 0, 0, 255, 255, 127, 0, 0, 1]⟩,
     ⟨"ns.sub.evil.test.".toList, 1, [192, 0, 2, 2]⟩]).servers = [[198, 51, 100, 7]] := by decide

/-! ## referrals -/

/-- **An accepted referral progresses.** If `validReferral` accepts what
`extractDelegationInfo` found in an authority section, then the section's NS
records form one coherent set — every NS record has the same owner (up to
case) and the class of the question — whose owner lies label-wise inside the
zone that was asked, is strictly deeper than it, and is the query name or an
ancestor of it. -/
theorem referral_progress (ns : List AuthRR) (authZone qname : Str) (qclass : Nat)
    (h : validReferral (extractDelegationInfo ns) authZone qname qclass = true) :
    ∃ owner,
      (∃ t g, AuthRR.ns owner qclass t g ∈ ns) ∧
      (∀ o c t g, AuthRR.ns o c t g ∈ ns → eqFold o owner = true ∧ c = qclass) ∧
      LabelSuffix (labelsOf authZone) (labelsOf owner) ∧
      (labelsOf authZone).length < (labelsOf owner).length ∧
      LabelSuffix (labelsOf owner) (labelsOf qname) := by
  have inv := extract_inv ns
  unfold validReferral at h
  cases hns : (extractDelegationInfo ns).ns with
  | none => rw [hns] at h; simp at h
  | some p =>
    obtain ⟨owner, cls⟩ := p
    rw [hns] at h
    simp only [Bool.and_eq_true, Bool.not_eq_true', beq_iff_eq] at h
    obtain ⟨⟨hinc, hcls⟩, hprog⟩ := h
    subst hcls
    unfold progressingReferral at hprog
    by_cases h1 : sub (labelsOf authZone) (labelsOf owner) = true
    · simp only [h1, Bool.not_true, Bool.false_eq_true, if_false] at hprog
      by_cases h2 : (lower owner == lower authZone) = true
      · simp [h2] at hprog
      · simp only [h2, Bool.false_eq_true, if_false] at hprog
        have s1 := (sub_iff _ _).mp h1
        have s2 := (sub_iff _ _).mp hprog
        refine ⟨owner, inv.anchored owner cls hns, inv.coherent owner cls hns hinc, s1, ?_, s2⟩
        have hle := s1.length_le
        rcases Nat.lt_or_ge (labelsOf authZone).length (labelsOf owner).length with hlt | hge
        · exact hlt
        · exfalso
          have := lower_eq_of_labelsEq authZone owner (s1.eq_of_length hge)
          apply h2
          simp [this]
    · simp [h1] at hprog

/-- A referral to the zone that was asked (same name up to case) is rejected. -/
theorem self_referral_rejected (info : DelegInfo) (owner authZone qname : Str) (cls qclass : Nat)
    (hns : info.ns = some (owner, cls)) (hself : lower owner = lower authZone) :
    validReferral info authZone qname qclass = false := by
  unfold validReferral progressingReferral
  rw [hns]
  simp [hself]

/-- A referral to a name that is not strictly deeper than the zone asked — the
zone itself, its parent, the root — is rejected. -/
theorem upward_referral_rejected (ns : List AuthRR) (authZone qname : Str) (qclass : Nat)
    (hup : ∀ o c t g, AuthRR.ns o c t g ∈ ns → (labelsOf o).length ≤ (labelsOf authZone).length) :
    validReferral (extractDelegationInfo ns) authZone qname qclass = false := by
  cases hv : validReferral (extractDelegationInfo ns) authZone qname qclass with
  | false => rfl
  | true =>
    obtain ⟨owner, ⟨t, g, hm⟩, _, _, hlt, _⟩ := referral_progress ns authZone qname qclass hv
    have := hup owner qclass t g hm
    omega

/-- A referral to a name outside the zone asked (a sibling, an unrelated zone,
a string-suffix look-alike) is rejected. -/
theorem sideways_referral_rejected (ns : List AuthRR) (authZone qname : Str) (qclass : Nat)
    (hside : ∀ o c t g, AuthRR.ns o c t g ∈ ns → ¬ LabelSuffix (labelsOf authZone) (labelsOf o)) :
    validReferral (extractDelegationInfo ns) authZone qname qclass = false := by
  cases hv : validReferral (extractDelegationInfo ns) authZone qname qclass with
  | false => rfl
  | true =>
    obtain ⟨owner, ⟨t, g, hm⟩, _, hs, _, _⟩ := referral_progress ns authZone qname qclass hv
    exact absurd hs (hside owner qclass t g hm)

/-- A referral that is not on the path to the query name is rejected. -/
theorem offpath_referral_rejected (ns : List AuthRR) (authZone qname : Str) (qclass : Nat)
    (hoff : ∀ o c t g, AuthRR.ns o c t g ∈ ns → ¬ LabelSuffix (labelsOf o) (labelsOf qname)) :
    validReferral (extractDelegationInfo ns) authZone qname qclass = false := by
  cases hv : validReferral (extractDelegationInfo ns) authZone qname qclass with
  | false => rfl
  | true =>
    obtain ⟨owner, ⟨t, g, hm⟩, _, _, _, hs⟩ := referral_progress ns authZone qname qclass hv
    exact absurd hs (hoff owner qclass t g hm)

/-- An authority section with NS records of two different owners, or of two
classes, or of a class other than the question's, is rejected as a whole. -/
theorem mixed_referral_rejected (ns : List AuthRR) (authZone qname : Str) (qclass : Nat)
    (o1 o2 : Str) (c1 c2 t1 t2 : Nat) (g1 g2 : Str)
    (h1 : AuthRR.ns o1 c1 t1 g1 ∈ ns) (h2 : AuthRR.ns o2 c2 t2 g2 ∈ ns)
    (hmix : lower o1 ≠ lower o2 ∨ c1 ≠ c2 ∨ c1 ≠ qclass) :
    validReferral (extractDelegationInfo ns) authZone qname qclass = false := by
  cases hv : validReferral (extractDelegationInfo ns) authZone qname qclass with
  | false => rfl
  | true =>
    obtain ⟨owner, _, hall, _, _, _⟩ := referral_progress ns authZone qname qclass hv
    obtain ⟨e1, d1⟩ := hall o1 c1 t1 g1 h1
    obtain ⟨e2, d2⟩ := hall o2 c2 t2 g2 h2
    rw [eqFold_iff] at e1 e2
    rcases hmix with hm | hm | hm
    · exact absurd (e1.trans e2.symm) hm
    · exact absurd (d1.trans d2.symm) hm
    · exact absurd d1 hm

/-- **Only the coherent set's name servers and its shortest TTL are used**:
every host `extractDelegationInfo` reports is the (lower-cased) target of an NS
record with the anchoring owner and class, and the lease TTL is at most the
TTL of every such record. -/
theorem referral_hosts_and_ttl (ns : List AuthRR) (owner : Str) (cls : Nat)
    (hns : (extractDelegationInfo ns).ns = some (owner, cls)) :
    (∀ h ∈ (extractDelegationInfo ns).hosts, ∃ o t g, AuthRR.ns o cls t g ∈ ns ∧ h = lower g ∧
        eqFold o owner = true) ∧
    (∀ o t g, AuthRR.ns o cls t g ∈ ns → eqFold o owner = true → (extractDelegationInfo ns).ttl ≤ t) := by
  have inv := extract_inv ns
  constructor
  · intro h hh
    obtain ⟨o, c, t, g, m, e, r⟩ := inv.hosts h hh
    obtain ⟨r1, r2⟩ := r owner cls hns
    subst r2
    exact ⟨o, t, g, m, e, r1⟩
  · intro o t g m e
    exact inv.ttlMin owner cls hns o cls t g m e rfl

-- non-vacuity: a proper referral is accepted; self / upward / sideways (string suffix) / mixed are not
example : validReferral (extractDelegationInfo
    [AuthRR.ns "sub.Evil.test.".toList 1 300 "NS1.sub.evil.test.".toList,
     AuthRR.ns "SUB.evil.test.".toList 1 60 "ns2.sub.evil.test.".toList])
    "evil.test.".toList "x.sub.evil.test.".toList 1 = true := by decide
example : (extractDelegationInfo
    [AuthRR.ns "sub.Evil.test.".toList 1 300 "NS1.sub.evil.test.".toList,
     AuthRR.ns "SUB.evil.test.".toList 1 60 "ns2.sub.evil.test.".toList]).ttl = 60 := by decide
example : validReferral (extractDelegationInfo [AuthRR.ns "evil.test.".toList 1 300 "ns.evil.test.".toList])
    "evil.test.".toList "x.sub.evil.test.".toList 1 = false := by decide
example : validReferral (extractDelegationInfo [AuthRR.ns "test.".toList 1 300 "ns.evil.test.".toList])
    "evil.test.".toList "x.sub.evil.test.".toList 1 = false := by decide
example : validReferral (extractDelegationInfo [AuthRR.ns "notevil.test.".toList 1 300 "ns.evil.test.".toList])
    "evil.test.".toList "x.notevil.test.".toList 1 = false := by decide
example : validReferral (extractDelegationInfo
    [AuthRR.ns "sub.evil.test.".toList 1 300 "ns.sub.evil.test.".toList,
     AuthRR.ns "victim.test.".toList 1 300 "ns.evil.test.".toList])
    "evil.test.".toList "x.sub.evil.test.".toList 1 = false := by decide

/-! ## what may be cached, what a positive answer keeps -/

/-- **Only the question's own records are cached under its key.** A record
survives `filterCacheableAnswer` exactly when it was in the answer section and
is owned by the question name (up to ASCII case), or is a DNAME, or is an
RRSIG covering DNAME (the two alias shapes the code lets through with any
owner). In particular a CNAME target's records riding in the same message are
never stored under the alias' key. -/
theorem cached_owner_is_question (qname : Str) (answer : List AnsRR) (r : AnsRR) :
    r ∈ filterCacheable qname answer ↔
      r ∈ answer ∧ (lower qname = lower r.owner ∨ r.rtype = typeDNAME ∨
        (r.rtype = typeRRSIG ∧ r.covered = typeDNAME)) := by
  unfold filterCacheable keepCacheable
  rw [List.mem_filter]
  simp only [Bool.or_eq_true, beq_iff_eq, Bool.and_eq_true, eqFold_iff]
  constructor
  · rintro ⟨hm, (h | h) | h⟩
    · exact ⟨hm, Or.inr (Or.inl h)⟩
    · exact ⟨hm, Or.inl h⟩
    · exact ⟨hm, Or.inr (Or.inr h)⟩
  · rintro ⟨hm, h | h | h⟩
    · exact ⟨hm, Or.inl (Or.inr h)⟩
    · exact ⟨hm, Or.inl (Or.inl h)⟩
    · exact ⟨hm, Or.inr h⟩

/-- The filter only removes: what is stored is a subsequence of the answer. -/
theorem cached_is_sublist (qname : Str) (answer : List AnsRR) :
    (filterCacheable qname answer).Sublist answer := List.filter_sublist

/-- **Positive answers leave the resolver without authority and additional
records** (`clearAdditional`, default call): nothing but the request's own OPT
survives, whatever the upstream put there. -/
theorem positive_sections_cleared (reqHasOpt : Bool) (nNs nExtra : Nat) :
    clearAdditional reqHasOpt false nNs nExtra = (0, 0, reqHasOpt) := rfl

/-- Negative answers that name servers keep only SOA and denial-proof records
of the authority section (`filterAuthorityRecords`): NS, address and DS
records are dropped. -/
theorem negative_authority_filtered (rrs : List AuthRR) (r : AuthRR) (h : r ∈ filterAuthority rrs) :
    r ∈ rrs ∧ (r = AuthRR.soa ∨ r = AuthRR.proof) := by
  unfold filterAuthority at h
  obtain ⟨hm, hk⟩ := List.mem_filter.mp h
  refine ⟨hm, ?_⟩
  cases r <;> simp [keepAuthority] at hk ⊢

-- non-vacuity: the forged target record and a foreign A are dropped, the alias and a DNAME stay
example : filterCacheable "q.evil.test.".toList
    [⟨"Q.evil.test.".toList, 5, 0⟩, ⟨"www.victim.test.".toList, 1, 0⟩, ⟨"victim.test.".toList, 39, 0⟩,
     ⟨"victim.test.".toList, 46, 39⟩, ⟨"victim.test.".toList, 46, 1⟩]
    = [⟨"Q.evil.test.".toList, 5, 0⟩, ⟨"victim.test.".toList, 39, 0⟩, ⟨"victim.test.".toList, 46, 39⟩] := by decide

/-! ## the relay clause: nothing owned outside the asked zone travels in the answer

Since /repo commit fdb9218 `Resolver.answer` drops every answer record the
zone whose servers were asked cannot own (`dnsutil.FilterRRsToZone`), on every
path — validated or not — before anything else is spliced in. (Before that
commit the clause was false for unsigned answers; the counter-witness of that
time is kept below as an example the present model rejects.) -/

/-- **`dnsutil.NameInZone` is the label-wise relation** on canonical names:
the string test (equal, or ends in `"." ++ zone` at a dot preceded by an even
number of backslashes) accepts exactly when the zone's labels are the trailing
labels of the name. -/
theorem nameInZone_is_labelwise (name zone : Str) (hz : zone ≠ [])
    (hn : lower name = name) (hzc : lower zone = zone) :
    nameInZone name zone = true ↔ LabelSuffix (labelsOf zone) (labelsOf name) :=
  ⟨nameInZone_sound name zone hz, nameInZone_complete name zone hn hzc⟩

/-- **Kept ⇔ owned inside the asked zone.** An answer record of an upstream
reply survives `Resolver.answer`'s filter exactly when it was in the answer
section and its owner lies label-wise inside the zone whose servers were asked
(in whatever case either is spelled: `labelSuffix_lower_iff`). -/
theorem answer_kept_iff_in_zone (zone : Str) (hz : zone ≠ []) (answer : List AnsRR) (r : AnsRR) :
    r ∈ filterToZone zone answer ↔
      r ∈ answer ∧ LabelSuffix (labelsOf zone) (labelsOf r.owner) := by
  rw [← labelSuffix_lower_iff]
  unfold filterToZone
  rw [List.mem_filter]
  have hz' : lower zone ≠ [] := by
    intro h; apply hz
    unfold lower at h
    exact List.map_eq_nil_iff.mp h
  rw [nameInZone_is_labelwise (lower r.owner) (lower zone) hz' (lower_idem _) (lower_idem _)]

/-- **No out-of-zone record is relayed inside the answer** (full strength, for
every upstream answer section and every zone): every record of an upstream
answer that can reach the client's answer section is owned label-wise inside
the zone whose servers sent it. -/
theorem no_out_of_zone_record_relayed (zone : Str) (hz : zone ≠ []) (answer : List AnsRR) (r : AnsRR)
    (h : r ∈ relayedFromUpstream zone answer) :
    r ∈ answer ∧ LabelSuffix (labelsOf zone) (labelsOf r.owner) :=
  (answer_kept_iff_in_zone zone hz answer r).mp h

/-- **A DNAME answer is the filtered upstream section plus the target's own
resolution**: every record of the composed answer is an upstream record owned
inside the asked zone, or a record of the response the target's own servers
gave (`shape_dname_target_resolved_separately` pins that the spliced message
is the result of `internalExchange` and never built from the same message). -/
theorem dname_answer_provenance (zone : Str) (hz : zone ≠ []) (upstream target : List AnsRR) (r : AnsRR)
    (h : r ∈ composeDnameAnswer (fun x => nameInZone (lower x.owner) (lower zone)) upstream target) :
    (r ∈ upstream ∧ LabelSuffix (labelsOf zone) (labelsOf r.owner)) ∨ r ∈ target := by
  unfold composeDnameAnswer at h
  rcases List.mem_append.mp h with h | h
  · exact Or.inl ((answer_kept_iff_in_zone zone hz upstream r).mp h)
  · exact Or.inr h

-- the seeded shape of C07-17: the forged target record in the DNAME's own message does not survive
example : composeDnameAnswer (fun x : AnsRR => nameInZone (lower x.owner) (lower "evil.test.".toList))
    [⟨"dn.evil.test.".toList, 39, 0⟩, ⟨"www.dn.evil.test.".toList, 5, 0⟩, ⟨"www.victim.test.".toList, 1, 0⟩]
    [⟨"www.victim.test.".toList, 1, 7⟩]
    = [⟨"dn.evil.test.".toList, 39, 0⟩, ⟨"www.dn.evil.test.".toList, 5, 0⟩, ⟨"www.victim.test.".toList, 1, 7⟩] := by
  decide

/-- What is relayed is a subsequence of what the upstream sent (nothing is invented or reordered). -/
theorem relayed_is_sublist (zone : Str) (answer : List AnsRR) :
    (relayedFromUpstream zone answer).Sublist answer := List.filter_sublist

-- the former counter-witness (forged CNAME target in the same message) is now rejected, and so are
-- the other three relay shapes: unrelated owner, NS for the victim zone, DNAME at the victim zone;
-- a string-suffix look-alike and an escaped-dot look-alike do not pass as in-zone either
example : relayedFromUpstream "evil.test.".toList
    [⟨"q.evil.test.".toList, 5, 0⟩, ⟨"www.victim.test.".toList, 1, 0⟩] = [⟨"q.evil.test.".toList, 5, 0⟩] := by
  decide
example : relayedFromUpstream "Evil.test.".toList
    [⟨"Q.EVIL.test.".toList, 1, 0⟩, ⟨"www.victim.test.".toList, 1, 0⟩, ⟨"victim.test.".toList, 2, 0⟩,
     ⟨"victim.test.".toList, 39, 0⟩, ⟨"notevil.test.".toList, 1, 0⟩, ⟨"x\\.evil.test.".toList, 1, 0⟩,
     ⟨"b.a.evil.test.".toList, 1, 0⟩, ⟨"evil.test.".toList, 6, 0⟩]
    = [⟨"Q.EVIL.test.".toList, 1, 0⟩, ⟨"b.a.evil.test.".toList, 1, 0⟩, ⟨"evil.test.".toList, 6, 0⟩] := by
  decide
-- the root's servers may speak for every name
example : relayedFromUpstream ".".toList [⟨"www.victim.test.".toList, 1, 0⟩] = [⟨"www.victim.test.".toList, 1, 0⟩] := by
  decide

/-! ## name-server addresses from sub-lookups -/

/-- **`searchAddrs` takes addresses only from A/AAAA records of the section it
is given, never loopback or a local interface address**, and an A record only
yields an IPv4 address. -/
theorem searchAddrs_sound (locals : List IP) (answer : List AddrRR) (a : IP)
    (h : a ∈ searchAddrs locals answer) :
    ∃ r ∈ answer, (r.rtype = 1 ∨ r.rtype = 28) ∧ unmap r.addr = some a ∧
      isLoopback a = false ∧ a ∉ locals ∧ (r.rtype = 1 → a.length = 4) := by
  unfold searchAddrs at h
  obtain ⟨r, hr, hx⟩ := List.mem_filterMap.mp h
  refine ⟨r, hr, ?_⟩
  by_cases h1 : r.rtype = 1
  · simp only [h1, if_true] at hx
    cases hu : usableAddr locals r.addr with
    | none => rw [hu] at hx; simp at hx
    | some b =>
      rw [hu] at hx
      simp only at hx
      by_cases hl : (b.length == 4) = true
      · simp only [hl, if_true, Option.some.injEq] at hx
        subst hx
        obtain ⟨u1, u2, u3⟩ := usable_addr_sound locals r.addr b hu
        exact ⟨Or.inl h1, u1, u2, u3, fun _ => by simpa using hl⟩
      · simp [hl] at hx
  · simp only [h1, if_false] at hx
    by_cases h28 : r.rtype = 28
    · simp only [h28, if_true] at hx
      obtain ⟨u1, u2, u3⟩ := usable_addr_sound locals r.addr a hx
      exact ⟨Or.inr h28, u1, u2, u3, fun h => by omega⟩
    · simp [h28] at hx

/-- **Name-server addresses come only from records the asked zone owns.** After
`Resolver.answer`'s filter, every address `searchAddrs` hands to
`lookupV4Nss`/`lookupNSAddrV4` (and so into the glue caches and server lists)
is the usable address of an A/AAAA record whose owner lies label-wise inside
the zone whose servers answered the address question. -/
theorem ns_addresses_only_from_in_zone_records (locals : List IP) (zone : Str) (hz : zone ≠ [])
    (answer : List AddrRR) (a : IP)
    (h : a ∈ searchAddrs locals (answer.filter fun r => nameInZone (lower r.owner) (lower zone))) :
    ∃ r ∈ answer, LabelSuffix (labelsOf zone) (labelsOf r.owner) ∧
      (r.rtype = 1 ∨ r.rtype = 28) ∧ unmap r.addr = some a ∧ isLoopback a = false ∧ a ∉ locals := by
  obtain ⟨r, hr, h1, h2, h3, h4, _⟩ := searchAddrs_sound locals _ a h
  obtain ⟨hm, hk⟩ := List.mem_filter.mp hr
  have hz' : lower zone ≠ [] := by
    intro hh; apply hz; unfold lower at hh; exact List.map_eq_nil_iff.mp hh
  exact ⟨r, hm, (labelSuffix_lower_iff _ _).mp (nameInZone_sound _ _ hz' hk), h1, h2, h3, h4⟩

-- non-vacuity: the seeded shape of C07-9 — the forged record owned by the victim name is not taken
example : searchAddrs [] ([⟨"ns2.sub.evil.test.".toList, 1, [198, 51, 100, 5]⟩,
    ⟨"www.victim.test.".toList, 1, [198, 18, 66, 66]⟩, ⟨"ns2.sub.evil.test.".toList, 1, [127, 0, 0, 1]⟩,
    ⟨"ns2.sub.evil.test.".toList, 28, [0, 0, 0, 0, 0, 0, 0, 0, 0, 0, 255, 255, 198, 51, 100, 6]⟩].filter
      fun r => nameInZone (lower r.owner) (lower "sub.evil.test.".toList))
    = [[198, 51, 100, 5], [198, 51, 100, 6]] := by decide

/-- **A name server's addresses come from accepted glue for that very host or
from the host's own lookup, and nowhere else.** After a referral was processed,
`lookupNSAddrV4/V6` returns either what `checkGlueRR` accepted for exactly this
host (so `glue_in_bailiwick` applies to it) or usable — not loopback, not local
— addresses of A/AAAA records in the answer of the host's own address
question; the rcode of that sub-response plays no part and a failed sub-lookup
yields nothing. -/
theorem ns_lookup_addresses_provenance (locals : List IP) (accepted : List (Str × IP)) (host : Str)
    (sub : Option (List AddrRR)) (l : List IP) (a : IP)
    (h : lookupNSAddr locals (glueCached accepted host) sub = some l) (ha : a ∈ l) :
    (host, a) ∈ accepted ∨
      ∃ ans, sub = some ans ∧ ∃ r ∈ ans, (r.rtype = 1 ∨ r.rtype = 28) ∧ unmap r.addr = some a ∧
        isLoopback a = false ∧ a ∉ locals := by
  unfold lookupNSAddr at h
  cases hc : glueCached accepted host with
  | some c =>
    rw [hc] at h
    simp only [Option.some.injEq] at h
    subst h
    left
    unfold glueCached at hc
    simp only at hc
    split at hc
    · cases hc
    · simp only [Option.some.injEq] at hc
      subst hc
      have := mem_of_mem_dedup a _ ha
      obtain ⟨p, hp, rfl⟩ := List.mem_map.mp this
      obtain ⟨hp1, hp2⟩ := List.mem_filter.mp hp
      have : p.1 = host := by simpa using hp2
      rw [← this]
      exact hp1
  | none =>
    rw [hc] at h
    cases sub with
    | none => simp at h
    | some ans =>
      simp only at h
      split at h
      · cases h
      · simp only [Option.some.injEq] at h
        subst h
        obtain ⟨r, hr, h1, h2, h3, h4, _⟩ := searchAddrs_sound locals ans a ha
        exact Or.inr ⟨ans, rfl, r, hr, h1, h2, h3, h4⟩

-- the seeded shape of C07-21: out-of-zone glue for mail.victim.test. is not accepted, the host's own lookup
-- answers SERVFAIL with nothing in it: no address at all (no hint is remembered)
example : lookupNSAddr [] (glueCached (checkGlue [] false 2 "x.sub.evil.test.".toList ["mail.victim.test.".toList]
    [⟨"mail.victim.test.".toList, 1, [198, 51, 100, 5]⟩]).v4 "mail.victim.test.".toList) (some []) = none := by decide
example : lookupNSAddr [] (glueCached (checkGlue [] false 2 "x.sub.evil.test.".toList ["ns.sub.evil.test.".toList]
    [⟨"NS.sub.evil.test.".toList, 1, [198, 51, 100, 5]⟩]).v4 "ns.sub.evil.test.".toList) none
    = some [[198, 51, 100, 5]] := by decide

/-! ## `processDelegation` over every referral history -/

/-- An address the resolver may talk to: not loopback, not one of its own. -/
def GoodAddr (locals : List IP) (a : IP) : Prop := isLoopback a = false ∧ a ∉ locals

/-- Everything stored — delegation server lists and the name-server address cache — holds usable addresses only. -/
def StoreInv (locals : List IP) (st : DelegState) : Prop :=
  (∀ p ∈ st.glue4, ∀ a ∈ p.2, GoodAddr locals a) ∧ (∀ p ∈ st.delegs, ∀ a ∈ p.2, GoodAddr locals a)

theorem lookupHost_good (locals : List IP) (subs : List (Str × Option (List AddrRR)))
    (acc : List (Str × List IP) × List IP) (h : Str)
    (h1 : ∀ p ∈ acc.1, ∀ a ∈ p.2, GoodAddr locals a) (h2 : ∀ a ∈ acc.2, GoodAddr locals a) :
    (∀ p ∈ (lookupHost locals subs acc h).1, ∀ a ∈ p.2, GoodAddr locals a) ∧
    (∀ a ∈ (lookupHost locals subs acc h).2, GoodAddr locals a) := by
  unfold lookupHost
  cases hl : lookupNSAddr locals (getKey acc.1 h) ((getKey subs h).getD none) with
  | none => exact ⟨h1, h2⟩
  | some l =>
    have hgood : ∀ a ∈ l, GoodAddr locals a := by
      intro a ha
      unfold lookupNSAddr at hl
      cases hc : getKey acc.1 h with
      | some c =>
        rw [hc] at hl
        simp only [Option.some.injEq] at hl
        subst hl
        obtain ⟨p, hp, rfl⟩ := getKey_mem acc.1 h c hc
        exact h1 p hp a ha
      | none =>
        rw [hc] at hl
        cases hs : (getKey subs h).getD none with
        | none => rw [hs] at hl; simp at hl
        | some ans =>
          rw [hs] at hl
          simp only at hl
          split at hl
          · cases hl
          · simp only [Option.some.injEq] at hl
            subst hl
            obtain ⟨_, _, _, _, g1, g2, _⟩ := searchAddrs_sound locals ans a ha
            exact ⟨g1, g2⟩
    simp only
    constructor
    · intro p hp a ha
      rcases mem_setKey _ _ _ _ hp with hp | rfl
      · exact h1 p hp a ha
      · exact hgood a ha
    · intro a ha
      rcases mem_appendUniqueAll l acc.2 a ha with ha | ha
      · exact h2 a ha
      · exact hgood a ha

/-- **No referral, in any state, makes the resolver store a loopback or local
address**: `processDelegation` preserves `StoreInv` — whatever the referral
carries as glue, whatever the name servers' own lookups answer, and whatever
earlier referrals left in the address cache. -/
theorem delegStep_preserves (locals : List IP) (st : DelegState) (rf : Referral)
    (inv : StoreInv locals st) : StoreInv locals (delegStep locals st rf).1 := by
  unfold delegStep
  simp only
  cases hns : (extractDelegationInfo rf.ns).ns with
  | none => exact inv
  | some p =>
    obtain ⟨owner, cls⟩ := p
    simp only
    split
    · exact inv
    · split
      · exact inv
      · split
        · exact inv
        · -- glue accepted by checkGlue is good
          have hglue : ∀ h a, (h, a) ∈ (checkGlue locals false rf.level rf.qname
              (extractDelegationInfo rf.ns).hosts rf.extras).v4 → GoodAddr locals a := by
            intro h a hm
            obtain ⟨_, _, _, g1, g2, _⟩ := glue_in_bailiwick locals false rf.level rf.qname _ rf.extras h a (Or.inl hm)
            exact ⟨g1, g2⟩
          have hsrv : ∀ a ∈ (checkGlue locals false rf.level rf.qname
              (extractDelegationInfo rf.ns).hosts rf.extras).servers, GoodAddr locals a := by
            intro a ha
            obtain ⟨h, hm⟩ := glue_servers_are_accepted locals false rf.level rf.qname _ rf.extras a ha
            rcases hm with hm | hm
            · exact hglue h a hm
            · simp [checkGlue] at hm
          -- the cache after the glue writes
          have hglue1 : ∀ (found : List Str) (gl : List (Str × List IP)),
              (∀ p ∈ gl, ∀ a ∈ p.2, GoodAddr locals a) →
              ∀ p ∈ found.foldl (fun gl h => setKey gl h ((glueCached (checkGlue locals false rf.level rf.qname
                (extractDelegationInfo rf.ns).hosts rf.extras).v4 h).getD [])) gl, ∀ a ∈ p.2, GoodAddr locals a := by
            intro found
            induction found with
            | nil => intro gl hg; simpa using hg
            | cons h t ih =>
              intro gl hg
              simp only [List.foldl_cons]
              apply ih
              intro p hp a ha
              rcases mem_setKey _ _ _ _ hp with hp | rfl
              · exact hg p hp a ha
              · exact hglue h a (mem_glueCached _ h a ha)
          -- the lookups
          have hfold : ∀ (hs : List Str) (acc : List (Str × List IP) × List IP),
              (∀ p ∈ acc.1, ∀ a ∈ p.2, GoodAddr locals a) → (∀ a ∈ acc.2, GoodAddr locals a) →
              (∀ p ∈ (hs.foldl (lookupHost locals rf.subs) acc).1, ∀ a ∈ p.2, GoodAddr locals a) ∧
              (∀ a ∈ (hs.foldl (lookupHost locals rf.subs) acc).2, GoodAddr locals a) := by
            intro hs
            induction hs with
            | nil => intro acc a1 a2; exact ⟨a1, a2⟩
            | cons h t ih =>
              intro acc a1 a2
              simp only [List.foldl_cons]
              obtain ⟨b1, b2⟩ := lookupHost_good locals rf.subs acc h a1 a2
              exact ih _ b1 b2
          obtain ⟨r1, r2⟩ := hfold _ (_, _) (hglue1 _ st.glue4 inv.1) hsrv
          split
          · exact ⟨r1, inv.2⟩
          · refine ⟨r1, ?_⟩
            intro p hp a ha
            rcases mem_setKey _ _ _ _ hp with hp | rfl
            · exact inv.2 p hp a ha
            · exact r2 a ha

/-- … and therefore after EVERY history of referrals, from the empty store. -/
theorem delegation_store_never_holds_loopback_or_local (locals : List IP) (history : List Referral) :
    StoreInv locals (history.foldl (fun st rf => (delegStep locals st rf).1) {}) := by
  have : ∀ (h : List Referral) (st : DelegState), StoreInv locals st →
      StoreInv locals (h.foldl (fun st rf => (delegStep locals st rf).1) st) := by
    intro h
    induction h with
    | nil => intro st inv; exact inv
    | cons rf t ih => intro st inv; exact ih _ (delegStep_preserves locals st rf inv)
  exact this history {} ⟨by simp, by simp⟩

/-- **A delegation enters the store only through an accepted referral**: a zone
present after the step and absent before it is the (lower-cased) owner of the
referral's NS set, and `validReferral` accepted that referral for the zone that
was asked — so `referral_progress` applies to it. -/
theorem delegation_stored_only_if_valid (locals : List IP) (st : DelegState) (rf : Referral)
    (p : Str × List IP) (hp : p ∈ (delegStep locals st rf).1.delegs) :
    p ∈ st.delegs ∨ ∃ owner cls, (extractDelegationInfo rf.ns).ns = some (owner, cls) ∧ p.1 = lower owner ∧
      validReferral (extractDelegationInfo rf.ns) rf.authZone rf.qname rf.qclass = true := by
  unfold delegStep at hp
  simp only at hp
  cases hns : (extractDelegationInfo rf.ns).ns with
  | none => rw [hns] at hp; exact Or.inl hp
  | some q =>
    obtain ⟨owner, cls⟩ := q
    rw [hns] at hp
    simp only at hp
    split at hp
    · exact Or.inl hp
    · rename_i hv
      split at hp
      · exact Or.inl hp
      · split at hp
        · exact Or.inl hp
        · split at hp
          · exact Or.inl hp
          · rcases mem_setKey _ _ _ _ hp with hp | rfl
            · exact Or.inl hp
            · exact Or.inr ⟨owner, cls, rfl, rfl, by simpa using hv⟩

-- non-vacuity: two referrals; the second re-uses a host whose address the first one learned by lookup,
-- the loopback glue and the loopback lookup answer never reach the store
example : ([
    { authZone := "evil.test.".toList, level := 2, qname := "x.sub.evil.test.".toList, qclass := 1,
      ns := [AuthRR.ns "sub.evil.test.".toList 1 300 "ns1.sub.evil.test.".toList,
             AuthRR.ns "sub.evil.test.".toList 1 300 "ns2.sub.evil.test.".toList],
      extras := [⟨"ns1.sub.evil.test.".toList, 1, [198, 51, 100, 5]⟩, ⟨"ns2.sub.evil.test.".toList, 1, [127, 0, 0, 1]⟩],
      subs := [("ns2.sub.evil.test.".toList, some [⟨"ns2.sub.evil.test.".toList, 1, [198, 51, 100, 6]⟩,
                                                    ⟨"ns2.sub.evil.test.".toList, 1, [127, 0, 0, 53]⟩])] },
    { authZone := "evil.test.".toList, level := 2, qname := "x.c.evil.test.".toList, qclass := 1,
      ns := [AuthRR.ns "c.evil.test.".toList 1 300 "ns2.sub.evil.test.".toList],
      extras := [], subs := [] } ] : List Referral).foldl (fun st rf => (delegStep [] st rf).1) {}
    = { delegs := [("sub.evil.test.".toList, [[198, 51, 100, 5], [198, 51, 100, 6]]),
                   ("c.evil.test.".toList, [[198, 51, 100, 6]])],
        glue4 := [("ns1.sub.evil.test.".toList, [[198, 51, 100, 5]]), ("ns2.sub.evil.test.".toList, [[198, 51, 100, 6]])] } := by
  decide

/-! ## winner selection: an invalid referral never wins over a usable reply -/

/-- **`pickFallbackResponse` hands back an invalid referral only as the very
last resort among messages**: when it does, no authority sent any negative
reply, no policy limit was hit, and it is the first one set aside. -/
theorem fallback_config_is_last_resort (resps : List Nat) (ncfg : Nat) (fatal : List FatalKind) (j : Nat)
    (h : pickFallback resps ncfg fatal = Fallback.config j) :
    j = 0 ∧ resps = [] ∧ 0 < ncfg ∧ fatal.contains FatalKind.workLimit = false ∧
      fatal.contains FatalKind.attemptLimit = false := by
  unfold pickFallback at h
  split at h
  · cases h
  · rename_i hw
    split at h
    · cases h
    · split at h
      · cases h
      · rename_i ha
        split at h
        · cases h
        · rename_i hr
          split at h
          · rename_i hc
            simp only [Fallback.config.injEq] at h
            refine ⟨h.symm, ?_, hc, by simpa using hw, by simpa using ha⟩
            cases resps with
            | nil => rfl
            | cons x t => simp at hr
          · split at h <;> cases h

theorem lookupSelect_spec (level : Nat) : ∀ (arr : List Arrival) (pos : Nat) (resps : List Nat) (ncfg : Nat)
    (fatal : List FatalKind),
    (∀ p, lookupSelect level arr pos resps ncfg fatal = LookupOutcome.winner p →
      pos ≤ p ∧ arr[p - pos]? = some Arrival.usable ∧ ∀ k, k < p - pos → arr[k]? ≠ some Arrival.usable) ∧
    (∀ j, lookupSelect level arr pos resps ncfg fatal = LookupOutcome.fallback (Fallback.config j) →
      resps = [] ∧ ∀ a ∈ arr, a ≠ Arrival.usable ∧ ∀ rc, a ≠ Arrival.negative rc) := by
  intro arr
  induction arr with
  | nil =>
    intro pos resps ncfg fatal
    simp only [lookupSelect]
    refine ⟨(by intro p h; cases h), ?_⟩
    intro j h
    simp only [LookupOutcome.fallback.injEq] at h
    exact ⟨(fallback_config_is_last_resort resps ncfg fatal j h).2.1, by simp⟩
  | cons a t ih =>
    intro pos resps ncfg fatal
    cases a with
    | failed k =>
      cases k with
      | workLimit =>
        simp only [lookupSelect]
        exact ⟨(by intro p h; cases h), (by intro j h; simp at h)⟩
      | attemptLimit =>
        simp only [lookupSelect]
        obtain ⟨i1, i2⟩ := ih (pos + 1) resps ncfg (fatal ++ [FatalKind.attemptLimit])
        constructor
        · intro p h
          obtain ⟨a1, a2, a3⟩ := i1 p h
          refine ⟨by omega, ?_, ?_⟩
          · have : p - pos = (p - (pos + 1)) + 1 := by omega
            rw [this, List.getElem?_cons_succ]; exact a2
          · intro k hk
            cases k with
            | zero => simp
            | succ k => simpa using a3 k (by omega)
        · intro j h
          obtain ⟨b1, b2⟩ := i2 j h
          refine ⟨b1, ?_⟩
          intro a ha
          rcases List.mem_cons.mp ha with rfl | ha
          · exact ⟨by simp, by intro rc; simp⟩
          · exact b2 a ha
      | network =>
        simp only [lookupSelect]
        obtain ⟨i1, i2⟩ := ih (pos + 1) resps ncfg (fatal ++ [FatalKind.network])
        constructor
        · intro p h
          obtain ⟨a1, a2, a3⟩ := i1 p h
          refine ⟨by omega, ?_, ?_⟩
          · have : p - pos = (p - (pos + 1)) + 1 := by omega
            rw [this, List.getElem?_cons_succ]; exact a2
          · intro k hk
            cases k with
            | zero => simp
            | succ k => simpa using a3 k (by omega)
        · intro j h
          obtain ⟨b1, b2⟩ := i2 j h
          refine ⟨b1, ?_⟩
          intro a ha
          rcases List.mem_cons.mp ha with rfl | ha
          · exact ⟨by simp, by intro rc; simp⟩
          · exact b2 a ha
    | negative rc =>
      simp only [lookupSelect]
      split
      · refine ⟨(by intro p h; cases h), ?_⟩
        intro j h
        simp only [LookupOutcome.fallback.injEq] at h
        have := (fallback_config_is_last_resort _ ncfg fatal j h).2.1
        simp at this
      · obtain ⟨i1, i2⟩ := ih (pos + 1) (resps ++ [rc]) ncfg fatal
        constructor
        · intro p h
          obtain ⟨a1, a2, a3⟩ := i1 p h
          refine ⟨by omega, ?_, ?_⟩
          · have : p - pos = (p - (pos + 1)) + 1 := by omega
            rw [this, List.getElem?_cons_succ]; exact a2
          · intro k hk
            cases k with
            | zero => simp
            | succ k => simpa using a3 k (by omega)
        · intro j h
          have := (i2 j h).1
          simp at this
    | invalidReferral =>
      simp only [lookupSelect]
      obtain ⟨i1, i2⟩ := ih (pos + 1) resps (ncfg + 1) fatal
      constructor
      · intro p h
        obtain ⟨a1, a2, a3⟩ := i1 p h
        refine ⟨by omega, ?_, ?_⟩
        · have : p - pos = (p - (pos + 1)) + 1 := by omega
          rw [this, List.getElem?_cons_succ]; exact a2
        · intro k hk
          cases k with
          | zero => simp
          | succ k => simpa using a3 k (by omega)
      · intro j h
        obtain ⟨b1, b2⟩ := i2 j h
        refine ⟨b1, ?_⟩
        intro a ha
        rcases List.mem_cons.mp ha with rfl | ha
        · exact ⟨by simp, by intro rc; simp⟩
        · exact b2 a ha
    | usable =>
      simp only [lookupSelect]
      constructor
      · intro p h
        simp only [LookupOutcome.winner.injEq] at h
        subst h
        exact ⟨Nat.le_refl _, by simp, by intro k hk; omega⟩
      · intro j h; cases h

/-- **An invalid referral never wins over a usable reply** (model of
`Resolver.lookup`'s result loop, for every arrival order): the message returned
at once is the first usable reply to arrive — never a referral `validReferral`
refused —, and an invalid referral comes back through the fallback only if NO
authority delivered a usable or a negative reply at all (`processDelegation`
then refuses it again: `delegation_stored_only_if_valid`). -/
theorem invalid_referral_never_wins (level : Nat) (arr : List Arrival) :
    (∀ p, lookupSelect level arr 0 [] 0 [] = LookupOutcome.winner p →
      arr[p]? = some Arrival.usable ∧ ∀ k, k < p → arr[k]? ≠ some Arrival.usable) ∧
    (∀ j, lookupSelect level arr 0 [] 0 [] = LookupOutcome.fallback (Fallback.config j) →
      ∀ a ∈ arr, a ≠ Arrival.usable ∧ ∀ rc, a ≠ Arrival.negative rc) := by
  obtain ⟨h1, h2⟩ := lookupSelect_spec level arr 0 [] 0 []
  constructor
  · intro p h
    obtain ⟨_, a2, a3⟩ := h1 p h
    exact ⟨by simpa using a2, by intro k hk; exact a3 k (by simpa using hk)⟩
  · intro j h
    exact (h2 j h).2

-- a fast invalid referral, then a timeout, then the honest reply: the honest reply wins
example : lookupSelect 2 [Arrival.invalidReferral, Arrival.failed FatalKind.network, Arrival.usable] 0 [] 0 []
    = LookupOutcome.winner 2 := by decide
-- only invalid referrals and failures: the first invalid referral comes back (and processDelegation refuses it)
example : lookupSelect 2 [Arrival.invalidReferral, Arrival.failed FatalKind.network, Arrival.invalidReferral] 0 [] 0 []
    = LookupOutcome.fallback (Fallback.config 0) := by decide
-- a SERVFAIL from another server of the set is preferred to the invalid referral
example : lookupSelect 2 [Arrival.invalidReferral, Arrival.negative 2] 0 [] 0 []
    = LookupOutcome.fallback (Fallback.resp 0) := by decide
example : pickFallback [2, 5, 3] 1 [FatalKind.network] = Fallback.resp 2 := by decide

/-! ## the alias chase (`Cache.additionalAnswer`) -/

/-- **Every record of the composed answer has a known provenance.** After the
chase, a record in the answer section was either in the (already filtered)
upstream answer the chase started from, or in the answer section of the
sub-pipeline's response for one of the targets the chase asked. -/
theorem chase_records_provenance (resolve : Str → SubResult) (qname : Str) (qtype rcode : Nat)
    (answer : List ChRR) (r : ChRR)
    (h : r ∈ (additionalAnswer resolve qname qtype rcode answer).answer) :
    r ∈ answer ∨ ∃ t ∈ (additionalAnswer resolve qname qtype rcode answer).asked,
      ∃ sr, resolve t = SubResult.resp sr ∧ r ∈ sr.answer := by
  unfold additionalAnswer at h ⊢
  simp only at h ⊢
  split
  · rename_i h0; simp only [h0, if_true] at h; exact Or.inl h
  · rename_i h0
    simp only [h0, if_false] at h
    split
    · rename_i h1; simp only [h1, if_true] at h; exact Or.inl h
    · rename_i h1
      simp only [h1, if_false] at h
      split
      · rename_i hs; rw [hs] at h; exact Or.inl h
      · rename_i hs; rw [hs] at h; simp [servFail] at h
      · rename_i hs; rw [hs] at h; exact Or.inl h
      · rename_i t hs
        rw [hs] at h
        simp only at h
        obtain ⟨⟨more, h1', _, h3, _⟩, _⟩ :=
          chaseLoop_inv resolve qname qtype 10 t { rcode := rcode, answer := answer }
        simp only [List.nil_append] at h1'
        rcases h3 r h with hh | ⟨t', ht', sr, hs1, hs2⟩
        · exact Or.inl hh
        · exact Or.inr ⟨t', by rw [h1']; exact ht', sr, hs1, hs2⟩

/-- **Only alias targets are ever asked, each at most once, at most ten.** A
name sent to the sub-pipeline is the target of a CNAME in the upstream answer
or in a sub-response obtained earlier in the same chase; no target is asked
twice (a loop ends the chase) and there are never more than ten. -/
theorem chase_targets_are_alias_targets (resolve : Str → SubResult) (qname : Str) (qtype rcode : Nat)
    (answer : List ChRR) :
    let out := additionalAnswer resolve qname qtype rcode answer
    (∀ t ∈ out.asked,
      (∃ c ∈ answer, c.rtype = typeCNAME ∧ c.target = t) ∨
      ∃ t' ∈ out.asked, ∃ sr, resolve t' = SubResult.resp sr ∧
        ∃ c ∈ sr.answer, c.rtype = typeCNAME ∧ c.target = t) ∧
    out.asked.Nodup ∧ out.asked.length ≤ 10 := by
  simp only
  unfold additionalAnswer
  simp only
  split
  · simp
  · split
    · simp
    · split
      · simp
      · simp [servFail]
      · simp
      · rename_i t hs
        obtain ⟨⟨more, h1', h2, _, h4⟩, h5⟩ :=
          chaseLoop_inv resolve qname qtype 10 t { rcode := rcode, answer := answer }
        simp only [List.nil_append] at h1'
        refine ⟨?_, ?_, ?_⟩
        · intro t' ht'
          rw [h1'] at ht'
          rcases h4 t' ht' with rfl | ⟨t'', ht'', sr, hs1, c, hc⟩
          · left
            rcases scanAnswer_target answer qname qtype none _ hs with hh | hh
            · cases hh
            · exact hh
          · exact Or.inr ⟨t'', by rw [h1']; exact ht'', sr, hs1, c, hc⟩
        · exact h5 (by simp)
        · rw [h1']; exact h2

/-- An answer that already holds a record of the query type, a CNAME or DS
question, and an NXDOMAIN are passed on untouched: nothing is asked. -/
theorem chase_not_started (resolve : Str → SubResult) (qname : Str) (qtype rcode : Nat)
    (answer : List ChRR)
    (h : qtype = typeCNAME ∨ qtype = typeDS ∨ rcode = rcodeNXDomain ∨
      scanAnswer qname qtype answer none = Scan.answered) :
    additionalAnswer resolve qname qtype rcode answer = { rcode := rcode, answer := answer, asked := [] } := by
  unfold additionalAnswer
  simp only
  rcases h with h | h | h | h
  · simp [h]
  · simp [h]
  · split
    · rfl
    · simp [h]
  · split
    · rfl
    · split
      · rfl
      · rw [h]

-- non-vacuity: a two-hop chase; the forged target record of the outer message is not there any more
-- (it was dropped by `answer()`), the honest one comes from the target's own resolution
example : additionalAnswer
    (fun t => if t = "www.victim.test.".toList then
        SubResult.resp ⟨0, [⟨"www.victim.test.".toList, 5, "web.victim.test.".toList⟩], 0⟩
      else if t = "web.victim.test.".toList then
        SubResult.resp ⟨0, [⟨"web.victim.test.".toList, 1, []⟩], 0⟩
      else SubResult.fail)
    "q.evil.test.".toList 1 0 [⟨"q.evil.test.".toList, 5, "www.victim.test.".toList⟩]
    = ⟨0, [⟨"q.evil.test.".toList, 5, "www.victim.test.".toList⟩,
           ⟨"www.victim.test.".toList, 5, "web.victim.test.".toList⟩, ⟨"web.victim.test.".toList, 1, []⟩],
       ["www.victim.test.".toList, "web.victim.test.".toList]⟩ := by decide
-- a loop ends in SERVFAIL after asking each name once
example : (additionalAnswer
    (fun t => if t = "a.test.".toList then SubResult.resp ⟨0, [⟨"a.test.".toList, 5, "b.test.".toList⟩], 0⟩
      else SubResult.resp ⟨0, [⟨"b.test.".toList, 5, "a.test.".toList⟩], 0⟩)
    "q.test.".toList 1 0 [⟨"q.test.".toList, 5, "a.test.".toList⟩]) = servFail ["a.test.".toList, "b.test.".toList] := by
  decide

/-! ## facts regenerated from the tree -/

/-- The guards are wired where the theorems assume them: `processDelegation`
applies `validReferral` before it reads glue, looks up NS addresses or stores
the delegation; `lookup` applies the same rule to what
`extractDelegationInfo` found; `answer` ends in `clearAdditional`;
`Conn.Exchange` consults `QuestionMatches`; both cache write paths filter the
answer before building the entry; `answer` filters `resp.Answer` to the asked
zone in an unconditional top-level statement (guarded by `zone != ""` only)
that precedes the splice of a DNAME target's separately resolved answer; every
write to `rs.level` is the label count of the zone now asked
(`resolveWithCachedNameservers`, `processDelegation`) or an increment under a
`minimized` condition; both name-server address lookups (`lookupNSAddrV4`,
`lookupNSAddrV6`) take their addresses from `searchAddrs` and build none themselves. -/
theorem guards_are_wired :
    SdnsVerif.Gen.C07.shape_delegation_guard_first = true ∧
    SdnsVerif.Gen.C07.shape_lookup_applies_rule = true ∧
    SdnsVerif.Gen.C07.shape_answer_clears_sections = true ∧
    SdnsVerif.Gen.C07.shape_exchange_checks_question = true ∧
    SdnsVerif.Gen.C07.shape_store_filters_before_entry = true ∧
    SdnsVerif.Gen.C07.shape_answer_filters_before_splice = true ∧
    SdnsVerif.Gen.C07.shape_level_is_zone_depth = true ∧
    SdnsVerif.Gen.C07.shape_nsaddr_lookups_use_searchAddrs = true ∧
    SdnsVerif.Gen.C07.shape_dname_target_resolved_separately = true ∧
    SdnsVerif.Gen.C07.shape_addresses_built_only_by_usableAddr = true ∧
    SdnsVerif.Gen.C07.shape_checkhosts_uses_filtered_lookups = true ∧
    SdnsVerif.Gen.C07.shape_lookup_sets_invalid_referrals_aside = true := by decide

/-- The compiled `usableAddr` rejects every loopback probe (127.0.0.1 in both
spellings, the ends of 127/8, ::1) and every address of every local interface,
and still accepts a public address. -/
theorem compiled_usableAddr_rejects_loopback_and_local :
    (∀ b ∈ SdnsVerif.Gen.C07.usable_loopback_probe, b = false) ∧
    (∀ b ∈ SdnsVerif.Gen.C07.usable_local_probe, b = false) ∧
    SdnsVerif.Gen.C07.usable_public_probe = true := by decide

/-- The response question sections the compiled `QuestionMatches` is evaluated
on (request: `www.victim.test. A IN`): same, other case, other name, other
type, other class, none, two, string-suffix look-alike. -/
def questionProbe : List (List Question) :=
  [[⟨"www.victim.test.".toList, 1, 1⟩], [⟨"WWW.Victim.TEST.".toList, 1, 1⟩],
   [⟨"mail.victim.test.".toList, 1, 1⟩], [⟨"www.victim.test.".toList, 28, 1⟩],
   [⟨"www.victim.test.".toList, 1, 3⟩], [],
   [⟨"www.victim.test.".toList, 1, 1⟩, ⟨"www.victim.test.".toList, 1, 1⟩],
   [⟨"xwww.victim.test.".toList, 1, 1⟩]]

/-- `(referral, authZone, qname)` triples the compiled `progressingReferral` and
`CompareSuffix(referral, authZone)` / `NameInZone(referral, authZone)` are evaluated on: proper, self, self in
another case, upward, root, sideways, string-suffix look-alike, off path,
referral = qname, escaped dot, from the root, equal head over a different middle label. -/
def referralProbe : List (String × String × String) :=
  [("sub.evil.test.", "evil.test.", "x.sub.evil.test."),
   ("evil.test.", "evil.test.", "x.sub.evil.test."),
   ("EVIL.Test.", "evil.test.", "x.sub.evil.test."),
   ("test.", "evil.test.", "x.sub.evil.test."),
   (".", "evil.test.", "x.sub.evil.test."),
   ("victim.test.", "evil.test.", "x.sub.evil.test."),
   ("notevil.test.", "evil.test.", "x.notevil.test."),
   ("other.evil.test.", "evil.test.", "x.sub.evil.test."),
   ("x.sub.evil.test.", "evil.test.", "x.sub.evil.test."),
   ("x\\.evil.test.", "evil.test.", "y.x\\.evil.test."),
   ("test.", ".", "www.victim.test."),
   ("sub.x.evil.test.", "sub.y.evil.test.", "sub.x.evil.test.")]

/-- On the probe tables the compiled functions and the model agree value for
value (regenerated on every run: a change of the compiled comparison in either
direction breaks this `decide`). -/
theorem compiled_guards_agree_with_model_on_probes :
    SdnsVerif.Gen.C07.question_match_probe =
      questionProbe.map (questionMatches ⟨"www.victim.test.".toList, 1, 1⟩) ∧
    SdnsVerif.Gen.C07.progressing_probe =
      referralProbe.map (fun t => progressingReferral t.1.toList t.2.1.toList t.2.2.toList) ∧
    SdnsVerif.Gen.C07.compare_suffix_probe =
      referralProbe.map (fun t => compareSuffix (labelsOf t.1.toList) (labelsOf t.2.1.toList)) ∧
    SdnsVerif.Gen.C07.in_zone_probe =
      referralProbe.map (fun t => nameInZone (lower t.1.toList) (lower t.2.1.toList)) := by
  decide

end SdnsVerif.Props.C07
