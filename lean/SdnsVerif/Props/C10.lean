import SdnsVerif.Model.Slab
import SdnsVerif.Lemmas.Slab
import SdnsVerif.Gen.C10
/-!
# C10 — replies reach only their own client and carry only their own bytes

Property theorems only (helper lemmas live in `Lemmas/Slab.lean`).

PARTIAL. What is proved here is the *sequential* protocol: one slab, one
connection, one chain, one shared flight, with every buffer holding arbitrary
previous contents, and the ownership discipline of the slab pointers as a
transition system whose steps are the engine's atomic hand-offs. The actual
interleavings of goroutines, `sendmmsg` batches and `sync.Pool` are not
exhibited by a model; they are explored by the stress harness
(`harness/c10`, ops `stress` / `usrv` / `tsrv`).
-/
namespace SdnsVerif.Props.C10
open SdnsVerif.Model.Slab SdnsVerif.Lemmas.Slab

/-! ### the UDP slab -/

/-- **The output of a recycled slab is the specification's.** Whatever the
slab still holds in every field `release` does not own (both buffers, the
control-message bytes, the cached peer, the raw sockaddr *and its length*),
serving a list of requests on it — by any of the engine's roads: ring or
overflow, batch or portable reader, inline with or without handoff — sends
exactly what `specOut` says for each request: bytes that are a function of
that request and the handler, addressed to that request's source, with that
request's control data. -/
theorem slab_output_is_spec (sz : Sizes) (h : Handler) (r : Residue) (l : List (Req × Path)) :
    (runMany sz h (recycled r) l).2 = l.flatMap (fun qp => specOut sz h qp.1 qp.2) :=
  (runMany_spec sz h l (recycled r) (recycled_scrubbed r)).1

/-- **Residue non-interference.** For ANY two residues and any sequence of
requests, the datagrams sent (destination, control data, bytes) are equal:
nothing a previous occupant left behind reaches a client. -/
theorem slab_noninterference (sz : Sizes) (h : Handler) (r₁ r₂ : Residue) (l : List (Req × Path)) :
    (runMany sz h (recycled r₁) l).2 = (runMany sz h (recycled r₂) l).2 := by
  rw [slab_output_is_spec, slab_output_is_spec]

/-- a request that ends without a write: shed as truncated, unparseable,
ignored (a response), or handled by a handler that writes nothing on any
pass (dropped, cancelled, panicked before writing) -/
def Silent (sz : Sizes) (h : Handler) (q : Req) : Prop :=
  q.pkt.length > sz.udpBuf ∨ acceptHeader q.pkt = none ∨ acceptHeader q.pkt = some .ignore ∨
  (acceptHeader q.pkt = some .ok ∧ ∀ e, (h q.pkt e).wrote = none ∧ h q.pkt e ≠ .decline)

theorem specReply_silent (sz : Sizes) (h : Handler) (q : Req) (e : Entry) (d : Bool) (hl : ¬ q.pkt.length > sz.udpBuf)
    (hs : Silent sz h q) : specReply sz h q.pkt e d = (none, true) := by
  rcases hs with hs | hs | hs | ⟨hv, hw⟩
  · exact absurd hs hl
  · simp [specReply, hs]
  · simp [specReply, hs]
  · rw [specReply_ok_ne sz h q.pkt e d hv (hw e).2, (hw e).1]; rfl

/-- **No leftover reply.** A request that ends without a write sends nothing —
whatever the previous occupants of the slab staged (`prev` is arbitrary, and
so is the residue the slab started with), on every road through the engine. -/
theorem no_leftover_reply (sz : Sizes) (h : Handler) (r : Residue) (prev : List (Req × Path))
    (q : Req) (p : Path) (hs : Silent sz h q) :
    (lifeCycle sz h (runMany sz h (recycled r) prev).1 q p).2 = [] := by
  have hscr := (runMany_spec sz h prev (recycled r) (recycled_scrubbed r)).2
  rw [(lifeCycle_spec sz h _ q p hscr).1]
  unfold specOut
  by_cases hl : q.pkt.length > sz.udpBuf
  · simp [hl]
  · simp only [hl, if_false]
    cases p <;> simp [specReply_silent sz h q _ _ hl hs]

/-- **A Msg-path reply is the packed message, wherever the packer put it.** The
library's `PackBuffer` chooses between the slab's TX buffer and a buffer of its
own by the UNCOMPRESSED length `ulen`; whichever it is — for every `ulen` — a
worker-served request whose handler answers through `WriteMsg` sends exactly
the packed bytes `b` (never what the recycled slab held), to its own source. -/
theorem msg_path_reply_is_packed_bytes (sz : Sizes) (h : Handler) (r : Residue) (q : Req) (batch : Bool)
    (b : Bytes) (ulen : Nat) (hv : acceptHeader q.pkt = some .ok) (hh : ∀ e, h q.pkt e = .writeMsgU b ulen)
    (hb : 0 < b.length ∧ b.length ≤ sz.udpBuf) (hq : q.pkt.length ≤ sz.udpBuf) :
    (lifeCycle sz h (recycled r) q (.ring batch)).2 = [{ dest := q.src, ctl := q.ctl, body := b }] := by
  rw [(lifeCycle_spec sz h _ q _ (recycled_scrubbed r)).1]
  have hne : h q.pkt .raw ≠ .decline := by rw [hh]; simp
  have hl : ¬ q.pkt.length > sz.udpBuf := by omega
  have hfit : fits sz false b = some b := by
    unfold fits
    have h1 : ¬ b.length > sz.udpBuf := by omega
    have h2 : ¬ b.length = 0 := by omega
    simp [h1, h2]
  simp [specOut, hl, specReply_ok_ne sz h q.pkt .raw false hv hne, hh, Act.wrote, hfit]

/-- … and the slab it leaves behind is scrubbed again: the lengths and flags
a later request's send depends on are all clear. -/
theorem release_scrubs (sz : Sizes) (h : Handler) (r : Residue) (l : List (Req × Path)) :
    Scrubbed (runMany sz h (recycled r) l).1 :=
  (runMany_spec sz h l (recycled r) (recycled_scrubbed r)).2

/-- **A batched send pairs every payload with its own job's address.** Whatever
mix of skipped, directly sent (portable-read) and batched jobs a burst holds,
the datagrams that leave are exactly each job's own staged bytes to that job's
own destination: the directly sent ones first, then the batched ones in order. -/
theorem send_group_pairs_own (jobs : List UdpJob) :
    sendGroup jobs =
      ((jobs.filter fun j => j.txLen != 0 && j.rawSALen == 0).map fun j => j.datagram (j.tx.take j.txLen)) ++
      ((jobs.filter fun j => j.txLen != 0 && j.rawSALen != 0).map fun j => j.datagram (j.tx.take j.txLen)) := by
  have key : ∀ l : List UdpJob,
      (sendGroupArm l).1 = ((l.filter fun j => j.txLen != 0 && j.rawSALen == 0).map fun j => j.datagram (j.tx.take j.txLen)) ∧
      List.zipWith (fun h b => ({ dest := h.1, ctl := h.2, body := b } : Datagram)) (sendGroupArm l).2.1 (sendGroupArm l).2.2 =
        ((l.filter fun j => j.txLen != 0 && j.rawSALen != 0).map fun j => j.datagram (j.tx.take j.txLen)) := by
    intro l
    induction l with
    | nil => simp [sendGroupArm]
    | cons j t ih =>
      obtain ⟨i1, i2⟩ := ih
      unfold sendGroupArm
      by_cases h1 : j.txLen = 0
      · simp [h1, i1, i2]
      · by_cases h2 : j.rawSALen = 0
        · simp [h1, h2, i1, i2]
        · simp [h1, h2, i1, i2, UdpJob.datagram, UdpJob.dest]
  unfold sendGroup
  rw [← (key jobs).1, ← (key jobs).2]

/-- a job the batch reader filled: its raw sockaddr and its netip view name the same peer -/
def PeerConsistent (j : UdpJob) : Prop := j.rawSALen ≠ 0 → j.rawSA = j.raddr

theorem direct_eq_datagram (j : UdpJob) (h : PeerConsistent j) : j.direct = j.datagram (j.tx.take j.txLen) := by
  unfold UdpJob.direct UdpJob.datagram UdpJob.dest
  by_cases h0 : j.rawSALen = 0
  · simp [h0]
  · simp [h0, h h0]

theorem sendArmed_all (fuel : Nat) : ∀ (plan : List TxAns) (armed : List UdpJob), (∀ j ∈ armed, PeerConsistent j) →
    (sendArmed fuel plan armed).1 = armed.map fun j => j.datagram (j.tx.take j.txLen) := by
  induction fuel with
  | zero => intro plan armed _; simp [sendArmed]
  | succ f ih =>
    intro plan armed hc
    cases armed with
    | nil => simp [sendArmed]
    | cons a t =>
      cases plan with
      | nil => simp [sendArmed]
      | cons p pl =>
        cases p with
        | sent n =>
          simp only [sendArmed]
          rw [ih pl _ (fun j hj => hc j (List.mem_of_mem_drop hj))]
          rw [← List.map_append, List.take_append_drop]
        | refused =>
          simp only [sendArmed]
          exact List.map_congr_left (fun j hj => direct_eq_datagram j (hc j hj))
        | retired =>
          simp only [sendArmed]
          exact List.map_congr_left (fun j hj => direct_eq_datagram j (hc j hj))

/-- **Partial sends, refusals and retirement change nothing a client sees.**
Whatever the kernel does with each `sendmmsg` call — sends only the first n of
the armed messages (the loop re-sends exactly the unsent tail), refuses the
call (the rest goes out directly, job by job), or proves the syscall unusable
(batched TX retired, everything direct from then on) — the datagrams that leave
are exactly each job's own staged bytes to that job's own peer: the same list
an undisturbed `sendGroup` sends. -/
theorem send_group_any_kernel_answer (plan : List TxAns) (jobs : List UdpJob) (hc : ∀ j ∈ jobs, PeerConsistent j) :
    (sendGroupPlan false plan jobs).1 = sendGroup jobs ∧
    (sendGroupPlan true plan jobs).1 = (jobs.filter fun j => j.txLen != 0).map fun j => j.datagram (j.tx.take j.txLen) := by
  constructor
  · rw [send_group_pairs_own]
    simp only [sendGroupPlan, Bool.false_eq_true, if_false]
    have hA : ∀ j ∈ (jobs.filter fun j => j.txLen != 0).filter fun j => j.rawSALen != 0, PeerConsistent j :=
      fun j hj => hc j (List.mem_filter.mp (List.mem_filter.mp hj).1).1
    rw [sendArmed_all _ plan _ hA]
    have hD : ((jobs.filter fun j => j.txLen != 0).filter fun j => j.rawSALen == 0).map UdpJob.direct =
        ((jobs.filter fun j => j.txLen != 0).filter fun j => j.rawSALen == 0).map fun j => j.datagram (j.tx.take j.txLen) :=
      List.map_congr_left (fun j hj => direct_eq_datagram j (hc j (List.mem_filter.mp (List.mem_filter.mp hj).1).1))
    rw [hD]
    simp [List.filter_filter, Bool.and_comm]
  · simp only [sendGroupPlan, if_true]
    exact List.map_congr_left (fun j hj => direct_eq_datagram j (hc j (List.mem_filter.mp hj).1))

/-! ### ownership of the slab pointers -/

/-- **Single owner.** From `n` parked slabs, after any sequence of the
engine's hand-off steps (attempted steps that are not enabled are the
`panic("ownership violated")` the code has, and change nothing):
* every slab pointer is in exactly one container exactly once — no slab is
  lost, none is in two hands (`all` is a permutation of the `n` slabs);
* its `state` field agrees with the container it is in;
* a slab in a goroutine's hands (armed by a reader, or being served / staged)
  can be moved by exactly one actor: any two enabled steps on it have the
  same actor. -/
theorem owner_unique (n : Nat) (steps : List Step) :
    let s := (Sys.init n).run steps
    s.all.Perm (List.range n) ∧
    (∀ j, (j ∈ s.idle → s.state j = .free) ∧ (j ∈ s.armed → s.state j = .reading) ∧
          (j ∈ s.ready → s.state j = .queued) ∧ (j ∈ s.serving → s.state j = .serving)) ∧
    (∀ st₁ st₂ : Step, st₁.enabled s = true → st₂.enabled s = true → st₁.slab = st₂.slab →
        (st₁.slab ∈ s.armed ∨ st₁.slab ∈ s.serving) → st₁.actor = st₂.actor) := by
  intro s
  obtain ⟨hinv, hperm⟩ := run_inv steps (Sys.init n) (init_inv n)
  refine ⟨?_, ?_, ?_⟩
  · have : (Sys.init n).all = List.range n := by simp [Sys.init, Sys.all]
    rw [← this]; exact hperm
  · intro j
    have := hinv.2 j
    exact ⟨fun h => (this.1 h).1, fun h => (this.2.1 h).1, fun h => (this.2.2.1 h).1, fun h => (this.2.2.2 h).1⟩
  · intro st₁ st₂ h₁ h₂ hsl hh
    rw [enabled_actor s st₁ hinv h₁ hh, enabled_actor s st₂ hinv h₂ (hsl ▸ hh), hsl]

/-- exactly one container holds each slab (corollary, spelled as a count) -/
theorem owner_count_one (n : Nat) (steps : List Step) (j : Nat) (hj : j < n) :
    ((Sys.init n).run steps).all.count j = 1 := by
  have hp := (owner_unique n steps).1
  rw [hp.count_eq, List.nodup_range.count]
  simp [hj]

/-- **No two goroutines share send state.** Workers and batch readers that
stage replies use pairwise different `udpTXSender` slots, all inside the array
the engine allocated (`workers + sockets`): a burst's `sendmmsg` headers are
never armed by two actors at once. -/
theorem sender_slots_exclusive (workers sockets : Nat) (a b : Actor) (sa sb : Nat)
    (ha : senderSlot workers a = some sa) (hb : senderSlot workers b = some sb)
    (hra : ∀ i, a = .reader i → i < sockets) (hab : a ≠ b) :
    sa ≠ sb ∧ sa < workers + sockets := by
  cases a with
  | cache => simp [senderSlot] at ha
  | queue => simp [senderSlot] at ha
  | reader i =>
    have hi := hra i rfl
    simp only [senderSlot, Option.some.injEq] at ha
    cases b with
    | cache => simp [senderSlot] at hb
    | queue => simp [senderSlot] at hb
    | reader j =>
      simp only [senderSlot, Option.some.injEq] at hb
      refine ⟨?_, by omega⟩
      intro h
      apply hab
      have : i = j := by omega
      rw [this]
    | worker j =>
      simp only [senderSlot] at hb
      split at hb
      · simp only [Option.some.injEq] at hb; exact ⟨by omega, by omega⟩
      · cases hb
  | worker i =>
    simp only [senderSlot] at ha
    split at ha
    · simp only [Option.some.injEq] at ha
      cases b with
      | cache => simp [senderSlot] at hb
      | queue => simp [senderSlot] at hb
      | reader j =>
        simp only [senderSlot, Option.some.injEq] at hb
        exact ⟨by omega, by omega⟩
      | worker j =>
        simp only [senderSlot] at hb
        split at hb
        · simp only [Option.some.injEq] at hb
          refine ⟨?_, by omega⟩
          intro h
          apply hab
          have : i = j := by omega
          rw [this]
        · cases hb
    · cases ha

open SdnsVerif.Gen.C10 in
theorem sender_slot_shape :
    reader_sender_slot_past_workers = true ∧ senders_sized_workers_plus_readers = true := by
  decide

/-! ### the body lease -/

/-- **A lease's capacity is pinned to what was declared.** When
`BeginWire(size, reserve)` hands out a buffer it is empty and its capacity is
exactly `size + reserve` — never the slab's remaining capacity — whether it
is backed by the transport's slab or freshly allocated; a writer that has
already written leases nothing. -/
theorem lease_capacity_pinned (written : Bool) (tr : Option Slice) (size reserve : Nat) (s : Slice)
    (hb : beginWire written tr size reserve = some s) :
    s.len = 0 ∧ s.cap = size + reserve ∧ written = false ∧
    (∀ buf, tr = some buf → s.off = buf.off ∧ size + reserve ≤ buf.cap) := by
  obtain ⟨h1, h2, h3, h4, _⟩ := beginWire_pinned written tr size reserve s hb
  exact ⟨h1, h2, h3, fun buf hbuf => ⟨(h4 buf hbuf).1, (h4 buf hbuf).2.2⟩⟩

/-- **Nothing outside the lease is written, nothing of the previous response
is seen.** For a lease over a slab with arbitrary contents and ANY sequence
of appends: the slab before the lease's offset and from `off + cap` on is
unchanged (an append that would pass the capacity moves to private memory);
and as long as appends fit, the lease's visible content is exactly what was
appended. The bytes reachable by reslicing are `cap` many, by definition of
the three-index slice. -/
theorem lease_appends_stay_inside (slab : Bytes) (s : Slice) (bs : List Bytes) (hin : s.off + s.cap ≤ slab.length) :
    (slabAfter slab s bs).length = slab.length ∧
    (slabAfter slab s bs).take s.off = slab.take s.off ∧
    (slabAfter slab s bs).drop (s.off + s.cap) = slab.drop (s.off + s.cap) :=
  slabAfter_frame bs slab s hin

theorem lease_view_is_what_was_appended (slab : Bytes) (s : Slice) (b : Bytes) (h0 : s.len = 0)
    (hfit : b.length ≤ s.cap) (hin : s.off + s.cap ≤ slab.length) :
    view (sliceAppend slab s b).2.2 (sliceAppend slab s b).1 = b ∧
    (reachable (sliceAppend slab s b).2.2 (sliceAppend slab s b).1).length ≤ s.cap := by
  obtain ⟨_, A2, _, _, _, _, A7⟩ := sliceAppend_inplace slab s b (by omega) hin
  refine ⟨?_, ?_⟩
  · rw [A7]; simp [view, h0]
  · simp [reachable, A2]; omega

/-- `TryPack` hands its consumer `buf[:off:off]`: nothing of the pooled
buffer's tail is reachable. -/
theorem trypack_capacity_pinned (off : Nat) (mem : Bytes) :
    (tryPackSlice off).cap = (tryPackSlice off).len ∧ (reachable mem (tryPackSlice off)).length ≤ off := by
  simp [tryPackSlice, reachable]; omega

/-! ### the stream connection -/

/-- **Whole, one per query, in query order.** For any list of well-formed
pipelined queries, any handler, any placement of the connection's flush
points (`blocks`: where the fill buffer ran empty) and any replies already
out, what the connection writes is the concatenation, in query order, of one
whole length-prefixed frame per answered query (`specStream`) — up to the
query whose handler panics, where the connection ends after flushing. -/
theorem stream_in_order_whole (sz : Sizes) (h : Handler) (qs : List Bytes) (blocks : List Bool) (o : Out)
    (hq : ∀ q ∈ qs, sz.tcpMinFrame ≤ q.length ∧ q.length < 65536) :
    (serveStream sz h (qs.length + 1) (clientStream qs) blocks o).total = o.total ++ specStream sz h qs :=
  serveStream_spec sz h qs (qs.length + 1) blocks o hq (Nat.lt_succ_self _)

/-- flush points are invisible in the byte stream -/
theorem stream_flush_points_invisible (sz : Sizes) (h : Handler) (qs : List Bytes) (b₁ b₂ : List Bool)
    (hq : ∀ q ∈ qs, sz.tcpMinFrame ≤ q.length ∧ q.length < 65536) :
    (serveStream sz h (qs.length + 1) (clientStream qs) b₁ {}).total =
    (serveStream sz h (qs.length + 1) (clientStream qs) b₂ {}).total := by
  rw [stream_in_order_whole sz h qs b₁ {} hq, stream_in_order_whole sz h qs b₂ {} hq]

/-- **After a write that failed partway the stream is never touched again.**
Once a flush left a half-sent frame behind (the sticky `werr`), no later
reply of the burst — staged, displaced, flushed at the end — adds a byte:
the client sees a truncated stream, never frames glued onto half a frame. -/
theorem nothing_after_failed_write (sz : Sizes) (h : Handler) (fuel : Nat) (input : Bytes) (o : OutS)
    (hw : o.werr = true) : serveStreamS sz h fuel input o = o := by
  have hf : ∀ x : OutS, x.werr = true → x.flush = x := by intro x hx; simp [OutS.flush, hx]
  have hs : ∀ (x : OutS) (p : Bytes), x.werr = true → x.stage sz p = x := by intro x p hx; simp [OutS.stage, hx]
  induction fuel generalizing input with
  | zero => simp [serveStreamS, hf o hw]
  | succ f ih =>
    unfold serveStreamS
    simp only [hf o hw]
    by_cases h1 : input.length < 2
    · simp only [h1, if_true]
    · by_cases h2 : be16 input 0 < sz.tcpMinFrame
      · simp only [h1, h2, if_true, if_false]
      · by_cases h3 : (input.drop 2).length < be16 input 0
        · simp only [h1, h2, h3, if_true, if_false]
        · simp only [h1, h2, h3, if_false]
          cases hr : tcpReply sz h ((input.drop 2).take (be16 input 0)) with
          | none => simp only [hf o hw, ih]; split <;> rfl
          | some p => simp only [hs o p hw, hf o hw, ih]; split <;> rfl

/-! ### chain and writer rebinding -/

/-- **A recycled chain is a new chain.** After `Reset` (or `ResetWire`) the
chain's per-request state is a function of the new transport and request
only: two chains with the same immutable handler list are equal afterwards,
whatever either served before. -/
theorem chain_reset_erases (c₁ c₂ : Chain) (transport proto msg : Nat) (hh : c₁.handlers = c₂.handlers) :
    c₁.reset transport proto msg = c₂.reset transport proto msg ∧
    c₁.resetWire transport proto = c₂.resetWire transport proto := by
  simp [Chain.reset, Chain.resetWire, Writer.reset, hh]

theorem chain_reset_unwritten (c : Chain) (transport proto msg : Nat) :
    (c.reset transport proto msg).base.size = -1 ∧ (c.reset transport proto msg).base.transport = transport ∧
    (c.reset transport proto msg).wrapped = false ∧ (c.reset transport proto msg).base.directPack = false := by
  simp [Chain.reset, Writer.reset]

/-! ### shared upstream lookups -/

/-- **Followers get copies, ids are the callers' own.** All callers that share
one flight's result — whether their request was shared or lookup-owned (a
QNAME-minimised probe: the `Bool` of each caller) — receive pairwise distinct allocations, none of them the
leader's message; each carries its own caller's id and the flight's content. -/
theorem shared_lookup_copied (leader : Msg) (ids : List (Nat × Bool)) (next : Nat) (hn : leader.addr < next) :
    (shareAll leader ids next).map (·.id) = ids.map (·.1) ∧
    (∀ m ∈ shareAll leader ids next, m.addr ≠ leader.addr ∧ m.body = leader.body) ∧
    ((shareAll leader ids next).map (·.addr)).Nodup := by
  obtain ⟨h1, h2, h3⟩ := shareAll_spec leader ids next hn
  exact ⟨h1, fun m hm => ⟨by have := (h2 m hm).1; omega, (h2 m hm).2⟩, h3⟩

/-- an unshared result is handed over as is, with the caller's id -/
theorem unshared_lookup_id (leader : Msg) (owned : Bool) (reqId next : Nat) :
    (groupLookupResult false owned leader reqId next).1.id = reqId ∧
    (groupLookupResult true owned leader reqId next).1.id = reqId := by
  simp [groupLookupResult]

/-! ### job-owned strict-path storage -/

/-- **The carrier starts every request empty.** After `reset` the carrier is
the same whatever the previous request pinned or provided; no key is pinned. -/
theorem carrier_reset_erases (c₁ c₂ : Carrier) (d k : Nat) :
    c₁.reset d = c₂.reset d ∧ (k ≠ 0 → (c₁.reset d).pinned k = none) ∧ (c₁.reset d).provider = false := by
  refine ⟨rfl, ?_, rfl⟩
  intro hk
  have h0 : (0 == k) = false := by
    cases k with
    | zero => exact absurd rfl hk
    | succ n => rfl
  simp [Carrier.reset, Carrier.pinned, List.find?, h0]

open SdnsVerif.Gen.C10 in
/-- every strict entry resets the carrier before it serves -/
theorem carrier_reset_on_every_entry :
    1 ≤ carrier_reset_in_serveraw ∧ 1 ≤ carrier_reset_in_serverawinline ∧ 1 ≤ carrier_reset_in_serverawreplay := by
  decide

/-- **The edns writer slot carries nothing from one request to the next.** For
any sequence of requests served through ONE job-owned slot, each reply's
COOKIE option is its own request's client cookie — none when the request sent
none (or no OPT at all) — because the slot leaves every serve wiped. -/
theorem edns_slot_noninterference (qs : List EdnsReq) (hq : ∀ q ∈ qs, q.hasOpt = false → q.cookie = none) :
    ednsMany {} qs = qs.map (·.cookie) := by
  induction qs with
  | nil => rfl
  | cons q t ih =>
    have hq0 := hq q (List.mem_cons_self)
    simp only [ednsMany, List.map_cons]
    have h2 : (ednsServe {} q).2 = {} := rfl
    rw [h2, ih (fun x hx => hq x (List.mem_cons_of_mem _ hx))]
    congr 1
    cases hc : q.cookie with
    | none => cases ho : q.hasOpt <;> simp [ednsServe, EdnsSlot.enter, EdnsSlot.replyCookie, hc, ho]
    | some c =>
      have ho : q.hasOpt = true := by
        cases h : q.hasOpt with
        | true => rfl
        | false => rw [hq0 h] at hc; cases hc
      simp [ednsServe, EdnsSlot.enter, EdnsSlot.replyCookie, hc, ho]

/-! ### replies built from stored or borrowed messages -/

/-- **A reply built from a cache entry or from an internal sub-response carries
the client's own id and question**, whatever question the entry was admitted
under (another client's 0x20 spelling), however many cached segments an alias
chase walks, and whatever id the internal sub-query drew. -/
theorem reply_identity_is_requests (q : WireReq) (e : WireEntry) (segs : List WireEntry) (sub : WireReply) :
    (hitReply q e).id = q.id ∧ (hitReply q e).question = q.question ∧
    (chaseReply q segs).id = q.id ∧ (chaseReply q segs).question = q.question ∧
    (basisReply q sub).id = q.id ∧ (basisReply q sub).question = q.question := by
  simp [hitReply, chaseReply, basisReply]

/-- behind the per-address limiter a reply's cookie is its own query's, whatever
cookie the address has on record -/
theorem ratelimit_cookie_is_requests (client r₁ r₂ : Option Nat) :
    rlReplyCookie client r₁ = client ∧ rlReplyCookie client r₁ = rlReplyCookie client r₂ := by
  simp [rlReplyCookie]

/-! ### the pooled sub-query writer -/

/-- **A sub-query gets its own response or none.** For any sequence of internal
sub-queries on one pooled `BufferWriter` — responses, silent handlers, and
responses withheld as request-local failures, in any order — each caller
receives exactly the message its own sub-pipeline wrote, and nothing when it
wrote nothing or its response was withheld: the writer goes back to the pool
empty on every path. -/
theorem subquery_noninterference (qs : List (SubKind × Nat)) :
    subMany {} qs = qs.map (fun q => if q.1 = .wrote then some q.2 else none) := by
  induction qs with
  | nil => rfl
  | cons q t ih =>
    obtain ⟨k, id⟩ := q
    have h2 : (subQuery {} k id).2 = {} := rfl
    simp only [subMany, List.map_cons, h2, ih]
    cases k <;> simp [subQuery]

/-! ### replies kept by the transport -/

/-- **A reply handed to its transport is never touched again.** Whatever is
served afterwards (any number of requests, on the same pooled chain, through
the same configured view records), every message already on the heap — the
ones DoH / DoH3 pack only after the serve returned — is unchanged, and each
request's own reply carries its own id. -/
theorem retained_reply_stable (heap : List (Option Msg)) (reqs : List (Nat × Bool)) :
    retainMany heap reqs = heap ++
      (reqs.zipIdx heap.length).map (fun (q, a) => if q.2 then some { addr := a, id := q.1, body := q.1 } else none) := by
  induction reqs generalizing heap with
  | nil => simp [retainMany]
  | cons q t ih =>
    have := ih (retainServe heap q)
    simp only [retainMany, List.foldl_cons] at this ⊢
    rw [this]
    simp [retainServe, List.zipIdx_cons, List.append_assoc]

/-- in particular the messages already handed over are a prefix that never changes -/
theorem retained_prefix_unchanged (heap : List (Option Msg)) (reqs : List (Nat × Bool)) :
    (retainMany heap reqs).take heap.length = heap := by
  rw [retained_reply_stable]; simp

open SdnsVerif.Gen.C10 in
/-- tie of the heap model to the tree: the bare-rcode reply is a fresh
`new(dns.Msg)` (never storage of the pooled chain), and every record `views`
puts into an answer is a `dns.Copy` of the configured one -/
theorem retained_replies_are_own_allocations :
    cancelwithrcode_allocates_reply = true ∧ views_answers_not_copied = [] := by
  decide

/-! ### failover, chain pool -/

/-- **The failover writer answers under the client's transaction.** Whatever
the fallback servers do — errors, SERVFAIL-class responses that are retained,
a usable answer, in any order and number — and whether failover engages at all
(RD, primary rcode, servers configured), the one reply handed on carries the
id of the primary's reply, i.e. the client's. -/
theorem failover_reply_id (servers : List FoOutcome) (m : FoMsg) (rd : Bool) :
    (failoverWrite servers m rd).id = m.id := by
  unfold failoverWrite
  split
  · rfl
  · exact failoverLoop_id m servers none (by simp)

/-- **The forwarder answers under the client's transaction**, whatever its
upstreams (UDP, DoT, DoH) do and in whatever order they fail. -/
theorem forwarder_reply_id (servers : List FoOutcome) (reqId : Nat) :
    (forwardWrite servers reqId).id = reqId :=
  failoverLoop_id _ servers none (by simp)

/-- when every answering fallback fails too, the client gets the FIRST retained
failure (under its own id), not the primary's -/
theorem failover_all_fail (m : FoMsg) (eid mk : Nat) (rest : List FoOutcome)
    (hrest : ∀ o ∈ rest, o = .err ∨ ∃ e k, o = .resp e 2 k) (hm : m.rcode = 2) :
    failoverWrite (.resp eid 2 mk :: rest) m true = { id := m.id, rcode := 2, mark := mk } := by
  have key : ∀ (l : List FoOutcome) (r : FoMsg), (∀ o ∈ l, o = .err ∨ ∃ e k, o = .resp e 2 k) →
      failoverLoop m l (some r) = r := by
    intro l
    induction l with
    | nil => intro r _; simp [failoverLoop]
    | cons o t ih =>
      intro r h
      rcases h o (List.mem_cons_self) with rfl | ⟨e, k, rfl⟩
      · simpa [failoverLoop] using ih r (fun x hx => h x (List.mem_cons_of_mem _ hx))
      · simpa [failoverLoop] using ih r (fun x hx => h x (List.mem_cons_of_mem _ hx))
  simp [failoverWrite, hm, failoverLoop, key rest _ hrest]

/-- **A pooled chain is in one request's hands at most.** Under any sequence
of `NewChain` / `PutChain` where a request only returns a chain it holds (the
guard is what "exactly one deferred PutChain per NewChain" gives; an attempted
second put changes nothing), no pointer is ever parked twice, held twice, or
parked while held — so no two overlapping requests share a chain. -/
theorem chain_pool_exclusive (steps : List PoolStep) :
    ((({} : ChainPool).run steps).pooled ++ (({} : ChainPool).run steps).held).Nodup :=
  (pool_run_inv steps {} (by simp [PoolInv])).1

open SdnsVerif.Gen.C10 in
/-- the same pool discipline for the upstream read buffers (`dnsclient.AcquireBuf /
ReleaseBuf`, to which `chain_pool_exclusive` applies verbatim): no function of the
package releases a buffer both by `defer` and on a branch -/
theorem upstream_buffers_released_once : dnsclient_defer_and_branch_release = [] := by
  decide

open SdnsVerif.Gen.C10 in
/-- the decoded entries draw one chain and return it exactly once (tie of the
`put` guard above to the tree) -/
theorem chain_pool_put_once :
    servemsgby_newchain_calls = 1 ∧ servemsgby_putchain_calls = 1 ∧
    queryer_newchain_calls = 1 ∧ queryer_putchain_calls = 1 := by
  decide

/-! ### DNS-over-QUIC streams -/

/-- **Each QUIC stream carries exactly its own reply.** For any interleaving of
stream accepts and handler completions on one connection (handlers finish in
any order, a later query may finish first), what is written is, for each
completing handler `i`, its own reply (id 0, length-prefixed) on the `i`-th
accepted stream — never on the stream accepted last. -/
theorem doq_reply_on_own_stream (evs : List DoqEvent) :
    (({} : DoqConn).run evs).out = specDoq [] evs := by
  have := (doq_run_spec evs {} rfl).1
  simpa using this

/-! ### facts regenerated from the tree (one-directional side conditions) -/

open SdnsVerif.Gen.C10 in
/-- `udpJob.release` assigns every length / flag the model's `release` clears. -/
theorem release_resets_required_fields :
    ["written", "rxLen", "pktinfoLen", "txLen", "replay", "state"].all (fun f => udp_release_resets.contains f) = true := by
  decide

open SdnsVerif.Gen.C10 in
/-- both readers rewrite everything the reply's destination is read from -/
theorem readers_rewrite_peer_fields :
    ["rxLen", "raddr", "remote", "rawSALen", "pktinfoLen", "pc", "readTime"].all (fun f =>
      udp_portable_reader_sets.contains f && udp_batch_reader_sets.contains f) = true ∧
    udp_batch_reader_sets.contains "rawSA" = true := by
  decide

/-- fields of `udpJob` that neither `release` nor every reader rewrites: only
buffers guarded by a length that *is* reset, immutable wiring, and storage
that is re-initialised per request by its own `reset` / `ParseWire` / `Bind` -/
def udpAllow : List String :=
  ["engine", "rx", "tx", "rawSA", "ipScratch", "req", "chain", "carrier", "ednsWriter"]

open SdnsVerif.Gen.C10 in
theorem udp_unowned_fields_allow_listed : udp_unowned.all (fun f => udpAllow.contains f) = true := by
  decide

def tcpAllow : List String := ["engine", "rx", "tx", "large", "req", "chain", "carrier", "ednsWriter"]

open SdnsVerif.Gen.C10 in
/-- `serveConn` rewrites the per-frame fields of a `tcpJob` before every frame;
the rest is allow-listed; `tcpStream.reset` clears every cursor and the sticky error -/
theorem tcp_job_and_stream_reset :
    ["conn", "stream", "written", "readTime"].all (fun f => tcp_frame_sets.contains f) = true ∧
    tcp_unowned.all (fun f => tcpAllow.contains f) = true ∧
    stream_unreset.all (fun f => ["fill", "drain"].contains f) = true := by
  decide

open SdnsVerif.Gen.C10 in
/-- `responseWriter.Reset` assigns every field of the struct; `Chain.Reset` /
`ResetWire` touch every field except the immutable pipeline wiring (and the
message-born request storage a wire-born request does not use); the rebind
really calls the writer's `Reset`; `Finish` drops the response and request graphs -/
theorem writer_and_chain_reset_complete :
    rw_unreset = [] ∧
    chain_reset_untouched.all (fun f => ["handlers", "workPolicy"].contains f) = true ∧
    chain_resetwire_untouched.all (fun f => ["handlers", "workPolicy", "reqStorage"].contains f) = true ∧
    chain_rebind_resets_writer = true ∧
    ["Meta", "Request", "detachCleanup"].all (fun f => chain_finish_touches.contains f) = true := by
  decide

open SdnsVerif.Gen.C10 in
/-- the edns writer — pooled on the decoded path, a JOB-OWNED slot on the
strict path — is wiped whole (`*rw = ResponseWriter{}`) by the deferred
cleanup of both entries, unconditionally: no per-request field (client cookie
bytes, DO, NSID, keepalive …) survives into the slab's next request -/
theorem edns_writer_slot_wiped :
    edns_servewire_slot_unreset = [] ∧ edns_servedns_slot_unreset = [] := by
  decide

open SdnsVerif.Gen.C10 in
/-- the capacity-pinning slice expressions and the copy / id rewrite of the
shared lookup are present in the tree -/
theorem pinning_and_copy_shapes_present :
    beginwire_pins_capacity = true ∧ trypack_pins_capacity = true ∧
    grouplookup_copies_when_shared = true ∧ grouplookup_rewrites_id = true := by
  decide

open SdnsVerif.Gen.C10 in
/-- buffer classes: a worker's burst never exceeds a reader's batch, the
in-place rejection fits every class, and the stream's length prefix can
express every frame the job class accepts -/
theorem size_classes_sane :
    size_udp_tx_max ≤ size_udp_batch ∧ 12 ≤ size_udp_buf ∧ 12 ≤ size_tcp_min_frame ∧
    size_tcp_buf < 65536 ∧ size_tcp_small_tx ≤ size_tcp_buf ∧ size_tcp_small_rx ≤ size_tcp_buf := by
  decide

/-! ### non-vacuity -/

-- a dirty slab (stale reply for client 9 staged in tx, stale sockaddr with non-zero length),
-- then: a real query from client 1, an ignored response from client 2, a panicking query from client 3
private def dirty : Residue :=
  { rx := [1, 2, 3], tx := [0xde, 0xad, 0xbe, 0xef], pktinfo := [7, 7], raddr := 9, rawSA := 9, rawSALen := 16 }
private def qWrite : Bytes := [0xab, 0xcd, 0, 0, 0, 1, 0, 0, 0, 0, 0, 0, 1, 2, 0x41]
private def qResp : Bytes := [0x11, 0x22, 0x80, 0, 0, 1, 0, 0, 0, 0, 0, 0, 1, 1, 0x42]
private def qPanic : Bytes := [0x33, 0x44, 0, 0, 0, 1, 0, 0, 0, 0, 0, 0, 3, 1, 0x43]

example : (runMany {} program (recycled dirty)
    [({ pkt := qWrite, src := 1 }, .ring false), ({ pkt := qResp, src := 2 }, .ring true),
     ({ pkt := qPanic, src := 3 }, .inline)]).2 =
    [{ dest := 1, ctl := [], body := [0xab, 0xcd, 0x81, 0, 0x41, 0x41] }] := by decide

-- a compressible reply (3 records: 210 bytes uncompressed > the 150-byte class, 110 packed) on a dirty slab
example : ((lifeCycle { udpBuf := 150 } program (recycled dirty)
    { pkt := [0x55, 0x66, 0, 0, 0, 1, 0, 0, 0, 0, 0, 0, 9, 3, 3], src := 4 } (.ring true)).2.map (fun d => (d.dest, d.body.length))) =
    [(4, 110)] := by decide

example : Silent {} program { pkt := qResp, src := 2 } := by
  right; right; left; decide

example : (lifeCycle {} program (recycled dirty) { pkt := qResp, src := 2 } (.ring false)).2 = [] :=
  no_leftover_reply {} program dirty [] _ _ (by right; right; left; decide)

-- send slots: 4 workers, reader 0 → slot 4, worker 3 → slot 3
example : senderSlot 4 (.reader 0) = some 4 ∧ senderSlot 4 (.worker 3) = some 3 := by decide

-- a burst of three: batched to 5, portable-read (direct) to 6, batched to 7 — every payload with its own address
example : (sendGroup [{ txLen := 1, tx := [1], rawSA := 5, rawSALen := 16 }, { txLen := 1, tx := [2], raddr := 6 },
    { txLen := 1, tx := [3], rawSA := 7, rawSALen := 16 }]).map (fun d => (d.dest, d.body)) = [(6, [2]), (5, [1]), (7, [3])] := by
  decide

-- three armed jobs, the kernel sends 1, then refuses: the other two leave directly — same datagrams, same peers
example : ((sendGroupPlan false [.sent 1, .refused] [{ txLen := 1, tx := [1], rawSA := 5, raddr := 5, rawSALen := 16 },
    { txLen := 1, tx := [2], rawSA := 6, raddr := 6, rawSALen := 16 }, { txLen := 1, tx := [3], rawSA := 7, raddr := 7, rawSALen := 16 }]).1.map
    (fun d => (d.dest, d.body))) = [(5, [1]), (6, [2]), (7, [3])] := by decide

-- ownership: two slabs, a take / enqueue / serve / finish walk and an attempted double release
example : ((Sys.init 2).run [.take 0 0, .enqueue 0 0, .serveBegin 0 3, .finish 0 (.worker 3), .finish 0 (.worker 3)]).idle = [0, 1] := by
  decide

-- lease: a 4096-byte slab lease asked for 100+11 is pinned to 111
example : beginWire false (some { off := 0, len := 0, cap := 4096, fresh := false }) 100 11 =
    some { off := 0, len := 0, cap := 111, fresh := false } := by decide

-- stream: two answered queries around an ignored one
example : (serveStream {} program 4 (clientStream [qWrite, qResp, qWrite]) [true, false, true] {}).total =
    frame [0xab, 0xcd, 0x81, 0, 0x41, 0x41] ++ frame [0xab, 0xcd, 0x81, 0, 0x41, 0x41] := by decide

-- a stalled write: the first flush (write #1) times out after 3 bytes; the later replies never leave
example : (serveStreamS { tcpDrain := 20 } program 5 (clientStream [qWrite, qWrite, qWrite, qWrite]) { failAt := 1, accept := 3 }).wire =
    [0, 6, 0xab] := by decide

-- share: three followers of one flight
example : (shareAll { addr := 1, id := 500, body := 7 } [(10, false), (20, true), (30, true)] 2).map (fun m => (m.addr, m.id)) = [(2, 10), (3, 20), (4, 30)] := by
  decide

-- edns slot: cookie, then OPT without cookie, then no OPT, then another cookie
example : ednsMany {} [{ hasOpt := true, cookie := some 7 }, { hasOpt := true }, { hasOpt := false },
    { hasOpt := true, cookie := some 9, doBit := true }] = [some 7, none, none, some 9] := by decide
-- carrier: a pin of the previous request is gone after reset
example : (((({} : Carrier).tryPin 5 105).1.reset 1).pinned 5) = none ∧ ((({} : Carrier).tryPin 5 105).1.pinned 5) = some 105 := by
  decide

-- an entry admitted as "WWW" answers a client that asked "www": the reply says "www"
example : (hitReply { id := 5, question := [119, 119, 119] } { question := [87, 87, 87], answers := [1] }).question = [119, 119, 119] := by
  decide

-- sub-queries: a withheld response (id 8) is not handed to the silent sub-query that follows
example : subMany {} [(.wrote, 7), (.localFail, 8), (.silent, 9), (.wrote, 10)] = [some 7, none, none, some 10] := by decide

-- retained replies: the first reply (id 7) is still id 7 after two more requests were served
example : retainMany [] [(7, true), (8, false), (9, true)] =
    [some { addr := 0, id := 7, body := 7 }, none, some { addr := 2, id := 9, body := 9 }] := by decide

-- forwarder: a failed DoH leg, then a UDP upstream that answers: the answer leaves under id 4242
example : forwardWrite [.err, .resp 0 0 11] 4242 = { id := 4242, rcode := 0, mark := 11 } := by decide

-- failover: dead server, two SERVFAILs: the first retained failure leaves, under the client's id 77
example : failoverWrite [.err, .resp 9001 2 5, .resp 9002 2 6] { id := 77, rcode := 2, mark := 0 } true =
    { id := 77, rcode := 2, mark := 5 } := by decide
example : failoverWrite [.resp 9001 2 5, .resp 9002 0 11] { id := 77, rcode := 2, mark := 0 } true =
    { id := 77, rcode := 0, mark := 11 } := by decide
-- pool: a double put of chain 0 is refused; the two later requests hold different chains
example : (({} : ChainPool).run [.get, .put 0, .put 0, .get, .get]).held = [1, 0] := by decide

-- doq: three streams, the first handler finishes last: its reply still leaves on stream 4
example : (({} : DoqConn).run [.accept 4, .accept 8, .accept 12, .complete 2 (some [9, 9, 3]), .complete 1 none,
    .complete 0 (some [7, 7, 1])]).out = [(12, [0, 3, 0, 0, 3]), (4, [0, 3, 0, 0, 1])] := by decide

end SdnsVerif.Props.C10
