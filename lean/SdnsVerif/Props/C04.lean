import SdnsVerif.Model.Lifetime
import SdnsVerif.Lemmas.Lifetime
import SdnsVerif.Gen.C04
/-!
# C04 — nothing is served past its lifetime; composed answers inherit the shortest part

Property theorems only (helper lemmas live in `Lemmas/Lifetime.lean`).

Reading of the statement (fixed in DESIGN §5/C04): lifetime =
`min( clamp(min(record TTLs, RRSIG time to expiry, SOA minimum for negatives), 5 s, 24 h),
      ECS cap if scoped, delegation-chain lease )`; the lease is the only
component outside the floor; proofs and cuts have no floor.
-/
namespace SdnsVerif.Props.C04
open SdnsVerif.Model.Lifetime SdnsVerif.Lemmas.Lifetime

/-- the serving routes of an exact entry. -/
inductive Route
  | msg        -- `CacheEntry.ToMsg` (decoded path, `Store.GetWithContext`)
  | bytes      -- `serveWireInto` (decoded request, byte path)
  | wire       -- `serveWireIntoRequest` (wire-born request)
deriving DecidableEq

/-- the TTL a route stamps on every record, `none` = the route refuses (miss). -/
def shown : Route → Entry → Int → Option Nat
  | .msg, e, now => e.toMsgTTL now
  | .bytes, e, now => e.serveWireTTL now
  | .wire, e, now => e.serveWireRequestTTL now

theorem shown_eq (r : Route) (e : Entry) (now : Int) :
    shown r e now = if e.remaining now ≤ 0 then none else some (secs (e.remaining now)) := by
  cases r <;> rfl

/-! ## served within the lifetime -/

/-- **No route serves an entry past its lifetime.** If any serving route
returns a body at `now`, then `now` is before `stored + ttl` and before the
delegation-cut deadline (when there is one). -/
theorem served_within_lifetime (r : Route) (e : Entry) (now : Int) (t : Nat)
    (h : shown r e now = some t) :
    now < e.stored + e.ttl ∧ (e.cut = none ∨ ∃ c, e.cut = some c ∧ now < c) := by
  rw [shown_eq] at h
  split at h
  · cases h
  · have hp : 0 < e.remaining now := by omega
    obtain ⟨h1, h2⟩ := (remaining_pos_iff e now).mp hp
    refine ⟨h1, ?_⟩
    cases hc : e.cut with
    | none => left; rfl
    | some c => right; exact ⟨c, rfl, h2 c hc⟩

/-- The wire chase collects a segment only while it is live: a composed wire
reply never contains a record of an entry past its lifetime. -/
theorem chase_segments_within_lifetime (now : Int) (l : List Entry) (ts : List Nat)
    (h : collectWireChase now l = some ts) : ∀ e ∈ l, Alive e now := by
  induction l generalizing ts with
  | nil => intro e he; cases he
  | cons x t ih =>
    unfold collectWireChase at h
    simp only at h
    split at h
    · cases h
    · rename_i hx
      cases hr : collectWireChase now t with
      | none => rw [hr] at h; cases h
      | some l' =>
        intro e he
        rcases List.mem_cons.mp he with rfl | he
        · exact (remaining_pos_iff _ now).mp (by omega)
        · exact ih l' hr e he

/-- RFC 8020 cuts and RFC 8198 syntheses are served only before their expiry. -/
theorem expiry_served_before (expires now : Int) (t : Nat) (h : expiryServeTTL expires now = some t) :
    now < expires := by
  unfold expiryServeTTL at h
  simp only at h
  split at h
  · cases h
  · omega

/-! ## the TTL shown -/

/-- **The TTL shown never exceeds the time remaining** (on every route). -/
theorem shown_ttl_le_remaining (r : Route) (e : Entry) (now : Int) (t : Nat)
    (h : shown r e now = some t) :
    (t : Int) * S ≤ e.remaining now ∧ (t : Int) * S ≤ e.stored + e.ttl - now ∧
      ∀ c, e.cut = some c → (t : Int) * S ≤ c - now := by
  rw [shown_eq] at h
  split at h
  · cases h
  · simp only [Option.some.injEq] at h
    subst h
    have hp : 0 < e.remaining now := by omega
    have h1 := secs_mul_le _ hp
    refine ⟨h1, ?_, ?_⟩
    · have := remaining_le_ttl e now; omega
    · intro c hc; have := remaining_le_cut e now c hc; omega

theorem expiry_shown_le_remaining (expires now : Int) (t : Nat) (h : expiryServeTTL expires now = some t) :
    (t : Int) * S ≤ expires - now := by
  unfold expiryServeTTL at h
  simp only at h
  split at h
  · cases h
  · simp only [Option.some.injEq] at h; subst h; exact secs_mul_le _ (by omega)

/-- **The TTL shown never grows between hits on the same stored entry**,
whichever routes serve the two hits. -/
theorem shown_ttl_monotone (r1 r2 : Route) (e : Entry) (now1 now2 : Int) (t1 t2 : Nat)
    (hle : now1 ≤ now2) (h1 : shown r1 e now1 = some t1) (h2 : shown r2 e now2 = some t2) : t2 ≤ t1 := by
  rw [shown_eq] at h1 h2
  split at h1
  · cases h1
  · split at h2
    · cases h2
    · simp only [Option.some.injEq] at h1 h2
      subst h1; subst h2
      exact secs_mono _ _ (remaining_antitone e now1 now2 hle)

/-- once a hit is refused, every later hit on the same entry is refused. -/
theorem expiry_is_final (r1 r2 : Route) (e : Entry) (now1 now2 : Int) (hle : now1 ≤ now2)
    (h : shown r1 e now1 = none) : shown r2 e now2 = none := by
  rw [shown_eq] at h ⊢
  split at h
  · have := remaining_antitone e now1 now2 hle
    simp; omega
  · cases h

/-! ## admission -/

/-- the property's components of a message's lifetime: every record TTL,
every RRSIG's time to expiry, and (negative answers) every SOA minimum. -/
def specComponents (msg : Msg) (neg : Bool) (now : Int) : List Int :=
  let rrs := msg.answer ++ msg.ns ++ msg.extra.filter (fun rr => !isOpt rr)
  rrs.map getTTL
    ++ rrs.filterMap (fun rr => match rr.kind with | .rrsig e => some (e - now) | _ => none)
    ++ (if neg then msg.ns.filterMap (fun rr => match rr.kind with | .soa mn => some ((mn : Int) * S) | _ => none) else [])

def clamp (x lo hi : Int) : Int := if x < lo then lo else if x > hi then hi else x

/-- `clamp(min(components), 5 s, 24 h)`. -/
def specLifetime (msg : Msg) (neg : Bool) (now : Int) : Int :=
  clamp ((specComponents msg neg now).foldl boundMin (86400 * S)) (5 * S) (86400 * S)

theorem scan_le_spec (cfg : Cfg) (msg : Msg) (neg : Bool) (now : Int)
    (h1 : cfg.minC ≤ 5 * S) (h2 : cfg.maxC ≤ 86400 * S) :
    scanMin cfg msg now ≤ (specComponents msg neg now).foldl boundMin (86400 * S)
      ∨ scanMin cfg msg now ≤ 5 * S := by
  rcases foldl_boundMin_mem (specComponents msg neg now) (86400 * S) with h | h
  · left; rw [h]; exact Int.le_trans (scanMin_le_max cfg msg now) h2
  · generalize (specComponents msg neg now).foldl boundMin (86400 * S) = c at h ⊢
    unfold specComponents at h
    simp only [List.mem_append, List.mem_map, List.mem_filterMap, List.mem_filter] at h
    rcases h with (⟨rr, hrr, rfl⟩ | ⟨rr, hrr, hk⟩) | hsoa
    · -- a record TTL
      left
      rcases hrr with (ha | hn) | ⟨he, ho⟩
      · exact scanMin_le_answer cfg msg now rr _ ha (fun m => stepAnswer_le_ttl _ _ m rr)
      · exact scanMin_le_ns cfg msg now rr _ hn (fun m => stepNs_le_ttl _ _ m rr)
      · exact scanMin_le_extra cfg msg now rr _ he
          (fun m => stepExtra_le_ttl _ _ m rr (by simpa using ho))
    · -- an RRSIG's time to expiry
      cases hkind : rr.kind with
      | rrsig e =>
        rw [hkind] at hk
        simp only [Option.some.injEq] at hk
        subst hk
        have hsig : scanMin cfg msg now ≤ getRRSIGTTL cfg.minC rr.ttl e now := by
          rcases hrr with (ha | hn) | ⟨he, _⟩
          · exact scanMin_le_answer cfg msg now rr _ ha (fun m => stepAnswer_le_sig _ _ m rr e hkind)
          · exact scanMin_le_ns cfg msg now rr _ hn (fun m => stepNs_le_sig _ _ m rr e hkind)
          · exact scanMin_le_extra cfg msg now rr _ he (fun m => stepExtra_le_sig _ _ m rr e hkind)
        by_cases hpos : 0 < e - now
        · left; exact Int.le_trans hsig (getRRSIGTTL_le_tue _ _ _ _ hpos)
        · right; rw [getRRSIGTTL_expired _ _ _ _ (by omega)] at hsig; omega
      | plain => rw [hkind] at hk; cases hk
      | soa _ => rw [hkind] at hk; cases hk
      | opt => rw [hkind] at hk; cases hk
    · -- an SOA minimum (negative answers)
      left
      cases neg with
      | false => simp at hsoa
      | true =>
        simp only [if_true, List.mem_filterMap] at hsoa
        obtain ⟨rr, hn, hk⟩ := hsoa
        cases hkind : rr.kind with
        | soa mn =>
          rw [hkind] at hk
          simp only [Option.some.injEq] at hk
          subst hk
          exact scanMin_le_ns cfg msg now rr _ hn (fun m => stepNs_le_soa _ _ m rr mn hkind)
        | plain => rw [hkind] at hk; cases hk
        | rrsig _ => rw [hkind] at hk; cases hk
        | opt => rw [hkind] at hk; cases hk

/-- `CalculateCacheTTL` itself stays within `clamp(min(components), 5 s, 24 h)`
for every class but the resolution-failure one. -/
theorem calculate_le_spec (cfg : Cfg) (msg : Msg) (rt : RespType) (now : Int)
    (hrt : rt ≠ .servfail) (h1 : cfg.minC ≤ 5 * S) (h2 : cfg.maxC ≤ 86400 * S) :
    calculateCacheTTL cfg msg rt now ≤ specLifetime msg rt.isNegative now := by
  have hS : (0 : Int) < S := S_pos
  have hspec5 : 5 * S ≤ specLifetime msg rt.isNegative now := by
    unfold specLifetime clamp; split
    · exact Int.le_refl _
    · split <;> omega
  have hbody : (if !hasRecords msg then cfg.minC else
      if scanMin cfg msg now < cfg.minC then cfg.minC
      else if scanMin cfg msg now > cfg.maxC then cfg.maxC
      else scanMin cfg msg now) ≤ specLifetime msg rt.isNegative now := by
    split
    · omega
    · have hc := scan_le_spec cfg msg rt.isNegative now h1 h2
      have hmax := scanMin_le_max cfg msg now
      have hfold := foldl_boundMin_le_init (specComponents msg rt.isNegative now) (86400 * S)
      generalize scanMin cfg msg now = m at hc hmax ⊢
      unfold specLifetime clamp at hspec5 ⊢
      generalize (specComponents msg rt.isNegative now).foldl boundMin (86400 * S) = c at hc hfold hspec5 ⊢
      split
      · split <;> (try split) <;> omega
      · split
        · split <;> (try split) <;> omega
        · split <;> (try split) <;> omega
  cases rt with
  | servfail => exact absurd rfl hrt
  | other => unfold calculateCacheTTL; simp only; omega
  | success => unfold calculateCacheTTL; simpa using hbody
  | nxdomain => unfold calculateCacheTTL; simpa using hbody
  | norecords => unfold calculateCacheTTL; simpa using hbody

/-- **Admission upper bound.** For every message, response class that is
stored as an answer entry, instant, and scope, the TTL the store gives the
entry is at most `clamp(min(record TTLs, RRSIG times to expiry, SOA minimum
for negatives), 5 s, 24 h)`, and at most the ECS cap when the entry is scoped
— provided the tree's constants are not larger than 5 s / 24 h (the
one-directional side conditions, discharged for the regenerated constants in
`admission_upper_bound_tree`). -/
theorem admission_upper_bound (cfg : Cfg) (msg : Msg) (rt : RespType) (now : Int) (sc : Bool)
    (hrt : rt ≠ .servfail)
    (h1 : cfg.minC ≤ 5 * S) (h2 : cfg.maxC ≤ 86400 * S) (h3 : cfg.posMin ≤ 5 * S) :
    admitTTL cfg msg rt now sc ≤ specLifetime msg rt.isNegative now ∧
      (sc = true → 0 < cfg.ecsMax → admitTTL cfg msg rt now sc ≤ cfg.ecsMax) := by
  have hS : (0 : Int) < S := S_pos
  constructor
  · unfold admitTTL
    refine Int.le_trans (capTTL_le _ _ _) ?_
    have hspec5 : 5 * S ≤ specLifetime msg rt.isNegative now := by
      unfold specLifetime clamp; split
      · exact Int.le_refl _
      · split <;> omega
    have hcalc := calculate_le_spec cfg msg rt now hrt h1 h2
    rcases ttlManager_le cfg.posMin cfg.posMax (calculateCacheTTL cfg msg rt now) with h | h
    · exact Int.le_trans h hcalc
    · rw [h]; omega
  · intro hsc hpos
    unfold admitTTL
    rw [hsc]
    exact capTTL_le_cap _ _ hpos

/-- the constants of the compiled tree. -/
def treeCfg (ecsMax : Int) : Cfg :=
  { minC := SdnsVerif.Gen.C04.minCacheTTL_ns, maxC := SdnsVerif.Gen.C04.maxCacheTTL_ns,
    posMin := SdnsVerif.Gen.C04.positive_min_ns, posMax := SdnsVerif.Gen.C04.positive_max_ns,
    ecsMax := ecsMax }

/-- **The tree's floor and cap are inside the property's bounds** (regenerated
facts; one-directional: lowering a floor or a cap cannot fail this): the 5 s
floor and the 24 h cap of `dnsutil`, of the cache package and of the TTL
manager `cache.New` builds. -/
theorem tree_floor_and_cap_within_bounds :
    SdnsVerif.Gen.C04.minCacheTTL_ns ≤ 5000000000 ∧
    SdnsVerif.Gen.C04.maxCacheTTL_ns ≤ 86400000000000 ∧
    SdnsVerif.Gen.C04.pkg_minTTL_ns ≤ 5000000000 ∧
    SdnsVerif.Gen.C04.pkg_maxTTL_ns ≤ 86400000000000 ∧
    SdnsVerif.Gen.C04.positive_min_ns ≤ 5000000000 ∧
    SdnsVerif.Gen.C04.positive_max_ns ≤ 86400000000000 := by
  decide

/-- **RRSIG windows bound the compiled `getRRSIGTTL`**: an already expired
signature contributes at most the floor — also when its window is inverted
(Inception numerically after Expiration) —, one expiring in 7 s at most 7 s. -/
theorem tree_rrsig_facts :
    SdnsVerif.Gen.C04.rrsig_expired_ttl_ns ≤ 5000000000 ∧
    SdnsVerif.Gen.C04.rrsig_expired_inverted_ttl_ns ≤ 5000000000 ∧
    SdnsVerif.Gen.C04.rrsig_short_ttl_ns ≤ 7000000000 := by
  decide

/-- **Negative answers are bounded by the RRSIG window and the SOA minimum
in the compiled `CalculateCacheTTL`** (a 40 s signature on an NXDOMAIN whose
SOA says 300 s; a 60 s SOA minimum under a 3600 s SOA TTL — also when the
message is an alias answer classified as a success, /repo 8b1500e). -/
theorem tree_negative_facts :
    SdnsVerif.Gen.C04.neg_sig40_soa300_s ≤ 40 ∧
    SdnsVerif.Gen.C04.nodata_soamin60_s ≤ 60 ∧
    SdnsVerif.Gen.C04.alias_soamin60_s ≤ 60 := by
  decide

/-- **The ceilings of the proof and cut indexes stay within 24 h** — also when
the operator configures `expire` (the negative-cache expiry) above 24 h (the
`_big` facts are read from a cache built with `expire` = one week). -/
theorem tree_index_ceilings :
    SdnsVerif.Gen.C04.max_denial_proof_ns ≤ 86400000000000 ∧
    SdnsVerif.Gen.C04.hist_cut_max_ns ≤ 86400000000000 ∧
    SdnsVerif.Gen.C04.hist_cut_max_big_ns ≤ 86400000000000 ∧
    SdnsVerif.Gen.C04.hist_proof_max_big_ns ≤ 86400000000000 := by
  decide

/-- **The ECS cap survives the configuration fallback**: a cache built from a
configuration `Validate` rejects (cachesize 0) with `cache_limit_ttl` 7 s still
works with a cap, and not a larger one (0 would mean "no cap"). -/
theorem tree_ecs_cap_under_fallback :
    0 < SdnsVerif.Gen.C04.ecs_cap_under_fallback_ns ∧ SdnsVerif.Gen.C04.ecs_cap_under_fallback_ns ≤ 7000000000 := by
  decide

/-- `admission_upper_bound` for the constants of the current tree. -/
theorem admission_upper_bound_tree (ecsMax : Int) (msg : Msg) (rt : RespType) (now : Int) (sc : Bool)
    (hrt : rt ≠ .servfail) :
    admitTTL (treeCfg ecsMax) msg rt now sc ≤ specLifetime msg rt.isNegative now ∧
      (sc = true → 0 < ecsMax → admitTTL (treeCfg ecsMax) msg rt now sc ≤ ecsMax) :=
  admission_upper_bound (treeCfg ecsMax) msg rt now sc hrt
    (by show ((SdnsVerif.Gen.C04.minCacheTTL_ns : Nat) : Int) ≤ 5 * S; decide)
    (by show ((SdnsVerif.Gen.C04.maxCacheTTL_ns : Nat) : Int) ≤ 86400 * S; decide)
    (by show ((SdnsVerif.Gen.C04.positive_min_ns : Nat) : Int) ≤ 5 * S; decide)

/-- a late refresh (`ReplaceIfCurrent`) computes its TTL under the same bound. -/
theorem replace_upper_bound (cfg : Cfg) (msg : Msg) (rt : RespType) (now : Int)
    (hrt : rt ≠ .servfail)
    (h1 : cfg.minC ≤ 5 * S) (h2 : cfg.maxC ≤ 86400 * S) (h3 : cfg.posMin ≤ 5 * S) :
    replaceTTL cfg msg rt now ≤ specLifetime msg rt.isNegative now := by
  have := (admission_upper_bound cfg msg rt now false hrt h1 h2 h3).1
  unfold admitTTL capTTL at this
  simpa [replaceTTL] using this

/-- **An SOA in the authority section bounds the entry by its MINIMUM
whatever the response class** (/repo 8b1500e): an alias answer merged with its
target's NODATA / NXDOMAIN proof is stored as a success, and still may not
keep the denial past the negative TTL (floored at 5 s like every admission). -/
theorem admission_bounded_by_soa_minimum (cfg : Cfg) (msg : Msg) (rt : RespType) (now : Int) (sc : Bool)
    (rr : RR) (mn : Nat) (hrr : rr ∈ msg.ns) (hk : rr.kind = .soa mn) (hrt : rt ≠ .servfail)
    (h1 : cfg.minC ≤ 5 * S) (h3 : cfg.posMin ≤ 5 * S) :
    admitTTL cfg msg rt now sc ≤ (mn : Int) * S ∨ admitTTL cfg msg rt now sc ≤ 5 * S := by
  have hscan := scanMin_le_ns cfg msg now rr _ hrr (fun m => stepNs_le_soa _ _ m rr mn hk)
  have hcap := capTTL_le sc cfg.ecsMax (ttlManagerCalculate cfg.posMin cfg.posMax (calculateCacheTTL cfg msg rt now))
  have hcalc : calculateCacheTTL cfg msg rt now ≤ (mn : Int) * S ∨ calculateCacheTTL cfg msg rt now ≤ 5 * S := by
    have hbody : (if !hasRecords msg then cfg.minC else
        if scanMin cfg msg now < cfg.minC then cfg.minC
        else if scanMin cfg msg now > cfg.maxC then cfg.maxC
        else scanMin cfg msg now) ≤ (mn : Int) * S ∨
        (if !hasRecords msg then cfg.minC else
        if scanMin cfg msg now < cfg.minC then cfg.minC
        else if scanMin cfg msg now > cfg.maxC then cfg.maxC
        else scanMin cfg msg now) ≤ 5 * S := by
      generalize scanMin cfg msg now = m at hscan ⊢
      split
      · right; omega
      · split
        · right; omega
        · split
          · left; omega
          · left; omega
    cases rt with
    | servfail => exact absurd rfl hrt
    | other => right; unfold calculateCacheTTL; simp only; omega
    | success => unfold calculateCacheTTL; simpa using hbody
    | nxdomain => unfold calculateCacheTTL; simpa using hbody
    | norecords => unfold calculateCacheTTL; simpa using hbody
  unfold admitTTL
  rcases ttlManager_le cfg.posMin cfg.posMax (calculateCacheTTL cfg msg rt now) with h | h
  · rcases hcalc with hc | hc
    · left; omega
    · right; omega
  · right; rw [h] at hcap ⊢; omega

/-! ## lineage -/

/-- **The request-tree bound is the minimum of the deadlines folded into it**:
after any sequence of `BoundCutFor` folds (zero deadlines ignored) the bound
is `none` iff nothing non-zero was folded, and otherwise it is one of the
folded deadlines and no later than any of them. -/
theorem boundcut_min_fold (m : Option Int) (ds : List (Option Int)) :
    IsMinOf (boundAll m ds) (vals (m :: ds)) := boundAll_isMin ds m

/-- … and therefore independent of the order in which the resolver's
concurrent sub-queries fold their deadlines in. -/
theorem boundcut_order_independent (m : Option Int) (ds1 ds2 : List (Option Int)) (hp : ds1.Perm ds2) :
    boundAll m ds1 = boundAll m ds2 := by
  apply isMinOf_unique _ _ _ _ _ (boundAll_isMin ds1 m) (boundAll_isMin ds2 m)
  intro x
  unfold vals
  simp only [List.mem_filterMap, List.mem_cons, id]
  constructor <;> rintro ⟨a, ha, hx⟩ <;> refine ⟨a, ?_, hx⟩
  · rcases ha with h | h
    · exact Or.inl h
    · exact Or.inr (hp.mem_iff.mp h)
  · rcases ha with h | h
    · exact Or.inl h
    · exact Or.inr (hp.mem_iff.mpr h)

/-- A fork (`ForkCut`) accumulates its own deadline: what the parent had
folded does not reach the child, and an unused sub-query leaves the parent
untouched; a used one is folded in like any other deadline. -/
theorem fork_keeps_own_deadline (parent : Option Int) (cf : List (Option Int)) (used : Bool) :
    (forkInherit parent cf used).2 = boundAll none cf ∧
    (used = false → (forkInherit parent cf used).1 = parent) ∧
    (used = true → (forkInherit parent cf used).1 = boundAll parent [boundAll none cf]) := by
  refine ⟨rfl, ?_, ?_⟩ <;> intro h <;> simp [forkInherit, h, boundAll]

/-- the entry `setFromResponseWithKey` stores for an answer that consumed
the cached pieces `pieces` under its own resolution's lease. -/
def composedEntry (lease : Option Int) (pieces : List Entry) (stored ttl : Int) : Entry :=
  { stored := stored, ttl := ttl, cut := composedCut lease pieces }

/-- **Composed answers inherit the shortest part (write side).** An entry
(re-)admitted from an answer that consumed the cached pieces `pieces` under
its own resolution's lease gets a cut that is no later than the hard expiry
(`min(stored+ttl, cut)`) of every piece and no later than the lease; so its
own hard expiry is at most the minimum over the pieces. By induction over the
list of pieces (`boundAll_isMin`). -/
theorem composed_inherits (lease : Option Int) (pieces : List Entry) (stored ttl : Int) :
    (∀ p ∈ pieces, (composedEntry lease pieces stored ttl).hardUntil ≤ p.hardUntil) ∧
      (∀ l, lease = some l → (composedEntry lease pieces stored ttl).hardUntil ≤ l) ∧
      (composedEntry lease pieces stored ttl).hardUntil ≤ stored + ttl := by
  have hmin := boundAll_isMin (pieces.map fun p => some p.hardUntil) lease
  have hcut : (composedEntry lease pieces stored ttl).cut = boundAll lease (pieces.map fun p => some p.hardUntil) := rfl
  refine ⟨?_, ?_, hardUntil_le_ttl _⟩
  · intro p hp
    have hv : p.hardUntil ∈ vals (lease :: pieces.map fun p => some p.hardUntil) := by
      unfold vals
      simp only [List.mem_filterMap, List.mem_cons, List.mem_map, id]
      exact ⟨some p.hardUntil, Or.inr ⟨p, hp, rfl⟩, rfl⟩
    cases hb : boundAll lease (pieces.map fun p => some p.hardUntil) with
    | none => rw [hb] at hmin; simp only [IsMinOf] at hmin; rw [hmin] at hv; cases hv
    | some c =>
      rw [hb] at hmin
      exact Int.le_trans (hardUntil_le_cut _ c (hcut.trans hb)) (hmin.2 _ hv)
  · intro l hl
    have hv : l ∈ vals (lease :: pieces.map fun p => some p.hardUntil) := by
      unfold vals; subst hl; simp
    cases hb : boundAll lease (pieces.map fun p => some p.hardUntil) with
    | none => rw [hb] at hmin; simp only [IsMinOf] at hmin; rw [hmin] at hv; cases hv
    | some c =>
      rw [hb] at hmin
      exact Int.le_trans (hardUntil_le_cut _ c (hcut.trans hb)) (hmin.2 _ hv)

/-- … hence the composed entry is never served at or after the hard expiry
of any of its pieces, on any route. -/
theorem composed_not_served_past_piece (lease : Option Int) (pieces : List Entry) (stored ttl : Int)
    (r : Route) (now : Int) (t : Nat) (p : Entry) (hp : p ∈ pieces)
    (h : shown r (composedEntry lease pieces stored ttl) now = some t) :
    now < p.hardUntil ∧ (t : Int) * S ≤ p.hardUntil - now := by
  have hle := (composed_inherits lease pieces stored ttl).1 p hp
  have hs := (shown_ttl_le_remaining r _ now t h).1
  have hrem := remaining_le_hardUntil (composedEntry lease pieces stored ttl) now
  rw [shown_eq] at h
  split at h
  · cases h
  · constructor <;> omega

/-- element-wise relation between the pieces of a chase and the TTLs of the reply. -/
inductive Zip {α β : Type} (R : α → β → Prop) : List α → List β → Prop
  | nil : Zip R [] []
  | cons {a b l1 l2} : R a b → Zip R l1 l2 → Zip R (a :: l1) (b :: l2)

/-- **Whatever a hit hands out binds the request tree to its own lifetime**
(`boundRequestToEntryLifetime` on every hit route and in `Store.GetWithContext`,
`boundRequestTo` for cuts and syntheses): after the fold the tree's bound
exists and is no later than the entry's TTL expiry, its lease, and whatever
bound the tree already had. -/
theorem hit_binds_request_tree (m : Option Int) (e : Entry) :
    ∃ c, boundCut m (some e.hardUntil) = some c ∧ c ≤ e.stored + e.ttl ∧
      (∀ l, e.cut = some l → c ≤ l) ∧ (∀ b, m = some b → c ≤ b) := by
  have h1 := hardUntil_le_ttl e
  cases m with
  | none =>
    refine ⟨e.hardUntil, rfl, h1, fun l hl => hardUntil_le_cut e l hl, ?_⟩
    intro b hb; cases hb
  | some b =>
    unfold boundCut
    simp only
    split
    · refine ⟨e.hardUntil, rfl, h1, fun l hl => hardUntil_le_cut e l hl, ?_⟩
      intro b' hb'; simp only [Option.some.injEq] at hb'; omega
    · refine ⟨b, rfl, by omega, ?_, ?_⟩
      · intro l hl; have := hardUntil_le_cut e l hl; omega
      · intro b' hb'; simp only [Option.some.injEq] at hb'; omega

example : boundCut (some (100 * S)) (some (({ stored := 0, ttl := 300 * S, cut := some (20 * S) } : Entry).hardUntil)) = some (20 * S) := by
  decide

/-- **Composed answers inherit the shortest part (read side, wire chase).**
Every record of a composed wire reply carries a TTL within the remaining
lifetime of its own segment, so the smallest TTL of the reply is within the
remaining lifetime of every piece. -/
theorem wire_chase_ttls (now : Int) (l : List Entry) (ts : List Nat) (h : collectWireChase now l = some ts) :
    Zip (fun (e : Entry) (t : Nat) => (t : Int) * S ≤ e.remaining now) l ts := by
  induction l generalizing ts with
  | nil => unfold collectWireChase at h; simp only [Option.some.injEq] at h; subst h; exact Zip.nil
  | cons x t ih =>
    unfold collectWireChase at h
    simp only at h
    split at h
    · cases h
    · cases hr : collectWireChase now t with
      | none => rw [hr] at h; cases h
      | some l' =>
        rw [hr] at h
        simp only [Option.some.injEq] at h
        subst h
        exact Zip.cons (secs_mul_le _ (by omega)) (ih l' hr)

theorem wire_chase_min_le_every_piece (now : Int) (l : List Entry) (ts : List Nat)
    (h : collectWireChase now l = some ts) (m : Nat) (hm : ∀ t ∈ ts, m ≤ t) :
    ∀ p ∈ l, (m : Int) * S ≤ p.remaining now := by
  have hf := wire_chase_ttls now l ts h
  clear h
  induction hf with
  | nil => intro p hp; cases hp
  | @cons a b l1 l2 hab _ ih =>
    intro p hp
    rcases List.mem_cons.mp hp with rfl | hp
    · have : m ≤ b := hm b List.mem_cons_self
      have : (m : Int) * S ≤ (b : Int) * S := Int.mul_le_mul_of_nonneg_right (by omega) (Int.le_of_lt S_pos)
      omega
    · exact ih (fun t ht => hm t (List.mem_cons_of_mem _ ht)) p hp

/-- the decoded chase: the records of the i-th hop carry a TTL within that
hop's remaining lifetime, and the chain stops at the first dead hop. -/
theorem msg_chase_ttls (now : Int) (l : List Entry) :
    Zip (fun (e : Entry) (t : Nat) => 0 < e.remaining now ∧ (t : Int) * S ≤ e.remaining now)
      (l.take (msgChase now l).length) (msgChase now l) := by
  induction l with
  | nil => exact Zip.nil
  | cons x t ih =>
    unfold msgChase
    cases hx : x.toMsgTTL now with
    | none => exact Zip.nil
    | some s =>
      simp only [List.length_cons, List.take_succ_cons]
      have hs : 0 < x.remaining now ∧ (s : Int) * S ≤ x.remaining now := by
        unfold Entry.toMsgTTL at hx
        simp only at hx
        split at hx
        · cases hx
        · simp only [Option.some.injEq] at hx
          subst hx
          exact ⟨by omega, secs_mul_le _ (by omega)⟩
      exact Zip.cons hs ih

/-! ## cuts and proofs have no floor -/

/-- **An RFC 8020 cut never outlives a component of its proof**: its lifetime
is at most the configured ceiling, the SOA TTL and minimum, every proof
record's TTL, every signature's original TTL and time to expiry, and the
lease — no floor lifts it. -/
theorem cut_unfloored (maxTTL now : Int) (soaTtl soaMin : Nat) (recs : List ProofRR)
    (cut : Option Int) (ttl : Int) (h : cutRecordTTL maxTTL now soaTtl soaMin recs cut = some ttl) :
    0 < ttl ∧ ttl ≤ maxTTL ∧ ttl ≤ (soaTtl : Int) * S ∧ ttl ≤ (soaMin : Int) * S ∧
      (∀ b ∈ allProofBounds now recs, ttl ≤ b) ∧ (∀ c, cut = some c → ttl ≤ c - now) := by
  have a1 := boundMin_le_left (boundMin maxTTL ((soaTtl : Int) * S)) ((soaMin : Int) * S)
  have a2 := boundMin_le_right (boundMin maxTTL ((soaTtl : Int) * S)) ((soaMin : Int) * S)
  have a3 := boundMin_le_left maxTTL ((soaTtl : Int) * S)
  have a4 := boundMin_le_right maxTTL ((soaTtl : Int) * S)
  have f1 := foldl_boundMin_le_init (allProofBounds now recs)
    (boundMin (boundMin maxTTL ((soaTtl : Int) * S)) ((soaMin : Int) * S))
  have f2 := fun b hb => foldl_boundMin_le_mem (allProofBounds now recs)
    (boundMin (boundMin maxTTL ((soaTtl : Int) * S)) ((soaMin : Int) * S)) b hb
  cases cut with
  | none =>
    unfold cutRecordTTL at h
    simp only at h
    generalize (allProofBounds now recs).foldl boundMin
      (boundMin (boundMin maxTTL ((soaTtl : Int) * S)) ((soaMin : Int) * S)) = t at h f1 f2
    split at h
    · cases h
    · simp only [Option.some.injEq] at h
      subst h
      refine ⟨by omega, by omega, by omega, by omega, f2, ?_⟩
      intro c hc; cases hc
  | some c =>
    unfold cutRecordTTL at h
    simp only at h
    generalize (allProofBounds now recs).foldl boundMin
      (boundMin (boundMin maxTTL ((soaTtl : Int) * S)) ((soaMin : Int) * S)) = t at h f1 f2
    have b1 := boundMin_le_left t (c - now)
    have b2 := boundMin_le_right t (c - now)
    split at h
    · cases h
    · simp only [Option.some.injEq] at h
      subst h
      refine ⟨by omega, by omega, by omega, by omega, ?_, ?_⟩
      · intro b hb; have := f2 b hb; omega
      · intro c' hc'; simp only [Option.some.injEq] at hc'; subst hc'; omega

/-- **An RFC 8198 proof RRset never outlives a component either.** -/
theorem proof_unfloored (hardMax now maxTTL : Int) (cut : Option Int) (recs : List ProofRR) (exp : Int)
    (h : denialProofExpiry hardMax now maxTTL cut recs = some exp) :
    now < exp ∧ exp - now ≤ hardMax ∧ (∀ b ∈ allProofBounds now recs, exp - now ≤ b) ∧
      (∀ c, cut = some c → exp ≤ c) := by
  have hm : (if maxTTL ≤ 0 ∨ maxTTL > hardMax then hardMax else maxTTL) ≤ hardMax := by split <;> omega
  cases cut with
  | none =>
    unfold denialProofExpiry at h
    simp only at h
    generalize (if maxTTL ≤ 0 ∨ maxTTL > hardMax then hardMax else maxTTL) = mx at h hm
    have f1 := foldl_boundMin_le_init (allProofBounds now recs) mx
    have f2 := fun b hb => foldl_boundMin_le_mem (allProofBounds now recs) mx b hb
    generalize (allProofBounds now recs).foldl boundMin mx = t at h f1 f2
    split at h
    · cases h
    · simp only [Option.some.injEq] at h
      subst h
      refine ⟨by omega, by omega, ?_, ?_⟩
      · intro b hb; have := f2 b hb; omega
      · intro c hc; cases hc
  | some c =>
    unfold denialProofExpiry at h
    simp only at h
    generalize (if maxTTL ≤ 0 ∨ maxTTL > hardMax then hardMax else maxTTL) = mx at h hm
    have b1 := boundMin_le_left mx (c - now)
    have b2 := boundMin_le_right mx (c - now)
    have f1 := foldl_boundMin_le_init (allProofBounds now recs) (boundMin mx (c - now))
    have f2 := fun b hb => foldl_boundMin_le_mem (allProofBounds now recs) (boundMin mx (c - now)) b hb
    generalize (allProofBounds now recs).foldl boundMin (boundMin mx (c - now)) = t at h f1 f2
    split at h
    · cases h
    · simp only [Option.some.injEq] at h
      subst h
      refine ⟨by omega, by omega, ?_, ?_⟩
      · intro b hb; have := f2 b hb; omega
      · intro c' hc'; simp only [Option.some.injEq] at hc'; subst hc'; omega

/-- a synthesised denial expires with the earliest of the SOA and the proof
RRsets it was built from. -/
theorem synthesised_denial_inherits (soa : Int) (proofs : List Int) :
    synthExpiry soa proofs ≤ soa ∧ ∀ p ∈ proofs, synthExpiry soa proofs ≤ p :=
  ⟨foldl_boundMin_le_init proofs soa, fun p hp => foldl_boundMin_le_mem proofs soa p hp⟩

/-- **A synthesised RFC 8198 denial inherits the shortest of its pieces —
including the SOA entry cached for the zone *now*.** Whatever sequence of
admissions produced the current SOA expiry `soa` and the selected proof
entries' expiries `proofs` (a later admission for another owner replaces only
the SOA entry, possibly with a much shorter-lived one), a synthesis is served
only while every piece is live, the expiry it reports to the request tree is
no later than any piece's, and the TTL stamped on every record (the SOA's
too) is within what every piece has left. -/
theorem synthesis_within_every_piece (soa : Int) (proofs : List Int) (now : Int) (t : Nat) (e : Int)
    (h : synthServe soa proofs now = some (t, e)) :
    now < soa ∧ (∀ p ∈ proofs, now < p) ∧ e ≤ soa ∧ (∀ p ∈ proofs, e ≤ p) ∧
      (t : Int) * S ≤ soa - now ∧ (∀ p ∈ proofs, (t : Int) * S ≤ p - now) := by
  unfold synthServe at h
  split at h
  · cases h
  · rename_i hsoa
    split at h
    · cases h
    · split at h
      · cases h
      · rename_i hany
        simp only at h
        split at h
        · cases h
        · rename_i hpos
          simp only [Option.some.injEq, Prod.mk.injEq] at h
          obtain ⟨ht, he⟩ := h
          have hs := (synthesised_denial_inherits soa proofs).1
          have hp := (synthesised_denial_inherits soa proofs).2
          have hall : ∀ p ∈ proofs, now < p := by
            intro p hp'
            have : ¬ (decide (now ≥ p) = true) := fun hc => hany (List.any_eq_true.mpr ⟨p, hp', hc⟩)
            simp only [decide_eq_true_eq] at this
            omega
          have hsec := secs_mul_le (synthExpiry soa proofs - now) (by omega)
          subst ht; subst he
          refine ⟨by omega, hall, hs, hp, by omega, ?_⟩
          intro p hp'; have := hp p hp'; omega

/-- **A synthesised NXDOMAIN inherits the shortest of its three pieces.** The
RFC 8198 NXDOMAIN rung is composed of the zone's current SOA entry, the NSEC
set that covers the name, and the NSEC set that covers the wildcard at the
closest encloser — admitted at different instants, each with its own lifetime
(TTLs, RRSIG window, lease). It is served only while all three are live, the
expiry reported to the request tree is no later than any of them, and the TTL
on every record is within what each has left. -/
theorem nxdomain_synthesis_within_three_pieces (soa cover wildcard now : Int) (t : Nat) (e : Int)
    (h : synthServe soa [cover, wildcard] now = some (t, e)) :
    (now < soa ∧ now < cover ∧ now < wildcard) ∧ (e ≤ soa ∧ e ≤ cover ∧ e ≤ wildcard) ∧
      ((t : Int) * S ≤ soa - now ∧ (t : Int) * S ≤ cover - now ∧ (t : Int) * S ≤ wildcard - now) := by
  obtain ⟨h1, h2, h3, h4, h5, h6⟩ := synthesis_within_every_piece soa [cover, wildcard] now t e h
  have mc : cover ∈ [cover, wildcard] := by simp
  have mw : wildcard ∈ [cover, wildcard] := by simp
  exact ⟨⟨h1, h2 _ mc, h2 _ mw⟩, ⟨h3, h4 _ mc, h4 _ mw⟩, ⟨h5, h6 _ mc, h6 _ mw⟩⟩

/-- Within ONE admission a proof RRset's entry never outlives the SOA entry
admitted beside it (`extract` folds the SOA RRset into every proof set's
lifetime).  This says nothing about the SOA entry a *later* admission puts in
its place — which is why `synthServe` takes the minimum over the current SOA
as well (`synthesis_within_every_piece`). -/
theorem proof_piece_expires_with_its_own_soa (hardMax now maxTTL : Int) (cut : Option Int)
    (common set : List ProofRR) (a b : Int)
    (h : proofAdmit hardMax now maxTTL cut common set = some (a, b)) : b ≤ a := by
  unfold proofAdmit at h
  cases ha : denialProofExpiry hardMax now maxTTL cut common with
  | none => rw [ha] at h; cases h
  | some a' =>
    cases hb : denialProofExpiry hardMax now maxTTL cut (common ++ set) with
    | none => rw [ha, hb] at h; cases h
    | some b' =>
      rw [ha, hb] at h
      simp only [Option.some.injEq, Prod.mk.injEq] at h
      obtain ⟨rfl, rfl⟩ := h
      have happ : allProofBounds now (common ++ set) = allProofBounds now common ++ allProofBounds now set := by
        unfold allProofBounds; exact List.flatMap_append
      have hle := foldl_boundMin_le_init (allProofBounds now set)
      unfold denialProofExpiry at ha hb
      rw [happ] at hb
      cases cut with
      | none =>
        simp only [List.foldl_append] at ha hb
        have := hle ((allProofBounds now common).foldl boundMin
          (if maxTTL ≤ 0 ∨ maxTTL > hardMax then hardMax else maxTTL))
        generalize (if maxTTL ≤ 0 ∨ maxTTL > hardMax then hardMax else maxTTL) = mx at ha hb this
        split at ha
        · cases ha
        · split at hb
          · cases hb
          · simp only [Option.some.injEq] at ha hb; omega
      | some c =>
        simp only [List.foldl_append] at ha hb
        have := hle ((allProofBounds now common).foldl boundMin
          (boundMin (if maxTTL ≤ 0 ∨ maxTTL > hardMax then hardMax else maxTTL) (c - now)))
        generalize (if maxTTL ≤ 0 ∨ maxTTL > hardMax then hardMax else maxTTL) = mx at ha hb this
        split at ha
        · cases ha
        · split at hb
          · cases hb
          · simp only [Option.some.injEq] at ha hb; omega

/-- **Every piece of an admitted proof is bounded by the delegation lease
itself** — the proof RRset's entry too, not only through the zone's SOA entry
(which a later admission replaces): both expiries are at most the lease and at
most `hardMax` after `now`. -/
theorem proof_pieces_bounded_by_lease (hardMax now maxTTL : Int) (cut : Option Int)
    (common set : List ProofRR) (a b : Int)
    (h : proofAdmit hardMax now maxTTL cut common set = some (a, b)) :
    (∀ c, cut = some c → a ≤ c ∧ b ≤ c) ∧ a - now ≤ hardMax ∧ b - now ≤ hardMax := by
  unfold proofAdmit at h
  cases ha : denialProofExpiry hardMax now maxTTL cut common with
  | none => rw [ha] at h; cases h
  | some a' =>
    cases hb : denialProofExpiry hardMax now maxTTL cut (common ++ set) with
    | none => rw [ha, hb] at h; cases h
    | some b' =>
      rw [ha, hb] at h
      simp only [Option.some.injEq, Prod.mk.injEq] at h
      obtain ⟨rfl, rfl⟩ := h
      have pa := proof_unfloored hardMax now maxTTL cut common a' ha
      have pb := proof_unfloored hardMax now maxTTL cut (common ++ set) b' hb
      exact ⟨fun c hc => ⟨pa.2.2.2 c hc, pb.2.2.2 c hc⟩, pa.2.1, pb.2.1⟩

/-- **A subtree cut lives at most 24 h under either configuration of the
tree** (`expire` = 7200 s and `expire` = one week): whatever the proof says,
the recorded lifetime is within the index ceiling, which the regenerated facts
pin below 24 h. -/
theorem cut_lifetime_capped_tree (big : Bool) (now : Int) (soaTtl soaMin : Nat) (recs : List ProofRR)
    (cut : Option Int) (ttl : Int)
    (h : cutRecordTTL (if big then (SdnsVerif.Gen.C04.hist_cut_max_big_ns : Int) else SdnsVerif.Gen.C04.hist_cut_max_ns)
          now soaTtl soaMin recs cut = some ttl) :
    ttl ≤ 86400 * S := by
  have hc := (cut_unfloored _ now soaTtl soaMin recs cut ttl h).2.1
  have hb : (if big then (SdnsVerif.Gen.C04.hist_cut_max_big_ns : Int) else SdnsVerif.Gen.C04.hist_cut_max_ns) ≤ 86400 * S := by
    cases big <;> decide
  omega

/-- both statements under the name the design uses. -/
theorem cut_and_proof_unfloored (maxTTL hardMax now : Int) (soaTtl soaMin : Nat) (recs : List ProofRR)
    (cut : Option Int) :
    (∀ ttl, cutRecordTTL maxTTL now soaTtl soaMin recs cut = some ttl →
        ∀ b ∈ ((soaTtl : Int) * S) :: ((soaMin : Int) * S) :: allProofBounds now recs, ttl ≤ b) ∧
    (∀ exp, denialProofExpiry hardMax now maxTTL cut recs = some exp →
        ∀ b ∈ allProofBounds now recs, exp - now ≤ b) := by
  constructor
  · intro ttl h b hb
    obtain ⟨_, _, h3, h4, h5, _⟩ := cut_unfloored maxTTL now soaTtl soaMin recs cut ttl h
    rcases List.mem_cons.mp hb with rfl | hb
    · exact h3
    · rcases List.mem_cons.mp hb with rfl | hb
      · exact h4
      · exact h5 b hb
  · intro exp h b hb
    exact (proof_unfloored hardMax now maxTTL cut recs exp h).2.2.1 b hb

/-- **An alias that adopts its target's denial is bound by the target's
request tree** (`additionalAnswer`, terminal-NXDOMAIN branch: `lineage.inherit()`
even when the sub-query's answer carries no record at all): after the fold the
outer bound exists and is no later than the sub-query's bound — the lease of
the chain the target was learned through, or the hard expiry of the cached
denial that answered it. -/
theorem adopted_denial_binds_alias (m : Option Int) (c : Int) :
    ∃ r, (forkInherit m [some c] true).1 = some r ∧ r ≤ c ∧ ∀ b, m = some b → r ≤ b := by
  unfold forkInherit boundAll
  simp only [List.foldl_cons, List.foldl_nil, boundCut, if_true]
  cases m with
  | none => exact ⟨c, rfl, Int.le_refl _, by intro b hb; cases hb⟩
  | some b =>
    simp only
    split
    · exact ⟨c, rfl, Int.le_refl _, by intro b' hb'; simp only [Option.some.injEq] at hb'; omega⟩
    · exact ⟨b, rfl, by omega, by intro b' hb'; simp only [Option.some.injEq] at hb'; omega⟩

example : (forkInherit (some (600 * S)) [some (20 * S)] true).1 = some (20 * S) := by decide

/-- **An alias that adopts its target's NXDOMAIN lives no longer than that
denial** (/repo 94ad58d): the terminal-NXDOMAIN branch also folds
`now + CalculateCacheTTL(sub-answer, NXDOMAIN)` into the request tree, so the
alias entry stored afterwards has hard expiry at most
`now + clamp(min(the denial's record TTLs, RRSIG windows, SOA minima), 5 s, 24 h)`
— 5 s (at most) for a denial that carries no record at all. -/
theorem adopted_denial_bounds_alias_lifetime (cfg : Cfg) (m : Option Int) (denial : Msg) (now stored ttl : Int)
    (h1 : cfg.minC ≤ 5 * S) (h2 : cfg.maxC ≤ 86400 * S) :
    let cut := boundCut m (some (adoptedDenialBound cfg denial now))
    let alias : Entry := { stored := stored, ttl := ttl, cut := cut }
    alias.hardUntil ≤ now + specLifetime denial true now ∧
      (hasRecords denial = false → alias.hardUntil ≤ now + 5 * S) := by
  intro cut alias
  have hcalc := calculate_le_spec cfg denial .nxdomain now (by decide) h1 h2
  -- the fold leaves a bound no later than the denial's
  have hcut : ∃ c, alias.cut = some c ∧ c ≤ adoptedDenialBound cfg denial now := by
    show ∃ c, boundCut m (some (adoptedDenialBound cfg denial now)) = some c ∧ _
    cases m with
    | none => exact ⟨_, rfl, Int.le_refl _⟩
    | some b =>
      unfold boundCut; simp only
      split
      · exact ⟨_, rfl, Int.le_refl _⟩
      · exact ⟨b, rfl, by omega⟩
  obtain ⟨c, hc, hle⟩ := hcut
  have hh := hardUntil_le_cut alias c hc
  unfold adoptedDenialBound at hle
  constructor
  · have : RespType.isNegative .nxdomain = true := rfl
    rw [this] at hcalc
    omega
  · intro hno
    have : calculateCacheTTL cfg denial .nxdomain now = cfg.minC := by
      unfold calculateCacheTTL; simp [hno]
    omega

/-- **An alias that adopts the NXDOMAIN of a subtree cut ends with the cut —
no floor.** The cut hit binds the sub-query's tree to the cut's exact expiry
(`boundRequestTo(ctx, entry.expires)`); the alias inherits that bound, and the
denial-lifetime bound folded in afterwards (which is floored at 5 s) can only
shorten it: the alias entry's hard expiry is at most the cut's expiry even when
the cut has less than 5 s left. -/
theorem alias_of_cut_ends_with_cut (cfg : Cfg) (m : Option Int) (cutExpires : Int) (denial : Msg)
    (now stored ttl : Int) :
    let inherited := (forkInherit m [boundCut none (some cutExpires)] true).1
    let alias : Entry := { stored := stored, ttl := ttl,
                           cut := boundCut inherited (some (adoptedDenialBound cfg denial now)) }
    alias.hardUntil ≤ cutExpires := by
  intro inherited alias
  obtain ⟨r, hr, hle, _⟩ := adopted_denial_binds_alias m cutExpires
  have hi : inherited = some r := by
    show (forkInherit m [boundCut none (some cutExpires)] true).1 = some r
    simpa [boundCut] using hr
  have hc : ∃ c, alias.cut = some c ∧ c ≤ r := by
    show ∃ c, boundCut inherited (some (adoptedDenialBound cfg denial now)) = some c ∧ c ≤ r
    rw [hi]
    unfold boundCut; simp only
    split
    · exact ⟨_, rfl, by omega⟩
    · exact ⟨r, rfl, Int.le_refl _⟩
  obtain ⟨c, hcut, hcr⟩ := hc
  have := hardUntil_le_cut alias c hcut
  omega

/-- … and the cut that `WriteMsg` records again from such a reply (the proof
with the TTL `t` it was shown with) expires no later than the cut it came from. -/
theorem rerecorded_cut_within_source (maxTTL now expires : Int) (t soaMin : Nat) (recs : List ProofRR)
    (cut : Option Int) (ttl : Int)
    (hs : expiryServeTTL expires now = some t)
    (hr : cutRecordTTL maxTTL now t soaMin recs cut = some ttl) :
    now + ttl ≤ expires := by
  have h1 := (cut_unfloored maxTTL now t soaMin recs cut ttl hr).2.2.1
  have h2 := expiry_shown_le_remaining expires now t hs
  omega

/-- **One refresh per entry**: an entry whose refresh has been claimed does
not claim another until the claim is released (`CacheEntry.prefetch`), and a
claim is made only inside the prefetch window — at most `threshold` percent of
the original TTL left. -/
theorem prefetch_claim_rules (e : Entry) (threshold : Nat) (now : Int) :
    e.shouldPrefetch threshold true now = false ∧ e.shouldPrefetch 0 false now = false ∧
    (e.shouldPrefetch threshold false now = true →
        threshold ≠ 0 ∧ e.ttlSeconds now ≤ threshold * secs e.ttl / 100) := by
  refine ⟨by unfold Entry.shouldPrefetch; simp, by unfold Entry.shouldPrefetch; simp, ?_⟩
  intro h
  unfold Entry.shouldPrefetch at h
  by_cases ht : threshold = 0
  · simp [ht] at h
  · simp only [ht, decide_false, Bool.or_false, Bool.false_eq_true, if_false, decide_eq_true_eq] at h
    exact ⟨ht, h⟩

example : ({ stored := 0, ttl := 20 * S } : Entry).shouldPrefetch 50 false (11 * S) = true := by decide
example : ({ stored := 0, ttl := 20 * S } : Entry).shouldPrefetch 50 false (5 * S) = false := by decide

/-! ## DNS64 -/

theorem negativeAAAATTL_le (hdr mn : Nat) :
    ∃ n, negativeAAAATTL (some (hdr, mn)) = some n ∧ n ≤ hdr ∧ n ≤ mn := by
  unfold negativeAAAATTL
  simp only [Option.map_some]
  split
  · exact ⟨mn, rfl, by omega, Nat.le_refl _⟩
  · exact ⟨hdr, rfl, Nat.le_refl _, by omega⟩

theorem dns64TTL_le_init (c : Nat) (neg : Option Nat) (l : List Nat) : dns64TTL c neg l ≤ neg.getD c := by
  unfold dns64TTL
  generalize neg.getD c = t
  induction l generalizing t with
  | nil => exact Nat.le_refl _
  | cons a r ih =>
    simp only [List.foldl_cons]
    refine Nat.le_trans (ih _) ?_
    split <;> omega

theorem dns64TTL_le_mem (c : Nat) (neg : Option Nat) (l : List Nat) (a : Nat) (h : a ∈ l) : dns64TTL c neg l ≤ a := by
  unfold dns64TTL
  generalize neg.getD c = t
  induction l generalizing t with
  | nil => cases h
  | cons x r ih =>
    simp only [List.foldl_cons]
    rcases List.mem_cons.mp h with rfl | h
    · have := dns64TTL_le_init 0 (some (if a < t then a else t)) r
      unfold dns64TTL at this
      simp only [Option.getD_some] at this
      refine Nat.le_trans this ?_
      split <;> omega
    · exact ih h _

/-- **A synthetic AAAA inherits the shortest of its pieces (RFC 6147 §5.1.7).**
Its TTL is at most every A record's TTL, and — when the AAAA answer it
replaces carries an SOA — at most that SOA's header TTL *and* its MINIMUM;
without an SOA at most the 600 s ceiling.  The chain of the A answer is capped
at the same value. -/
theorem dns64_ttl_le_every_piece (c : Nat) (soa : Option (Nat × Nat)) (aTTLs : List Nat) :
    (∀ a ∈ aTTLs, dns64TTL c (negativeAAAATTL soa) aTTLs ≤ a) ∧
    (∀ hdr mn, soa = some (hdr, mn) →
        dns64TTL c (negativeAAAATTL soa) aTTLs ≤ hdr ∧ dns64TTL c (negativeAAAATTL soa) aTTLs ≤ mn) ∧
    (soa = none → dns64TTL c (negativeAAAATTL soa) aTTLs ≤ c) ∧
    (∀ x, dns64ChainTTL (dns64TTL c (negativeAAAATTL soa) aTTLs) x ≤ dns64TTL c (negativeAAAATTL soa) aTTLs ∧
          dns64ChainTTL (dns64TTL c (negativeAAAATTL soa) aTTLs) x ≤ x) := by
  refine ⟨fun a ha => dns64TTL_le_mem _ _ _ a ha, ?_, ?_, ?_⟩
  · intro hdr mn hs
    subst hs
    obtain ⟨n, hn, h1, h2⟩ := negativeAAAATTL_le hdr mn
    have := dns64TTL_le_init c (negativeAAAATTL (some (hdr, mn))) aTTLs
    rw [hn] at this ⊢
    simp only [Option.getD_some] at this
    omega
  · intro hs; subst hs
    have := dns64TTL_le_init c (negativeAAAATTL none) aTTLs
    simpa [negativeAAAATTL] using this
  · intro x; unfold dns64ChainTTL; split <;> omega

/-- … in particular, composed from entries of differing ages: when the AAAA
NODATA is served from the cache (its SOA's header TTL is the TTL shown for
entry `e6` on some route) and so is the A RRset (entry `e4`), the synthetic
AAAA's TTL is within the remaining lifetime of BOTH entries. -/
theorem dns64_within_cached_pieces (r6 r4 : Route) (e6 e4 : Entry) (now : Int) (hdr a mn c : Nat)
    (h6 : shown r6 e6 now = some hdr) (h4 : shown r4 e4 now = some a) :
    ((dns64TTL c (negativeAAAATTL (some (hdr, mn))) [a] : Nat) : Int) * S ≤ e6.remaining now ∧
    ((dns64TTL c (negativeAAAATTL (some (hdr, mn))) [a] : Nat) : Int) * S ≤ e4.remaining now := by
  obtain ⟨ha, hs, _, _⟩ := dns64_ttl_le_every_piece c (some (hdr, mn)) [a]
  have h1 := (hs hdr mn rfl).1
  have h2 := ha a (by simp)
  have g6 := (shown_ttl_le_remaining r6 e6 now hdr h6).1
  have g4 := (shown_ttl_le_remaining r4 e4 now a h4).1
  have hS := S_pos
  generalize dns64TTL c (negativeAAAATTL (some (hdr, mn))) [a] = t at h1 h2 ⊢
  have m1 : (t : Int) * S ≤ (hdr : Int) * S := Int.mul_le_mul_of_nonneg_right (by omega) (Int.le_of_lt hS)
  have m2 : (t : Int) * S ≤ (a : Int) * S := Int.mul_le_mul_of_nonneg_right (by omega) (Int.le_of_lt hS)
  constructor <;> omega

/-- the 600 s ceiling of the compiled dns64 package (one-directional). -/
theorem tree_dns64_ceiling : SdnsVerif.Gen.C04.dns64_no_soa_ceiling_s ≤ 600 := by decide

/-- **A re-recorded synthesis inherits from what it was synthesised from.**
`ResponseWriter.WriteMsg` stores the proof of a synthesised denial again with
the TTL `t` the synthesis showed; whatever else the records say, both new
entries expire no later than the synthesis did — hence no later than the SOA
entry and every proof entry it was built from. -/
theorem rerecorded_proof_within_source (soa : Int) (proofs : List Int) (now : Int) (t : Nat) (e : Int)
    (hardMax maxTTL : Int) (cut : Option Int) (common set : List ProofRR) (a b : Int)
    (hs : synthServe soa proofs now = some (t, e))
    (hr : proofAdmit hardMax now maxTTL cut common set = some (a, b))
    (hc : ∃ p ∈ common, p.rr.ttl = t) :
    b ≤ a ∧ a ≤ e ∧ a ≤ soa ∧ ∀ p ∈ proofs, a ≤ p := by
  have hba := proof_piece_expires_with_its_own_soa hardMax now maxTTL cut common set a b hr
  have hsyn := synthesis_within_every_piece soa proofs now t e hs
  -- the synthesis reports e with t = whole seconds of e - now
  have hte : (t : Int) * S ≤ e - now := by
    unfold synthServe at hs
    split at hs
    · cases hs
    · split at hs
      · cases hs
      · split at hs
        · cases hs
        · simp only at hs
          split at hs
          · cases hs
          · simp only [Option.some.injEq, Prod.mk.injEq] at hs
            obtain ⟨h1, h2⟩ := hs
            subst h1; subst h2
            exact secs_mul_le _ (by omega)
  unfold proofAdmit at hr
  cases ha : denialProofExpiry hardMax now maxTTL cut common with
  | none => rw [ha] at hr; cases hr
  | some a' =>
    cases hb : denialProofExpiry hardMax now maxTTL cut (common ++ set) with
    | none => rw [ha, hb] at hr; cases hr
    | some b' =>
      rw [ha, hb] at hr
      simp only [Option.some.injEq, Prod.mk.injEq] at hr
      obtain ⟨rfl, rfl⟩ := hr
      obtain ⟨p, hp, hpt⟩ := hc
      have hbound := (proof_unfloored hardMax now maxTTL cut common a' ha).2.2.1 (getTTL p.rr) (by
        unfold allProofBounds
        refine List.mem_flatMap.mpr ⟨p, hp, ?_⟩
        unfold proofBounds
        cases p.rr.kind <;> simp)
      have : getTTL p.rr = (t : Int) * S := by unfold getTTL; rw [hpt]
      refine ⟨hba, by omega, by have := hsyn.2.2.1; omega, ?_⟩
      intro q hq; have := hsyn.2.2.2.1 q hq; omega

/-! ## the late write -/

/-- **A background refresh that completes after newer data was stored for the
key never overwrites it** — over ALL interleavings: for every history `pre`,
every prefetcher `p` capturing after it, and every sequence `mid` of client
Sets, evictions and steps of other prefetchers (captures and CASes, successful
or not) in which the stored value changed at least once, `p`'s
`ReplaceIfCurrent` fails and leaves exactly the value the other steps left. -/
theorem late_write_never_overwrites (pre mid1 mid2 : List CasOp) (p : Nat) (chg : CasOp)
    (hmid : ∀ q, CasOp.capture q ∈ mid1 ++ chg :: mid2 → q ≠ p)
    (hchg : Changes (casRun (casRun {} (pre ++ [CasOp.capture p])) mid1) chg) :
    let s := casRun {} (pre ++ [CasOp.capture p] ++ mid1 ++ chg :: mid2)
    (casStep s (.cas p)).2 = false ∧ (casStep s (.cas p)).1.cur = s.cur := by
  intro s
  -- the state is reachable, so ids are fresh
  have hs : s = casRun (casStep (casRun (casRun {} (pre ++ [CasOp.capture p])) mid1) chg).1 mid2 := by
    simp [s, casRun, List.foldl_append]
  have inv1 : CasInv (casRun (casRun {} (pre ++ [CasOp.capture p])) mid1) :=
    casInv_run _ _ (casInv_run _ _ casInv_init)
  -- the changing step makes p's claim stale …
  have st1 : Stale p (casStep (casRun (casRun {} (pre ++ [CasOp.capture p])) mid1) chg).1 :=
    stale_of_change p _ chg inv1 (fun q hq => hmid q (by simp [hq])) hchg
  -- … and it stays stale through the rest
  have st2 : ∀ (ops : List CasOp) (s0 : CasState), CasInv s0 → Stale p s0 →
      (∀ q, CasOp.capture q ∈ ops → q ≠ p) → Stale p (casRun s0 ops) := by
    intro ops
    induction ops with
    | nil => intro s0 _ h _; exact h
    | cons op t ih =>
      intro s0 hinv hst hcap
      exact ih _ (casInv_step s0 op hinv)
        (stale_preserved p s0 op hinv (fun q hq => hcap q (by simp [hq])) hst)
        (fun q hq => hcap q (List.mem_cons_of_mem _ hq))
  have st : Stale p s := by
    rw [hs]
    exact st2 mid2 _ (casInv_step _ chg inv1) st1
      (fun q hq => hmid q (List.mem_append_right _ (List.mem_cons_of_mem _ hq)))
  -- a stale claim fails the compare-and-swap
  unfold Stale at st
  simp only [casStep]
  cases hc : s.captured p with
  | none => simp
  | some e =>
    rw [hc] at st
    have : s.cur ≠ some e := by
      rcases st with h | h
      · cases h
      · exact fun h' => h h'.symm
    simp [this]

/-- conversely the guard is not vacuous: with no intervening change the
refresh does replace the entry it captured. -/
theorem timely_write_succeeds (pre : List CasOp) (p : Nat)
    (h : (casRun {} pre).cur ≠ none) :
    (casStep (casRun {} (pre ++ [CasOp.capture p])) (.cas p)).2 = true := by
  simp only [casRun, List.foldl_append, List.foldl_cons, List.foldl_nil] at h ⊢
  generalize List.foldl (fun st op => (casStep st op).1) ({} : CasState) pre = s at h ⊢
  cases hc : s.cur with
  | none => exact absurd hc h
  | some e => simp [casStep, hc]

/-! ## non-vacuity -/

/-- the constants the property text names (examples only; the theorems are
stated for every `Cfg` within the bounds). -/
def exCfg (ecsMax : Int) : Cfg :=
  { minC := 5 * S, maxC := 86400 * S, posMin := 5 * S, posMax := 86400 * S, ecsMax := ecsMax }

-- a lease shorter than the floor: alive 2 s after admission, dead at 3 s, shown TTL 0
example : shown .wire { stored := 0, ttl := 5 * S, cut := some (3 * S) } (2 * S + 1) = some 0 := by decide
example : shown .msg { stored := 0, ttl := 5 * S, cut := some (3 * S) } (3 * S) = none := by decide
example : (shown .bytes { stored := 0, ttl := 300 * S, cut := none } (10 * S + 1) = some 289) := by decide

-- admission: an RRSIG expiring in 40 s bounds a 300 s NXDOMAIN; an expired one gives the floor; 24 h cap
example : admitTTL (exCfg 0) { ns := [{ ttl := 300, kind := .soa 300 }, { ttl := 300, kind := .rrsig (40 * S) }] }
    .nxdomain 0 false = 40 * S := by decide
example : admitTTL (exCfg 0) { ns := [{ ttl := 3600, kind := .soa 60 }, { ttl := 3600, kind := .rrsig (-5 * S) }] }
    .norecords 0 false = 5 * S := by decide
example : admitTTL (exCfg 0) { answer := [{ ttl := 100000 }] } .success 0 false = 86400 * S := by decide
example : admitTTL (exCfg (7 * S)) { answer := [{ ttl := 300 }] } .success 0 true = 7 * S := by decide
example : specLifetime { ns := [{ ttl := 300, kind := .soa 300 }, { ttl := 300, kind := .rrsig (40 * S) }] } true 0 = 40 * S := by
  decide

-- an alias answer that carries its target's SOA (TTL 3600, minimum 60) is stored for 60 s
example : admitTTL (exCfg 0) { answer := [{ ttl := 3600 }], ns := [{ ttl := 3600, kind := .soa 60 }] } .success 0 false
    = 60 * S := by decide

-- composition: alias admitted 40 s after a 60 s target inherits its 20 s
example : (composedEntry none [{ stored := 0, ttl := 60 * S }] (40 * S) (600 * S)).hardUntil = 60 * S := by decide
example : collectWireChase (41 * S) [{ stored := 40 * S, ttl := 600 * S, cut := some (60 * S) }, { stored := 0, ttl := 60 * S }]
    = some [19, 19] := by decide

-- a cut below the floor: SOA minimum 2 s
example : cutRecordTTL (7200 * S) 0 300 2 [] none = some (2 * S) := by decide
example : denialProofExpiry (10800 * S) 0 (600 * S) (some (3 * S)) [{ rr := { ttl := 300 } }] = some (3 * S) := by decide

-- a proof admitted under a 20 s lease: both pieces end with it; a week-long proof is cut at the 24 h ceiling
example : proofAdmit (10800 * S) 0 (7200 * S) (some (20 * S)) [{ rr := { ttl := 300, kind := .soa 300 } }] [{ rr := { ttl := 300 } }]
    = some (20 * S, 20 * S) := by decide
example : cutRecordTTL (86400 * S) 0 600000 600000 [{ rr := { ttl := 600000 } }] none = some (86400 * S) := by decide

-- a cut with 2 s left: the alias that adopts its NXDOMAIN at 6 s ends at 8 s, not at 6 s + 5 s
example : ({ stored := 6 * S, ttl := 600 * S,
             cut := boundCut (forkInherit (some (606 * S)) [boundCut none (some (8 * S))] true).1
                      (some (adoptedDenialBound (exCfg 0) { ns := [{ ttl := 1, kind := .soa 300 }] } (6 * S))) } : Entry).hardUntil
    = 8 * S := by decide

-- an alias adopting a record-less NXDOMAIN at 7 s is bound to 12 s; one with an SOA (minimum 30) to 30 s
example : adoptedDenialBound (exCfg 0) {} (7 * S) = 12 * S := by decide
example : adoptedDenialBound (exCfg 0) { ns := [{ ttl := 60, kind := .soa 30 }] } 0 = 30 * S := by decide

-- synthesis: NSEC piece admitted at 0 for 300 s, the zone's SOA entry replaced at 50 s by a 30 s one;
-- at 60 s the denial is served with 19 s on every record and expires with the SOA at 80 s
example : synthServe (80 * S) [300 * S] (60 * S + 1) = some (19, 80 * S) := by decide
example : synthServe (80 * S) [300 * S] (80 * S) = none := by decide
example : proofAdmit (10800 * S) 0 (7200 * S) none [{ rr := { ttl := 30, kind := .soa 30 } }] [{ rr := { ttl := 300 } }]
    = some (30 * S, 30 * S) := by decide

-- DNS64: A cached with 250 s, the AAAA NODATA served late in its life (SOA header TTL 3, minimum 300)
example : dns64TTL noSOACeiling (negativeAAAATTL (some (3, 300))) [249, 249] = 3 := by decide
example : dns64TTL noSOACeiling (negativeAAAATTL none) [3600] = 600 := by decide
example : dns64ChainTTL 3 40 = 3 := by decide

-- NXDOMAIN from SOA (300 s), covering NSEC (admitted at 10 s, 300 s) and the apex NSEC (200 s): 189 s at 10 s, gone at 200 s
example : synthServe (300 * S) [310 * S, 200 * S] (10 * S + 1) = some (189, 200 * S) := by decide
example : synthServe (300 * S) [310 * S, 200 * S] (200 * S) = none := by decide

-- the interleaving: capture, newer Set, late CAS
example : (casStep (casRun {} [.set, .capture 0, .set]) (.cas 0)).2 = false := by decide
example : (casStep (casRun {} [.set, .capture 0]) (.cas 0)).2 = true := by decide
example : Changes (casRun (casRun {} ([CasOp.set] ++ [CasOp.capture 0])) []) CasOp.set := trivial

end SdnsVerif.Props.C04
