import SdnsVerif.Model.WirePath
import SdnsVerif.Lemmas.WirePath
import SdnsVerif.Gen.C05
/-!
# C05 — the wire fast path and the decoded path are observationally equivalent

Property theorems only (helper lemmas live in `Lemmas/WirePath.lean`).

What is proved here is the byte / decision logic both paths are made of;
the equivalence of the two WHOLE pipelines is established by differential
execution of the real server (harness/c05, `e2e` and `lad` ops), which is
testing, not proof.
-/
namespace SdnsVerif.Props.C05
open SdnsVerif.Model.WirePath SdnsVerif.Lemmas.WirePath

/-! ## 1. Strict admission (`Request.ParseWire`) refines the packet specification -/

/-- **Admission refines the specification.** Whenever `ParseWire` accepts a
packet (of octets), the packet IS the canonical uncompressed encoding of a
well-formed strict-path query `m` — plain QUERY, not a response, exactly one
question whose labels are 1..63 octets and whose name is at most 255 octets,
empty answer/authority, and at most one root OPT with extended rcode 0 whose
options are all ones the DNS library accepts, at most one cookie, nothing
after it — and the facts the strict path serves from (id, flag word,
question, OPT size/version/DO/ECS/NSID/keepalive/cookie) are exactly what a
decoder of the specification reads from `m`. -/
theorem parseWire_refines_spec (raw : Bytes) (f : Facts) (hb : ∀ x ∈ raw, x < 256)
    (h : parseWire raw = some f) :
    ∃ m : SMsg, m.WF ∧ m.encode = raw ∧ factsOf m = f := by
  unfold parseWire at h
  split at h
  · rename_i i1 i0 f1 f0 q1 q0 a1 a0 n1 n0 r1 r0 body
    have b : ∀ y, y ∈ [i1, i0, f1, f0, q1, q0, a1, a0, n1, n0, r1, r0] → y < 256 := fun y hy =>
      hb y (by have := List.mem_append_left body hy; simpa using this)
    have hbody : ∀ x ∈ body, x < 256 := fun x hx => hb x (by simp [hx])
    simp only at h
    by_cases hq : (u16 f1 f0 >>> 11) &&& 0xF ≠ 0 ∨ u16 f1 f0 &&& 0x8000 ≠ 0
    · simp [hq] at h
    · rw [if_neg hq] at h
      by_cases hcnt : u16 q1 q0 ≠ 1 ∨ u16 a1 a0 ≠ 0 ∨ u16 n1 n0 ≠ 0 ∨ u16 r1 r0 > 1
      · simp [hcnt] at h
      · rw [if_neg hcnt] at h
        have hop : (u16 f1 f0 >>> 11) % 2 ^ 4 = 0 := by
          have h1 : ¬ ((u16 f1 f0 >>> 11) &&& 0xF ≠ 0) := fun hh => hq (Or.inl hh)
          have := Nat.and_two_pow_sub_one_eq_mod (u16 f1 f0 >>> 11) 4
          simp only [Decidable.not_not] at h1
          rw [show (0xF : Nat) = 2 ^ 4 - 1 from rfl] at h1
          rw [← this]; exact h1
        have hqr : (u16 f1 f0).testBit 15 = false := by
          have h1 : ¬ (u16 f1 f0 &&& 2 ^ 15 ≠ 0) := fun hh => hq (Or.inr hh)
          rw [and_two_pow_ne_zero_iff] at h1
          simpa using h1
        have hq1 : u16 q1 q0 = 1 := by omega
        have ha0 : u16 a1 a0 = 0 := by omega
        have hn0 : u16 n1 n0 = 0 := by omega
        cases hw : walkName (body.length + 1) body with
        | none => simp [hw] at h
        | some p =>
          obtain ⟨labels, afterName⟩ := p
          simp only [hw] at h
          obtain ⟨hsplit, hlabs⟩ := walkName_spec _ _ _ _ hw hbody
          by_cases hnl : (encName labels).length > 255
          · simp [hnl] at h
          · rw [if_neg hnl] at h
            have hbafter : ∀ x ∈ afterName, x < 256 := fun x hx => hbody x (by rw [hsplit]; simp [hx])
            split at h
            · rename_i t1 t0 c1 c0 rest
              have bq : ∀ y, y ∈ [t1, t0, c1, c0] → y < 256 := fun y hy =>
                hbafter y (by have := List.mem_append_left rest hy; simpa using this)
              have hbrest : ∀ x ∈ rest, x < 256 := fun x hx => hbafter x (by simp [hx])
              have eid : be16 (u16 i1 i0) = [i1, i0] := be16_u16 i1 i0 (b _ (by simp)) (b _ (by simp))
              have efl : be16 (u16 f1 f0) = [f1, f0] := be16_u16 f1 f0 (b _ (by simp)) (b _ (by simp))
              have eqd : be16 1 = [q1, q0] := hq1 ▸ be16_u16 q1 q0 (b _ (by simp)) (b _ (by simp))
              have ean : be16 0 = [a1, a0] := ha0 ▸ be16_u16 a1 a0 (b _ (by simp)) (b _ (by simp))
              have ens : be16 0 = [n1, n0] := hn0 ▸ be16_u16 n1 n0 (b _ (by simp)) (b _ (by simp))
              have eqt : be16 (u16 t1 t0) = [t1, t0] := be16_u16 t1 t0 (bq _ (by simp)) (bq _ (by simp))
              have eqc : be16 (u16 c1 c0) = [c1, c0] := be16_u16 c1 c0 (bq _ (by simp)) (bq _ (by simp))
              by_cases har : u16 r1 r0 = 1
              · rw [if_pos har] at h
                cases hopt : parseWireOPT rest with
                | none => simp [hopt] at h
                | some o =>
                  simp only [hopt, Option.some.injEq] at h
                  obtain ⟨so, henc, hall, hck, hfacts⟩ := parseWireOPT_spec rest o hopt hbrest
                  refine ⟨{ id := u16 i1 i0, flags := u16 f1 f0, labels := labels, qtype := u16 t1 t0,
                            qclass := u16 c1 c0, opt := some so }, ?_, ?_, ?_⟩
                  · exact ⟨hop, hqr, hlabs, by simp only; omega,
                      fun o' ho' => by simp only [Option.some.injEq] at ho'; subst ho'; exact ⟨hall, hck⟩⟩
                  · have ear : be16 1 = [r1, r0] := har ▸ be16_u16 r1 r0 (b _ (by simp)) (b _ (by simp))
                    show be16 (u16 i1 i0) ++ (be16 (u16 f1 f0) ++ (be16 1 ++ (be16 0 ++ (be16 0 ++ (be16 1 ++
                      (encName labels ++ (be16 (u16 t1 t0) ++ (be16 (u16 c1 c0) ++ encOPT so)))))))) = _
                    rw [eid, efl, eqt, eqc, henc, hsplit]
                    conv => lhs; arg 2; arg 2; arg 1; rw [eqd]
                    conv => lhs; arg 2; arg 2; arg 2; arg 1; rw [ean]
                    conv => lhs; arg 2; arg 2; arg 2; arg 2; arg 1; rw [ens]
                    conv => lhs; arg 2; arg 2; arg 2; arg 2; arg 2; arg 1; rw [ear]
                    simp
                  · rw [← h]; simp [factsOf, hfacts]
              · rw [if_neg har] at h
                by_cases hrest : rest ≠ []
                · simp [hrest] at h
                · rw [if_neg hrest] at h
                  simp only [Option.some.injEq] at h
                  have hr0 : u16 r1 r0 = 0 := by omega
                  have hre : rest = [] := by simpa using hrest
                  refine ⟨{ id := u16 i1 i0, flags := u16 f1 f0, labels := labels, qtype := u16 t1 t0,
                            qclass := u16 c1 c0, opt := none }, ?_, ?_, ?_⟩
                  · exact ⟨hop, hqr, hlabs, by simp only; omega, fun o' ho' => by simp at ho'⟩
                  · have ear : be16 0 = [r1, r0] := hr0 ▸ be16_u16 r1 r0 (b _ (by simp)) (b _ (by simp))
                    show be16 (u16 i1 i0) ++ (be16 (u16 f1 f0) ++ (be16 1 ++ (be16 0 ++ (be16 0 ++ (be16 0 ++
                      (encName labels ++ (be16 (u16 t1 t0) ++ (be16 (u16 c1 c0) ++ [])))))))) = _
                    rw [eid, efl, eqt, eqc, hsplit, hre]
                    conv => lhs; arg 2; arg 2; arg 1; rw [eqd]
                    conv => lhs; arg 2; arg 2; arg 2; arg 1; rw [ean]
                    conv => lhs; arg 2; arg 2; arg 2; arg 2; arg 1; rw [ens]
                    conv => lhs; arg 2; arg 2; arg 2; arg 2; arg 2; arg 1; rw [ear]
                    simp
                  · rw [← h]; simp [factsOf]
            · cases h
  · cases h

/-- **A refused packet is never served from partial facts**: the strict
entry is taken exactly when `ParseWire` accepted, with exactly its facts;
everything else is the decoded fallback. -/
theorem refused_takes_decoded_fallback (raw : Bytes) :
    (serveRawEntry raw = .decodedFallback ↔ parseWire raw = none) ∧
    (∀ f, serveRawEntry raw = .strict f ↔ parseWire raw = some f) := by
  unfold serveRawEntry
  cases parseWire raw <;> simp

-- non-vacuity: a real query `www.Example.test. A IN`, RD, with OPT (udp 1232, DO, NSID + 8-octet cookie)
example : (parseWire ([0x12, 0x34, 0x01, 0x00, 0, 1, 0, 0, 0, 0, 0, 1] ++ [3, 119, 119, 119, 7, 69, 120, 97, 109, 112, 108, 101,
    4, 116, 101, 115, 116, 0] ++ [0, 1, 0, 1] ++ [0, 0, 41, 4, 208, 0, 0, 128, 0, 0, 16, 0, 3, 0, 0, 0, 10, 0, 8, 1, 2, 3, 4, 5, 6, 7, 8])).isSome := by
  decide

/-! ## 2. `wire.ApplyReply` / `ClearAD` are the decoded header edits -/

/-- **`ApplyReply` = `SetReply` + cache shaping, for every stored flag word,
opcode and RD/CD.** On any 16-bit word `w` the byte edit equals packing the
decoded header with QR set, the request opcode, the request's RD and CD and
AA cleared, every other field (TC, RA, Z, AD, RCODE) as stored. For the only
opcode the strict path admits (`0`, see `parseWire_refines_spec`) this is
exactly miekg's `SetReply` followed by `ToMsg`'s `Authoritative = false`;
for other opcodes the library would keep the stored RD/CD, which is the one
(unreachable) difference and is stated, not hidden. -/
theorem applyReply_eq_setReply (w opcode : Nat) (rd cd : Bool) (hw : w < 2 ^ 16) :
    applyReply w opcode rd cd = (setReplyAlways (Hdr.decode w) opcode rd cd).encode ∧
    (opcode % 2 ^ 4 = 0 →
      applyReply w opcode rd cd = (setReplyMsg (Hdr.decode w) opcode rd cd).encode) := by
  refine ⟨applyReply_eq_encode w opcode rd cd hw, fun h0 => ?_⟩
  rw [applyReply_eq_encode w opcode rd cd hw]
  simp [setReplyMsg, setReplyAlways, h0]

/-- The header record is a faithful reading of the word (no information is
lost by going through it), so the statement above speaks about all 16 bits. -/
theorem header_roundtrip (w : Nat) (hw : w < 2 ^ 16) : (Hdr.decode w).encode = w :=
  encode_decode w hw

/-- `ClearAD`, `SetAD`, `SetRA`, `SetRcode` change exactly their field. -/
theorem flag_edits_eq_field_updates (w rc : Nat) (hw : w < 2 ^ 16) :
    clearAD w = ({ Hdr.decode w with ad := false } : Hdr).encode ∧
    setAD w = ({ Hdr.decode w with ad := true } : Hdr).encode ∧
    setRA w = ({ Hdr.decode w with ra := true } : Hdr).encode ∧
    setRcode w rc = ({ Hdr.decode w with rcode := rc % 2 ^ 4 } : Hdr).encode :=
  ⟨clearAD_eq_encode w hw, setAD_eq_encode w hw, setRA_eq_encode w hw, setRcode_eq_encode w rc hw⟩

-- non-vacuity: stored `qr aa tc ra ad rcode=3` (0x86A3), request opcode 0, RD=1, CD=1
example : applyReply 0x86A3 0 true true = 0x83B3 := by decide

/-! ## 3. The byte-built OPT is the packed OPT -/

/-- **The byte-built OPT is the wire form of the OPT record**, for every
combination of cookie / NSID / keepalive / EDE / DO / size: what
`appendWireOPT` writes is exactly the encoding of a version-0, extended-rcode-0
root OPT with the writer's UDP size, the client's DO bit and the options
cookie, NSID, keepalive, EDE. -/
theorem wireOPT_eq_packedOPT (c : OptCfg) (e : EDE) (dg b : Bytes)
    (h : appendWireOPT c e dg = some b) : b = encOPT (wireOPT c e dg) := by
  unfold appendWireOPT at h
  split at h
  · cases h
  · simp only [Option.some.injEq] at h
    rw [← h]
    simp [encOPT, wireOPT, appendOptions_eq_encOptions, be16]

/-- **…and it carries the same options as the decoded path's OPT.** The
record `edns.ResponseWriter.WriteMsg` ends up packing has the same size, DO,
version and the same options; the only difference is the position of the
Extended DNS Error (first on the decoded path, last on the byte path).
Without an EDE the two records — hence their packed bytes — are identical. -/
theorem wireOPT_options_perm_msgOPT (c : OptCfg) (e : EDE) (dg : Bytes) :
    (wireOPT c e dg).udpSize = (msgOPT c e dg).udpSize ∧
    (wireOPT c e dg).version = (msgOPT c e dg).version ∧
    (wireOPT c e dg).zflags = (msgOPT c e dg).zflags ∧
    (wireOPT c e dg).options.Perm (msgOPT c e dg).options ∧
    (e = none → wireOPT c e dg = msgOPT c e dg) := by
  refine ⟨rfl, rfl, rfl, ?_, ?_⟩
  · simp only [wireOPT, msgOPT, wireOptionList]
    rw [← List.append_assoc, ← List.append_assoc]
    refine List.Perm.trans List.perm_append_comm ?_
    simp [List.append_assoc]
  · intro he
    subst he
    simp [wireOPT, msgOPT, wireOptionList]

/-- **`wireOPTLen` is the length of what `appendWireOPT` writes** (plus the
Extended-DNS-Error reserve the cache adds to the lease), so the OPT always
lands in the reserved tail; and a writer whose preflight succeeded never
declines late. Cookie halves are 8 octets, digests 32 (SHA-256). -/
theorem wireOPT_len_eq (c : OptCfg) (e : EDE) (dg : Bytes) (n : Nat)
    (hne : c.noedns = false) (hdg : dg.length = 32) (hck : ∀ ck, c.cookie = some ck → ck.length = 8)
    (haddr : c.addrLen ≤ maxTextualAddrLen)
    (hl : wireOPTLen c = some n) :
    ∃ b, appendWireOPT c e dg = some b ∧ b.length = n + edeReserve e := by
  unfold wireOPTLen at hl
  rw [hne] at hl
  simp only [Bool.false_eq_true, if_false] at hl
  unfold appendWireOPT
  cases hc : c.cookie with
  | none =>
    simp only [hc, Option.isSome_none, Bool.false_eq_true, false_and, if_false, Option.some.injEq] at hl ⊢
    refine ⟨_, rfl, ?_⟩
    subst hl
    simp only [wireOptionList, hc, appendOptions_eq_encOptions, List.length_append, List.length_cons, List.length_nil,
      be16, encOptions_length_append, List.nil_append]
    cases e with
    | none => by_cases h1 : c.nsid ≠ [] ∧ c.nsidAsked = true <;> by_cases h2 : c.keepalive = true <;>
        simp [h1, h2, encOptions, be16, edeReserve, optFixedLen, optOptionHdrLen] <;> omega
    | some p => obtain ⟨code, text⟩ := p
                by_cases h1 : c.nsid ≠ [] ∧ c.nsidAsked = true <;> by_cases h2 : c.keepalive = true <;>
        simp [h1, h2, encOptions, be16, edeReserve, optFixedLen, optOptionHdrLen] <;> omega
  | some ck =>
    have hck8 := hck ck hc
    simp only [hc, Option.isSome_some, if_true] at hl
    by_cases hbig : maxTextualAddrLen + clientCookieHexLen + c.secretLen > cookiePreimageMax
    · simp [hbig] at hl
    · have hfit : ¬ (c.addrLen + clientCookieHexLen + c.secretLen > cookiePreimageMax) := by omega
      simp only [hbig, if_false, Option.some.injEq] at hl
      simp only [Option.isSome_some, true_and, hfit, if_false, Option.some.injEq]
      refine ⟨_, rfl, ?_⟩
      subst hl
      simp only [wireOptionList, hc, appendOptions_eq_encOptions, List.length_append, List.length_cons, List.length_nil,
        be16, encOptions_length_append]
      cases e with
      | none => by_cases h1 : c.nsid ≠ [] ∧ c.nsidAsked = true <;> by_cases h2 : c.keepalive = true <;>
          simp [h1, h2, encOptions, be16, edeReserve, optFixedLen, optOptionHdrLen, serverCookieLen, hck8, hdg] <;> omega
      | some p => obtain ⟨code, text⟩ := p
                  by_cases h1 : c.nsid ≠ [] ∧ c.nsidAsked = true <;> by_cases h2 : c.keepalive = true <;>
          simp [h1, h2, encOptions, be16, edeReserve, optFixedLen, optOptionHdrLen, serverCookieLen, hck8, hdg] <;> omega

-- non-vacuity: cookie + NSID + keepalive + EDE, DO set
def exampleCfg : OptCfg :=
  { noedns := false, udpSize := 1232, dnssecOK := true, cookie := some [1, 2, 3, 4, 5, 6, 7, 8],
    addrLen := 9, secretLen := 6, nsid := [110, 115], nsidAsked := true, keepalive := true }
example : ∃ b, appendWireOPT exampleCfg (some (13, [104, 105])) (List.replicate 32 7) = some b ∧ b.length = 67 + 8 := by
  refine ⟨_, rfl, ?_⟩; decide

/-! ## 4. The two ladders agree -/

/-- **Whenever the wire ladder serves, the decoded ladder picks the same
rung.** Hypotheses are exactly the agreements between the two families of
store lookups that the differential run checks (`lad run`, `e2e q`): the
byte-side cut index and the decoded cut lookup report the same cuts (every
recorded cut is made of SOA/NSEC/NSEC3/RRSIG records, all re-encodable), a
byte-side failure hit is a decoded failure hit, and the record-time miss
witness means what its name says — while it holds, RFC 8198 synthesis misses
for this name. -/
theorem ladder_agree (q : Req) (l : Lookups) (s : ServeFacts) (r : Rung)
    (hcut : l.cutWire = l.cut)
    (hfail : ∀ k, l.failureWire = some k → l.failure.isSome = true)
    (hwit : l.witnessHolds = true → l.denial = false)
    (h : (wireLadder q l s).out = .served r) :
    msgLadder q l = r := by
  -- a serve function for rung R only ever reports R
  have inv : ∀ R, StepInv (fun st => ∀ r', st.out = .served r' → r' = R) R := fun R =>
    ⟨fun t _ r' h => by simp [declineWith] at h, fun r' h => by simp [droppedStep] at h,
     fun t c _ r' h => by cases c <;> simp [commitStep] at h <;> exact h.symm⟩
  have gateOut : ∀ (ok : Bool) (k : Step), (gate 0 ok k).out = .served r → ok = true ∧ k.out = .served r := by
    intro ok k hk; cases ok <;> simp [gate, declineWith] at hk ⊢; exact hk
  unfold wireLadder at h
  obtain ⟨hq1, h⟩ := gateOut _ _ h
  obtain ⟨_, h⟩ := gateOut _ _ h
  obtain ⟨_, h⟩ := gateOut _ _ h
  have hecs : q.hasECS = false := by
    cases hq : q.hasECS
    · rfl
    · simp [hq] at hq1
  by_cases hex : l.exactHit = true
  · rw [if_pos hex] at h
    have := serveHit_inv (inv .exact) s r h
    subst this
    simp [msgLadder, hecs, hex]
  · rw [if_neg hex] at h
    have hex' : l.exactHit = false := by simpa using hex
    unfold serveCompositeFromWire at h
    by_cases hcw : (!q.cd && l.cutWire) = true
    · rw [if_pos hcw] at h
      have := serveCut_inv (inv .cut) s r h
      subst this
      simp only [Bool.and_eq_true, Bool.not_eq_true'] at hcw
      simp [msgLadder, hecs, hex', hcw.1, ← hcut, hcw.2]
    · rw [if_neg hcw] at h
      cases hfw : l.failureWire with
      | none => simp [hfw, declineWith] at h
      | some kind =>
        simp only [hfw] at h
        obtain ⟨hserv, h⟩ := gateOut _ _ h
        have := serveFailure_inv (inv .failure) s r h
        subst this
        have hf := hfail kind hfw
        have hnocut : (!q.cd && l.cut) = false := by
          rw [← hcut]; simpa using hcw
        by_cases hcd : q.cd = true
        · simp [msgLadder, hecs, hex', hcd, hf]
        · have hcd' : q.cd = false := by simpa using hcd
          have hw : l.witnessHolds = true := by
            simp [failureServable, hcd'] at hserv; exact hserv.2
          have hden := hwit hw
          have hcut' : l.cut = false := by simpa [hcd'] using hnocut
          simp [msgLadder, hecs, hex', hcd', hcut', hden, hf]

/-- **Every decline happens before any byte is committed**, a served rung
did write, and a limiter refusal writes nothing and spends nothing. -/
theorem decline_before_commit (q : Req) (l : Lookups) (s : ServeFacts) :
    ((wireLadder q l s).out = .decline → (wireLadder q l s).written = false) ∧
    (∀ r, (wireLadder q l s).out = .served r → (wireLadder q l s).written = true) ∧
    ((wireLadder q l s).out = .dropped → (wireLadder q l s).written = false ∧ (wireLadder q l s).tokens = 0) := by
  have inv : ∀ R, StepInv (fun st => (st.out = .decline → st.written = false) ∧
      (∀ r, st.out = .served r → st.written = true) ∧
      (st.out = .dropped → st.written = false ∧ st.tokens = 0)) R := fun R =>
    ⟨fun t _ => by simp [declineWith], by simp [droppedStep], fun t c _ => by cases c <;> simp [commitStep]⟩
  exact wireLadder_inv (inv _) (inv _) (inv _) q l s

/-- **One entry-limiter token per question within a call**: the byte pass
spends at most one, and when it then declines the Msg body of the same call
(which consults the `spent` memo) adds none to it. -/
theorem one_token (q : Req) (l : Lookups) (s : ServeFacts) :
    (wireLadder q l s).tokens ≤ 1 ∧
    ((wireLadder q l s).tokens = 1 → msgBodyTokens s (wireLadder q l s).tokens = 0) ∧
    (wireLadder q l s).tokens + msgBodyTokens s (wireLadder q l s).tokens ≤ 1 := by
  have inv : ∀ R, StepInv (fun st => st.tokens ≤ 1) R := fun R =>
    ⟨fun t ht => by simpa [declineWith] using ht, by simp [droppedStep],
     fun t c ht => by cases c <;> simpa [commitStep] using ht⟩
  have h1 : (wireLadder q l s).tokens ≤ 1 := wireLadder_inv (inv _) (inv _) (inv _) q l s
  refine ⟨h1, ?_, ?_⟩
  · intro h; simp [msgBodyTokens, h]
  · unfold msgBodyTokens
    split <;> omega

/-- **Across the inline / replay boundary** no local can carry the permit,
so the byte pass performs every deterministic decline BEFORE the charge: a
pass that declines with a spent token can only have hit one of the
commit-time backstops: the transport's late `ErrWireFallback`, or — in the
flat-copy serve only — a refused lease / a body that failed to build. This is the documented exception to "one
token per question" for an inline query that is then replayed. -/
theorem token_spent_then_declined_only_at_backstops (s : ServeFacts)
    (hd : (serveHitFromWire s).out = .decline) (ht : (serveHitFromWire s).tokens = 1) :
    (s.chaseSafe = true ∧ (s.leaseOK = false ∨ s.built = false)) ∨ s.commit = .fallback := by
  obtain ⟨iw, pf, el, wr, cs, cc, fc, la, lim, lo, bu, so, cm⟩ := s
  simp only [serveHitFromWire, serveChaseHit, gate, charge, declineWith, droppedStep] at hd ht ⊢
  cases iw <;> simp at hd ht ⊢
  cases pf <;> simp at hd ht ⊢
  cases el <;> simp at hd ht ⊢
  cases wr <;> simp at hd ht ⊢
  cases cs <;> simp at hd ht ⊢
  · -- chase composition: every decline precedes the charge, so no token can be spent
    cases cc <;> simp at hd ht ⊢
    cases lo <;> simp at hd ht ⊢
    cases bu <;> simp at hd ht ⊢
    cases so <;> simp at hd ht ⊢
    cases lim <;> cases la <;> cases cm <;> simp [commitStep] at hd ht ⊢
  · cases fc <;> simp at hd ht ⊢
    cases lim <;> cases la <;> cases lo <;> cases bu <;> cases cm <;> simp [commitStep] at hd ht ⊢

/-- `udpEngine.serveInline`: a job is never both answered on the reader and replayed on a worker. -/
theorem inline_terminal_rule (written handoff : Bool) :
    (inlineReplays written handoff = true → written = false) ∧
    (written = true → inlineReplays written handoff = false) := by
  cases written <;> cases handoff <;> simp [inlineReplays]

-- non-vacuity: a cut and a cached failure both cover the name; the cut wins on both paths
example :
    let q : Req := { rd := true, hasECS := false, cd := false, typeKnown := true, classKnown := true }
    let l : Lookups := { cut := true, cutWire := true, failure := some FailKind.question,
                         failureWire := some FailKind.question, witnessHolds := true }
    (wireLadder q l ({} : ServeFacts)).out = Out.served Rung.cut ∧ msgLadder q l = Rung.cut := by
  decide

/-! ## 5. TTL and AD shaping -/

/-- **Both paths stamp `floor(remaining)` on every record and clear AD under
the same condition**: the byte serve and `ToMsg` produce the same TTL list and
the same AD bit for every remaining lifetime, stored AD, request CD and
record count; an expired entry is served by neither; a CD request never gets
AD; and the edns layer's AD discipline (identical in `WriteWire` and
`WriteMsg`) keeps them equal to the client. -/
theorem ttl_and_ad_equal (remainingNs : Int) (storedAD cd reqAD clientDO : Bool) (ttls : List Nat) :
    wireStamp remainingNs storedAD cd ttls = msgStamp remainingNs storedAD cd ttls ∧
    (remainingNs ≤ 0 → wireStamp remainingNs storedAD cd ttls = none) ∧
    (∀ out ad, wireStamp remainingNs storedAD cd ttls = some (out, ad) →
        out.length = ttls.length ∧ (∀ t ∈ out, (t : Int) = remainingNs / 1000000000) ∧
        (cd = true → ad = false) ∧
        ednsAD (ednsNoAD cd reqAD clientDO) ad = (storedAD && !cd && (reqAD || clientDO))) := by
  refine ⟨?_, ?_, ?_⟩
  · unfold wireStamp msgStamp
    cases ttlOf remainingNs with
    | none => rfl
    | some t => cases cd <;> cases storedAD <;> simp
  · intro h; simp [wireStamp, ttlOf, h]
  · intro out ad h
    unfold wireStamp ttlOf at h
    by_cases hr : remainingNs ≤ 0
    · simp [hr] at h
    · simp only [hr, if_false, Option.some.injEq, Prod.mk.injEq] at h
      obtain ⟨rfl, rfl⟩ := h
      refine ⟨by simp, ?_, ?_, ?_⟩
      · intro t ht
        simp only [List.mem_map] at ht
        obtain ⟨_, _, rfl⟩ := ht
        have : 0 ≤ remainingNs / 1000000000 := Int.ediv_nonneg (by omega) (by decide)
        omega
      · intro hcd; subst hcd; cases storedAD <;> simp
      · cases cd <;> cases storedAD <;> cases reqAD <;> cases clientDO <;> simp [ednsAD, ednsNoAD]

-- non-vacuity: 299.4 s left of a 300 s entry, AD stored, CD request
example : wireStamp 299400000000 true true [300, 300, 60] = some ([299, 299, 299], false) := by decide

/-! ## 6. Facts regenerated from the tree (one-directional side conditions) -/

/-- The real `ApplyReply` / `ClearAD`, evaluated on every single-bit word (and
on every opcode), agree with the model: the bit masks and the opcode field
position the theorems above talk about are the ones compiled into the code. -/
theorem flag_masks_match_tree :
    SdnsVerif.Gen.C05.applyReply_single_bits = (List.range 16).map (fun i => applyReply (2 ^ i) 0 false false) ∧
    SdnsVerif.Gen.C05.applyReply_single_bits_op15_rd_cd = (List.range 16).map (fun i => applyReply (2 ^ i) 15 true true) ∧
    SdnsVerif.Gen.C05.applyReply_opcodes = (List.range 16).map (fun op => applyReply 0 op false false) ∧
    SdnsVerif.Gen.C05.clearAD_single_bits = (List.range 16).map (fun i => clearAD (2 ^ i)) ∧
    SdnsVerif.Gen.C05.flagQR = FlagQR ∧ SdnsVerif.Gen.C05.flagAA = FlagAA ∧ SdnsVerif.Gen.C05.flagTC = FlagTC ∧
    SdnsVerif.Gen.C05.flagRD = FlagRD ∧ SdnsVerif.Gen.C05.flagRA = FlagRA ∧ SdnsVerif.Gen.C05.flagAD = FlagAD ∧
    SdnsVerif.Gen.C05.flagCD = FlagCD ∧ SdnsVerif.Gen.C05.flagOpcodeMsk = FlagOpcodeMsk ∧
    SdnsVerif.Gen.C05.flagOpcodeSh = FlagOpcodeSh := by
  decide

/-- The sizes and codes the byte-built OPT is made of are the model's. -/
theorem opt_constants_match_tree :
    SdnsVerif.Gen.C05.optFixedLen = optFixedLen ∧ SdnsVerif.Gen.C05.optOptionHdrLen = optOptionHdrLen ∧
    SdnsVerif.Gen.C05.serverCookieLen = serverCookieLen ∧ SdnsVerif.Gen.C05.clientCookieHexLen = clientCookieHexLen ∧
    SdnsVerif.Gen.C05.tcpKeepaliveUnits = tcpKeepaliveUnits ∧
    SdnsVerif.Gen.C05.codeCookie = 10 ∧ SdnsVerif.Gen.C05.codeNSID = 3 ∧ SdnsVerif.Gen.C05.codeKeepalive = 11 ∧
    SdnsVerif.Gen.C05.codeEDE = 15 ∧ SdnsVerif.Gen.C05.codeSubnet = 8 ∧ SdnsVerif.Gen.C05.codePadding = 12 ∧
    SdnsVerif.Gen.C05.typeOPT = 41 ∧ SdnsVerif.Gen.C05.headerLen = 12 ∧
    -- a preflight that passed can never be followed by a late cookie refusal
    SdnsVerif.Gen.C05.maxTextualAddrLen ≥ maxTextualAddrLen ∧ SdnsVerif.Gen.C05.cookiePreimageMax = cookiePreimageMax := by
  decide

/-- What the real `ParseWire` accepts on the probe tables stays inside what
the specification allows (a change that admits MORE breaks this; admitting
less only sends more packets to the decoded entry and is harmless). -/
theorem parsewire_boundaries_within_spec :
    (∀ n ∈ SdnsVerif.Gen.C05.parsewire_cookie_lens_ok, 8 ≤ n ∧ n ≤ 40) ∧
    (∀ n ∈ SdnsVerif.Gen.C05.parsewire_keepalive_lens_ok, n = 0 ∨ n = 2) ∧
    (∀ c ∈ SdnsVerif.Gen.C05.parsewire_option_codes_ok, c = 3 ∨ c = 8 ∨ c = 10 ∨ c = 11 ∨ c = 12) ∧
    SdnsVerif.Gen.C05.parsewire_two_cookies_ok = false ∧
    SdnsVerif.Gen.C05.parsewire_max_label ≤ 63 ∧ SdnsVerif.Gen.C05.parsewire_max_name ≤ 255 := by
  decide

end SdnsVerif.Props.C05
