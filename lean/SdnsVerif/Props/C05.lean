import SdnsVerif.Model.WirePath
import SdnsVerif.Lemmas.WirePath
import SdnsVerif.Gen.C05
/-!
# C05 — the wire fast path and the decoded path are observationally equivalent

Property theorems only (helper lemmas live in `Lemmas/WirePath.lean`).

What is proved here is the byte / decision logic both paths are made of;
the equivalence of the two WHOLE pipelines is established by differential
execution of the real server (harness/c05, `e2e` and `lad` ops), which is
testing, not proof.
-/
namespace SdnsVerif.Props.C05
open SdnsVerif.Model.WirePath SdnsVerif.Lemmas.WirePath

/-! ## 1. Strict admission (`Request.ParseWire`) refines the packet specification -/

/-- **Admission refines the specification.** Whenever `ParseWire` accepts a
packet (of octets), the packet IS the canonical uncompressed encoding of a
well-formed strict-path query `m` — plain QUERY, not a response, exactly one
question whose labels are 1..63 octets and whose name is at most 255 octets,
empty answer/authority, and at most one root OPT with extended rcode 0 whose
options are all ones the DNS library accepts, at most one cookie, nothing
after it — and the facts the strict path serves from (id, flag word,
question, OPT size/version/DO/ECS/NSID/keepalive/cookie) are exactly what a
decoder of the specification reads from `m`. -/
theorem parseWire_refines_spec (raw : Bytes) (f : Facts) (hb : ∀ x ∈ raw, x < 256)
    (h : parseWire raw = some f) :
    ∃ m : SMsg, m.WF ∧ m.encode = raw ∧ factsOf m = f := by
  unfold parseWire at h
  split at h
  · rename_i i1 i0 f1 f0 q1 q0 a1 a0 n1 n0 r1 r0 body
    have b : ∀ y, y ∈ [i1, i0, f1, f0, q1, q0, a1, a0, n1, n0, r1, r0] → y < 256 := fun y hy =>
      hb y (by have := List.mem_append_left body hy; simpa using this)
    have hbody : ∀ x ∈ body, x < 256 := fun x hx => hb x (by simp [hx])
    simp only at h
    by_cases hq : (u16 f1 f0 >>> 11) &&& 0xF ≠ 0 ∨ u16 f1 f0 &&& 0x8000 ≠ 0
    · simp [hq] at h
    · rw [if_neg hq] at h
      by_cases hcnt : u16 q1 q0 ≠ 1 ∨ u16 a1 a0 ≠ 0 ∨ u16 n1 n0 ≠ 0 ∨ u16 r1 r0 > 1
      · simp [hcnt] at h
      · rw [if_neg hcnt] at h
        have hop : (u16 f1 f0 >>> 11) % 2 ^ 4 = 0 := by
          have h1 : ¬ ((u16 f1 f0 >>> 11) &&& 0xF ≠ 0) := fun hh => hq (Or.inl hh)
          have := Nat.and_two_pow_sub_one_eq_mod (u16 f1 f0 >>> 11) 4
          simp only [Decidable.not_not] at h1
          rw [show (0xF : Nat) = 2 ^ 4 - 1 from rfl] at h1
          rw [← this]; exact h1
        have hqr : (u16 f1 f0).testBit 15 = false := by
          have h1 : ¬ (u16 f1 f0 &&& 2 ^ 15 ≠ 0) := fun hh => hq (Or.inr hh)
          rw [and_two_pow_ne_zero_iff] at h1
          simpa using h1
        have hq1 : u16 q1 q0 = 1 := by omega
        have ha0 : u16 a1 a0 = 0 := by omega
        have hn0 : u16 n1 n0 = 0 := by omega
        cases hw : walkName (body.length + 1) body with
        | none => simp [hw] at h
        | some p =>
          obtain ⟨labels, afterName⟩ := p
          simp only [hw] at h
          obtain ⟨hsplit, hlabs⟩ := walkName_spec _ _ _ _ hw hbody
          by_cases hnl : (encName labels).length > 255
          · simp [hnl] at h
          · rw [if_neg hnl] at h
            have hbafter : ∀ x ∈ afterName, x < 256 := fun x hx => hbody x (by rw [hsplit]; simp [hx])
            split at h
            · rename_i t1 t0 c1 c0 rest
              have bq : ∀ y, y ∈ [t1, t0, c1, c0] → y < 256 := fun y hy =>
                hbafter y (by have := List.mem_append_left rest hy; simpa using this)
              have hbrest : ∀ x ∈ rest, x < 256 := fun x hx => hbafter x (by simp [hx])
              have eid : be16 (u16 i1 i0) = [i1, i0] := be16_u16 i1 i0 (b _ (by simp)) (b _ (by simp))
              have efl : be16 (u16 f1 f0) = [f1, f0] := be16_u16 f1 f0 (b _ (by simp)) (b _ (by simp))
              have eqd : be16 1 = [q1, q0] := hq1 ▸ be16_u16 q1 q0 (b _ (by simp)) (b _ (by simp))
              have ean : be16 0 = [a1, a0] := ha0 ▸ be16_u16 a1 a0 (b _ (by simp)) (b _ (by simp))
              have ens : be16 0 = [n1, n0] := hn0 ▸ be16_u16 n1 n0 (b _ (by simp)) (b _ (by simp))
              have eqt : be16 (u16 t1 t0) = [t1, t0] := be16_u16 t1 t0 (bq _ (by simp)) (bq _ (by simp))
              have eqc : be16 (u16 c1 c0) = [c1, c0] := be16_u16 c1 c0 (bq _ (by simp)) (bq _ (by simp))
              by_cases har : u16 r1 r0 = 1
              · rw [if_pos har] at h
                cases hopt : parseWireOPT rest with
                | none => simp [hopt] at h
                | some o =>
                  simp only [hopt, Option.some.injEq] at h
                  obtain ⟨so, henc, hall, hck, hfacts⟩ := parseWireOPT_spec rest o hopt hbrest
                  refine ⟨{ id := u16 i1 i0, flags := u16 f1 f0, labels := labels, qtype := u16 t1 t0,
                            qclass := u16 c1 c0, opt := some so }, ?_, ?_, ?_⟩
                  · exact ⟨hop, hqr, hlabs, by simp only; omega,
                      fun o' ho' => by simp only [Option.some.injEq] at ho'; subst ho'; exact ⟨hall, hck⟩⟩
                  · have ear : be16 1 = [r1, r0] := har ▸ be16_u16 r1 r0 (b _ (by simp)) (b _ (by simp))
                    show be16 (u16 i1 i0) ++ (be16 (u16 f1 f0) ++ (be16 1 ++ (be16 0 ++ (be16 0 ++ (be16 1 ++
                      (encName labels ++ (be16 (u16 t1 t0) ++ (be16 (u16 c1 c0) ++ encOPT so)))))))) = _
                    rw [eid, efl, eqt, eqc, henc, hsplit]
                    conv => lhs; arg 2; arg 2; arg 1; rw [eqd]
                    conv => lhs; arg 2; arg 2; arg 2; arg 1; rw [ean]
                    conv => lhs; arg 2; arg 2; arg 2; arg 2; arg 1; rw [ens]
                    conv => lhs; arg 2; arg 2; arg 2; arg 2; arg 2; arg 1; rw [ear]
                    simp
                  · rw [← h]; simp [factsOf, hfacts]
              · rw [if_neg har] at h
                by_cases hrest : rest ≠ []
                · simp [hrest] at h
                · rw [if_neg hrest] at h
                  simp only [Option.some.injEq] at h
                  have hr0 : u16 r1 r0 = 0 := by omega
                  have hre : rest = [] := by simpa using hrest
                  refine ⟨{ id := u16 i1 i0, flags := u16 f1 f0, labels := labels, qtype := u16 t1 t0,
                            qclass := u16 c1 c0, opt := none }, ?_, ?_, ?_⟩
                  · exact ⟨hop, hqr, hlabs, by simp only; omega, fun o' ho' => by simp at ho'⟩
                  · have ear : be16 0 = [r1, r0] := hr0 ▸ be16_u16 r1 r0 (b _ (by simp)) (b _ (by simp))
                    show be16 (u16 i1 i0) ++ (be16 (u16 f1 f0) ++ (be16 1 ++ (be16 0 ++ (be16 0 ++ (be16 0 ++
                      (encName labels ++ (be16 (u16 t1 t0) ++ (be16 (u16 c1 c0) ++ [])))))))) = _
                    rw [eid, efl, eqt, eqc, hsplit, hre]
                    conv => lhs; arg 2; arg 2; arg 1; rw [eqd]
                    conv => lhs; arg 2; arg 2; arg 2; arg 1; rw [ean]
                    conv => lhs; arg 2; arg 2; arg 2; arg 2; arg 1; rw [ens]
                    conv => lhs; arg 2; arg 2; arg 2; arg 2; arg 2; arg 1; rw [ear]
                    simp
                  · rw [← h]; simp [factsOf]
            · cases h
  · cases h

/-- **A refused packet is never served from partial facts**: the strict
entry is taken exactly when `ParseWire` accepted, with exactly its facts;
everything else is the decoded fallback. -/
theorem refused_takes_decoded_fallback (raw : Bytes) :
    (serveRawEntry raw = .decodedFallback ↔ parseWire raw = none) ∧
    (∀ f, serveRawEntry raw = .strict f ↔ parseWire raw = some f) := by
  unfold serveRawEntry
  cases parseWire raw <;> simp

-- non-vacuity: a real query `www.Example.test. A IN`, RD, with OPT (udp 1232, DO, NSID + 8-octet cookie)
example : (parseWire ([0x12, 0x34, 0x01, 0x00, 0, 1, 0, 0, 0, 0, 0, 1] ++ [3, 119, 119, 119, 7, 69, 120, 97, 109, 112, 108, 101,
    4, 116, 101, 115, 116, 0] ++ [0, 1, 0, 1] ++ [0, 0, 41, 4, 208, 0, 0, 128, 0, 0, 16, 0, 3, 0, 0, 0, 10, 0, 8, 1, 2, 3, 4, 5, 6, 7, 8])).isSome := by
  decide

/-! ## 2. `wire.ApplyReply` / `ClearAD` are the decoded header edits -/

/-- **`ApplyReply` = `SetReply` + cache shaping, for every stored flag word,
opcode and RD/CD.** On any 16-bit word `w` the byte edit equals packing the
decoded header with QR set, the request opcode, the request's RD and CD and
AA cleared, every other field (TC, RA, Z, AD, RCODE) as stored. For the only
opcode the strict path admits (`0`, see `parseWire_refines_spec`) this is
exactly miekg's `SetReply` followed by `ToMsg`'s `Authoritative = false`;
for other opcodes the library would keep the stored RD/CD, which is the one
(unreachable) difference and is stated, not hidden. -/
theorem applyReply_eq_setReply (w opcode : Nat) (rd cd : Bool) (hw : w < 2 ^ 16) :
    applyReply w opcode rd cd = (setReplyAlways (Hdr.decode w) opcode rd cd).encode ∧
    (opcode % 2 ^ 4 = 0 →
      applyReply w opcode rd cd = (setReplyMsg (Hdr.decode w) opcode rd cd).encode) := by
  refine ⟨applyReply_eq_encode w opcode rd cd hw, fun h0 => ?_⟩
  rw [applyReply_eq_encode w opcode rd cd hw]
  simp [setReplyMsg, setReplyAlways, h0]

/-- The header record is a faithful reading of the word (no information is
lost by going through it), so the statement above speaks about all 16 bits. -/
theorem header_roundtrip (w : Nat) (hw : w < 2 ^ 16) : (Hdr.decode w).encode = w :=
  encode_decode w hw

/-- `ClearAD`, `SetAD`, `SetRA`, `SetRcode` change exactly their field. -/
theorem flag_edits_eq_field_updates (w rc : Nat) (hw : w < 2 ^ 16) :
    clearAD w = ({ Hdr.decode w with ad := false } : Hdr).encode ∧
    setAD w = ({ Hdr.decode w with ad := true } : Hdr).encode ∧
    setRA w = ({ Hdr.decode w with ra := true } : Hdr).encode ∧
    setRcode w rc = ({ Hdr.decode w with rcode := rc % 2 ^ 4 } : Hdr).encode :=
  ⟨clearAD_eq_encode w hw, setAD_eq_encode w hw, setRA_eq_encode w hw, setRcode_eq_encode w rc hw⟩

-- non-vacuity: stored `qr aa tc ra ad rcode=3` (0x86A3), request opcode 0, RD=1, CD=1
example : applyReply 0x86A3 0 true true = 0x83B3 := by decide

/-! ## 3. The byte-built OPT is the packed OPT -/

/-- **The byte-built OPT is the wire form of the OPT record**, for every
combination of cookie / NSID / keepalive / EDE / DO / size: what
`appendWireOPT` writes is exactly the encoding of a version-0, extended-rcode-0
root OPT with the writer's UDP size, the client's DO bit and the options
cookie, NSID, keepalive, EDE. -/
theorem wireOPT_eq_packedOPT (c : OptCfg) (e : EDE) (dg b : Bytes)
    (h : appendWireOPT c e dg = some b) : b = encOPT (wireOPT c e dg) := by
  unfold appendWireOPT at h
  split at h
  · cases h
  · simp only [Option.some.injEq] at h
    rw [← h]
    simp [encOPT, wireOPT, appendOptions_eq_encOptions, be16]

/-- **…and it carries the same options as the decoded path's OPT.** The
record `edns.ResponseWriter.WriteMsg` ends up packing has the same size, DO,
version and the same options; the only difference is the position of the
Extended DNS Error (first on the decoded path, last on the byte path).
Without an EDE the two records — hence their packed bytes — are identical. -/
theorem wireOPT_options_perm_msgOPT (c : OptCfg) (e : EDE) (dg : Bytes) :
    (wireOPT c e dg).udpSize = (msgOPT c e dg).udpSize ∧
    (wireOPT c e dg).version = (msgOPT c e dg).version ∧
    (wireOPT c e dg).zflags = (msgOPT c e dg).zflags ∧
    (wireOPT c e dg).options.Perm (msgOPT c e dg).options ∧
    (e = none → wireOPT c e dg = msgOPT c e dg) := by
  refine ⟨rfl, rfl, rfl, ?_, ?_⟩
  · simp only [wireOPT, msgOPT, wireOptionList]
    rw [← List.append_assoc, ← List.append_assoc]
    refine List.Perm.trans List.perm_append_comm ?_
    simp [List.append_assoc]
  · intro he
    subst he
    simp [wireOPT, msgOPT, wireOptionList]

/-- **`wireOPTLen` is the length of what `appendWireOPT` writes** (plus the
Extended-DNS-Error reserve the cache adds to the lease), so the OPT always
lands in the reserved tail; and a writer whose preflight succeeded never
declines late. Cookie halves are 8 octets, digests 32 (SHA-256). -/
theorem wireOPT_len_eq (c : OptCfg) (e : EDE) (dg : Bytes) (n : Nat)
    (hne : c.noedns = false) (hdg : dg.length = 32) (hck : ∀ ck, c.cookie = some ck → ck.length = 8)
    (haddr : c.addrLen ≤ maxTextualAddrLen)
    (hl : wireOPTLen c = some n) :
    ∃ b, appendWireOPT c e dg = some b ∧ b.length = n + edeReserve e := by
  unfold wireOPTLen at hl
  rw [hne] at hl
  simp only [Bool.false_eq_true, if_false] at hl
  unfold appendWireOPT
  cases hc : c.cookie with
  | none =>
    simp only [hc, Option.isSome_none, Bool.false_eq_true, false_and, if_false, Option.some.injEq] at hl ⊢
    refine ⟨_, rfl, ?_⟩
    subst hl
    simp only [wireOptionList, hc, appendOptions_eq_encOptions, List.length_append, List.length_cons, List.length_nil,
      be16, encOptions_length_append, List.nil_append]
    cases e with
    | none => by_cases h1 : c.nsid ≠ [] ∧ c.nsidAsked = true <;> by_cases h2 : c.keepalive = true <;>
        simp [h1, h2, encOptions, be16, edeReserve, optFixedLen, optOptionHdrLen] <;> omega
    | some p => obtain ⟨code, text⟩ := p
                by_cases h1 : c.nsid ≠ [] ∧ c.nsidAsked = true <;> by_cases h2 : c.keepalive = true <;>
        simp [h1, h2, encOptions, be16, edeReserve, optFixedLen, optOptionHdrLen] <;> omega
  | some ck =>
    have hck8 := hck ck hc
    simp only [hc, Option.isSome_some, if_true] at hl
    by_cases hbig : maxTextualAddrLen + clientCookieHexLen + c.secretLen > cookiePreimageMax
    · simp [hbig] at hl
    · have hfit : ¬ (c.addrLen + clientCookieHexLen + c.secretLen > cookiePreimageMax) := by omega
      simp only [hbig, if_false, Option.some.injEq] at hl
      simp only [Option.isSome_some, true_and, hfit, if_false, Option.some.injEq]
      refine ⟨_, rfl, ?_⟩
      subst hl
      simp only [wireOptionList, hc, appendOptions_eq_encOptions, List.length_append, List.length_cons, List.length_nil,
        be16, encOptions_length_append]
      cases e with
      | none => by_cases h1 : c.nsid ≠ [] ∧ c.nsidAsked = true <;> by_cases h2 : c.keepalive = true <;>
          simp [h1, h2, encOptions, be16, edeReserve, optFixedLen, optOptionHdrLen, serverCookieLen, hck8, hdg] <;> omega
      | some p => obtain ⟨code, text⟩ := p
                  by_cases h1 : c.nsid ≠ [] ∧ c.nsidAsked = true <;> by_cases h2 : c.keepalive = true <;>
          simp [h1, h2, encOptions, be16, edeReserve, optFixedLen, optOptionHdrLen, serverCookieLen, hck8, hdg] <;> omega

-- non-vacuity: cookie + NSID + keepalive + EDE, DO set
def exampleCfg : OptCfg :=
  { noedns := false, udpSize := 1232, dnssecOK := true, cookie := some [1, 2, 3, 4, 5, 6, 7, 8],
    addrLen := 9, secretLen := 6, nsid := [110, 115], nsidAsked := true, keepalive := true }
example : ∃ b, appendWireOPT exampleCfg (some (13, [104, 105])) (List.replicate 32 7) = some b ∧ b.length = 67 + 8 := by
  refine ⟨_, rfl, ?_⟩; decide

/-! ## 4. The two ladders agree -/

/-- **Whenever the wire ladder serves, the decoded ladder picks the same
rung.** Hypotheses are exactly the agreements between the two families of
store lookups that the differential run checks (`lad run`, `e2e q`): the
byte-side cut index and the decoded cut lookup report the same cuts (every
recorded cut is made of SOA/NSEC/NSEC3/RRSIG records, all re-encodable), a
byte-side failure hit is a decoded failure hit, and the record-time miss
witness means what its name says — while it holds, RFC 8198 synthesis misses
for this name. -/
theorem ladder_agree (q : Req) (l : Lookups) (s : ServeFacts) (r : Rung)
    (hcut : l.cutWire = l.cut)
    (hfail : ∀ k, l.failureWire = some k → l.failure.isSome = true)
    (hwit : l.witnessHolds = true → l.denial = false)
    (h : (wireLadder q l s).out = .served r) :
    msgLadder q l = r := by
  -- a serve function for rung R only ever reports R
  have inv : ∀ R, StepInv (fun st => ∀ r', st.out = .served r' → r' = R) R := fun R =>
    ⟨fun t _ r' h => by simp [declineWith] at h, fun r' h => by simp [droppedStep] at h,
     fun t c _ r' h => by cases c <;> simp [commitStep] at h <;> exact h.symm⟩
  have gateOut : ∀ (ok : Bool) (k : Step), (gate 0 ok k).out = .served r → ok = true ∧ k.out = .served r := by
    intro ok k hk; cases ok <;> simp [gate, declineWith] at hk ⊢; exact hk
  unfold wireLadder at h
  obtain ⟨hq1, h⟩ := gateOut _ _ h
  obtain ⟨_, h⟩ := gateOut _ _ h
  obtain ⟨_, h⟩ := gateOut _ _ h
  have hecs : q.hasECS = false := by
    cases hq : q.hasECS
    · rfl
    · simp [hq] at hq1
  by_cases hex : l.exactHit = true
  · rw [if_pos hex] at h
    have := serveHit_inv (inv .exact) s r h
    subst this
    simp [msgLadder, hecs, hex]
  · rw [if_neg hex] at h
    have hex' : l.exactHit = false := by simpa using hex
    unfold serveCompositeFromWire at h
    by_cases hcw : (!q.cd && l.cutWire) = true
    · rw [if_pos hcw] at h
      have := serveCut_inv (inv .cut) s r h
      subst this
      simp only [Bool.and_eq_true, Bool.not_eq_true'] at hcw
      simp [msgLadder, hecs, hex', hcw.1, ← hcut, hcw.2]
    · rw [if_neg hcw] at h
      cases hfw : l.failureWire with
      | none => simp [hfw, declineWith] at h
      | some kind =>
        simp only [hfw] at h
        obtain ⟨hserv, h⟩ := gateOut _ _ h
        have := serveFailure_inv (inv .failure) s r h
        subst this
        have hf := hfail kind hfw
        have hnocut : (!q.cd && l.cut) = false := by
          rw [← hcut]; simpa using hcw
        by_cases hcd : q.cd = true
        · simp [msgLadder, hecs, hex', hcd, hf]
        · have hcd' : q.cd = false := by simpa using hcd
          have hw : l.witnessHolds = true := by
            simp [failureServable, hcd'] at hserv; exact hserv.2
          have hden := hwit hw
          have hcut' : l.cut = false := by simpa [hcd'] using hnocut
          simp [msgLadder, hecs, hex', hcd', hcut', hden, hf]

/-- **The gates in front of the ladders agree too.** Whatever the wire
ladder serves, the decoded path serves from the same rung — in particular a
question the decoded path drops (qtype / qclass outside the library's
tables) or refuses with SERVFAIL (RD clear) is never answered from bytes, by
any rung. -/
theorem wire_serves_only_what_msg_serves (q : Req) (isRoot : Bool) (l : Lookups) (s : ServeFacts) (r : Rung)
    (hcut : l.cutWire = l.cut)
    (hfail : ∀ k, l.failureWire = some k → l.failure.isSome = true)
    (hwit : l.witnessHolds = true → l.denial = false)
    (h : (wireLadder q l s).out = .served r) :
    msgServe q isRoot l = .rung r := by
  have gateOut : ∀ (ok : Bool) (k : Step), (gate 0 ok k).out = .served r → ok = true ∧ k.out = .served r := by
    intro ok k hk; cases ok <;> simp [gate, declineWith] at hk ⊢; exact hk
  have hl := ladder_agree q l s r hcut hfail hwit h
  unfold wireLadder at h
  obtain ⟨h1, h⟩ := gateOut _ _ h
  obtain ⟨h2, h⟩ := gateOut _ _ h
  obtain ⟨h3, _⟩ := gateOut _ _ h
  simp only [Bool.and_eq_true, Bool.not_eq_true'] at h1
  simp [msgServe, h1.1, h2, h3, hl]

-- non-vacuity: an unknown qtype below a live cut is declined by the wire ladder and dropped by the decoded path
example :
    let q : Req := { rd := true, hasECS := false, cd := false, typeKnown := false, classKnown := true }
    let l : Lookups := { cut := true, cutWire := true }
    (wireLadder q l ({} : ServeFacts)).out = Out.decline ∧ msgServe q false l = MsgOut.drop := by
  decide

/-- **Every decline happens before any byte is committed**, a served rung
did write, and a limiter refusal writes nothing and spends nothing. -/
theorem decline_before_commit (q : Req) (l : Lookups) (s : ServeFacts) :
    ((wireLadder q l s).out = .decline → (wireLadder q l s).written = false) ∧
    (∀ r, (wireLadder q l s).out = .served r → (wireLadder q l s).written = true) ∧
    ((wireLadder q l s).out = .dropped → (wireLadder q l s).written = false ∧ (wireLadder q l s).tokens = 0) := by
  have inv : ∀ R, StepInv (fun st => (st.out = .decline → st.written = false) ∧
      (∀ r, st.out = .served r → st.written = true) ∧
      (st.out = .dropped → st.written = false ∧ st.tokens = 0)) R := fun R =>
    ⟨fun t _ => by simp [declineWith], by simp [droppedStep], fun t c _ => by cases c <;> simp [commitStep]⟩
  exact wireLadder_inv (inv _) (inv _) (inv _) q l s

/-- **One entry-limiter token per question within a call**: the byte pass
spends at most one, and when it then declines the Msg body of the same call
(which consults the `spent` memo) adds none to it. -/
theorem one_token (q : Req) (l : Lookups) (s : ServeFacts) :
    (wireLadder q l s).tokens ≤ 1 ∧
    ((wireLadder q l s).tokens = 1 → msgBodyTokens s (wireLadder q l s).tokens = 0) ∧
    (wireLadder q l s).tokens + msgBodyTokens s (wireLadder q l s).tokens ≤ 1 := by
  have inv : ∀ R, StepInv (fun st => st.tokens ≤ 1) R := fun R =>
    ⟨fun t ht => by simpa [declineWith] using ht, by simp [droppedStep],
     fun t c ht => by cases c <;> simpa [commitStep] using ht⟩
  have h1 : (wireLadder q l s).tokens ≤ 1 := wireLadder_inv (inv _) (inv _) (inv _) q l s
  refine ⟨h1, ?_, ?_⟩
  · intro h; simp [msgBodyTokens, h]
  · unfold msgBodyTokens
    split <;> omega

/-- **Across the inline / replay boundary** no local can carry the permit,
so the byte pass performs every deterministic decline BEFORE the charge: a
pass that declines with a spent token can only have hit one of the
commit-time backstops: the transport's late `ErrWireFallback`, or — in the
flat-copy serve only — a refused lease / a body that failed to build. This is the documented exception to "one
token per question" for an inline query that is then replayed. -/
theorem token_spent_then_declined_only_at_backstops (s : ServeFacts)
    (hd : (serveHitFromWire s).out = .decline) (ht : (serveHitFromWire s).tokens = 1) :
    (s.chaseSafe = true ∧ (s.leaseOK = false ∨ s.built = false)) ∨ s.commit = .fallback := by
  obtain ⟨iw, pf, el, wr, cs, cc, fc, la, lim, lo, bu, so, cm⟩ := s
  simp only [serveHitFromWire, serveChaseHit, gate, charge, declineWith, droppedStep] at hd ht ⊢
  cases iw <;> simp at hd ht ⊢
  cases pf <;> simp at hd ht ⊢
  cases el <;> simp at hd ht ⊢
  cases wr <;> simp at hd ht ⊢
  cases cs <;> simp at hd ht ⊢
  · -- chase composition: every decline precedes the charge, so no token can be spent
    cases cc <;> simp at hd ht ⊢
    cases lo <;> simp at hd ht ⊢
    cases bu <;> simp at hd ht ⊢
    cases so <;> simp at hd ht ⊢
    cases lim <;> cases la <;> cases cm <;> simp [commitStep] at hd ht ⊢
  · cases fc <;> simp at hd ht ⊢
    cases lim <;> cases la <;> cases lo <;> cases bu <;> cases cm <;> simp [commitStep] at hd ht ⊢

/-- **One token per question across the inline pass and the worker replay.**
With the real writer chain (a granted lease, a body that builds, no late
`ErrWireFallback` — the commit-time backstops) an exact hit whose limiter
allows costs exactly what it costs on the decoded ingress, whether the byte
pass serves it (flat copy or alias composition) or declines at ANY of its
gates — prefetch due, ineligible body, writer not ready, an uncollectable or
oversized chase, a body that does not fit the chain — and the worker replays
it: every such decline happens before the charge. -/
theorem inline_replay_one_token (s : ServeFacts)
    (hlease : s.leaseOK = true) (hbuilt : s.built = true) (hcommit : s.commit ≠ .fallback)
    (hallow : s.limiterAllows = true) :
    inlineReplayTokens s = decodedIngressTokens s := by
  obtain ⟨iw, pf, el, wr, cs, cc, fc, la, lim, lo, bu, so, cm⟩ := s
  simp only at hlease hbuilt hcommit hallow
  subst hlease hbuilt hallow
  simp only [inlineReplayTokens, decodedIngressTokens, serveHitFromWire, serveChaseHit, gate, charge, declineWith, droppedStep]
  cases iw <;> cases pf <;> cases el <;> cases wr <;> cases cs <;> cases cc <;> cases fc <;> cases lim <;> cases so <;>
    cases cm <;> simp_all [commitStep]

-- non-vacuity: a limited alias entry whose composed reply is too large for the client: the inline pass
-- declines without paying, the replay pays once
example : inlineReplayTokens { chaseSafe := false, sizeOK := false, limited := true } = 1 ∧
    (serveHitFromWire { chaseSafe := false, sizeOK := false, limited := true }).tokens = 0 := by decide

/-- **A cut serves the same proof on both paths**: the signed authority
section for a DO client and for an explicit RRSIG question, the bare SOA
otherwise — for every qtype, NSEC and NSEC3 questions included. -/
theorem cut_template_wire_eq_msg (clientDO : Bool) (qtype : Nat) :
    cutWireFull clientDO qtype = cutMsgFull clientDO qtype := by
  unfold cutWireFull cutMsgFull
  cases clientDO <;> by_cases h : qtype = 46 <;> simp [h, bne]

-- non-vacuity: an NSEC question with DO clear gets the stripped proof on both paths
example : cutWireFull false 47 = false ∧ cutMsgFull false 47 = false ∧ cutWireFull false 46 = true := by decide

/-- `udpEngine.serveInline`: a job is never both answered on the reader and replayed on a worker. -/
theorem inline_terminal_rule (written handoff : Bool) :
    (inlineReplays written handoff = true → written = false) ∧
    (written = true → inlineReplays written handoff = false) := by
  cases written <;> cases handoff <;> simp [inlineReplays]

-- non-vacuity: a cut and a cached failure both cover the name; the cut wins on both paths
example :
    let q : Req := { rd := true, hasECS := false, cd := false, typeKnown := true, classKnown := true }
    let l : Lookups := { cut := true, cutWire := true, failure := some FailKind.question,
                         failureWire := some FailKind.question, witnessHolds := true }
    (wireLadder q l ({} : ServeFacts)).out = Out.served Rung.cut ∧ msgLadder q l = Rung.cut := by
  decide

/-! ## 5. TTL and AD shaping -/

/-- **Both paths stamp `floor(remaining)` on every record and clear AD under
the same condition**: the byte serve and `ToMsg` produce the same TTL list and
the same AD bit for every remaining lifetime, stored AD, request CD and
record count; an expired entry is served by neither; a CD request never gets
AD; and the edns layer's AD discipline (identical in `WriteWire` and
`WriteMsg`) keeps them equal to the client. -/
theorem ttl_and_ad_equal (remainingNs : Int) (storedAD cd reqAD clientDO : Bool) (ttls : List Nat) :
    wireStamp remainingNs storedAD cd ttls = msgStamp remainingNs storedAD cd ttls ∧
    (remainingNs ≤ 0 → wireStamp remainingNs storedAD cd ttls = none) ∧
    (∀ out ad, wireStamp remainingNs storedAD cd ttls = some (out, ad) →
        out.length = ttls.length ∧ (∀ t ∈ out, (t : Int) = remainingNs / 1000000000) ∧
        (cd = true → ad = false) ∧
        ednsAD (ednsNoAD cd reqAD clientDO) ad = (storedAD && !cd && (reqAD || clientDO))) := by
  refine ⟨?_, ?_, ?_⟩
  · unfold wireStamp msgStamp
    cases ttlOf remainingNs with
    | none => rfl
    | some t => cases cd <;> cases storedAD <;> simp
  · intro h; simp [wireStamp, ttlOf, h]
  · intro out ad h
    unfold wireStamp ttlOf at h
    by_cases hr : remainingNs ≤ 0
    · simp [hr] at h
    · simp only [hr, if_false, Option.some.injEq, Prod.mk.injEq] at h
      obtain ⟨rfl, rfl⟩ := h
      refine ⟨by simp, ?_, ?_, ?_⟩
      · intro t ht
        simp only [List.mem_map] at ht
        obtain ⟨_, _, rfl⟩ := ht
        have : 0 ≤ remainingNs / 1000000000 := Int.ediv_nonneg (by omega) (by decide)
        omega
      · intro hcd; subst hcd; cases storedAD <;> simp
      · cases cd <;> cases storedAD <;> cases reqAD <;> cases clientDO <;> simp [ednsAD, ednsNoAD]

-- non-vacuity: 299.4 s left of a 300 s entry, AD stored, CD request
example : wireStamp 299400000000 true true [300, 300, 60] = some ([299, 299, 299], false) := by decide

/-! ## 5b. Handler branches that exist twice -/

/-- **edns: the wire branch fills the writer exactly as the decoded body
does.** For every well-formed strict-path query `m` (what `ParseWire` admits,
by `parseWire_refines_spec`) and every transport, `EDNS.ServeDNS` on the
wire-born request — wire branch for EDNS version 0 / no OPT, decoded body
otherwise (BADVERS) — produces the same outcome and the same writer facts
(size ceiling, client DO, noedns, NSID asked, keepalive, AD discipline,
advertised size, client cookie half) as `SetEdns0` + the decoded body on the
library's decode of the same packet. -/
theorem edns_wire_eq_msg (m : SMsg) (p : Proto) (hwf : m.WF) :
    ednsServeWireBorn (factsOf m) p = ednsMsg (dreqOf m) p := by
  unfold ednsServeWireBorn
  rw [dreqOfFacts_factsOf m hwf]
  split
  · rename_i hb
    -- the wire branch: opcode 0 and version 0
    have hop : (m.flags >>> 11) % 2 ^ 4 = 0 := hwf.opcode0
    have hcd : decide (m.flags &&& 0x0010 ≠ 0) = m.flags.testBit 4 := by
      have := and_two_pow_ne_zero_iff m.flags 4
      rw [show (0x0010 : Nat) = 2 ^ 4 from rfl]
      cases h : m.flags.testBit 4 <;> simp [this, h]
    have had : decide (m.flags &&& 0x0020 ≠ 0) = m.flags.testBit 5 := by
      have := and_two_pow_ne_zero_iff m.flags 5
      rw [show (0x0020 : Nat) = 2 ^ 5 from rfl]
      cases h : m.flags.testBit 5 <;> simp [this, h]
    cases hopt : m.opt with
    | none =>
      simp only [ednsWire, ednsMsg, dreqOf, factsOf, hopt, Option.map_none]
      rw [hcd, had]
      simp [hop]
    | some o =>
      obtain ⟨hall, hcnt⟩ := hwf.optsOK o hopt
      have hpay := (cookiePayloads_of_le_one o.options hall hcnt).1
      have hver : o.version = 0 := by
        simp [ednsWireBranch, factsOf, hopt, optFactsOf] at hb
        exact hb.2
      simp only [ednsWire, ednsMsg, dreqOf, factsOf, hopt, Option.map_some, Option.getD_some, optFactsOf]
      rw [hcd, had]
      simp only [hop, hver, hpay]
      by_cases hc : cookieOf o.options = []
      · simp [hc, setEdns0Cookie]
      · simp [hc, setEdns0Cookie]
  · rfl

/-- … stated on the packet: whatever `ParseWire` admits is handled by the
edns layer exactly as the decoded entry would handle the same packet. -/
theorem edns_admitted_packet_same_writer (raw : Bytes) (f : Facts) (p : Proto) (hb : ∀ x ∈ raw, x < 256)
    (h : parseWire raw = some f) :
    ∃ m : SMsg, m.WF ∧ m.encode = raw ∧ ednsServeWireBorn f p = ednsMsg (dreqOf m) p := by
  obtain ⟨m, hwf, henc, hf⟩ := parseWire_refines_spec raw f hb h
  exact ⟨m, hwf, henc, hf ▸ edns_wire_eq_msg m p hwf⟩

-- non-vacuity: DO + NSID + cookie over TCP with keepalive, CD set
def exampleFacts : Facts :=
  { id := 1, flags := 0x0110, labels := [], qtype := 1, qclass := 1,
    opt := some { udpSize := 4096, dnssecOK := true, hasNSID := true, hasKeepalive := true, cookie := [1, 2, 3, 4, 5, 6, 7, 8, 9] } }
example : ednsWire exampleFacts .tcp =
    .next { size := 65535, dnssecOK := true, noedns := false, nsidAsked := true, keepalive := true, noad := true,
            respUDPSize := 1232, cookie := [1, 2, 3, 4, 5, 6, 7, 8] } := by decide

/-- **ratelimit: one history, one verdict per step, whichever branch ran.**
The wire branch and the decoded body make the same decision and leave the
same limiter state (remembered server cookie, tokens) for every state and
input; hence for every history of one client; a replay pass changes nothing
and passes through; a step spends at most one token and BADCOOKIE is only
ever answered over UDP. -/
theorem ratelimit_wire_eq_msg (s : RLState) (i : RLIn) : rlWire s i = rlMsg s i := by
  unfold rlWire rlMsg; rfl

theorem ratelimit_histories_agree (s : RLState) (h : List RLIn) : rlRun rlWire s h = rlRun rlMsg s h := by
  induction h generalizing s with
  | nil => rfl
  | cons i t ih => simp only [rlRun, ratelimit_wire_eq_msg, ih]

theorem ratelimit_replay_and_tokens (s : RLState) (i : RLIn) :
    (i.replay = true → rlWire s i = (s, .next)) ∧
    ((rlWire s i).1.tokens ≤ s.tokens ∧ s.tokens ≤ (rlWire s i).1.tokens + 1) ∧
    ((rlWire s i).2 = .badcookie → i.udp = true) ∧
    ((rlWire s i).2 = .drop → s.tokens = 0 ∧ (rlWire s i).1 = s) := by
  obtain ⟨udp, ck, replay, exempt, ov⟩ := i
  refine ⟨fun h => by simp only at h; simp [rlWire, h], ?_⟩
  by_cases ht : s.tokens = 0
  · cases replay <;> cases exempt <;> cases udp <;> cases ov <;> rcases ck with _ | ⟨cid, h⟩ <;>
      simp [rlWire, rlAllow, ht] <;> (try split) <;> (try simp_all)
  · cases replay <;> cases exempt <;> cases udp <;> cases ov <;> rcases ck with _ | ⟨cid, h⟩ <;>
      simp [rlWire, rlAllow, ht] <;> (try split) <;> (try simp_all) <;> (try omega)

/-- A query in an EDNS version the server does not speak takes no part in the
cookie exchange on either branch: never BADCOOKIE, the remembered cookie is
untouched, the token is paid — it is left to edns (BADVERS). -/
theorem ratelimit_other_version (s : RLState) (i : RLIn) (hv : i.otherVersion = true) :
    (rlWire s i).2 ≠ .badcookie ∧ (rlWire s i).1.cached = s.cached ∧ rlWire s i = rlMsg s i := by
  obtain ⟨udp, ck, replay, exempt, ov⟩ := i
  simp only at hv
  subst hv
  refine ⟨?_, ?_, rfl⟩ <;>
  · cases replay <;> cases exempt <;> by_cases ht : s.tokens = 0 <;> simp [rlWire, rlAllow, ht]

-- non-vacuity: a stale cookie over UDP in EDNS version 1 pays a token and goes on to edns
example : rlWire { cached := some 1, tokens := 2 } { udp := true, ck := some (2, .none), otherVersion := true } =
    ({ cached := some 1, tokens := 1 }, .next) := by decide

-- non-vacuity: cookie A over UDP, rotate to B over TCP, then B + its server half over UDP passes
example : (rlRun rlWire { tokens := 8 } [{ udp := true, ck := some (1, .none) }, { udp := false, ck := some (2, .none) },
      { udp := true, ck := some (2, .good) }]).2 = [.next, .next, .next] := by decide

/-- **as112: the wire branch answers exactly what the decoded body answers**
— same pass-on, same zone, same apex / below-apex verdict (hence rcode and
sections) — for every configured zone set whose zones end in `arpa`, every
name and every qtype (DS strips the owner label on both). -/
theorem as112_wire_eq_msg (zones : List (List String)) (labels : List String) (qtype : Nat)
    (hz : ∀ z ∈ zones, z.getLast? = some "arpa") :
    asWire zones labels qtype = asMsg zones labels qtype := by
  -- a suffix of the name that is a zone forces the name's last label to be "arpa"
  have lastOfSuffix : ∀ (l : List String) (k : Nat) (z : List String), z = l.drop k → z ∈ zones →
      l.getLast? = some "arpa" := by
    intro l k z hzd hzm
    have hl := hz z hzm
    rw [hzd] at hl
    by_cases hk : k < l.length
    · rw [List.getLast?_drop] at hl; simpa [show ¬ l.length ≤ k by omega] using hl
    · rw [List.drop_eq_nil_of_le (by omega)] at hl; simp at hl
  have hA : endsArpa "arpa" = true := by decide
  unfold asWire asMsg
  by_cases harpa : labels.getLast? = some "arpa"
  · have he : endsArpa (labels.getLast?.getD "") = true := by rw [harpa]; decide
    simp only [harpa, ne_eq, not_true_eq_false, if_false]
    by_cases hds : qtype = 43
    · subst hds
      simp only [if_true]
      match labels, harpa with
      | [], h => simp at h
      | [a], _ => simp
      | a :: b :: t, _ =>
        have hlen : ¬ ((a :: b :: t).length < 2) := by simp
        simp only [true_and, hlen, if_false, List.drop_succ_cons, List.drop_zero]
        have hs := findZone_shift zones (b :: t) 0 1
        simp only [Nat.zero_add] at hs
        rw [hs]
        cases hf : findZone zones 0 (b :: t) with
        | none => simp
        | some pr =>
          obtain ⟨j, z⟩ := pr
          obtain ⟨_, hzd, hzl, _⟩ := findZone_spec zones (b :: t) 0 j z hf
          have hne : (z == a :: b :: t) = false := by
            apply beq_false_of_ne
            intro heq
            rw [heq] at hzl
            simp at hzl
            omega
          simp [hne, hA]
    · simp only [hds, if_false, false_and, List.drop_zero]
      cases hf : findZone zones 0 labels with
      | none => simp
      | some pr =>
        obtain ⟨j, z⟩ := pr
        obtain ⟨_, hzd, hzl, _⟩ := findZone_spec zones labels 0 j z hf
        simp only [Nat.sub_zero] at hzd hzl
        by_cases hj : j = 0
        · subst hj
          simp at hzd
          simp [hzd, hA]
        · have hne : (z == labels) = false := by
            apply beq_false_of_ne
            intro heq
            rw [heq] at hzl
            omega
          simp [hj, hne, hA]
  · -- the wire branch passes on; the decoded body passes on too, at its pre-check or because no zone can match
    simp only [harpa, ne_eq, not_false_eq_true, if_true]
    by_cases he : endsArpa (labels.getLast?.getD "") = true
    · simp only [he, Bool.not_true, Bool.false_eq_true, if_false]
      have noMatch : ∀ (ls : List String) (k : Nat), ls = labels.drop k → findZone zones 0 ls = none := by
        intro ls k hls
        cases hf : findZone zones 0 ls with
        | none => rfl
        | some pr =>
          obtain ⟨j, z⟩ := pr
          obtain ⟨_, hzd, _, hzm⟩ := findZone_spec zones ls 0 j z hf
          exfalso
          apply harpa
          apply lastOfSuffix labels (k + (j - 0)) z _ hzm
          rw [hzd, hls, List.drop_drop]
      by_cases hds : qtype = 43
      · subst hds
        match labels, noMatch with
        | [], _ => simp
        | [a], _ => simp
        | a :: b :: t, nm =>
          have := nm (b :: t) 1 (by simp)
          simp [this]
      · have := noMatch labels 0 (by simp)
        simp [hds, this]
    · simp [he]

-- non-vacuity: apex SOA is answered, a DS for the apex is passed on, a child is NXDOMAIN
example : asWire [["10", "in-addr", "arpa"]] ["10", "in-addr", "arpa"] 6 = .reply true ["10", "in-addr", "arpa"] ∧
    asWire [["10", "in-addr", "arpa"]] ["10", "in-addr", "arpa"] 43 = .next ∧
    asMsg [["10", "in-addr", "arpa"]] ["1", "10", "in-addr", "arpa"] 12 = .reply false ["10", "in-addr", "arpa"] := by decide

/-- **The header word a wire builder sends is the decoded reply's header
word**, for every stored 16-bit word, RD, CD and AD discipline (`noad`):
flat hit (`ApplyReply`, AD off for CD, then the edns layer) = `ToMsg` +
`edns.WriteMsg`; the cut composer = `nxDomainCutEntry.response` +
`WriteMsg`; the cached-failure builder = `FailureHit.Response` — and that one
whatever the leased transmit slab held before (the header is zeroed first:
no AD / TC / Z bit of an earlier reply survives). -/
theorem wire_reply_flags_eq_msg (stored stale : Nat) (rd cd noad : Bool) (hs : stored < 2 ^ 16) :
    ednsWriteWireFlags noad (wireHitFlags stored rd cd) = msgHitFlags stored rd cd noad ∧
    (cd = false → ednsWriteWireFlags noad (wireCutFlags rd cd) = msgCutFlags rd noad) ∧
    ednsWriteWireFlags noad (wireFailureFlags stale rd cd) = msgFailureFlags rd cd := by
  have hadbit : decide (stored &&& FlagAD ≠ 0) = stored.testBit 5 := by
    have := and_two_pow_ne_zero_iff stored 5
    unfold FlagAD
    cases h : stored.testBit 5 <;> simp [this, h]
  have hwire : wireHitFlags stored rd cd =
      (if (cd && stored.testBit 5) = true then (clearAD (applyReply stored 0 rd cd), false)
       else (applyReply stored 0 rd cd, stored.testBit 5)) := by
    simp only [wireHitFlags, hadbit]
  refine ⟨?_, ?_, ?_⟩
  · -- flat hit
    apply Nat.eq_of_testBit_eq
    intro i
    have hi := @testBit_high stored i hs
    rw [hwire]
    by_cases h5 : stored.testBit 5 = true
    · cases rd <;> cases cd <;> cases noad <;>
      simp only [h5, ednsWriteWireFlags, msgHitFlags, setReplyMsg, Hdr.decode, Hdr.encode, applyReply,
        clearAD, andNot, FlagQR, FlagAA, FlagRD, FlagCD, FlagAD, FlagOpcodeMsk, FlagOpcodeSh, u16max, Nat.testBit_or, Nat.testBit_and, Nat.testBit_xor, Nat.testBit_two_pow, Nat.testBit_two_pow_sub_one,
        Nat.testBit_shiftLeft, Nat.testBit_mod_two_pow, testBit_bit, if_true, if_false, Bool.false_eq_true, Bool.and_true,
        Bool.and_false, Bool.true_and, Bool.false_and, Bool.not_true, Bool.not_false, Nat.zero_mod, Nat.zero_shiftLeft,
        Nat.zero_testBit, reduceIte] <;>
      (rcases bit_cases i with rfl | rfl | rfl | rfl | rfl | rfl | rfl | rfl | rfl | rfl | rfl | rfl | rfl | rfl | rfl | rfl | h16
       all_goals first
         | (simp [Nat.testBit_mod_two_pow, Nat.testBit_shiftRight, h5] <;> decide)
         | (have hh := hi h16
            simp [hh, show ¬(15 = i) by omega, show ¬(10 = i) by omega, show ¬(i - 11 < 4) by omega,
              show ¬(9 = i) by omega, show ¬(8 = i) by omega, show ¬(7 = i) by omega, show ¬(6 = i) by omega,
              show ¬(5 = i) by omega, show ¬(4 = i) by omega, show ¬ (i < 16) by omega, show ¬ (i < 4) by omega]))
    · have h5' : stored.testBit 5 = false := by simpa using h5
      cases rd <;> cases cd <;> cases noad <;>
      simp only [h5', ednsWriteWireFlags, msgHitFlags, setReplyMsg, Hdr.decode, Hdr.encode, applyReply,
        clearAD, andNot, FlagQR, FlagAA, FlagRD, FlagCD, FlagAD, FlagOpcodeMsk, FlagOpcodeSh, u16max, Nat.testBit_or, Nat.testBit_and, Nat.testBit_xor, Nat.testBit_two_pow, Nat.testBit_two_pow_sub_one,
        Nat.testBit_shiftLeft, Nat.testBit_mod_two_pow, testBit_bit, if_true, if_false, Bool.false_eq_true, Bool.and_true,
        Bool.and_false, Bool.true_and, Bool.false_and, Bool.not_true, Bool.not_false, Nat.zero_mod, Nat.zero_shiftLeft,
        Nat.zero_testBit, reduceIte] <;>
      (rcases bit_cases i with rfl | rfl | rfl | rfl | rfl | rfl | rfl | rfl | rfl | rfl | rfl | rfl | rfl | rfl | rfl | rfl | h16
       all_goals first
         | (simp [Nat.testBit_mod_two_pow, Nat.testBit_shiftRight, h5'] <;> decide)
         | (have hh := hi h16
            simp [hh, show ¬(15 = i) by omega, show ¬(10 = i) by omega, show ¬(i - 11 < 4) by omega,
              show ¬(9 = i) by omega, show ¬(8 = i) by omega, show ¬(7 = i) by omega, show ¬(6 = i) by omega,
              show ¬(5 = i) by omega, show ¬(4 = i) by omega, show ¬ (i < 16) by omega, show ¬ (i < 4) by omega]))
  · intro hcd; subst hcd
    cases rd <;> cases noad <;> decide
  · have : stale * 0 = 0 := Nat.mul_zero _
    simp only [wireFailureFlags, this]
    cases rd <;> cases cd <;> cases noad <;> decide

-- non-vacuity: stored `qr rd ra ad`, CD request: AD must not reach the client on either path
example : ednsWriteWireFlags true (wireHitFlags 0x81A0 true true) = 0x8190 ∧ msgHitFlags 0x81A0 true true true = 0x8190 := by
  decide

/-- **The cache-contained alias chase is sound and equals the decoded
chase.** Whenever the wire walk composes a reply from a cache `cache` at age
`el`: it used at most 10 hops, every one of them cached, unexpired, NOERROR and
free of authority / additional baggage, the last one carrying the terminal
record (of a type the composer re-encodes); the composed body's AD bit is
the conjunction of the hops' AD bits and off for a CD client, `WireInfo`
says the same as the body (so the edns layer's AD discipline sees the truth),
every hop's records carry that hop's own `floor(remaining)` — and AD and
TTLs are exactly what the decoded chase answers over the same hops. -/
theorem chase_sound_and_equal (cache : List Hop) (qtOK : Bool) (el : Nat) (cd : Bool) (r : ChaseReply)
    (h : wireChase cache qtOK el cd = some r) :
    ∃ ids : List Nat,
      r.hops = ids.length ∧ 1 ≤ ids.length ∧ ids.length ≤ maxWireChaseHops ∧
      (∀ id ∈ ids, UsableHop cache el id) ∧
      (∃ last hop, ids.getLast? = some last ∧ cache[last]? = some hop ∧ hop.kind = .terminal ∧ qtOK = true) ∧
      r.ad = ((ids.filterMap (cache[·]?)).all (·.ad) && !cd) ∧
      r.infoAD = r.ad ∧
      (r.ad, r.ttls) = msgChase cache el cd ids := by
  unfold wireChase at h
  cases hw : walkChase cache qtOK el (maxWireChaseHops + 1) 0 [] [] with
  | none => simp [hw] at h
  | some ids =>
    simp only [hw, Option.map_some, Option.some.injEq] at h
    obtain ⟨h1, h2, h3, h4⟩ := walkChase_spec cache qtOK el _ _ _ _ _ hw
    have hbody : r.ad = ((ids.filterMap (cache[·]?)).all (·.ad) && !cd) := by
      rw [← h]
      simp only [composeChase]
      cases hall : (ids.filterMap (cache[·]?)).all (·.ad)
      · simp
      · -- all hops authenticated: so is the alias whose header was copied
        cases hseg : ids.filterMap (cache[·]?) with
        | nil =>
          exfalso
          match ids, h2, h3, hseg with
          | [], h2, _, _ => simp at h2
          | id0 :: rest, _, h3, hseg =>
            rcases h3 id0 (by simp) with hh | ⟨hop, hc, _, _⟩
            · simp at hh
            · simp [List.filterMap_cons, hc] at hseg
        | cons s t =>
          rw [hseg] at hall
          simp only [List.all_cons, Bool.and_eq_true] at hall
          cases cd <;> simp [hall.1]
    refine ⟨ids, by rw [← h]; rfl, by simp at h2; omega, h1, ?_, h4, hbody, ?_, ?_⟩
    · intro id hid
      rcases h3 id hid with hh | hh
      · simp at hh
      · exact hh
    · rw [hbody, ← h]
      simp only [composeChase]
      cases (ids.filterMap (cache[·]?)).all (·.ad) <;> cases cd <;> simp
    · rw [hbody, ← h]
      simp [msgChase, composeChase, foldl_and_eq_all]

-- non-vacuity: a validated alias onto a re-admitted, unvalidated target — no AD on either path
example : wireChase [{ kind := .cname, ad := true, ttl := 200, target := 1 }, { kind := .terminal, ad := false, ttl := 60, target := 0 }]
    true 7500 false = some { hops := 2, ad := false, infoAD := false, ttls := [192, 52] } := by decide

/-- **The byte path's ancestor walk visits exactly the decoded path's
ancestors, the root included.** For every name of well-formed labels,
`walkWireSuffixes` over the wire form — the walk behind the wire cut lookup,
the wire failure-zone lookup and the miss-witness hold check — hands its
visitor the wire form of the name, of every parent and finally of the root,
in the order `walkFailureZones` / `denialProofAncestors` visit them on the
decoded side: no denial, cut or failure zone at any depth (a root-zone NSEC
proof denying a nonexistent TLD, say) is visible to one path and not the other. -/
theorem wire_suffix_walk_eq_decoded : ∀ (labels : List Bytes) (fuel : Nat),
    (∀ l ∈ labels, 1 ≤ l.length ∧ l.length ≤ 63) → labels.length + 1 ≤ fuel →
    walkWireSuffixes fuel (encName labels) = (decodedAncestors labels).map encName
  | [], fuel, _, hf => by
    match fuel, hf with
    | f + 1, _ => simp [walkWireSuffixes, encName, decodedAncestors]
  | l :: t, fuel, hl, hf => by
    match fuel, hf with
    | f + 1, hf =>
      have h1 := hl l (List.mem_cons_self ..)
      have ih := wire_suffix_walk_eq_decoded t f (fun x hx => hl x (List.mem_cons_of_mem _ hx))
        (by simp only [List.length_cons] at hf; omega)
      have hc : ¬ (l.length = 0 ∨ l.length > 63 ∨ (l ++ encName t).length < l.length) := by
        simp only [List.length_append]; omega
      simp only [encName, walkWireSuffixes, hc, if_false, decodedAncestors, List.map_cons, List.drop_left', ih]

-- non-vacuity: www.example. — three suffixes, the last one the root octet
example : walkWireSuffixes 8 (encName [[119, 119, 119], [101, 120]]) =
    [[3, 119, 119, 119, 2, 101, 120, 0], [2, 101, 120, 0], [0]] := by decide

/-- **The two admission layers nest.** Every packet the strict path admits
(`ParseWire`) carries a header the engines' gate (`acceptHeader`, the same
function on the ring path, the inline reader pass and the TCP engine) accepts:
no packet is served from bytes that an engine would have ignored or rejected
with NOTIMP / FORMERR. -/
theorem strict_admission_within_engine_gate (raw : Bytes) (f : Facts) (h : parseWire raw = some f) :
    ∃ i1 i0 f1 f0 q1 q0 a1 a0 n1 n0 r1 r0 body,
      raw = i1 :: i0 :: f1 :: f0 :: q1 :: q0 :: a1 :: a0 :: n1 :: n0 :: r1 :: r0 :: body ∧
      acceptVerdict (u16 f1 f0) (u16 q1 q0) (u16 a1 a0) (u16 n1 n0) (u16 r1 r0) = 0 := by
  unfold parseWire at h
  split at h
  · rename_i i1 i0 f1 f0 q1 q0 a1 a0 n1 n0 r1 r0 body
    refine ⟨i1, i0, f1, f0, q1, q0, a1, a0, n1, n0, r1, r0, body, rfl, ?_⟩
    simp only at h
    by_cases hq : (u16 f1 f0 >>> 11) &&& 0xF ≠ 0 ∨ u16 f1 f0 &&& 0x8000 ≠ 0
    · simp [hq] at h
    · by_cases hcnt : u16 q1 q0 ≠ 1 ∨ u16 a1 a0 ≠ 0 ∨ u16 n1 n0 ≠ 0 ∨ u16 r1 r0 > 1
      · rw [if_neg hq, if_pos hcnt] at h; cases h
      · have h1 : ¬ (u16 f1 f0 &&& 0x8000 ≠ 0) := fun hh => hq (Or.inr hh)
        have h2 : ¬ ((u16 f1 f0 >>> 11) &&& 0xF ≠ 0) := fun hh => hq (Or.inl hh)
        unfold acceptVerdict
        rw [if_neg h1, if_neg (fun hh => h2 hh.1), if_neg (by omega)]
  · cases h

/-- The model's header gate is the compiled one: the real `acceptHeader` over
QR x every opcode, and over each count around its bound. -/
theorem engine_gate_matches_tree :
    SdnsVerif.Gen.C05.acceptHeader_by_qr_opcode =
      ((List.range 2).flatMap fun qr => (List.range 16).map fun op => acceptVerdict (qr * 2 ^ 15 + op * 2 ^ 11) 1 0 0 0) ∧
    SdnsVerif.Gen.C05.acceptHeader_by_counts =
      [(0, 0, 0, 0), (1, 0, 0, 0), (2, 0, 0, 0), (1, 1, 0, 0), (1, 2, 0, 0), (1, 0, 1, 0), (1, 0, 2, 0), (1, 0, 0, 2), (1, 0, 0, 3),
       (1, 1, 1, 2), (256, 0, 0, 0)].map (fun c => acceptVerdict 0x0100 c.1 c.2.1 c.2.2.1 c.2.2.2) := by
  decide

-- non-vacuity: an UPDATE (opcode 5) is NOTIMP on every engine path, a plain query is accepted
example : acceptVerdict 0x2800 1 0 0 0 = 2 ∧ rejectRcode 2 = 4 ∧ acceptVerdict 0x0100 1 0 0 1 = 0 := by decide

/-- the wire body's folded key is the decoded body's lookup key, for every spelling of every name -/
theorem foldedKey_eq_lookupKey (labels : List Str) : foldedKey labels = lookupKey (present labels) := by
  unfold foldedKey lookupKey present
  by_cases h : labels = []
  · subst h; decide
  · simp only [h, if_false, List.getLast?_append, List.getLast?_singleton, Option.some_or, if_true, List.dropLast_concat]
    rw [map_lower_joinDots]

/-- **hostsfile: the wire branch answers exactly what the decoded body
answers** — same hand-on to the next handler, same answer records — for every
hosts database (entries, wildcards, reverse names), every name in every
letter case and every qtype: both bodies index the database with the same
folded key, and PTR questions reach the case-sensitive reverse-IP parser in
the client's own spelling on both. -/
theorem hosts_wire_eq_msg (db : HostsDB) (labels : List Str) (qtype : Nat) :
    hostsWire db labels qtype = hostsMsg db labels qtype := by
  unfold hostsWire hostsMsg
  rw [foldedKey_eq_lookupKey]

/-- … and the key does not depend on the letter case the client chose (0x20): a
hit in one spelling is a hit in every spelling, on both paths — except PTR, where
the spelling reaches the reverse-IP parser unchanged on both. -/
theorem hosts_key_case_insensitive (labels labels' : List Str)
    (h : labels.map (·.map lowerChar) = labels'.map (·.map lowerChar)) :
    foldedKey labels = foldedKey labels' ∧ lookupKey (present labels) = lookupKey (present labels') := by
  refine ⟨by unfold foldedKey; rw [h], ?_⟩
  rw [← foldedKey_eq_lookupKey, ← foldedKey_eq_lookupKey]; unfold foldedKey; rw [h]

-- non-vacuity: a mixed-case spelling of a host with an A record; an upper-case reverse name misses on both
example :
    let db : HostsDB := { hosts := [⟨"host1.zt".toList, true, false, false⟩], wildcards := [⟨"wild.zt".toList, true, false⟩],
                          ptrs := ["10.2.0.192.in-addr.arpa.".toList] }
    hostsWire db ["HoSt1".toList, "ZT".toList] 1 = .reply [1] ∧ hostsMsg db ["HoSt1".toList, "ZT".toList] 1 = .reply [1] ∧
    hostsWire db ["a".toList, "wild".toList, "zt".toList] 1 = .reply [1] ∧
    hostsWire db ["10".toList, "2".toList, "0".toList, "192".toList, "IN-ADDR".toList, "arpa".toList] 12 = .next := by
  decide

/-- **The decoded continuation of a wire-born request sees what a decoded
request would have seen.** For every well-formed strict-path query `m`, the
handler behind edns that materializes the request reads — on the wire-born
request (`Request.materialize` + `Chain.detachStrictContext`) exactly as on the
message-born one (`SetEdns0` in the decoded body) — the same id, flag word and
question, the same normalized OPT (one OPT, advertised size, DO forced, version
0, every client option stripped) and the same client-subnet marker on its
context (so the shared RFC 8020 / 8198 state is bypassed or not on both alike);
a version other than 0 is BADVERS on both before any handler behind edns runs. -/
theorem continuation_wire_eq_msg (m : SMsg) (hwf : m.WF) : contWire (factsOf m) = contMsg m := by
  have hop : (m.flags >>> 11) % 2 ^ 4 = 0 := hwf.opcode0
  have hop' : ((m.flags >>> 11) &&& 0xF == 0) = true := by
    have := Nat.and_two_pow_sub_one_eq_mod (m.flags >>> 11) 4
    rw [show (0xF : Nat) = 2 ^ 4 - 1 from rfl, this, hop]; rfl
  unfold contWire contMsg ednsWireBranch
  cases hopt : m.opt with
  | none => simp [factsOf, hopt, hop, hop']
  | some o =>
    by_cases hv : o.version = 0
    · simp [factsOf, hopt, hop, hop', optFactsOf, hv]
    · have hv' : (o.version == 0) = false := by simpa using hv
      simp [factsOf, hopt, hop, hop', optFactsOf, hv, hv']

/-- … stated on the packet: for whatever `ParseWire` admits, the continuation behind the
wire branch is the continuation of the decoded entry for the same packet. -/
theorem admitted_packet_same_continuation (raw : Bytes) (f : Facts) (hb : ∀ x ∈ raw, x < 256) (h : parseWire raw = some f) :
    ∃ m : SMsg, m.WF ∧ m.encode = raw ∧ contWire f = contMsg m := by
  obtain ⟨m, hwf, henc, hf⟩ := parseWire_refines_spec raw f hb h
  exact ⟨m, hwf, henc, hf ▸ continuation_wire_eq_msg m hwf⟩

-- non-vacuity: a query with a client-subnet option and a cookie: marker set, options gone, DO forced
def exampleECSQuery : SMsg :=
  { id := 7, flags := 0x0100, labels := [[119]], qtype := 1, qclass := 1,
    opt := some { udpSize := 4096, version := 0, zflags := 0, options := [⟨10, [1, 2, 3, 4, 5, 6, 7, 8]⟩, ⟨8, [0, 1, 24, 0, 198, 51, 100]⟩] } }
example : contMsg exampleECSQuery =
    .seen { ecsMarker := true, id := 7, flags := 0x0100, labels := [[119]], qtype := 1, qclass := 1, optUDPSize := 1232, optDO := true,
            optVersion := 0, optOptions := 0 } := by decide

/-! ## 6. Facts regenerated from the tree (one-directional side conditions) -/

/-- The real `ApplyReply` / `ClearAD`, evaluated on every single-bit word (and
on every opcode), agree with the model: the bit masks and the opcode field
position the theorems above talk about are the ones compiled into the code. -/
theorem flag_masks_match_tree :
    SdnsVerif.Gen.C05.applyReply_single_bits = (List.range 16).map (fun i => applyReply (2 ^ i) 0 false false) ∧
    SdnsVerif.Gen.C05.applyReply_single_bits_op15_rd_cd = (List.range 16).map (fun i => applyReply (2 ^ i) 15 true true) ∧
    SdnsVerif.Gen.C05.applyReply_opcodes = (List.range 16).map (fun op => applyReply 0 op false false) ∧
    SdnsVerif.Gen.C05.clearAD_single_bits = (List.range 16).map (fun i => clearAD (2 ^ i)) ∧
    SdnsVerif.Gen.C05.flagQR = FlagQR ∧ SdnsVerif.Gen.C05.flagAA = FlagAA ∧ SdnsVerif.Gen.C05.flagTC = FlagTC ∧
    SdnsVerif.Gen.C05.flagRD = FlagRD ∧ SdnsVerif.Gen.C05.flagRA = FlagRA ∧ SdnsVerif.Gen.C05.flagAD = FlagAD ∧
    SdnsVerif.Gen.C05.flagCD = FlagCD ∧ SdnsVerif.Gen.C05.flagOpcodeMsk = FlagOpcodeMsk ∧
    SdnsVerif.Gen.C05.flagOpcodeSh = FlagOpcodeSh := by
  decide

/-- The sizes and codes the byte-built OPT is made of are the model's. -/
theorem opt_constants_match_tree :
    SdnsVerif.Gen.C05.optFixedLen = optFixedLen ∧ SdnsVerif.Gen.C05.optOptionHdrLen = optOptionHdrLen ∧
    SdnsVerif.Gen.C05.serverCookieLen = serverCookieLen ∧ SdnsVerif.Gen.C05.clientCookieHexLen = clientCookieHexLen ∧
    SdnsVerif.Gen.C05.tcpKeepaliveUnits = tcpKeepaliveUnits ∧
    SdnsVerif.Gen.C05.codeCookie = 10 ∧ SdnsVerif.Gen.C05.codeNSID = 3 ∧ SdnsVerif.Gen.C05.codeKeepalive = 11 ∧
    SdnsVerif.Gen.C05.codeEDE = 15 ∧ SdnsVerif.Gen.C05.codeSubnet = 8 ∧ SdnsVerif.Gen.C05.codePadding = 12 ∧
    SdnsVerif.Gen.C05.typeOPT = 41 ∧ SdnsVerif.Gen.C05.headerLen = 12 ∧
    -- a preflight that passed can never be followed by a late cookie refusal
    SdnsVerif.Gen.C05.maxTextualAddrLen ≥ maxTextualAddrLen ∧ SdnsVerif.Gen.C05.cookiePreimageMax = cookiePreimageMax := by
  decide

/-- What the real `ParseWire` accepts on the probe tables stays inside what
the specification allows (a change that admits MORE breaks this; admitting
less only sends more packets to the decoded entry and is harmless). -/
theorem parsewire_boundaries_within_spec :
    (∀ n ∈ SdnsVerif.Gen.C05.parsewire_cookie_lens_ok, 8 ≤ n ∧ n ≤ 40) ∧
    (∀ n ∈ SdnsVerif.Gen.C05.parsewire_keepalive_lens_ok, n = 0 ∨ n = 2) ∧
    (∀ c ∈ SdnsVerif.Gen.C05.parsewire_option_codes_ok, c = 3 ∨ c = 8 ∨ c = 10 ∨ c = 11 ∨ c = 12) ∧
    SdnsVerif.Gen.C05.parsewire_two_cookies_ok = false ∧
    SdnsVerif.Gen.C05.parsewire_max_label ≤ 63 ∧ SdnsVerif.Gen.C05.parsewire_max_name ≤ 255 := by
  decide

/-- The hypotheses the branch theorems carry are facts of the tree: every
built-in empty zone (configured zones must lie at or below one) ends in
`arpa` (`as112_wire_eq_msg`), every record type a validated NXDOMAIN proof
is made of — SOA, RRSIG, NSEC, NSEC3 — is one the wire composer re-encodes,
so no recorded cut is invisible to the byte-side index (`ladder_agree`,
hypothesis `cutWire = cut`), and the edns size constants are the model's. -/
theorem branch_hypotheses_match_tree :
    SdnsVerif.Gen.C05.as112_zone_last_labels = ["arpa"] ∧
    (∀ t ∈ [6, 46, 47, 50], t ∈ SdnsVerif.Gen.C05.wire_recomposable_types) ∧
    -- … and nothing the model does not know is copied verbatim (a type whose RDATA names the packer
    -- compresses — PTR, NS, MX, SRV … — must stay on the decoded path)
    SdnsVerif.Gen.C05.wire_recomposable_types = recomposableTypes ∧
    SdnsVerif.Gen.C05.minMsgSizeLib = MinMsgSize ∧ SdnsVerif.Gen.C05.maxMsgSizeLib = MaxMsgSize ∧
    SdnsVerif.Gen.C05.defaultMsgSize = DefaultMsgSize := by
  decide

end SdnsVerif.Props.C05
