import SdnsVerif.Model.OneReply
import SdnsVerif.Lemmas.OneReply
import SdnsVerif.Gen.C11
/-!
# C11 — exactly one reply per admitted query, whatever upstreams do

Property theorems only (helper lemmas live in `Lemmas/OneReply.lean`).

PARTIAL: what is proved is *at most once* and the dedup protocol over all
interleavings of its lock-atomic steps.  Latency, socket faults and goroutine
quiescence are runtime matters; they are explored by the system-level oracle
of `harness/c11`, not proved.
-/
namespace SdnsVerif.Props.C11
open SdnsVerif.Model.OneReply SdnsVerif.Lemmas.OneReply

/-! ## the written flag -/

/-- **At most one transport write.**  For EVERY sequence of calls on a
request's writer (Write, WriteMsg, WriteWire, BeginWire, CommitWire,
AbortWire, in any order, any arguments, any transport errors, direct-pack or
not, internal or not) at most one call reaches the transport. -/
theorem at_most_one_transport_write (directPack internal : Bool) (cs : List Call) :
    ((({} : Writer).reset directPack internal).run cs).tx.length ≤ 1 := by
  have h := winv_run _ cs (winv_reset {} directPack internal)
  obtain ⟨h1, h2⟩ := h
  cases hw : ((({} : Writer).reset directPack internal).run cs).written
  · rw [h2 hw]; exact Nat.zero_le _
  · rw [h1 hw]; exact Nat.le_refl _

/-- **Later writes are refused**: once anything was written every write-type
call returns the already-written error and changes nothing. -/
theorem later_writes_return_already_written (w : Writer) (c : Call)
    (hw : w.written = true) (hc : c.isWrite = true) : w.call c = (w, .already) :=
  refused w c hw hc

/-- …and on the other side: the transport is reached exactly once iff some
call of the sequence carried a sendable response (so a chain that answers
does answer, and one that does not stays silent). -/
theorem exactly_one_iff_some_call_sends (directPack internal : Bool) (cs : List Call) :
    ((({} : Writer).reset directPack internal).run cs).tx.length = if cs.any Call.sends then 1 else 0 := by
  have := any_sends _ cs (winv_reset {} directPack internal)
  simpa [Writer.reset] using this

/-- A pooled chain's `Reset` re-arms the writer: whatever happened on the
previous request, the next request's first sending call is transmitted. -/
theorem reset_rearms (w : Writer) (d i : Bool) (c : Call) (hc : c.sends = true) :
    ((w.reset d i).call c).1.tx.length = 1 := by
  have := any_sends (w.reset d i) [c] (winv_reset w d i)
  simpa [Writer.run, Writer.reset, hc] using this

/-- **At most one transport write through the whole writer stack.**  For
EVERY sequence of WriteMsg / WriteWire / CommitWire calls on the top of the
stack (cache wrapper present or not, any edns configuration, any bodies, any
transport errors), at most one call reaches the transport. -/
theorem stack_at_most_one_transport_write (cacheLayer directPack internal : Bool) (c : EdnsCfg) (xs : List SCall) :
    (stackRun cacheLayer c (({} : Writer).reset directPack internal) xs).tx.length ≤ 1 := by
  obtain ⟨h1, h2⟩ := winv_stackRun cacheLayer c _ xs (winv_reset {} directPack internal)
  cases hw : (stackRun cacheLayer c (({} : Writer).reset directPack internal) xs).written
  · rw [h2 hw]; exact Nat.zero_le _
  · rw [h1 hw]; exact Nat.le_refl _

/-- **A wire fallback has written nothing** — so the caller that retakes the
Msg path after `ErrWireFallback` cannot produce a second reply, and (on a
writer nothing was written to yet) its WriteMsg is the one transmitted. -/
theorem wire_fallback_writes_nothing (cacheLayer : Bool) (c : EdnsCfg) (w : Writer) (x : SCall)
    (h : (stackCall cacheLayer c w x).2 = .fallback ∨ (stackCall cacheLayer c w x).2 = .notWire) :
    (stackCall cacheLayer c w x).1 = w ∧
    (w.written = false → WInv w → ∀ p t, (stackCall cacheLayer c (stackCall cacheLayer c w x).1 (.writeMsg p t)).1.tx.length = 1) := by
  have hsame : (stackCall cacheLayer c w x).1 = w := by
    cases x with
    | writeMsg p t => rcases h with h | h <;> simp [stackCall] at h
    | writeWire b t =>
      simp only [stackCall] at h ⊢
      by_cases hc : cacheLayer = true
      · simp [hc]
      · simp only [hc, Bool.false_eq_true, if_false] at h ⊢
        cases hf : ednsWireForward c b with
        | none => rfl
        | some n => simp [hf] at h
    | commitWire b t =>
      simp only [stackCall] at h ⊢
      by_cases hc : cacheLayer = true
      · simp [hc]
      · simp only [hc, Bool.false_eq_true, if_false] at h ⊢
        cases hf : ednsWireForward c b with
        | none => rfl
        | some n => simp [hf] at h
  refine ⟨hsame, ?_⟩
  intro hw hinv p t
  rw [hsame]
  have := any_sends w [.writeMsg (p || !c.noedns) t] hinv
  simpa [Writer.run, stackCall, hw, Call.sends] using this

/-- The compiled writer agrees with the model on its whole decision table
(regenerated from the tree: every call kind on an unwritten and on a written
writer → reached the transport?, returned already-written?, written after?). -/
def modelTable : List (List Nat) :=
  let calls : List Call := [.write true false, .write false false, .writeMsg true false, .writeMsg false false,
    .writeWire false, .beginWire 10 2 none, .commitWire false, .abortWire]
  let b (x : Bool) : Nat := if x then 1 else 0
  [false, true].flatMap fun pre =>
    calls.map fun c =>
      let w0 : Writer := { written := pre, tx := if pre then [.bytes] else [] }
      let r := w0.call c
      [b pre, r.1.tx.length - w0.tx.length, b (r.2 == .already), b r.1.written]

theorem writer_table_matches_tree : SdnsVerif.Gen.C11.rw_table = modelTable := by decide

/-! ## the wait group, over all step lists -/

/-- **One leader per generation.**  In every execution (any list of
Join/Regroup/Done/timeout steps, i.e. any interleaving of any number of
callers) leadership is handed out exactly once for each generation that
exists, in creation order, and for nothing else. -/
theorem one_leader_per_generation (ops : List Op) (g : Nat) :
    (leaders (WG.run {} ops).2).count g = if g < (WG.run {} ops).1.gens.length then 1 else 0 := by
  have := leaders_run {} ops
  simp only [List.length_nil, Nat.sub_zero] at this
  rw [this, ← List.range_eq_range', List.count_range]

/-- **All followers of a generation agree on its successor.**  Once some
caller regrouped from `p` and was handed `n`, every later Regroup from `p`
— under any key, after any further steps of anybody — is handed the same
`n` as a follower (unless `p` is a timed-out tombstone, which is never
replaced: see `tombstone_never_replaced`). -/
theorem regroup_unique_next (w : WG) (k1 k2 p : Nat) (gp : Gen) (ops : List Op)
    (hp : w.gens[p]? = some gp) (hd : gp.ctx ≠ .deadline)
    (gp2 : Gen) (hp2 : (WG.run (w.regroup k1 (some p)).1 ops).1.gens[p]? = some gp2) (hd2 : gp2.ctx ≠ .deadline) :
    (WG.run (w.regroup k1 (some p)).1 ops).1.regroup k2 (some p)
      = ((WG.run (w.regroup k1 (some p)).1 ops).1, (w.regroup k1 (some p)).2.1, false) := by
  obtain ⟨g', hg', hn⟩ := regroup_sets_next w k1 p gp hp hd
  obtain ⟨g'', hg'', hn''⟩ := gen_run (P := fun g => g.next = some (w.regroup k1 (some p)).2.1)
    (fun _ _ r h => next_rel r h) _ ops p g' hg' hn
  rw [hp2] at hg''; cases hg''
  exact regroup_of_next _ k2 p _ gp2 hp2 hd2 hn''

/-- A timed-out generation is a tombstone: Regroup hands it back unchanged
(nobody becomes a second concurrent leader for the key). -/
theorem tombstone_never_replaced (w : WG) (k p : Nat) (gp : Gen) (hp : w.gens[p]? = some gp)
    (hd : gp.ctx = .deadline) : w.regroup k (some p) = (w, p, false) :=
  regroup_tombstone w k p gp hp hd

/-- **A stale leader's Done never deletes a newer generation**, and never
touches another key. -/
theorem stale_done_keeps_newer (w : WG) (k g g' : Nat) (h : w.groups k = some g') (hne : g' ≠ g) :
    (w.done k g).groups k = some g' ∧ ∀ k', k' ≠ k → (w.done k g).groups k' = w.groups k' :=
  ⟨done_keeps_newer w k g g' h hne, fun k' hk => done_keeps_other w k g k' hk⟩

/-- **Followers are always released (wait-group level).**  In every
reachable state of the wait group, for every generation: the channel its
followers select on is closed exactly when its leader has called
DoneGeneration or its bounded wait has expired.  There is no reachable state
in which the leader is done or timed out and a follower still waits. -/
theorem followers_always_released (ops : List Op) (j : Nat) (g : Gen)
    (hj : (WG.run {} ops).1.gens[j]? = some g) :
    (g.leaderDone = true ∨ g.timerFired = true) ↔ g.closed = true :=
  (allG_run ginv_fresh (fun _ _ => ginv_rel) {} ops (by intro j g h; simp at h) j g hj).1

/-- …because on this API a generation is never shared between leaders
(`dups = 1`), so the leader's DoneGeneration always reaches `cancel()`. -/
theorem done_always_cancels (ops : List Op) (k j : Nat) (g : Gen)
    (hj : (WG.run {} ops).1.gens[j]? = some g) :
    ∃ g', ((WG.run {} ops).1.done k j).gens[j]? = some g' ∧ g'.leaderDone = true ∧ g'.closed = true :=
  done_closes _ k j g hj
    (allG_run ginv_fresh (fun _ _ => ginv_rel) {} ops (by intro j g h; simp at h) j g hj).2

/-! ## the dedup loop, for every observation stream -/

def procInit (key : Nat) (probe internal : Bool) : Proc :=
  { key := key, failureProbe := probe, internal := internal }

/-- **The dedup loop terminates with an explicit bound.**  Whatever the wait
group answers, whatever the cache holds and whenever the client's context
ends (an arbitrary event stream), a request enters the loop head at most
`limit + 2` times and calls JoinGeneration/Regroup at most `limit + 1`
times, `limit = maxFailureProbeRegroups`. -/
theorem dedup_loop_terminates (limit key : Nat) (probe internal : Bool) (evs : List PEvent) :
    let p := evs.foldl (Proc.apply limit) (procInit key probe internal)
    p.heads ≤ limit + 2 ∧ p.calls ≤ limit + 1 ∧ p.regroups ≤ limit := by
  have h := loopInv_events limit _ evs (loopInv_init limit key probe internal)
  obtain ⟨h1, _, h3, h4, _, _, _, _⟩ := h
  simp only [procInit]
  refine ⟨by omega, by omega, h1⟩

/-- with the limit compiled into the tree: at most three loop-head entries,
at most two waits per request (and the constant stays small). -/
theorem dedup_loop_bound_in_tree (key : Nat) (probe internal : Bool) (evs : List PEvent) :
    (evs.foldl (Proc.apply SdnsVerif.Gen.C11.regroup_limit) (procInit key probe internal)).heads
      ≤ SdnsVerif.Gen.C11.regroup_limit + 2 ∧ SdnsVerif.Gen.C11.regroup_limit + 2 ≤ 10 :=
  ⟨(dedup_loop_terminates _ key probe internal evs).1, by decide⟩

/-- **Every request has one outcome.**  At no point has a request written
twice, and a request that terminated either wrote exactly once or ended
without a reply because its OWN client context was cancelled (a deadline
yields a SERVFAIL, never silence). -/
theorem each_process_one_outcome (limit key : Nat) (probe internal : Bool) (evs : List PEvent) :
    let p := evs.foldl (Proc.apply limit) (procInit key probe internal)
    p.writes ≤ 1 ∧
    ∀ o, p.pc = .terminated o →
      (p.writes = 1 ∧ o ≠ .canceled) ∨ (p.writes = 0 ∧ o = .canceled ∧ p.ctx = .canceled) := by
  have h := outInv_events limit (procInit key probe internal) evs (by simp [OutInv, procInit])
  simp only
  generalize evs.foldl (Proc.apply limit) (procInit key probe internal) = p at h
  unfold OutInv at h
  constructor
  · cases hpc : p.pc <;> simp only [hpc] at h
    · omega
    · omega
    · omega
    · rename_i g o; obtain ⟨h1, _⟩ := h; cases o <;> simp [Outcome.writes] at h1 <;> omega
    · rename_i o; obtain ⟨h1, _⟩ := h; cases o <;> simp [Outcome.writes] at h1 <;> omega
  · intro o hpc
    simp only [hpc] at h
    obtain ⟨h1, h2, _⟩ := h
    cases o <;> simp_all [Outcome.writes]

/-- a SERVFAIL for an expired request is produced only when that request's
own deadline passed (never because of somebody else's) -/
theorem timeout_failure_is_own (limit key : Nat) (probe internal : Bool) (evs : List PEvent) :
    let p := evs.foldl (Proc.apply limit) (procInit key probe internal)
    p.pc = .terminated .timeoutFail → p.ctx = .deadline := by
  have h := outInv_events limit (procInit key probe internal) evs (by simp [OutInv, procInit])
  simp only
  generalize evs.foldl (Proc.apply limit) (procInit key probe internal) = p at h
  intro hpc
  unfold OutInv at h
  simp only [hpc] at h
  exact h.2.2 rfl

/-- **An expired request is never silent.**  Whatever happened, a request
whose own deadline has passed (on the clock — `EffectiveError`, not only once
the context's timer has fired) and that terminated wrote exactly one reply. -/
theorem expired_never_silent (limit key : Nat) (probe internal : Bool) (evs : List PEvent) :
    let p := evs.foldl (Proc.apply limit) (procInit key probe internal)
    p.ctx = .deadline → ∀ o, p.pc = .terminated o → p.writes = 1 := by
  have h := each_process_one_outcome limit key probe internal evs
  simp only at h ⊢
  intro hd o hpc
  rcases h.2 o hpc with h1 | ⟨_, _, hc⟩
  · exact h1.1
  · rw [hd] at hc; cases hc

/-- `EffectiveError` is nil only for a context that published no error and
whose deadline (if any) has not been reached: the window "deadline passed,
timer not fired yet" counts as expired. -/
theorem effective_error_spec (err : CtxErr) (hasDeadline clockPast : Bool) :
    (effectiveError err hasDeadline clockPast = .none ↔ err = .none ∧ ¬ (hasDeadline = true ∧ clockPast = true)) ∧
    (err ≠ .none → effectiveError err hasDeadline clockPast = err) ∧
    effectiveError .none true true = .deadline := by
  cases err <;> cases hasDeadline <;> cases clockPast <;> simp [effectiveError]

/-- the two places the cache notices an expired request (leader elected as
the budget ends; follower woken by its leader or by its own Done) both end in
exactly one SERVFAIL and no downstream resolution, for a late timer as for a
fired one. -/
theorem expired_scenarios_answer_servfail (limit : Nat) (leader byLeader : Bool) (err : CtxErr)
    (h : effectiveError err true true = .deadline) :
    (procScenario limit leader (effectiveError err true true) byLeader).pc = .terminated .timeoutFail ∧
    (procScenario limit leader (effectiveError err true true) byLeader).writes = 1 := by
  rw [h]
  cases leader <;> cases byLeader <;>
    simp [procScenario, Proc.step, Proc.headCall, Proc.finish, stopCanceled, Outcome.writes]

/-! ## the composed system: all interleavings of any number of requests -/

/-- every request of the composed system obeys the single-request theorems -/
theorem sys_each_request_one_outcome (limit : Nat) (ls : List Label) (i : Nat) (p : Proc)
    (hp : (Sys.run limit {} ls).procs[i]? = some p) :
    p.writes ≤ 1 ∧ p.heads ≤ limit + 2 ∧
    ∀ o, p.pc = .terminated o →
      (p.writes = 1 ∧ o ≠ .canceled) ∨ (p.writes = 0 ∧ o = .canceled ∧ p.ctx = .canceled) := by
  have h := allP_run (P := fun p => OutInv p ∧ LoopInv limit p) limit
    (fun key probe internal => ⟨by simp [OutInv], loopInv_init limit key probe internal⟩)
    (fun p o h => ⟨outInv_step limit p o h.1, loopInv_step limit p o h.2⟩)
    (fun p d h => ⟨outInv_endCtx p d h.1, loopInv_endCtx limit p d h.2⟩)
    {} ls (by intro i p h; simp at h) i p hp
  obtain ⟨ho, h1, _, h3, h4, _, _, _, _⟩ := h
  unfold OutInv at ho
  refine ⟨?_, by omega, ?_⟩
  · cases hpc : p.pc <;> simp only [hpc] at ho
    · omega
    · omega
    · omega
    · rename_i g o; obtain ⟨h1, _⟩ := ho; cases o <;> simp [Outcome.writes] at h1 <;> omega
    · rename_i o; obtain ⟨h1, _⟩ := ho; cases o <;> simp [Outcome.writes] at h1 <;> omega
  · intro o hpc
    simp only [hpc] at ho
    obtain ⟨h1, h2, _⟩ := ho
    cases o <;> simp_all [Outcome.writes]

/-- **Followers are always released (composed system).**  In every reachable
state of any number of requests sharing one wait group, a follower waiting
on generation `g` is either runnable right now (its generation is closed or
its own context ended), or the request that leads `g` is itself runnable and
still owes its deferred DoneGeneration — leaders never wait, so no request
is ever wedged behind a finished, cancelled or timed-out leader, and the
generation token it holds is always one the wait group handed out. -/
theorem sys_followers_always_released (limit : Nat) (ls : List Label) (i g : Nat) (p : Proc)
    (hp : (Sys.run limit {} ls).procs[i]? = some p) (hw : p.pc = .waiting g) :
    (Sys.run limit {} ls).enabled i = true ∨
    ∃ q pq, (Sys.run limit {} ls).leaderOf[g]? = some q ∧ (Sys.run limit {} ls).procs[q]? = some pq ∧
      Leads pq g ∧ (Sys.run limit {} ls).enabled q = true := by
  have inv := sinv_run limit {} ls sinv_init
  generalize Sys.run limit {} ls = s at hp inv
  have hg : g < s.wg.gens.length := (inv.tok i p hp).1 g hw
  have hl : g < s.leaderOf.length := by rw [inv.len]; exact hg
  obtain ⟨pq, gg, hpq, hgg, hor⟩ := inv.lead g s.leaderOf[g] (List.getElem?_eq_getElem hl)
  rcases hor with hlead | hdone
  · right
    refine ⟨s.leaderOf[g], pq, List.getElem?_eq_getElem hl, hpq, hlead, ?_⟩
    simp only [Sys.enabled, hpq]
    rcases hlead with h | ⟨o, h⟩ <;> simp [h]
  · left
    have hc : gg.closed = true := ((inv.ginv g gg hgg).1).mp (Or.inl hdone)
    simp [Sys.enabled, hp, hw, genClosed, hgg, hc]

/-- one leader request per generation in the composed system: the
leadership table has exactly one entry per generation -/
theorem sys_one_leader_per_generation (limit : Nat) (ls : List Label) :
    (Sys.run limit {} ls).leaderOf.length = (Sys.run limit {} ls).wg.gens.length :=
  (sinv_run limit {} ls sinv_init).len

/-! ## the UDP job: staged reply is terminal, one replay at most -/

/-- **A staged reply is terminal over hand-off**: when the inline pass wrote,
the job is never replayed (even if a handler also marked hand-off) and exactly
one datagram leaves. -/
theorem staged_reply_terminal (inline replay : Pass) (workerBurst : Bool) (h : inline.txCalls > 0) :
    (jobRun inline replay workerBurst).replays = 0 ∧ (jobRun inline replay workerBurst).datagrams = 1 := by
  simp [jobRun, h]

/-- **Replay at most once; every job path ends in one release.** -/
theorem replay_at_most_once (inline replay : Pass) (workerBurst : Bool) :
    (jobRun inline replay workerBurst).replays ≤ 1 ∧ (jobRun inline replay workerBurst).releases = 1 ∧
    ((jobRun inline replay workerBurst).replays = 1 → inline.handoff = true ∧ inline.txCalls = 0) := by
  unfold jobRun
  by_cases h1 : inline.txCalls > 0
  · simp [h1]
  · by_cases h2 : (inline.panicked || !inline.handoff) = true
    · simp [h1, h2]
    · simp only [h1, h2]
      simp at h2 h1
      simp [h1, h2]

/-- **At most one datagram per UDP job**, for EVERY pair of handler call
sequences on the inline pass and on the replay pass (each pass gets a freshly
reset writer), with or without a send burst on the worker. -/
theorem job_at_most_one_datagram (d1 i1 d2 i2 h1 h2 pn workerBurst : Bool) (cs1 cs2 : List Call) :
    (jobRun ⟨((({} : Writer).reset d1 i1).run cs1).tx.length, h1, pn⟩
            ⟨((({} : Writer).reset d2 i2).run cs2).tx.length, h2, false⟩ workerBurst).datagrams ≤ 1 := by
  have a := at_most_one_transport_write d1 i1 cs1
  have b := at_most_one_transport_write d2 i2 cs2
  unfold jobRun sendsOf
  simp only
  split
  · exact Nat.le_refl _
  · split
    · exact Nat.zero_le _
    · split
      · split
        · exact Nat.le_refl _
        · exact Nat.zero_le _
      · exact b

/-- a job that never went inline (ring / overflow goroutine) -/
theorem served_job_at_most_one_datagram (d i h burst : Bool) (cs : List Call) :
    (jobServe ⟨((({} : Writer).reset d i).run cs).tx.length, h, false⟩ burst).datagrams ≤ 1 := by
  have a := at_most_one_transport_write d i cs
  unfold jobServe sendsOf
  simp only
  split
  · split
    · exact Nat.le_refl _
    · exact Nat.zero_le _
  · exact a

/-! ## the worker's TX burst: finished replies do not wait out a resolution -/

/-- **No staged reply is held across a slow path**, and **every reply leaves
exactly once, in order**: for every sequence of fast-path replies, slow-path
requests and idle moments of a worker, no reply is still staged while a later
request resolves, and `sent ++ staged` is exactly the list of replies produced. -/
theorem staged_replies_leave_before_slow_path (evs : List WEv) :
    (({} : Worker).run evs).held = [] ∧
    (({} : Worker).run evs).sent ++ (({} : Worker).run evs).staged = evs.filterMap WEv.reply := by
  suffices h : ∀ (w : Worker), w.held = [] →
      (w.run evs).held = [] ∧ (w.run evs).sent ++ (w.run evs).staged = w.sent ++ w.staged ++ evs.filterMap WEv.reply by
    simpa using h {} rfl
  induction evs with
  | nil => intro w hw; exact ⟨hw, by simp [Worker.run]⟩
  | cons e es ih =>
    intro w hw
    cases e with
    | quick id =>
      have := ih (w.step (.quick id)) (by simpa [Worker.step] using hw)
      simpa [Worker.run, Worker.step, WEv.reply, List.append_assoc] using this
    | slow id =>
      have := ih (w.step (.slow id)) (by simpa [Worker.step] using hw)
      simpa [Worker.run, Worker.step, WEv.reply, List.append_assoc] using this
    | idle =>
      have := ih (w.step .idle) (by simpa [Worker.step] using hw)
      have hf : (WEv.idle :: es).filterMap WEv.reply = es.filterMap WEv.reply := by
        simp [List.filterMap_cons, WEv.reply]
      rw [hf]
      simpa [Worker.run, Worker.step, List.append_assoc] using this

/-- **A refused destination in a burst costs nobody a second reply**: for
every pattern of refused destinations, after the partial sendmmsg and its
one-by-one fallback each live client has received exactly one datagram (and
a refused one none). -/
theorem partial_batch_sends_each_once (refused : List Bool) :
    sendGroup refused = refused.map (fun r => if r then 0 else 1) := by
  induction refused with
  | nil => rfl
  | cons r rs ih =>
    cases r with
    | true => simp [sendGroup]
    | false =>
      have : sendGroup (false :: rs) = 1 :: sendGroup rs := by
        simp [sendGroup, List.takeWhile_cons]
      rw [this, ih]; rfl

/-! ## ingress: the budget starts when the packet arrives -/

/-- **Queueing never extends the budget.**  On every raw entry — ring,
overflow, TCP frame, inline pass and its replay, wire-born or decoded
fallback alike — the request's deadline is `arrival + QueryTimeout`,
independent of when a worker picks the job up; so a request that ends by its
deadline is answered within QueryTimeout of its arrival. -/
theorem deadline_anchored_at_arrival (i : Ingress) (hi : i ≠ .msg) (strictEligible : Bool)
    (readTime pickup pickup' qto : Nat) :
    ingressDeadline i strictEligible readTime pickup qto = readTime + qto ∧
    ingressDeadline i strictEligible readTime pickup qto = ingressDeadline i (!strictEligible) readTime pickup' qto := by
  cases i <;> simp_all [ingressDeadline]

/-- a job picked up after its budget ran out is not served (it is the KNOWN
finding of notes/C11.md that it is then dropped without a SERVFAIL) -/
theorem expired_at_pickup_not_served (i : Ingress) (hi : i ≠ .msg) (e : Bool) (readTime pickup qto : Nat) :
    ingressServes i e readTime pickup qto = true ↔ pickup < readTime + qto := by
  cases i <;> first
    | exact absurd rfl hi
    | exact decide_eq_true_iff

/-- a write the connection makes with a slab in hand is always given a fresh
`tcpWriteWait` from now: a stale per-frame deadline (already in the past after
a long resolution) can never make the reply's own write fail at once. -/
theorem write_deadline_is_fresh (prev : Option Nat) (now writeWait : Nat) (h : 0 < writeWait) :
    now < beforeWrite prev now writeWait ∧ beforeWrite prev now writeWait = beforeWrite none now writeWait := by
  simp [beforeWrite, h]

theorem write_wait_in_tree : 0 < SdnsVerif.Gen.C11.tcp_write_wait_ms := by decide

/-! ## the per-zone limiter: a refusal leaves nothing behind -/

/-- **The zone limiter counts exactly the lookups in flight.**  For every
sequence of lookups entering (admitted or shed) and admitted lookups
returning, the bucket's counter equals the number of reservations still held
and never exceeds the quota — so once the load stops (`held = 0`) the counter
is zero again and the next client of the zone is admitted, however many
lookups were shed before. -/
theorem zone_limiter_counts_in_flight (perZone : Nat) (ops : List ZOp) :
    let z := ops.foldl (ZL.step perZone) {}
    z.count = z.held ∧ z.count ≤ perZone ∧ (z.held = 0 → 0 < perZone → (z.enter perZone).2 = true) := by
  suffices h : ∀ (z : ZL), z.count = z.held → z.count ≤ perZone →
      (ops.foldl (ZL.step perZone) z).count = (ops.foldl (ZL.step perZone) z).held ∧
      (ops.foldl (ZL.step perZone) z).count ≤ perZone by
    have := h {} rfl (Nat.zero_le _)
    refine ⟨this.1, this.2, ?_⟩
    intro h0 hp
    have hc : (List.foldl (ZL.step perZone) {} ops).count = 0 := by rw [this.1]; exact h0
    simp only [ZL.enter, hc]
    have : ¬ (0 + 1 > perZone) := by omega
    simp [this]
  induction ops with
  | nil => intro z h1 h2; exact ⟨h1, h2⟩
  | cons o os ih =>
    intro z h1 h2
    simp only [List.foldl_cons]
    apply ih
    · cases o with
      | enter =>
        simp only [ZL.step, ZL.enter]
        split
        · exact h1
        · simp [h1]
      | leave =>
        simp only [ZL.step, ZL.leave]
        split
        · exact h1
        · simp [h1]
    · cases o with
      | enter =>
        simp only [ZL.step, ZL.enter]
        split
        · exact h2
        · simp only; omega
      | leave =>
        simp only [ZL.step, ZL.leave]
        split
        · exact h2
        · simp only; omega

/-- every upstream attempt returns its `MaxConcurrentQueries` slot however it
ends, so after any history of attempts the limiter is where it started -/
theorem attempt_slot_returned_on_every_exit (exits : List AttemptExit) : attemptSlots 0 exits = 0 := by
  induction exits with
  | nil => rfl
  | cons e es ih => simpa [attemptSlots] using ih

/-! ## the TCP engine: token class = slab class; every frame has its own budget -/

/-- **Tokens always come home.**  With the token class equal to the slab
class (both `length > tcpSmallFrame`), every frame length served on an idle
engine (all tokens at home, at least one per class) takes and returns a token
of the same class: no `put` ever blocks and the tokens are where they were —
so `Quiesced` holds again after any sequence of frames. -/
theorem tcp_tokens_come_home (smallFrame : Nat) (cap : Tokens) (hs : 0 < cap.small) (hl : 0 < cap.large)
    (lengths : List Nat) :
    lengths.foldl (fun (t : Option Tokens) len =>
      t.bind (fun t => serveFrameTokens (tcpLarge smallFrame) (tcpLarge smallFrame) cap t len)) (some cap) = some cap := by
  induction lengths with
  | nil => rfl
  | cons len rest ih =>
    simp only [List.foldl_cons, Option.bind_some]
    have : serveFrameTokens (tcpLarge smallFrame) (tcpLarge smallFrame) cap cap len = some cap := by
      unfold serveFrameTokens
      cases h : tcpLarge smallFrame len
      · have h0 : cap.small ≠ 0 := by omega
        have h1 : ¬ (cap.small - 1 + 1 > cap.small) := by omega
        have h2 : cap.small - 1 + 1 = cap.small := by omega
        simp [h0, h1, h2]
      · have h0 : cap.large ≠ 0 := by omega
        have h1 : ¬ (cap.large - 1 + 1 > cap.large) := by omega
        have h2 : cap.large - 1 + 1 = cap.large := by omega
        simp [h0, h1, h2]
    rw [this]; exact ih

/-- the compiled `tokens` and `largeClass` agree on every frame length 0..65535 -/
theorem tcp_classes_agree_in_tree : SdnsVerif.Gen.C11.tcp_class_mismatches = [] := by decide

/-- **A later frame is not charged for an earlier one.**  Frames on one
connection are served serially; frame `i+1`'s prefix is read no earlier than
frame `i` finished, so whatever frame `i` took, frame `i+1` still has its
whole QueryTimeout when it is served. -/
theorem pipelined_frame_has_full_budget (finishedPrev prefixRead qto : Nat) (h : finishedPrev ≤ prefixRead) :
    finishedPrev + qto ≤ frameDeadline prefixRead qto ∧ frameDeadline prefixRead qto - prefixRead = qto := by
  unfold frameDeadline; omega

/-- **The listener keeps admitting clients after any Accept error.**  For
every sequence of Accept results that does not contain "listener closed" —
timeouts, temporary and non-temporary errors in any order — every connection
in the sequence is admitted. -/
theorem accept_loop_survives_errors (rs : List AcceptRes) (h : AcceptRes.closed ∉ rs) :
    acceptLoop rs = (rs.filter (· == .conn)).length := by
  induction rs with
  | nil => rfl
  | cons r rest ih =>
    have hr : r ≠ .closed := fun e => h (by simp [e])
    have hrest : AcceptRes.closed ∉ rest := fun m => h (List.mem_cons_of_mem _ m)
    cases r with
    | conn => simp [acceptLoop, acceptLoopContinues, ih hrest]; omega
    | closed => exact absurd rfl hr
    | err t p => simp [acceptLoop, acceptLoopContinues, ih hrest]

/-- root priming never leaves the root set locked, whatever the priming answer carried -/
theorem priming_releases_root_lock (found configured : Nat) : (primingTail found configured).2 = false := by
  unfold primingTail; split <;> rfl

/-- **The connection cap counts exactly the open connections** (`tcpEngine.active`, the same
protocol as the zone limiter: an over-cap arrival is refused without being counted): for every
history of arrivals and departures the counter equals the connections registered, never exceeds the
cap, and once everybody has left the next client is admitted. -/
theorem tcp_conn_cap_counts_connections (cap : Nat) (ops : List ZOp) :
    let z := ops.foldl (ZL.step cap) {}
    z.count = z.held ∧ z.count ≤ cap ∧ (z.held = 0 → 0 < cap → (z.enter cap).2 = true) :=
  zone_limiter_counts_in_flight cap ops

/-- **Every client message id maps to a configured outbound address**: `0 ≤ index < n` for all
65536 ids, whatever the number of configured addresses. -/
theorem dialer_index_in_range (n reqid : Nat) (hn : 0 < n) (hid : reqid < 65536) : dialerIndex n reqid < n := by
  unfold dialerIndex
  apply Nat.div_lt_of_lt_mul
  calc n * reqid < n * 65536 := Nat.mul_lt_mul_of_pos_left hid hn
    _ = 65536 * n := Nat.mul_comm _ _

/-- **A refill is refused only when the buffer is full of unread bytes**: with any room left
(`unread < size`) and bytes ready, `fillMore` reads at least one byte — wherever in the buffer the
unread tail lies, flush against its end included. -/
theorem fill_more_has_room (size start e avail : Nat) (h : e - start < size) (ha : 0 < avail) :
    ∃ r, fillMore size start e avail = some (0, r) ∧ 0 < r := by
  unfold fillMore
  have : ¬ (e - start = size) := by omega
  simp only [this, if_false]
  exact ⟨_, rfl, by omega⟩

/-! ## the TCP connection's drain buffer: every staged reply leaves once, in order -/

/-- **At most once and in order, whatever happens.**  For every interleaving
of replies being staged (any sizes: fitting, overflowing the drain buffer,
larger than it, over dns.MaxMsgSize), flushes and the peer going away at any
point, what reached the connection followed by what is still staged is a
subsequence of the replies handed to `stage`, in their order: no reply is
written twice, none overtakes another, nothing else is written. -/
theorem drain_at_most_once_in_order (drainSize maxMsg : Nat) (ops : List DOp) :
    ((Drain.run drainSize maxMsg {} ops).1.wire ++ (Drain.run drainSize maxMsg {} ops).1.staged).Sublist
      (stagedIds ops) := by
  have := dinv_run drainSize maxMsg {} [] ops ⟨by simp, fun _ => rfl⟩
  simpa using this.1

/-- **Exactly once when no write fails.**  If the peer stays and every reply
fits a DNS message, every `stage` and `flush` succeeds and after the flush the
connection performs before it blocks the wire carries exactly the staged
replies, each once, in order. -/
theorem drain_exactly_once_without_write_errors (drainSize : Nat) (ops : List DOp) (h : noBreak ops = true) :
    ((Drain.run drainSize 65535 {} ops).1.flush).1.wire = stagedIds ops ∧
    ((Drain.run drainSize 65535 {} ops).1.flush).1.staged = [] ∧
    ∀ b ∈ (Drain.run drainSize 65535 {} ops).2, b = true := by
  obtain ⟨h1, h2⟩ := deq_run drainSize {} [] ops h ⟨rfl, rfl, rfl, fun _ => rfl⟩
  obtain ⟨hf, _, hnil, _⟩ := deq_flush _ _ h1
  refine ⟨?_, hnil, h2⟩
  have := hf.1
  rw [hnil, List.append_nil] at this
  simpa using this

/-! ## Resolver.groupLookup: a failed leader's error stays local -/

/-- **Request-local leader errors are not handed to followers.**  A caller
that shared somebody else's round never receives that round's request-local
error (cancellation, deadline, exhausted budget of the OTHER request tree):
it re-enters under its own context, or returns its own context error. -/
theorem failed_leader_is_local (r : SfResult) (ownCtxEnded : Bool)
    (h : groupLookupRound r ownCtxEnded = .lookupErr) (hl : r.requestLocal = true) (hs : r.shared = true) :
    r.leader = true := by
  unfold groupLookupRound at h
  cases hf : r.failed <;> cases hle : r.leader <;> simp_all
  cases ownCtxEnded <;> simp at h

theorem follower_reenters_under_own_context (r : SfResult) (ownCtxEnded : Bool)
    (hf : r.failed = true) (hs : r.shared = true) (hl : r.leader = false) (hq : r.requestLocal = true) :
    groupLookupRound r ownCtxEnded = if ownCtxEnded then .ownCtxErr else .reenter := by
  simp [groupLookupRound, hf, hs, hl, hq]

/-! ## constants regenerated from the tree -/

/-- the bounded waits the protocol relies on are finite and non-zero in the
compiled tree: a follower's wait ends with its own deadline or with the
generation's bounded wait, whichever is first. -/
theorem bounded_waits_in_tree :
    0 < SdnsVerif.Gen.C11.wg_timeout_ms ∧ SdnsVerif.Gen.C11.wg_timeout_ms ≤ 60000 ∧
    0 < SdnsVerif.Gen.C11.query_timeout_default_ms ∧ SdnsVerif.Gen.C11.query_timeout_default_ms ≤ 30000 := by
  decide

/-! ## non-vacuity -/

-- a response is written, a second WriteMsg, a WriteWire and a CommitWire follow: one transport write
example : ((({} : Writer).reset true false).run
    [.beginWire 100 11 (some 4096), .abortWire, .writeMsg true false, .writeMsg true false, .writeWire false,
     .commitWire true]).tx = [.bytes] := by decide

-- undecodable bytes are not a response: the later WriteMsg is the one transmitted
example : ((({} : Writer).reset false false).run [.write false false, .writeMsg true true]).tx = [.msg] := by decide

-- leader, two followers, leader done, both regroup: same successor, one new leader
example :
    let w0 : WG := {}
    let a := w0.join 7          -- g0, leader
    let b := a.1.join 7         -- g0, follower
    let d := b.1.done 7 0
    let r1 := d.regroup 7 (some 0)
    let r2 := r1.1.regroup 7 (some 0)
    a.2 = (0, true) ∧ b.2 = (0, false) ∧ r1.2 = (1, true) ∧ r2.2 = (1, false) := by decide

-- a timed-out leader stays registered; its late Done must not delete the generation that replaced it
example :
    let w0 : WG := {}
    let a := (w0.join 7).1            -- g0 (leader A)
    let t := a.timeout 0              -- A is stuck: bounded wait expires
    let r := t.regroup 7 (some 0)     -- tombstone
    let d := (t.done 7 0)             -- A finally finishes: deletes its own registration
    let n := (d.join 7)               -- g1, new leader B
    let d2 := n.1.done 7 0            -- A's Done arrives again / late: g1 stays
    r.2 = (0, false) ∧ n.2 = (1, true) ∧ d2.groups 7 = some 1 := by decide

-- composed system: leader 0 and follower 1 on key 5; leader's client goes away; follower still served
example :
    let s := Sys.run 1 {} [.spawn 5 false false, .spawn 5 false false,
      .run 0 false false false 0,      -- p0 joins: leader of g0
      .run 1 false false false 0,      -- p1 joins: follower
      .ctxEnd 0 false,                 -- p0's client cancels
      .run 0 false false false 0,      -- p0: stopCanceledRequest, nothing written
      .run 0 false false false 0,      -- p0: deferred DoneGeneration
      .run 1 false false false 0,      -- p1 wakes: miss, no retry key → resolves itself
      .run 1 false false false 0, .run 1 false false false 0]
    (s.procs.map (·.pc)) = [.terminated .canceled, .terminated .downstream] ∧
    (s.procs.map (·.writes)) = [0, 1] := by decide

-- failure-probe cohort: second regroup is refused by the limit (three loop heads)
example :
    let p := [PEvent.obs { gen := 0, leader := false }, .obs { genClosed := true, retry := true, retryKey := 9 },
              .obs { gen := 1, leader := false }, .obs { genClosed := true, retry := true, retryKey := 9 },
              .obs {}].foldl (Proc.apply 1) (procInit 3 true false)
    p.pc = .terminated .probeLimit ∧ p.heads = 3 ∧ p.calls = 2 ∧ p.writes = 1 := by decide

-- inline pass staged a reply and marked hand-off: no replay
example : jobRun ⟨1, true, false⟩ ⟨1, false, false⟩ true = { datagrams := 1, replays := 0, releases := 1 } := by decide
-- ordinary hand-off: one replay, its reply is the datagram
example : jobRun ⟨0, true, false⟩ ⟨1, false, false⟩ false = { datagrams := 1, replays := 1, releases := 1 } := by decide

-- refused destination in the middle of a burst: the two replies in front of it are not sent again
example : sendGroup [false, false, true, false] = [1, 1, 0, 1] := by decide
-- a job that waited 700 of its 1000 ms in the ready queue still ends at arrival + 1000
example : ingressDeadline .inlineReplay false 5000 5700 1000 = 6000 ∧
    ingressServes .replay false 5000 6001 1000 = false := by decide
-- the per-frame deadline lies 3 s in the past when the reply is finally written
example : beforeWrite (some 7000) 10000 2000 = 12000 := by decide
-- expired request, late timer: exactly one SERVFAIL
example : (procScenario 1 false (effectiveError .none true true) true).pc = .terminated .timeoutFail := by decide
-- two quick replies staged, then a slow request: both are sent before it resolves
example : (({} : Worker).run [.quick 1, .quick 2, .slow 3]).sent = [1, 2] ∧
    (({} : Worker).run [.quick 1, .quick 2, .slow 3]).held = [] := by decide

example : attemptSlots 0 [.contextDead, .breakerOpen, .resultDropped, .resultSent] = 0 := by decide
-- a frame of exactly tcpSmallFrame bytes is a small one for both sides; 2049 is large for both
example : serveFrameTokens (tcpLarge 2048) (tcpLarge 2048) ⟨4, 2⟩ ⟨4, 2⟩ 2048 = some ⟨4, 2⟩ ∧
    serveFrameTokens (tcpLarge 2048) (tcpLarge 2048) ⟨4, 2⟩ ⟨4, 2⟩ 2049 = some ⟨4, 2⟩ := by decide
-- (what a disagreement on the boundary would do: a large token taken, a small one put back into a full channel)
example : serveFrameTokens (fun l => l ≥ 2048) (tcpLarge 2048) ⟨4, 2⟩ ⟨4, 2⟩ 2048 = none := by decide
example : frameDeadline 9000 1200 = 10200 := by decide
example : acceptLoop [.err false false, .conn, .err true true, .err false true, .conn] = 2 := by decide
example : primingTail 1 2 = (false, false) ∧ primingTail 2 2 = (true, false) := by decide
example : dialerIndex 1 65535 = 0 ∧ dialerIndex 3 65535 = 2 ∧ dialerIndex 3 0 = 0 := by decide
-- a frame straddling the end of the 4 KB buffer: 50 unread bytes flush against the end are moved to the front
example : fillMore 4096 4046 4096 5000 = some (0, 4046) ∧ fillMore 4096 0 4096 10 = none := by decide
-- three small replies, one larger than the 8 KB drain buffer (written on its own after a flush), one more: all five, in order
example : ((Drain.run 8192 65535 {} [.stage 1 100, .stage 2 5000, .stage 3 5000, .stage 4 20000, .stage 5 10]).1.flush).1.wire
    = [1, 2, 3, 4, 5] := by decide
-- the peer leaves after the second reply was flushed: nothing is written twice, the rest is dropped
example : (Drain.run 8192 65535 {} [.stage 1 100, .stage 2 100, .flush, .break, .stage 3 100, .flush, .stage 4 100]).1.wire = [1, 2] := by decide
-- DO=0 client, body with DNSSEC records: edns falls back before writing; the Msg retake is the one reply; a late WriteWire is refused
example :
    let c : EdnsCfg := { doBit := false, noedns := false, udp := true, size := 1232 }
    let w0 := ({} : Writer).reset true false
    let a := stackCall false c w0 (.writeWire { len := 100, hasDNSSEC := true } false)
    let b := stackCall false c a.1 (.writeMsg true false)
    let d := stackCall false c b.1 (.writeWire { len := 100 } false)
    a.2 = .fallback ∧ b.2 = .base .ok ∧ d.2 = .base .already ∧ d.1.tx = [.bytes] := by decide
-- quota 2: two admitted, two shed, both leave: the counter is back at zero and the zone is open again
example :
    let z := [ZOp.enter, .enter, .enter, .enter, .leave, .leave].foldl (ZL.step 2) {}
    z.count = 0 ∧ (z.enter 2).2 = true := by decide

end SdnsVerif.Props.C11
