import SdnsVerif.Model.Packer
import SdnsVerif.Lemmas.Packer
import SdnsVerif.Gen.C15
/-!
# C15 — the pooled packer is byte-identical to the library and side-effect free

Property theorems only (helpers live in `Lemmas/Packer.lean`).  Every theorem
holds for an ARBITRARY `Lib` — any per-record packing primitive, any
admission predicate, any dictionary type — so what is proved is the glue that
`/repo/internal/wire/pack.go` owns.  Byte parity of the whole, primitives
included, is the differential part of the check (see notes/C15.md).
-/
namespace SdnsVerif.Props.C15
open SdnsVerif.Model.Packer SdnsVerif.Lemmas.Packer

/-! ### header word -/

/-- **`msgBits` is the library's header word** — for every combination of the
eight flags and EVERY opcode and rcode (any Go `int`, so also the values that
overflow their fields). -/
theorem msgbits_eq (h : Hdr) : msgBits h = libBits h := msgBits_eq_libBits h

/-- … and it is the RFC 1035 §4.1.1 layout whenever the opcode is a 4-bit value:
QR·2¹⁵ + OPCODE·2¹¹ + AA·2¹⁰ + TC·2⁹ + RD·2⁸ + RA·2⁷ + Z·2⁶ + AD·2⁵ + CD·2⁴ + (RCODE mod 16). -/
theorem msgbits_layout (h : Hdr) (hop : u16 h.opcode < 16) : msgBits h = specBits h :=
  msgBits_eq_specBits h hop

/-- every field can be read back from the word (what a client decodes). -/
theorem msgbits_fields (h : Hdr) (hop : u16 h.opcode < 16) :
    msgBits h / 32768 = b2n h.response ∧ msgBits h / 2048 % 16 = u16 h.opcode ∧
    msgBits h / 1024 % 2 = b2n h.authoritative ∧ msgBits h / 512 % 2 = b2n h.truncated ∧
    msgBits h / 256 % 2 = b2n h.recursionDesired ∧ msgBits h / 128 % 2 = b2n h.recursionAvailable ∧
    msgBits h / 64 % 2 = b2n h.zero ∧ msgBits h / 32 % 2 = b2n h.authenticatedData ∧
    msgBits h / 16 % 2 = b2n h.checkingDisabled ∧ msgBits h % 16 = u16 (h.rcode % 16) := by
  rw [msgbits_layout h hop]
  unfold specBits
  have hr := u16_mod16_lt h.rcode
  have h1 := b2n_le h.response
  have h2 := b2n_le h.authoritative
  have h3 := b2n_le h.truncated
  have h4 := b2n_le h.recursionDesired
  have h5 := b2n_le h.recursionAvailable
  have h6 := b2n_le h.zero
  have h7 := b2n_le h.authenticatedData
  have h8 := b2n_le h.checkingDisabled
  refine ⟨?_, ?_, ?_, ?_, ?_, ?_, ?_, ?_, ?_, ?_⟩ <;> omega

/-- the single-field inputs on which the REAL `msgBits` and the REAL
`dns.Msg.Pack` are evaluated by the harness on every run (`Gen.C15`). -/
def singleInputs : List Hdr :=
  [ {}, { response := true }, { authoritative := true }, { truncated := true },
    { recursionDesired := true }, { recursionAvailable := true }, { zero := true },
    { authenticatedData := true }, { checkingDisabled := true },
    { opcode := 1 }, { opcode := 2 }, { opcode := 4 }, { opcode := 8 }, { opcode := 16 }, { opcode := 32 },
    { rcode := 1 }, { rcode := 2 }, { rcode := 4 }, { rcode := 8 }, { rcode := 16 }, { rcode := 2048 },
    { rcode := 4095 } ]

/-- **Fact from the tree:** the compiled `wire.msgBits` puts every flag, every
opcode bit and every rcode bit where the model does. -/
theorem msgbits_table_matches_tree : SdnsVerif.Gen.C15.msgbits_single = singleInputs.map msgBits := by
  decide

/-- **Fact from the module cache:** so does the library's `Msg.Pack` (bytes 2–3
of a header-only message). -/
theorem libbits_table_matches_tree : SdnsVerif.Gen.C15.libbits_single = singleInputs.map libBits := by
  decide

/-- **Facts from the tree:** the constants the model uses are the tree's. -/
theorem constants_match_tree :
    SdnsVerif.Gen.C15.pack_buffer_size = packBufferSize ∧ SdnsVerif.Gen.C15.header_len = headerLen ∧
    SdnsVerif.Gen.C15.max_pooled_compression_entries = maxPooledCompressionEntries ∧
    SdnsVerif.Gen.C15.type_opt = typeOPT := by
  decide

/-! ### OPT selection and the extended rcode -/

/-- **`selectOPT` is `IsEdns0` without its panics**: whenever `selectOPT`
reports `safe`, the library selects exactly the same record (or none), and
`safe = false` exactly on the shapes the library panics on (`none`). -/
theorem opt_selection_eq_isEdns0 {β : Type} (heap : Heap β) (extra : List Slot) :
    isEdns0 heap extra =
      if (selectOPT heap extra).2 then some (selectOPT heap extra).1 else none := by
  unfold isEdns0 selectOPT
  exact isEdns0Rev_eq heap extra.reverse

/-- With several OPTs the LAST OPT-typed record of Extra is the one selected
(an OPT in Answer/Ns is never looked at: only `extra` is an argument). -/
theorem opt_selection_last {β : Type} (heap : Heap β) (pre post : List Slot) (p : Nat)
    (htype : (heap p).hdr.rrtype = typeOPT) (hopt : (heap p).isOPT = true)
    (hpost : ∀ s ∈ post, ∃ q, s = some q ∧ (heap q).hdr.rrtype ≠ typeOPT) :
    selectOPT heap (pre ++ some p :: post) = (some p, true) := by
  unfold selectOPT
  rw [List.reverse_append, List.reverse_cons, List.append_assoc]
  have : ∀ (l : List Slot) (rest : List Slot), (∀ s ∈ l, ∃ q, s = some q ∧ (heap q).hdr.rrtype ≠ typeOPT) →
      selectOPTRev heap (l ++ rest) = selectOPTRev heap rest := by
    intro l
    induction l with
    | nil => intro rest _; rfl
    | cons a t ih =>
      intro rest h
      obtain ⟨q, rfl, hq⟩ := h a (by simp)
      simp only [List.cons_append, selectOPTRev, hq, ne_eq, not_false_eq_true, if_true]
      exact ih rest (fun s hs => h s (by simp [hs]))
  rw [this _ _ (by intro s hs; exact hpost s (by simpa using hs))]
  simp [selectOPTRev, htype, hopt]

/-- **The extended-rcode rewrite** (`ttl' = ttl & 0x00FFFFFF | (rcode >> 4) << 24`):
for every TTL and every rcode 0‥4095 it is what the library's
`SetExtendedRcode` computes, the low 24 bits (version, DO, Z) are the caller's,
the top byte is `rcode >> 4`, and together with the header's low nibble the
full 12-bit rcode is recoverable. -/
theorem ext_rcode_rewrite (ttl rc : Nat) (hrc : rc ≤ 4095) :
    extTtl ttl rc = libExtTtl ttl rc ∧
    extTtl ttl rc % 2 ^ 24 = ttl % 2 ^ 24 ∧ extTtl ttl rc / 2 ^ 24 = rc / 16 ∧
    (ttl < 2 ^ 32 → extTtl ttl rc < 2 ^ 32) ∧
    (extTtl ttl rc / 2 ^ 24) * 16 + rc % 16 = rc := by
  rw [libExtTtl_eq _ _ hrc, extTtl_eq _ _ hrc]
  refine ⟨rfl, ?_, ?_, ?_, ?_⟩ <;> omega

/-! ### the packer -/

/-- **Decline before output.**  Every `handled = false` return of `TryPack`
— rcode out of range, a nil / foreign record, an OPT shape the library would
panic on, an extended rcode without OPT, a message beyond the pooled buffer,
or a primitive that failed or overran half way through — happens without
`consume` ever being called (no byte of the pooled buffer is exposed), and the
message's records are exactly as they were. -/
theorem decline_before_output {β ν δ : Type} (lib : Lib β ν δ) (m : Msg ν) (heap : Heap β)
    (st : PState β δ) (hN : st.buf.length = packBufferSize)
    (h : (tryPack lib m heap st).handled = false) :
    (tryPack lib m heap st).consumed = none ∧ (tryPack lib m heap st).heap = heap := by
  cases hp : preflight lib m heap with
  | error e => rw [tryPack_decline lib m heap st e hp]; exact ⟨rfl, rfl⟩
  | ok opt =>
    obtain ⟨h1, _, _, _, _, _, hnone, hsome⟩ := tryPack_ok lib m heap st opt hp hN
    refine ⟨?_, h1⟩
    cases hpp : purePack lib packBufferSize m heap opt (dictFor lib m st) with
    | none => exact (hnone hpp).2
    | some r =>
      obtain ⟨ht, _⟩ := hsome r.1 r.2 hpp
      rw [ht] at h; cases h

/-- **The message is never modified** — handled or not, with or without an
OPT, whatever the primitives do: the Rdlength the exported `PackRR` writes
lands in the shim's header copy, the extended rcode in the pooled OPT copy. -/
theorem message_unchanged {β ν δ : Type} (lib : Lib β ν δ) (m : Msg ν) (heap : Heap β)
    (st : PState β δ) (hN : st.buf.length = packBufferSize) :
    (tryPack lib m heap st).heap = heap := by
  cases hp : preflight lib m heap with
  | error e => rw [tryPack_decline lib m heap st e hp]
  | ok opt => exact (tryPack_ok lib m heap st opt hp hN).1

/-- …while the library itself DOES write into the caller's OPT: after
`Msg.Pack` the selected OPT carries the rewritten TTL (this is the write the
pooled path redirects into its copy). -/
theorem library_writes_opt {β ν δ : Type} (lib : Lib β ν δ) (m : Msg ν) (heap : Heap β) (p L : Nat)
    (hr : 0 ≤ m.hdr.rcode ∧ m.hdr.rcode ≤ 0xFFF) (hsel : isEdns0 heap m.extra = some (some p)) :
    ((libPackWith lib m heap L).2 p).hdr.ttl = libExtTtl (heap p).hdr.ttl m.hdr.rcode.toNat := by
  unfold libPackWith
  have : ¬ (m.hdr.rcode < 0 ∨ m.hdr.rcode > 0xFFF) := by omega
  simp only [this, if_false, hsel]
  split
  · simp [libSetExt, Heap.set, Obj.withTtl]
  · split <;> simp [libSetExt, Heap.set, Obj.withTtl]

/-- **Handled ⇒ the library's bytes.**  For any primitives that do not care
how much spare room the output buffer has (`Mono`), any message, any heap, any
clean pooled state: if `TryPack` reports `handled`, `consume` received exactly
the bytes `dns.Msg.Pack` returns for the same message (header word, counts,
questions, every record, extended rcode in the selected OPT, same dictionary
evolution hence the same compression choices).

`hroom` is the one fact about the library's own buffer sizing that is assumed
(and exercised by the differential run): packing into the `Len()+1` bytes
`Pack` allocates gives the same outcome as packing into a buffer at least as
large as the pooled one. -/
theorem handled_eq_library {β ν δ : Type} (lib : Lib β ν δ) (hm : Mono lib) (m : Msg ν) (heap : Heap β)
    (st : PState β δ) (hst : Clean lib st)
    (hroom : (libPack lib m heap).1 = (libPackWith lib m heap (max (libBufLen lib m heap) packBufferSize)).1)
    (h : (tryPack lib m heap st).handled = true) :
    ∃ s, (tryPack lib m heap st).consumed = some s ∧ (libPack lib m heap).1 = .ok s.data := by
  obtain ⟨_, _, _, hcomp, hN⟩ := hst
  cases hp : preflight lib m heap with
  | error e => rw [tryPack_decline lib m heap st e hp] at h; cases h
  | ok opt =>
    obtain ⟨_, _, _, _, _, _, hnone, hsome⟩ := tryPack_ok lib m heap st opt hp hN
    cases hpp : purePack lib packBufferSize m heap opt (dictFor lib m st) with
    | none => rw [(hnone hpp).1] at h; cases h
    | some r =>
      obtain ⟨b, d'⟩ := r
      obtain ⟨_, s, hs, hdata, _, _⟩ := hsome b d' hpp
      refine ⟨s, hs, ?_⟩
      rw [hroom, hdata]
      obtain ⟨hr0, hr1, hsel, hext, _, _⟩ := preflight_ok lib m heap opt hp
      have hL : packBufferSize ≤ max (libBufLen lib m heap) packBufferSize := Nat.le_max_right _ _
      generalize max (libBufLen lib m heap) packBufferSize = L at hL
      have hrc : m.hdr.rcode.toNat ≤ 4095 := by omega
      have hview := targetOf_eq_libHeap heap m.extra opt m.hdr.rcode.toNat hsel hrc
      have hdict : dictFor lib m st =
          (if (m.compress && msgIsCompressible m) = true then lib.emptyDict else lib.nilDict) := by
        unfold dictFor
        rcases hcomp with hc | hc <;> rw [hc] <;> simp
      rw [hdict] at hpp
      unfold purePack at hpp
      rw [msgbits_eq] at hpp
      have hedns : isEdns0 heap m.extra = some opt := by
        rw [opt_selection_eq_isEdns0, hsel]; rfl
      cases hq : pureQs lib packBufferSize m.question
          (if (m.compress && msgIsCompressible m) = true then lib.emptyDict else lib.nilDict)
          (headerBytes m (libBits m.hdr)) with
      | none => rw [hq] at hpp; cases hpp
      | some r1 =>
        obtain ⟨acc, d1⟩ := r1
        rw [hq] at hpp
        simp only at hpp
        have hq' := pureQs_lib lib hm packBufferSize L hL _ _ _ _ _ hq
        rw [hview] at hpp
        have hr' := pureRecs_lib lib hm packBufferSize L hL _ _ _ _ _ _ hpp
        have h12 : ¬ L < headerLen := by unfold headerLen; unfold packBufferSize at hL; omega
        have hrange : ¬ (m.hdr.rcode < 0 ∨ m.hdr.rcode > 0xFFF) := by omega
        unfold libPackWith
        simp only [hrange, if_false, hedns]
        cases opt with
        | none =>
          have : ¬ m.hdr.rcode > 0xF := by
            intro hgt; exact hext ⟨rfl, hgt⟩
          have hlib : libHeap heap m.extra m.hdr.rcode.toNat = heap := by
            simp only [libHeap, hedns]
          rw [hlib] at hr'
          simp only [this, if_false, h12, hq', hr']
        | some p =>
          have hlib : libHeap heap m.extra m.hdr.rcode.toNat = libSetExt heap p m.hdr.rcode.toNat := by
            simp only [libHeap, hedns]
          rw [hlib] at hr'
          simp only [h12, if_false, hq', hr']

/-- **Buffer non-interference.**  What `TryPack` decides and what `consume`
receives do not depend on what the pooled buffer held before (two states that
differ only in `buf` give the same `handled` and the same bytes); the slice is
capacity-pinned: reslicing it to capacity reaches exactly the payload, not one
byte of an earlier message. -/
theorem buffer_noninterference {β ν δ : Type} (lib : Lib β ν δ) (m : Msg ν) (heap : Heap β)
    (st st' : PState β δ) (hN : st.buf.length = packBufferSize) (hN' : st'.buf.length = packBufferSize)
    (hc : st'.compression = st.compression) :
    (tryPack lib m heap st').handled = (tryPack lib m heap st).handled ∧
    (tryPack lib m heap st').consumed.map (·.data) = (tryPack lib m heap st).consumed.map (·.data) ∧
    (∀ s, (tryPack lib m heap st).consumed = some s → s.reachable = s.data ∧ s.cap = s.data.length) := by
  cases hp : preflight lib m heap with
  | error e => simp [tryPack_decline lib m heap _ e hp]
  | ok opt =>
    obtain ⟨_, _, _, _, _, _, hnone, hsome⟩ := tryPack_ok lib m heap st opt hp hN
    obtain ⟨_, _, _, _, _, _, hnone', hsome'⟩ := tryPack_ok lib m heap st' opt hp hN'
    have hd : dictFor lib m st' = dictFor lib m st := by unfold dictFor; rw [hc]
    rw [hd] at hnone' hsome'
    cases hpp : purePack lib packBufferSize m heap opt (dictFor lib m st) with
    | none =>
      obtain ⟨a1, a2⟩ := hnone hpp
      obtain ⟨b1, b2⟩ := hnone' hpp
      simp [a1, a2, b1, b2]
    | some r =>
      obtain ⟨a1, s, a2, a3, a4, a5⟩ := hsome r.1 r.2 hpp
      obtain ⟨b1, s', b2, b3, _, _⟩ := hsome' r.1 r.2 hpp
      refine ⟨by rw [a1, b1], by simp [a2, b2, a3, b3], ?_⟩
      intro s0 hs0
      rw [a2] at hs0; cases hs0
      exact ⟨by rw [a5, a3], by rw [a4, a3]⟩

/-- **`release` resets everything** — from ANY state (clean or not, whatever a
failed or successful pack left in it): the shim's record and header copy, the
OPT copy, and the dictionary (dropped when it outgrew
`maxPooledCompressionEntries`, cleared otherwise). -/
theorem release_resets_everything {β ν δ : Type} (lib : Lib β ν δ) (st : PState β δ) :
    (release lib st).rrRef = none ∧ (release lib st).rrHdr = none ∧ (release lib st).opt = none ∧
    ((release lib st).compression = none ∨ (release lib st).compression = some lib.emptyDict) ∧
    (st.compression = none → (release lib st).compression = none) ∧
    (∀ d, st.compression = some d → lib.dictLen d > maxPooledCompressionEntries → (release lib st).compression = none) :=
  by
  obtain ⟨a, b, c, d, _⟩ := release_fields lib st
  refine ⟨a, b, c, d, ?_, ?_⟩
  · intro h; simp [release, h]
  · intro d' h hlen; simp [release, h, hlen]

/-- **Fact from the tree:** after a handled pack that put 1, 30, 61 … 66, 70
and 130 names into the dictionary — on both sides of
`maxPooledCompressionEntries` — the compiled `release` left the pooled state
clean (nothing of the dictionary visible to the next pack). -/
theorem release_clean_on_tree : SdnsVerif.Gen.C15.release_clean_after_names.all id = true ∧
    SdnsVerif.Gen.C15.release_clean_after_names.length = 10 := by
  decide

/-- a clean state stays clean across any `TryPack`, handled or declined. -/
theorem tryPack_preserves_clean {β ν δ : Type} (lib : Lib β ν δ) (m : Msg ν) (heap : Heap β)
    (st : PState β δ) (hst : Clean lib st) : Clean lib (tryPack lib m heap st).st := by
  cases hp : preflight lib m heap with
  | error e => rw [tryPack_decline lib m heap st e hp]; exact hst
  | ok opt =>
    obtain ⟨_, h2, h3, h4, h5, h6, _, _⟩ := tryPack_ok lib m heap st opt hp hst.2.2.2.2
    exact ⟨h3, h4, h5, h6, h2⟩

/-- one pack against the pool (reusing ANY pooled state, or a new one). -/
def PoolOp (ν β : Type) := Option Nat × Msg ν × Heap β

def poolRun {β ν δ : Type} (lib : Lib β ν δ) (pool : List (PState β δ)) (ops : List (PoolOp ν β)) :
    List (PState β δ) :=
  ops.foldl (fun pl op => (poolStep lib pl op.1 op.2.1 op.2.2).1) pool

/-- **Any reuse of the pooled state.**  After any history of packs — each
taking whichever pooled state `sync.Pool` hands it or a new one, handled or
declined, of any messages — every state in the pool is clean, so the next
pack, whichever state it gets, is again covered by `handled_eq_library`.
(Exclusive ownership of a state between `Get` and `Put` is `sync.Pool`'s
contract and is trusted; the concurrent runs of the thorough tier exercise it.) -/
theorem pool_reuse_clean {β ν δ : Type} (lib : Lib β ν δ) (ops : List (PoolOp ν β)) :
    ∀ pool : List (PState β δ), (∀ s ∈ pool, Clean lib s) → ∀ s ∈ poolRun lib pool ops, Clean lib s := by
  induction ops with
  | nil => intro pool h; exact h
  | cons op t ih =>
    intro pool h
    unfold poolRun
    rw [List.foldl_cons]
    apply ih
    have hfresh : Clean lib ({ buf := List.replicate packBufferSize 0 } : PState β δ) :=
      ⟨rfl, rfl, rfl, Or.inl rfl, by simp⟩
    unfold poolStep
    cases op.1 with
    | none =>
      intro s hs
      simp only [List.mem_cons] at hs
      rcases hs with rfl | hs
      · exact tryPack_preserves_clean lib _ _ _ hfresh
      · exact h s hs
    | some i =>
      by_cases hi : i < pool.length
      · simp only [hi, dite_true]
        intro s hs
        rcases List.mem_or_eq_of_mem_set hs with hs | rfl
        · exact h s hs
        · exact tryPack_preserves_clean lib _ _ _ (h _ (List.getElem_mem hi))
      · simp only [hi, dite_false]
        intro s hs
        simp only [List.mem_cons] at hs
        rcases hs with rfl | hs
        · exact tryPack_preserves_clean lib _ _ _ hfresh
        · exact h s hs

/-! ### one borrower at a time -/

/-- **Exclusive ownership under every interleaving.**  If every way out of a
pack puts its state back AT MOST once, then after ANY sequence of pack starts
and pack ends — overlapping arbitrarily: concurrent requests, a pack started
inside another pack's consumer, consumers that fail or panic, packs declined
half way, `Get` returning whichever pooled state it likes — no state is held
by two packs in flight, no state in flight is also resting in the pool (so no
later `Get` can hand it out), and the pool holds no state twice. -/
theorem exclusive_ownership (puts : Exit → Nat) (hp : ∀ e, puts e ≤ 1) (evs : List OwnEv) :
    (ownRun puts evs).borrowed.Nodup ∧ (ownRun puts evs).pool.Nodup ∧
    ∀ x ∈ (ownRun puts evs).borrowed, x ∉ (ownRun puts evs).pool := by
  obtain ⟨hnd, _, _⟩ := ownRun_inv puts hp evs
  rw [List.nodup_append] at hnd
  obtain ⟨h1, h2, h3⟩ := hnd
  exact ⟨h2, h1, fun x hx hxp => h3 x hxp x hx rfl⟩

/-- **`TryPack` puts its state back exactly once on every way out** (the
deferred release), and — fact from the tree, measured on the compiled code by
draining the pool after each kind of ending, incl. a failing transport write
through `responseWriter.WriteMsg` — no ending leaves the same state in the
pool twice, and the reply path's `Transport.Write` runs while the state whose
buffer it reads is still borrowed (not resting in the pool). -/
theorem trypack_puts_once :
    (∀ e, tryPackPuts e = 1) ∧
    SdnsVerif.Gen.C15.puts_after_ok ≤ 1 ∧ SdnsVerif.Gen.C15.puts_after_err ≤ 1 ∧
    SdnsVerif.Gen.C15.puts_after_panic ≤ 1 ∧ SdnsVerif.Gen.C15.puts_after_fail ≤ 1 ∧
    SdnsVerif.Gen.C15.puts_after_werr ≤ 1 ∧
    SdnsVerif.Gen.C15.write_while_borrowed = true := by
  refine ⟨fun _ => rfl, ?_, ?_, ?_, ?_, ?_, ?_⟩ <;> decide

/-- hence the pooled packer's states have one borrower at a time, whatever the history. -/
theorem trypack_exclusive (evs : List OwnEv) :
    (ownRun tryPackPuts evs).borrowed.Nodup ∧
    ∀ x ∈ (ownRun tryPackPuts evs).borrowed, x ∉ (ownRun tryPackPuts evs).pool :=
  let h := exclusive_ownership tryPackPuts (fun _ => Nat.le_refl 1) evs
  ⟨h.1, h.2.2⟩

/-- **Borrowed bytes are the borrower's own.**  Under the same discipline, in
every reachable state every pack in flight finds in its state's buffer the
bytes of ITS message — no overlapping pack, whatever the interleaving, has
written there since.  This is what a consumer relies on for as long as it runs
inside `TryPack` (the reply path's `Transport.Write`, `PackClone`'s copy, the
proof fingerprint's hash); it says nothing once the pack has ended. -/
theorem borrowed_bytes_are_own (puts : Exit → Nat) (hp : ∀ e, puts e ≤ 1) (evs : List OwnEv) :
    ∀ id ∈ (ownRun puts evs).borrowed, (ownRun puts evs).content id = (ownRun puts evs).holder id :=
  (ownRun_inv puts hp evs).2.2

-- a consumer still inside its pack (state 0, message 7) while two other packs come and go reads its own bytes …
example : (ownRun tryPackPuts [.get none 7, .get none 8, .finish 1 .consumed, .get (some 1) 9]).content 0 = 7 := by decide
-- … whereas bytes kept past the end of the pack are the next borrower's (use after release)
example : (ownRun tryPackPuts [.get none 7, .finish 0 .consumed, .get (some 0) 9]).content 0 = 9 := by decide

-- the hypothesis matters: a second Put on the consumer-error path lets two later, overlapping packs share a state
example : (ownRun (fun e => if e = Exit.consumerError then 2 else 1)
    [.get none 1, .finish 0 .consumerError, .get (some 0) 2, .get (some 0) 3]).borrowed = [0, 0] := by decide
-- while the code's discipline gives the second pack a state of its own
example : (ownRun tryPackPuts
    [.get none 1, .finish 0 .consumerError, .get (some 0) 2, .get (some 0) 3]).borrowed = [1, 0] := by decide

/-- **What "the primitive writes its bytes" buys.**  A span with no skipped
position lands in the buffer as the very bytes a fresh buffer would show,
whatever the buffer held — this is the assumption built into `PR.ok bs`, on
which `buffer_noninterference` and `handled_eq_library` rest; the `example`s
below show that ONE skipped position makes the pooled output depend on the
previous pack while the library's zeroed buffer shows a zero.  `Gen` pins that
on the sampled records of the compiled library no primitive skipped a byte. -/
theorem full_span_is_buffer_independent (buf : Bytes) (off : Nat) (span : List (Option UInt8))
    (hall : ∀ o ∈ span, o.isSome = true) (hfit : off + span.length ≤ buf.length) :
    (writeMasked buf off span).take (off + span.length) = buf.take off ++ spanInFresh span := by
  have hmap : ((span.zipIdx).map fun (o, i) => o.getD (buf.getD (off + i) 0)) = spanInFresh span := by
    unfold spanInFresh
    apply List.ext_getElem
    · simp
    · intro i h1 h2
      simp only [List.getElem_map, List.getElem_zipIdx]
      have hm : span[i]'(by simpa using h1) ∈ span := List.getElem_mem _
      have := hall _ hm
      cases hs : span[i]'(by simpa using h1) with
      | none => rw [hs] at this; cases this
      | some v => simp
  unfold writeMasked
  rw [hmap]
  have hlen : (spanInFresh span).length = span.length := by simp [spanInFresh]
  rw [← hlen]
  exact writeAt_take buf off _ (by rw [hlen]; exact hfit)

/-- **The assumption is discharged for the admitted set by the refusal**: if
admission lets through only records whose primitive writes every byte
(`AdmitsOnlyFullWriters` — what `writesItsIPv4` in `admissibleRR` is there for),
then every ADMITTED record lands in the pooled buffer exactly as in a fresh
one, whatever the buffer held. -/
theorem admitted_records_are_buffer_independent {β : Type} (ml : MaskedLib β) (h : AdmitsOnlyFullWriters ml)
    (o : Obj β) (ha : ml.adm o = true) (buf : Bytes) (off : Nat) (hfit : off + (ml.span o).length ≤ buf.length) :
    (writeMasked buf off (ml.span o)).take (off + (ml.span o).length) = buf.take off ++ spanInFresh (ml.span o) :=
  full_span_is_buffer_independent buf off _ (h o ha) hfit

/-- **Facts from the tree:** (a) on the sampled records that the compiled
`admissibleRR` ADMITS (profile `skipwrite` included in the sample) no library
primitive left a byte unwritten; (b) the compiled `admissibleRR` refuses the
four byte-skipping shapes (`*dns.A` / `L32` with a 16-byte non-IPv4 address,
`IPSECKEY` / `AMTRELAY` with an IPv4-typed gateway holding one) and admits
their harmless look-alikes (IPv4-mapped, 4-byte, empty, IPv6-typed gateway). -/
theorem library_writes_all_on_admitted_sample :
    SdnsVerif.Gen.C15.lib_writesall_violations = 0 ∧
    SdnsVerif.Gen.C15.admission_of_skipwriters = [0, 1, 1, 1, 0, 1, 0, 1, 0, 1, 0, 0, 0, 1, 0, 0] := by decide

-- a library whose A-record primitive skips its address bytes, with and without the refusal
example : AdmitsOnlyFullWriters ({ adm := fun o => o.rest, span := fun o => if o.rest then [some 1, some 2] else [none, none] } : MaskedLib Bool) := by
  intro o ha x hx
  have hr : o.rest = true := ha
  simp only [hr, if_true, List.mem_cons, List.not_mem_nil, or_false] at hx
  rcases hx with rfl | rfl <;> rfl
example : ¬ AdmitsOnlyFullWriters ({ adm := fun _ => true, span := fun _ => [none] } : MaskedLib Unit) := by
  intro h
  have := h { isOPT := false, hdr := { rrtype := 1, ttl := 0, rdlength := 0 }, rest := () } rfl none (by simp)
  cases this

-- a 4-byte span the primitive accounts for but does not write (an A record holding a non-IPv4 16-byte address):
-- the pooled buffer keeps the previous pack's bytes there, a fresh buffer shows zeroes
example : (writeMasked [0x5A, 0x5A, 0x5A, 0x5A, 0x5A, 0x5A] 1 [none, none, none, none]).take 5 = [0x5A, 0x5A, 0x5A, 0x5A, 0x5A] ∧
    spanInFresh [none, none, none, none] = [0, 0, 0, 0] := by decide
example : (writeMasked [0x5A, 0x5A, 0x5A, 0x5A, 0x5A, 0x5A] 1 [some 1, some 2, some 3, some 4]).take 5 = [0x5A, 1, 2, 3, 4] := by decide

/-! ### the fallback and `PackClone` -/

/-- **The immutable library fallback is the library.**  For every message —
admissible or not, with or without OPT, whatever rcode — `libraryPackImmutable`
returns exactly the outcome (bytes, error or panic) of `dns.Msg.Pack` on the
original message: replacing every alias of the selected OPT, in every section,
by one private copy changes nothing the library's encoder can see.  `fresh` is
the address of that copy; it only has to differ from the message's records. -/
theorem fallback_eq_library {β ν δ : Type} (lib : Lib β ν δ) (m : Msg ν) (heap : Heap β) (fresh : Nat)
    (hfresh : ∀ s ∈ m.records, s ≠ some fresh) :
    (libraryPackImmutable lib m heap fresh).1 = (libPack lib m heap).1 := by
  unfold libraryPackImmutable
  split
  · rfl
  · split
    · rfl
    · split
      · rename_i p hsel
        exact libPack_clone lib m heap p fresh hsel hfresh
      · rfl

/-- … and on a message built from library records (in-range rcode, every record
admissible, an OPT shape the library does not panic on) it writes into nothing
but its own copy: every record of the caller keeps every field. -/
theorem fallback_leaves_message {β ν δ : Type} (lib : Lib β ν δ) (m : Msg ν) (heap : Heap β) (fresh : Nat)
    (hfresh : ∀ s ∈ m.records, s ≠ some fresh)
    (hr : 0 ≤ m.hdr.rcode ∧ m.hdr.rcode ≤ 0xFFF) (hadm : m.records.all (admSlot lib heap) = true)
    (hsafe : (selectOPT heap m.extra).2 = true) :
    ∀ q, q ≠ fresh → (libraryPackImmutable lib m heap fresh).2 q = heap q := by
  intro q hq
  have hex : ∀ s ∈ m.extra, s ≠ some fresh := fun s hs => hfresh s (by simp [Msg.records, hs])
  unfold libraryPackImmutable
  have h1 : ¬ (m.hdr.rcode < 0 ∨ m.hdr.rcode > 0xFFF) := by omega
  simp only [h1, if_false, hadm, Bool.not_true, Bool.false_eq_true]
  cases hsel : selectOPT heap m.extra with
  | mk opt safe =>
    rw [hsel] at hsafe
    simp only at hsafe
    subst hsafe
    cases opt with
    | some p =>
      simp only
      have hA := isEdns0_clone m heap p fresh hsel hex
      show (libPack lib (cloneMsg m p fresh) (heap.set fresh (heap p))).2 q = heap q
      unfold libPack
      rcases libPackWith_heap lib (cloneMsg m p fresh) (heap.set fresh (heap p))
          (libBufLen lib (cloneMsg m p fresh) (heap.set fresh (heap p))) with h | ⟨p', hp', h⟩
      · rw [h]; simp [Heap.set, hq]
      · rw [hA] at hp'
        simp only [Option.some.injEq] at hp'
        subst hp'
        rw [h]; simp [libSetExt, Heap.set, hq]
    | none =>
      simp only
      have hB : isEdns0 heap m.extra = some none := by
        rw [opt_selection_eq_isEdns0, hsel]; rfl
      unfold libPack
      rcases libPackWith_heap lib m heap (libBufLen lib m heap) with h | ⟨p', hp', _⟩
      · rw [h]
      · rw [hB] at hp'; cases hp'

/-- **`PackClone` always returns what the library returns** — the bytes kept for
a cache entry are the same whether the pooled packer handled the message or
declined it (same hypotheses as `handled_eq_library`) — and the pooled state
goes back clean either way. -/
theorem packClone_eq_library {β ν δ : Type} (lib : Lib β ν δ) (hm : Mono lib) (m : Msg ν) (heap : Heap β)
    (st : PState β δ) (fresh : Nat) (hst : Clean lib st)
    (hroom : (libPack lib m heap).1 = (libPackWith lib m heap (max (libBufLen lib m heap) packBufferSize)).1)
    (hfresh : ∀ s ∈ m.records, s ≠ some fresh) :
    (packClone lib m heap st fresh).1 = (libPack lib m heap).1 ∧ Clean lib (packClone lib m heap st fresh).2.2 := by
  unfold packClone
  simp only
  cases hh : (tryPack lib m heap st).handled with
  | true =>
    obtain ⟨s, hs, hlib⟩ := handled_eq_library lib hm m heap st hst hroom hh
    simp only [if_true, hs, hlib]
    exact ⟨trivial, tryPack_preserves_clean lib m heap st hst⟩
  | false =>
    simp only [Bool.false_eq_true, if_false]
    rw [message_unchanged lib m heap st hst.2.2.2.2]
    exact ⟨fallback_eq_library lib m heap fresh hfresh, tryPack_preserves_clean lib m heap st hst⟩

/-! ### the consumers -/

/-- **One reply, the library's bytes.**  `responseWriter.WriteMsg` asks the
transport for exactly one thing: on a chain that declared `AllowDirectPack`
(and is not an internal sub-query's) and for a message the pooled packer
handles, a raw `Write` of exactly the library's encoding; in every other case
— no declaration, internal writer, declined message — the unchanged message
through `WriteMsg` (the library path).  The message's records are untouched
and the pooled state goes back clean either way. -/
theorem writeMsg_one_reply {β ν δ : Type} (lib : Lib β ν δ) (hm : Mono lib) (m : Msg ν) (heap : Heap β)
    (st : PState β δ) (hst : Clean lib st) (dp internal : Bool)
    (hroom : (libPack lib m heap).1 = (libPackWith lib m heap (max (libBufLen lib m heap) packBufferSize)).1) :
    ((writeMsg lib m heap st dp internal).events = [.writeMsg] ∨
      ∃ b, (writeMsg lib m heap st dp internal).events = [.write b] ∧ dp = true ∧ internal = false ∧
        (libPack lib m heap).1 = .ok b ∧ (writeMsg lib m heap st dp internal).size = b.length) ∧
    (writeMsg lib m heap st dp internal).heap = heap ∧ Clean lib (writeMsg lib m heap st dp internal).st := by
  unfold writeMsg
  cases hd : (dp && !internal) with
  | false => simp [hst]
  | true =>
    have hdp : dp = true ∧ internal = false := by
      cases dp <;> cases internal <;> simp at hd ⊢
    simp only [if_true]
    have hheap := message_unchanged lib m heap st hst.2.2.2.2
    have hclean := tryPack_preserves_clean lib m heap st hst
    cases hh : (tryPack lib m heap st).handled with
    | false => simp [hheap, hclean]
    | true =>
      obtain ⟨s, hs, hlib⟩ := handled_eq_library lib hm m heap st hst hroom hh
      simp only [hs]
      exact ⟨Or.inr ⟨s.data, rfl, hdp.1, hdp.2, hlib, rfl⟩, hheap, hclean⟩

/-- `udpJob.Write` / `udpJob.WriteMsg` stage exactly the bytes they are given
— copied in when they come from elsewhere (the packer's pooled scratch, an
allocation `PackBuffer` made because the slab was shorter than `Len()+1`),
by length alone only when the library packed them into the slab itself — so
the datagram never shows what an earlier request left in the slab. -/
theorem udp_stages_what_it_is_given (j : UdpJob) (b : Bytes) (ulen : Nat) (hfit : b.length ≤ j.tx.length) :
    (udpWrite j b false).1.staged = b ∧ (udpWrite j b false).2 = true ∧
    (udpWriteMsg j (.ok b) ulen).1.staged = b ∧ (udpWriteMsg j (.ok b) ulen).2 = true := by
  have h1 : ¬ b.length > j.tx.length := by omega
  have hw : (writeAt j.tx 0 b).take b.length = b := by
    have := writeAt_take j.tx 0 b (by omega)
    simpa using this
  have key : ∀ (alias : Bool), ((if (decide (b.length > 0) && !alias) = true then writeAt j.tx 0 b else j.tx).take b.length = b) ∨ alias = true := by
    intro alias
    cases alias with
    | true => exact Or.inr rfl
    | false =>
      left
      by_cases h0 : b.length > 0
      · simp [h0, hw]
      · have : b = [] := List.eq_nil_of_length_eq_zero (by omega)
        subst this; simp
  refine ⟨?_, ?_, ?_, ?_⟩
  · unfold udpWrite UdpJob.staged
    simp only [h1, if_false]
    rcases key false with h | h
    · simpa using h
    · cases h
  · unfold udpWrite; simp [h1]
  · unfold udpWriteMsg
    by_cases hp : ulen + 1 ≤ j.tx.length
    · simp only [hp, if_true]
      unfold udpWrite UdpJob.staged
      have : ¬ b.length > (writeAt j.tx 0 b).length := by rw [writeAt_length]; omega
      simp only [this, if_false]
      simpa using hw
    · simp only [hp, if_false]
      unfold udpWrite UdpJob.staged
      simp only [h1, if_false]
      rcases key false with h | h
      · simpa using h
      · cases h
  · unfold udpWriteMsg
    by_cases hp : ulen + 1 ≤ j.tx.length
    · simp only [hp, if_true]; unfold udpWrite
      have : ¬ b.length > (writeAt j.tx 0 b).length := by rw [writeAt_length]; omega
      simp [this]
    · simp only [hp, if_false]; unfold udpWrite; simp [h1]

/-- **The wire fast path's lease leaves no trace.**  `LeaseWire` changes no
state of the job: a body built in the lease and committed is staged as it is
(by length — the bytes are home), and a lease that was aborted — after any
amount of junk was written into the slab — changes nothing about the reply
that follows through `Write`/`WriteMsg`: it is staged in full all the same. -/
theorem udp_lease_leaves_no_trace (j : UdpJob) (body junk b : Bytes) (ulen : Nat)
    (hbody : body.length ≤ j.tx.length) (hb : b.length ≤ j.tx.length) :
    (udpCommit j body).1.staged = body ∧ (udpCommit j body).2 = true ∧
    (udpWrite (udpAbort j junk) b false).1.staged = b ∧
    (udpWriteMsg (udpAbort j junk) (.ok b) ulen).1.staged = b := by
  have hlen : (udpAbort j junk).tx.length = j.tx.length := by simp [udpAbort, writeAt_length]
  have h1 := udp_stages_what_it_is_given (udpAbort j junk) b ulen (by rw [hlen]; exact hb)
  refine ⟨?_, ?_, h1.1, h1.2.2.1⟩
  · unfold udpCommit
    have : ¬ body.length > j.tx.length := by omega
    simp only [this, if_false]
    unfold udpWrite UdpJob.staged
    have h2 : ¬ body.length > (writeAt j.tx 0 body).length := by rw [writeAt_length]; omega
    simp only [h2, if_false]
    have := writeAt_take j.tx 0 body (by omega)
    simpa using this
  · unfold udpCommit
    have : ¬ body.length > j.tx.length := by omega
    simp only [this, if_false]
    unfold udpWrite
    have h2 : ¬ body.length > (writeAt j.tx 0 body).length := by rw [writeAt_length]; omega
    simp [h2]

/-- **A UDP reply is the library's encoding whichever route it took**: pooled
packer → `Write`, or declined → `WriteMsg` (in place or allocated); if the
library encodes the reply in `b` and `b` fits the slab, the staged datagram is
`b`, for ANY previous content of the slab.  A reply the library refuses, or
one that does not fit, stages nothing and reports failure. -/
theorem udp_reply_is_library {β ν δ : Type} (lib : Lib β ν δ) (hm : Mono lib) (m : Msg ν) (heap : Heap β)
    (st : PState β δ) (hst : Clean lib st) (dp : Bool) (j : UdpJob)
    (hroom : (libPack lib m heap).1 = (libPackWith lib m heap (max (libBufLen lib m heap) packBufferSize)).1) :
    (∀ b, (libPack lib m heap).1 = .ok b → b.length ≤ j.tx.length →
      (udpReply lib m heap st dp j).1.staged = b ∧ (udpReply lib m heap st dp j).2 = true) ∧
    ((∀ b, (libPack lib m heap).1 ≠ .ok b) →
      (udpReply lib m heap st dp j).2 = false ∧ (udpReply lib m heap st dp j).1 = j) := by
  have hw := (writeMsg_one_reply lib hm m heap st hst dp false hroom).1
  unfold udpReply
  rcases hw with h | ⟨b0, h, _, _, hl, _⟩
  · rw [h]
    constructor
    · intro b hb hfit
      rw [hb]
      exact ⟨(udp_stages_what_it_is_given j b _ hfit).2.2.1, (udp_stages_what_it_is_given j b _ hfit).2.2.2⟩
    · intro hno
      cases ho : (libPack lib m heap).1 with
      | ok b => exact absurd ho (hno b)
      | err e => simp [udpWriteMsg]
      | panic => simp [udpWriteMsg]
  · rw [h]
    constructor
    · intro b hb hfit
      rw [hl] at hb; cases hb
      exact ⟨(udp_stages_what_it_is_given j b0 0 hfit).1, (udp_stages_what_it_is_given j b0 0 hfit).2.1⟩
    · intro hno; exact absurd hl (hno b0)

/-- **A TCP reply is one frame carrying the library's encoding**, appended
after the frames already staged on the connection (which are not touched). -/
theorem tcp_reply_is_library {β ν δ : Type} (lib : Lib β ν δ) (hm : Mono lib) (m : Msg ν) (heap : Heap β)
    (st : PState β δ) (hst : Clean lib st) (dp : Bool) (s : TcpStream)
    (hroom : (libPack lib m heap).1 = (libPackWith lib m heap (max (libBufLen lib m heap) packBufferSize)).1) :
    (∀ b, (libPack lib m heap).1 = .ok b → b.length ≤ 65535 →
      (tcpReply lib m heap st dp s).1.frames = s.frames ++ [b] ∧ (tcpReply lib m heap st dp s).2 = true) ∧
    ((∀ b, (libPack lib m heap).1 ≠ .ok b) → tcpReply lib m heap st dp s = (s, false)) := by
  have hw := (writeMsg_one_reply lib hm m heap st hst dp false hroom).1
  unfold tcpReply
  rcases hw with h | ⟨b0, h, _, _, hl, _⟩
  · rw [h]
    constructor
    · intro b hb hfit
      rw [hb]
      have : ¬ b.length > 65535 := by omega
      simp [tcpStage, this]
    · intro hno
      cases ho : (libPack lib m heap).1 with
      | ok b => exact absurd ho (hno b)
      | err e => rfl
      | panic => rfl
  · rw [h]
    constructor
    · intro b hb hfit
      rw [hl] at hb; cases hb
      have : ¬ b0.length > 65535 := by omega
      simp [tcpStage, this]
    · intro hno; exact absurd hl (hno b0)

/-- **DNS-over-QUIC: the stream carries the library's encoding with Message ID 0**
(RFC 9250 §4.2.1) — for every message the library encodes, whether or not the
pooled packer would have handled it: the frame is the 2-octet length followed
by exactly `Pack` of the message with `Id = 0`, and its first two payload
octets are zero; a message the library refuses puts nothing on the stream. -/
theorem doq_frame_is_library_with_id_zero {β ν δ : Type} (lib : Lib β ν δ) (m : Msg ν) (heap : Heap β) :
    (∀ f, doqWriteMsg lib m heap = some f →
      ∃ b, (libPack lib (m.withId 0) heap).1 = .ok b ∧ f = be16 b.length ++ b ∧ b.take 2 = [0, 0]) ∧
    ((∀ b, (libPack lib (m.withId 0) heap).1 ≠ .ok b) → doqWriteMsg lib m heap = none) := by
  constructor
  · intro f hf
    unfold doqWriteMsg at hf
    cases hl : (libPack lib (m.withId 0) heap).1 with
    | ok b =>
      rw [hl] at hf
      simp only [Option.some.injEq] at hf
      refine ⟨b, rfl, hf.symm, ?_⟩
      obtain ⟨t, ht⟩ := libPackWith_starts_with_header lib (m.withId 0) heap _ b hl
      rw [ht]
      simp [headerBytes, Msg.withId, be16]
    | err e => rw [hl] at hf; cases hf
    | panic => rw [hl] at hf; cases hf
  · intro hno
    unfold doqWriteMsg
    cases hl : (libPack lib (m.withId 0) heap).1 with
    | ok b => exact absurd hl (hno b)
    | err e => rfl
    | panic => rfl

/-- **DNS-over-HTTPS: the body is the library's encoding** for every message the
library encodes (status 200), with no hypothesis at all — this transport never
declares `AllowDirectPack`, so the pooled packer is not on its path and the
pooled state is not even touched; a message the library refuses is a 500 with
no DNS body. -/
theorem doh_body_is_library {β ν δ : Type} (lib : Lib β ν δ) (m : Msg ν) (heap : Heap β) (st : PState β δ) :
    (∀ b, (libPack lib m heap).1 = .ok b → dohResponse lib m heap st = (200, b)) ∧
    ((∀ b, (libPack lib m heap).1 ≠ .ok b) → dohResponse lib m heap st = (500, [])) ∧
    (writeMsg lib m heap st false false).st = st ∧ (writeMsg lib m heap st false false).heap = heap := by
  have hev : (writeMsg lib m heap st false false).events = [.writeMsg] := by simp [writeMsg]
  refine ⟨?_, ?_, by simp [writeMsg], by simp [writeMsg]⟩
  · intro b hb
    unfold dohResponse
    rw [hev, hb]
  · intro hno
    unfold dohResponse
    rw [hev]
    cases ho : (libPack lib m heap).1 with
    | ok b => exact absurd ho (hno b)
    | err e => rfl
    | panic => rfl

/-- **What a cache entry keeps** is `PackClone` of the storable view, hence
(`packClone_eq_library`) the library's encoding of that view — header,
question, answer, authority, the additional section without its OPT records,
compressed — whether or not the pooled packer handled it. -/
theorem admit_eq_library_view {β ν δ : Type} (lib : Lib β ν δ) (hm : Mono lib) (m : Msg ν) (heap : Heap β)
    (st : PState β δ) (fresh : Nat) (hst : Clean lib st)
    (hroom : (libPack lib (storableView heap m) heap).1 =
      (libPackWith lib (storableView heap m) heap (max (libBufLen lib (storableView heap m) heap) packBufferSize)).1)
    (hfresh : ∀ s ∈ (storableView heap m).records, s ≠ some fresh) :
    (admitWire lib m heap st fresh).1 = (libPack lib (storableView heap m) heap).1 :=
  (packClone_eq_library lib hm _ heap st fresh hst hroom hfresh).1

/-- `PackClone` of a message whose additional section holds no `*dns.OPT` the
library would select never writes into the caller's records, on either path
and with no hypothesis on the primitives. -/
theorem packClone_leaves_message_without_opt {β ν δ : Type} (lib : Lib β ν δ) (m : Msg ν) (heap : Heap β)
    (st : PState β δ) (fresh : Nat) (hN : st.buf.length = packBufferSize)
    (hno : ∀ p, isEdns0 heap m.extra ≠ some (some p)) :
    (packClone lib m heap st fresh).2.1 = heap := by
  unfold packClone
  simp only
  have hheap := message_unchanged lib m heap st hN
  cases (tryPack lib m heap st).handled with
  | true => simpa using hheap
  | false =>
    simp only [Bool.false_eq_true, if_false, hheap]
    have hlib := libPack_heap_of_no_opt lib m heap hno
    unfold libraryPackImmutable
    split
    · exact hlib
    · split
      · exact hlib
      · split
        · rename_i p hsel
          exfalso
          apply hno p
          rw [opt_selection_eq_isEdns0, hsel]
          rfl
        · exact hlib

/-- **Admission never writes into the caller's message** — on either path and
with no hypothesis on the primitives: the view has no `*dns.OPT` left in its
additional section, so neither the pooled packer (never) nor the library
fallback (only ever into a selected OPT) has anything to write to. -/
theorem admit_leaves_message {β ν δ : Type} (lib : Lib β ν δ) (m : Msg ν) (heap : Heap β)
    (st : PState β δ) (fresh : Nat) (hN : st.buf.length = packBufferSize) :
    (admitWire lib m heap st fresh).2.1 = heap :=
  packClone_leaves_message_without_opt lib _ heap st fresh hN (storableView_no_opt heap m)

/-- **The DO=0 body of a cache entry** (`prepareStripped`) is, exactly when one
is due, the library's encoding of the storable view without its RRSIG / NSEC /
NSEC3 records — provided that encoding is byte-servable — whether the pooled
packer handled the stripped view or declined it (a stripped view still larger
than the pooled buffer gets its body from the fallback, not none); preparing
it never writes into the caller's message. -/
theorem stripped_body_is_library {β ν δ : Type} (lib : Lib β ν δ) (hm : Mono lib) (isSec : Obj β → Bool)
    (servable : Bytes → Bool) (due : Bool) (m : Msg ν) (heap : Heap β) (st : PState β δ) (fresh : Nat)
    (hst : Clean lib st)
    (hroom : (libPack lib (strippedView isSec heap m) heap).1 =
      (libPackWith lib (strippedView isSec heap m) heap
        (max (libBufLen lib (strippedView isSec heap m) heap) packBufferSize)).1)
    (hfresh : ∀ s ∈ (strippedView isSec heap m).records, s ≠ some fresh) :
    (prepareStripped lib isSec servable due m heap st fresh).1 =
      (if due then
        (match (libPack lib (strippedView isSec heap m) heap).1 with
          | .ok b => if servable b then some b else none
          | _ => none)
       else none) ∧
    (prepareStripped lib isSec servable due m heap st fresh).2.1 = heap := by
  unfold prepareStripped
  cases due with
  | false => simp
  | true =>
    simp only [Bool.not_true, Bool.false_eq_true, if_false, if_true]
    have h1 := (packClone_eq_library lib hm (strippedView isSec heap m) heap st fresh hst hroom hfresh).1
    have hno : ∀ p, isEdns0 heap (strippedView isSec heap m).extra ≠ some (some p) := by
      intro p
      have : (strippedView isSec heap m).extra = (storableView heap m).extra := rfl
      rw [this]
      exact storableView_no_opt heap m p
    have h2 := packClone_leaves_message_without_opt lib (strippedView isSec heap m) heap st fresh hst.2.2.2.2 hno
    cases hpc : packClone lib (strippedView isSec heap m) heap st fresh with
    | mk o rest =>
      rw [hpc] at h1 h2
      simp only at h1 h2
      rw [← h1]
      cases o with
      | ok b => exact ⟨rfl, h2⟩
      | err e => exact ⟨rfl, h2⟩
      | panic => exact ⟨rfl, h2⟩

/-- **The verdict `prepareStripped` waits for, computed.**  For a body with one
question whose type is not a DNSSEC type (an RRSIG question never gets a
stripped body; NSEC/NSEC3 questions are the stated exception), stripping
RRSIG / NSEC / NSEC3 from answer and authority (a) leaves no DNSSEC flag,
(b) does not change chase safety — the terminal-qtype and CNAME answers are
not what is removed — so (c) the stripped body is servable exactly when the
full body is chase-safe: whether an entry gets its DO=0 body is decided by the
message, never by which packer encoded it. -/
theorem stripped_verdict (qtype rcode : Nat) (an ns : List Nat) (hq : secTypes.contains qtype = false) :
    (wireServeFlags 1 qtype rcode (stripTypes an) (stripTypes ns)).hasDNSSEC = false ∧
    (wireServeFlags 1 qtype rcode (stripTypes an) (stripTypes ns)).chaseSafe =
      (wireServeFlags 1 qtype rcode an ns).chaseSafe ∧
    (wireServeFlags 1 qtype rcode (stripTypes an) (stripTypes ns)).servable =
      (wireServeFlags 1 qtype rcode an ns).chaseSafe := by
  have hsec : ((stripTypes an ++ stripTypes ns).any fun t => secTypes.contains t) = false := by
    rw [List.any_eq_false]
    intro t ht
    simp only [stripTypes, List.mem_append, List.mem_filter] at ht
    rcases ht with ⟨_, h⟩ | ⟨_, h⟩ <;> simpa using h
  have hcontains : ∀ (x : Nat), secTypes.contains x = false → (stripTypes an).contains x = an.contains x := by
    intro x hx
    rw [Bool.eq_iff_iff, List.contains_iff_mem, List.contains_iff_mem]
    simp only [stripTypes, List.mem_filter]
    constructor
    · exact fun h => h.1
    · exact fun h => ⟨h, by rw [hx]; rfl⟩
  have e1 := hcontains qtype hq
  have e2 := hcontains 5 (by decide)
  have unf : ∀ a n, wireServeFlags 1 qtype rcode a n =
      ⟨true, (a ++ n).any (fun t => secTypes.contains t),
        rcode == 3 || qtype == 5 || qtype == 43 || a.contains qtype || !a.contains 5⟩ := by
    intro a n; rfl
  rw [unf, unf, hsec, e1, e2]
  exact ⟨rfl, rfl, by simp [ServeFlags.servable]⟩

/-- a body without exactly one question is never byte-served, and an RRSIG /
NSEC / NSEC3 record anywhere in answer or authority sets the DNSSEC flag. -/
theorem serve_flags_basics (qd qtype rcode : Nat) (an ns : List Nat) :
    (qd ≠ 1 → wireServeFlags qd qtype rcode an ns = ⟨false, false, false⟩) ∧
    (qd = 1 → ((wireServeFlags qd qtype rcode an ns).hasDNSSEC = true ↔ ∃ t ∈ an ++ ns, t ∈ secTypes)) := by
  constructor
  · intro h; simp [wireServeFlags, h]
  · intro h
    subst h
    show ((an ++ ns).any fun t => secTypes.contains t) = true ↔ _
    rw [List.any_eq_true]
    constructor
    · rintro ⟨t, ht, hc⟩; exact ⟨t, ht, List.contains_iff_mem.mp hc⟩
    · rintro ⟨t, ht, hc⟩; exact ⟨t, ht, List.contains_iff_mem.mpr hc⟩

-- a signed TXT answer (TXT, TXT, RRSIG | NSEC, RRSIG): DNSSEC-flagged, chase-safe; stripped: servable, no flag
example : wireServeFlags 1 16 0 [16, 16, 46] [47, 46] = ⟨true, true, true⟩ ∧
    (wireServeFlags 1 16 0 (stripTypes [16, 16, 46]) (stripTypes [47, 46])).servable = true := by decide
-- an alias without the terminal record is not chase-safe, stripped or not; NXDOMAIN is
example : (wireServeFlags 1 1 0 [5, 46] []).chaseSafe = false ∧ (wireServeFlags 1 1 0 (stripTypes [5, 46]) []).servable = false ∧
    (wireServeFlags 1 1 3 [5, 46] []).chaseSafe = true := by decide

/-- the additional section of the view keeps every record that is not a
`*dns.OPT`, in order, and nothing else. -/
theorem storableView_extra {β ν : Type} (heap : Heap β) (m : Msg ν) (s : Slot) :
    s ∈ (storableView heap m).extra ↔ s ∈ m.extra ∧ (∀ p, s = some p → (heap p).isOPT = false) := by
  simp only [storableView, List.mem_filter]
  cases s with
  | none => simp
  | some p => simp

/-- **The assumption `Mono` follows from how the library bounds-checks**: if
each primitive fails exactly below the room it needs and otherwise returns a
result that does not mention the buffer length (`Room`), a larger buffer never
changes a success. -/
theorem mono_from_bounds_checks {β ν δ : Type} (lib : Lib β ν δ) (h : Room lib) : Mono lib :=
  mono_of_room lib h

/-- **Facts from the compiled library** (regenerated every run over a fixed
sample of generated messages and all their records, and re-checked on every
generated message by the `lib room` op): no primitive changed a successful
result when given a larger buffer, no message packed differently in its own
`Len()+1` buffer than in one as large as the pooled buffer, and the sample
was not empty. -/
theorem library_assumptions_hold_on_sample :
    SdnsVerif.Gen.C15.lib_mono_violations = 0 ∧ SdnsVerif.Gen.C15.lib_hroom_violations = 0 ∧
    SdnsVerif.Gen.C15.lib_sample_records ≥ 1000 ∧ SdnsVerif.Gen.C15.lib_sample_messages ≥ 300 := by
  decide

/-! ### non-vacuity: a concrete instance on which every hypothesis holds -/

/-- a toy instance of the primitives: a record is 11 header bytes + `rest`
rdata bytes whose content shows the top TTL byte (so the extended rcode is
visible in the output); the dictionary counts the names it has seen. -/
def toyLib : Lib Nat Nat Nat where
  adm := fun o => decide (o.rest < 1000)
  packRR := fun o L off d =>
    if off + 11 + o.rest ≤ L then .ok (List.replicate (11 + o.rest) (UInt8.ofNat (o.hdr.ttl / 2 ^ 24))) (d + 1) o.rest
    else .fail d
  packName := fun n L off d => if off + n ≤ L then .ok (List.replicate n 7) (d + 1) 0 else .fail d
  rrLen := fun o => 11 + o.rest
  qLen := fun q => q.name + 4
  nilDict := 0
  emptyDict := 0
  dictLen := id

theorem toy_mono : Mono toyLib := by
  constructor
  · intro o L L' off d bs d' r hL h
    simp only [toyLib] at h ⊢
    split at h
    · rw [if_pos (by omega)]; exact h
    · cases h
  · intro n L L' off d bs d' r hL h
    simp only [toyLib] at h ⊢
    split at h
    · rw [if_pos (by omega)]; exact h
    · cases h

def toyHeap : Heap Nat := fun p =>
  if p = 2 then { isOPT := true, hdr := { rrtype := 41, ttl := 0x8000, rdlength := 0 }, rest := 0 }
  else if p = 3 then { isOPT := true, hdr := { rrtype := 41, ttl := 0xFF008000, rdlength := 7 }, rest := 4 }
  else if p = 9 then { isOPT := false, hdr := { rrtype := 41, ttl := 0, rdlength := 0 }, rest := 4 }
  else { isOPT := false, hdr := { rrtype := 1, ttl := 300, rdlength := 0 }, rest := 4 }

/-- extended rcode 0x123, two different OPTs in Extra, the selected one also in Answer. -/
def toyMsg : Msg Nat :=
  { hdr := { id := 0xBEEF, response := true, recursionDesired := true, rcode := 0x123 }, compress := true,
    question := [{ name := 13, qtype := 1, qclass := 1 }],
    answer := [some 1, some 3], ns := [], extra := [some 2, some 1, some 3, some 4] }

def toySt : PState Nat Nat := { buf := List.replicate packBufferSize 0xA5 }

theorem toy_clean : Clean toyLib toySt := ⟨rfl, rfl, rfl, Or.inl rfl, by simp [toySt]⟩

theorem toy_preflight : preflight toyLib toyMsg toyHeap = .ok (some 3) := by rfl

/-- the packer handles it (hypothesis `h` of `handled_eq_library` is satisfiable) … -/
theorem toy_handled : (tryPack toyLib toyMsg toyHeap toySt).handled = true := by
  obtain ⟨_, _, _, _, _, _, _, hsome⟩ :=
    tryPack_ok toyLib toyMsg toyHeap toySt (some 3) toy_preflight toy_clean.2.2.2.2
  cases hpp : purePack toyLib packBufferSize toyMsg toyHeap (some 3) (dictFor toyLib toyMsg toySt) with
  | none => exact absurd hpp (by decide)
  | some r => exact (hsome r.1 r.2 hpp).1

/-- … and so is `hroom`: the theorem applies, the library returns the very bytes. -/
example : ∃ s, (tryPack toyLib toyMsg toyHeap toySt).consumed = some s ∧
    (libPack toyLib toyMsg toyHeap).1 = .ok s.data :=
  handled_eq_library toyLib toy_mono toyMsg toyHeap toySt toy_clean (by decide) toy_handled

-- and the library did write into the caller's OPT (pointer 3) where the pooled path did not
example : ((libPack toyLib toyMsg toyHeap).2 3).hdr.ttl = 0x12008000 ∧
    ((tryPack toyLib toyMsg toyHeap toySt).heap 3).hdr.ttl = 0xFF008000 := by
  refine ⟨by decide, ?_⟩
  rw [message_unchanged toyLib toyMsg toyHeap toySt toy_clean.2.2.2.2]; rfl

-- PackClone on the same message, and on one the pooled packer declines (too big): both are the library's outcome
example : (packClone toyLib toyMsg toyHeap toySt 77).1 = (libPack toyLib toyMsg toyHeap).1 :=
  (packClone_eq_library toyLib toy_mono toyMsg toyHeap toySt 77 toy_clean (by decide) (by decide)).1
example : (libraryPackImmutable toyLib { toyMsg with ns := [some 5000] } toyHeap 77).1 =
    (libPack toyLib { toyMsg with ns := [some 5000] } toyHeap).1 :=
  fallback_eq_library toyLib _ toyHeap 77 (by decide)

-- the reply path on the toy message: one raw write of the library's bytes; an internal writer gets WriteMsg
example : ∃ b, (writeMsg toyLib toyMsg toyHeap toySt true false).events = [.write b] ∧
    (libPack toyLib toyMsg toyHeap).1 = .ok b := by
  rcases (writeMsg_one_reply toyLib toy_mono toyMsg toyHeap toySt toy_clean true false (by decide)).1 with h | ⟨b, h, _, _, hl, _⟩
  · exfalso
    unfold writeMsg at h
    simp only [Bool.not_false, Bool.and_self, if_true, toy_handled] at h
    obtain ⟨s, hs, _⟩ := handled_eq_library toyLib toy_mono toyMsg toyHeap toySt toy_clean (by decide) toy_handled
    rw [hs] at h
    simp at h
  · exact ⟨b, h, hl⟩
example : (writeMsg toyLib toyMsg toyHeap toySt true true).events = [.writeMsg] := by rfl

-- a stale slab (0xEE everywhere) and a reply packed elsewhere: the datagram is the reply, nothing stale;
-- likewise when the library packed in place
example : (udpWrite { tx := List.replicate 32 0xEE } [1, 2, 3] false).1.staged = [1, 2, 3] := by decide
example : (udpWriteMsg { tx := List.replicate 32 0xEE } (.ok [1, 2, 3]) 40).1.staged = [1, 2, 3] ∧
    (udpWriteMsg { tx := List.replicate 32 0xEE } (.ok [1, 2, 3]) 10).1.staged = [1, 2, 3] := by decide
-- a lease aborted after 5 junk bytes, then a 3-byte reply from the pooled packer: staged in full, no junk
example : (udpWrite (udpAbort { tx := List.replicate 32 0xEE } [9, 9, 9, 9, 9]) [1, 2, 3] false).1.staged = [1, 2, 3] := by decide
example : (udpCommit { tx := List.replicate 32 0xEE } [4, 5, 6]).1.staged = [4, 5, 6] := by decide
-- what the seeded shortcut did (stage by length although the bytes are elsewhere) shows the previous reply
example : ({ tx := List.replicate 32 0xEE, txLen := 3 } : UdpJob).staged = [0xEE, 0xEE, 0xEE] := by decide

-- the toy message (id 0xBEEF) on a DoQ stream: a frame whose payload starts with id 0
example : ∃ f, doqWriteMsg toyLib toyMsg toyHeap = some f ∧ (f.drop 2).take 2 = [0, 0] := by
  cases h : doqWriteMsg toyLib toyMsg toyHeap with
  | none => exact absurd h (by decide)
  | some f =>
    obtain ⟨b, _, hf, hz⟩ := (doq_frame_is_library_with_id_zero toyLib toyMsg toyHeap).1 f h
    exact ⟨f, rfl, by rw [hf]; simpa [be16] using hz⟩

-- the toy answer with pointer 1 counted as a signature: the stripped view drops it from Answer, keeps Extra's non-OPT
-- records, and its DO=0 body is the library's whichever packer produced it
example : (strippedView (fun o => o.hdr.ttl == 300 && !o.isOPT) toyHeap { toyMsg with answer := [some 1, some 3, some 9] }).answer = [some 3, some 9] := by decide
example : (prepareStripped toyLib (fun _ => false) (fun _ => true) true toyMsg toyHeap toySt 77).1 =
    (match (libPack toyLib (strippedView (fun _ => false) toyHeap toyMsg) toyHeap).1 with | .ok b => some b | _ => none) := by
  have := (stripped_body_is_library toyLib toy_mono (fun _ => false) (fun _ => true) true toyMsg toyHeap toySt 77 toy_clean
    (by decide) (by decide)).1
  simpa using this

-- the toy message over DoH: 200 and the library's bytes
example : ∃ b, dohResponse toyLib toyMsg toyHeap toySt = (200, b) ∧ (libPack toyLib toyMsg toyHeap).1 = .ok b := by
  obtain ⟨s, _, hl⟩ := handled_eq_library toyLib toy_mono toyMsg toyHeap toySt toy_clean (by decide) toy_handled
  exact ⟨s.data, (doh_body_is_library toyLib toyMsg toyHeap toySt).1 _ hl, hl⟩

-- the view drops both OPTs (pointers 2 and 3) and keeps the rest in order; the toy primitives satisfy Room
example : (storableView toyHeap toyMsg).extra = [some 1, some 4] ∧ (storableView toyHeap toyMsg).compress = true := by decide
example : (admitWire toyLib toyMsg toyHeap toySt 77).2.1 = toyHeap :=
  admit_leaves_message toyLib toyMsg toyHeap toySt 77 toy_clean.2.2.2.2
example : Room toyLib := by
  constructor
  · intro o off d
    exact ⟨11 + o.rest, List.replicate (11 + o.rest) (UInt8.ofNat (o.hdr.ttl / 2 ^ 24)), d + 1, o.rest, fun _ => d,
      fun L => by simp only [toyLib]; rw [Nat.add_assoc]⟩
  · intro n off d
    exact ⟨n, List.replicate n 7, d + 1, 0, fun _ => d, fun L => by simp only [toyLib]⟩

-- the last of several OPTs is the one selected, a later ordinary record does not matter
example : selectOPT toyHeap toyMsg.extra = (some 3, true) :=
  opt_selection_last toyHeap [some 2, some 1] [some 4] 3 rfl rfl (by simp [toyHeap, typeOPT])
-- an OPT-typed header on something that is not an OPT: both refuse
example : selectOPT toyHeap [some 2, some 9] = (none, false) ∧ isEdns0 toyHeap [some 2, some 9] = none := by decide
-- a nil record after the OPT: both refuse
example : selectOPT toyHeap [some 2, none] = (none, false) ∧ isEdns0 toyHeap [some 2, none] = none := by decide

-- a decline that happens late (a record that does not fit) and one that happens early (nil record)
example : preflight toyLib { toyMsg with ns := [none] } toyHeap = .error .inadmissible := by rfl
example : preflight toyLib { toyMsg with extra := [some 1] } toyHeap = .error .extNoOpt := by rfl
example : preflight toyLib { toyMsg with extra := [some 3, some 9] } toyHeap = .error .unsafeOpt := by rfl
example : preflight toyLib { toyMsg with hdr := { rcode := 4096 } } toyHeap = .error .rcodeRange := by rfl

-- the rewrite on a TTL with stale extended bits and DO set
example : extTtl 0xFF008000 0x123 = 0x12008000 := by decide
example : msgBits toyMsg.hdr = 0x8103 := by decide

-- a dirty state is cleaned by release; a big dictionary is dropped
example : (release toyLib { toySt with compression := some 65, opt := some (toyHeap 3), rrRef := some .stateOpt }).compression = none := by decide
example : (release toyLib { toySt with compression := some 64 }).compression = some 0 := by decide

end SdnsVerif.Props.C15
