import SdnsVerif.Model.AutoTA
import SdnsVerif.Lemmas.AutoTA
import SdnsVerif.Gen.C09
/-!
# C09 — root trust anchors change only as RFC 5011 permits, across crashes and faults

Property theorems about the model of `Resolver.AutoTA`
(`Model/AutoTA.lean`).  Histories are lists of events (`Ev`): clock ticks,
process restarts, corruption of a file, and `AutoTA` runs with an arbitrary
fetched RRset and signer set, arbitrary read / write faults and an optional
crash after any prefix of the run's file replacements (`runHist`).  Key tags are
data of the keys, so every theorem holds for an arbitrary key-tag function.

Vocabulary (defined, with their lemmas, in `Lemmas/AutoTA.lean`):
* `Barred d m` — disk `d` holds a record of the revocation of key material `m`
  (tombstone, or `StateRevoked`/`StateRemoved` marker; a corrupt tombstone file
  bars everything);
* `HistOK` — the read assumption of the `_partial` permanence theorems (the
  state file is not lost while it holds the only record of a revocation);
* `RevocationOf f c` — the fetched set `f` carries the validly self-signed
  REVOKE form of anchor `c`;
* `Ghost`, `ghostStep`, `runHistG`, `HistNC` — specification-side RFC 5011
  bookkeeping of presence streaks (`since`) and completed hold-downs (`earned`),
  and the no-tag-collision assumption of the `_partial` hold-down theorem;
* `HoldInv` — the invariant that ties the implementation state to that bookkeeping.
-/
namespace SdnsVerif.Props.C09
open SdnsVerif.Model.AutoTA SdnsVerif.Lemmas.AutoTA

/-! ## one run -/

/-- **Tombstone precedence (one run).** If the revocation of `m` is on record
when a run starts and the records are read, no key of material `m` is in the
live set the run leaves — whatever the configuration lists, whatever is
fetched, whichever writes fail, whatever the key tags are. -/
theorem run_excludes_barred (P : Params) (cfg : List Key) (d : Disk) (live : List Key)
    (f : Option Fetch) (fl : Faults) (now m : Nat)
    (hb : Barred d m)
    (hs : fl.stateRead = true → MarkersCovered d) :
    ∀ k ∈ (autoTA P cfg d live f fl now).live, k.mat ≠ m := by
  by_cases hT : fl.tombRead = true
  · -- unreadable store: the run clears the trust set and aborts
    have hc : readTomb d fl = .corrupt := by simp [readTomb, hT]
    intro k hk
    unfold autoTA at hk
    simp [hc] at hk
  have ht : fl.tombRead = false := by simpa using hT
  -- the in-memory tombstone set after migration contains m (or the store is corrupt)
  have key : d.tomb.undecodable = true ∨ ∃ tomb0, readTomb d fl = .ok tomb0 ∧ m ∈ migrate (readState d live fl now) tomb0 := by
    rcases hb with hc | ⟨ms, hms, hm⟩ | ⟨tas, htas, ta, hta, hmat, hmark⟩
    · exact Or.inl hc
    · right
      refine ⟨ms, by simp [readTomb, ht, hms], migrate_mono _ _ _ hm⟩
    · by_cases hsr : fl.stateRead = true
      · rcases hs hsr tas htas ta hta hmark with hc | ⟨ms, hms, hm⟩
        · exact Or.inl hc
        · right
          exact ⟨ms, by simp [readTomb, ht, hms], migrate_mono _ _ _ (hmat ▸ hm)⟩
      · have hsr' : fl.stateRead = false := by simpa using hsr
        cases htomb : d.tomb with
        | corrupt => exact Or.inl rfl
        | empty => exact Or.inl rfl
        | absent =>
          right
          refine ⟨[], by simp [readTomb, ht, htomb], ?_⟩
          have : readState d live fl now = tas := by simp [readState, hsr', htas]
          rw [this, ← hmat]
          exact migrate_marker _ _ ta hta hmark
        | ok ms =>
          right
          refine ⟨ms, by simp [readTomb, ht, htomb], ?_⟩
          have : readState d live fl now = tas := by simp [readState, hsr', htas]
          rw [this, ← hmat]
          exact migrate_marker _ _ ta hta hmark
  intro k hk
  unfold autoTA at hk
  rcases key with hc | ⟨tomb0, hrt, hmig⟩
  · have : readTomb d fl = .corrupt := readTomb_undecodable d fl hc
    simp only [this] at hk
    cases hk
  · simp only [hrt] at hk
    have hprep := prepare_excl (now := now) cfg (readState d live fl now) tomb0 hmig
    generalize hpe : prepare cfg (readState d live fl now) tomb0 now = pr at hk hprep
    obtain ⟨cur, tomb⟩ := pr
    simp only at hk hprep
    have hcand := candidate_excludes hprep.2
    have hlive1 : ∀ k ∈ (if (!live.isEmpty) = true then candidate cur else live), k.mat ≠ m := by
      intro k hk
      split at hk
      · exact hcand k hk
      · next hne =>
        have : live = [] := by
          cases live with
          | nil => rfl
          | cons a b => simp at hne
        subst this; cases hk
    cases f with
    | none => exact hlive1 k hk
    | some f =>
      simp only at hk
      have hproc : ∀ ro, Excl m (process P f ro now cur tomb).cur (process P f ro now cur tomb).tomb :=
        fun ro => process_excl P f ro cur tomb hprep
      cases hv : verifyFetched (candidate cur) f with
      | none => simp only [hv] at hk; exact hlive1 k hk
      | full =>
        simp only [hv] at hk
        exact finish_live_excl fl _ _ _ _ hlive1 (hproc _).2 k hk
      | revOnly =>
        simp only [hv] at hk
        exact finish_live_excl fl _ _ _ _ hlive1 (hproc _).2 k hk

/-- **Records are never lost (one run, any crash point).** After any prefix of
the run's file replacements, a revocation that was on record is still on
record: tombstones only grow, and a marker leaves the state file only in a
replacement that comes after the tombstone replacement that carries it. -/
theorem run_keeps_barred (P : Params) (cfg : List Key) (d : Disk) (live : List Key)
    (f : Option Fetch) (fl : Faults) (now m : Nat) (n : Nat)
    (hb : Barred d m)
    (hs : fl.stateRead = true → MarkersCovered d) :
    Barred (applyWrites d ((autoTA P cfg d live f fl now).writes.take n)) m := by
  by_cases hT : fl.tombRead = true
  · have hc : readTomb d fl = .corrupt := by simp [readTomb, hT]
    have hw : (autoTA P cfg d live f fl now).writes = [] := by
      unfold autoTA; simp [hc]
    rw [hw]; simpa [applyWrites] using hb
  have ht : fl.tombRead = false := by simpa using hT
  rcases autoTA_inv P cfg d live f fl now with ⟨hw, _, _, _⟩ | ⟨tomb0, f', a, hrt, rfl, _, _, heq⟩
  · rw [hw]; simpa [applyWrites] using hb
  · rw [heq, finish_writes]
    generalize hpr : prepare cfg (readState d live fl now) tomb0 now = pr
    have hk := prepare_keep (m := m) (now := now) cfg (readState d live fl now) tomb0
    rw [hpr] at hk
    have hp := process_keep (m := m) (now := now) P f' (a == .revOnly) pr.1 pr.2
    generalize process P f' (a == .revOnly) now pr.1 pr.2 = l at hp
    -- not corrupt, since the read succeeded
    have hnc : ¬ d.tomb.undecodable = true := by
      rw [(readTomb_ok d fl tomb0 hrt).1]; simp
    -- reduce to: tombstoned on disk, or marker on disk with the state file read
    have key : (∃ ms, d.tomb = .ok ms ∧ m ∈ ms) ∨
        (fl.stateRead = false ∧ ∃ tas, d.state = .ok tas ∧ ∃ ta ∈ tas, ta.key.mat = m ∧ isMarker ta.st = true) := by
      rcases hb with hc | h2 | ⟨tas, htas, ta, hta, hmat, hmark⟩
      · exact absurd hc hnc
      · exact Or.inl h2
      · by_cases hsr : fl.stateRead = true
        · rcases hs hsr tas htas ta hta hmark with hc | ⟨ms, hms, hm⟩
          · exact absurd hc hnc
          · exact Or.inl ⟨ms, hms, hmat ▸ hm⟩
        · exact Or.inr ⟨by simpa using hsr, tas, htas, ta, hta, hmat, hmark⟩
    have d_eta : d = { state := d.state, tomb := d.tomb } := rfl
    rcases key with ⟨ms, hms, hm⟩ | ⟨hsr, tas, htas, ta, hta, hmat, hmark⟩
    · -- tombstone on disk: it is in memory and in whatever is written
      have htomb0 : tomb0 = ms := by
        simp [readTomb, ht, hms] at hrt; exact hrt.symm
      have hl : m ∈ l.tomb := hp.2 (hk.2 (migrate_mono _ _ _ (htomb0 ▸ hm)))
      cases fl.tombWrite <;> cases fl.stateWrite <;> rcases n with _ | _ | n <;>
        simp [applyWrites, applyWrite] <;>
        first
          | exact Or.inr (Or.inl ⟨ms, hms, hm⟩)
          | exact Or.inr (Or.inl ⟨_, rfl, hl⟩)
    · -- marker on disk, state file read: marker and tombstone both in memory
      have hcur0 : readState d live fl now = tas := by simp [readState, hsr, htas]
      have hmk0 : HasMarker m (readState d live fl now) := hcur0 ▸ ⟨ta, hta, hmat, hmark⟩
      have hmig : m ∈ migrate (readState d live fl now) tomb0 := by
        rw [hcur0, ← hmat]; exact migrate_marker _ _ ta hta hmark
      have hl : m ∈ l.tomb := hp.2 (hk.2 hmig)
      have hmk : HasMarker m l.cur := hp.1 (hk.1 hmk0)
      have hdisk : Barred d m := Or.inr (Or.inr ⟨tas, htas, ta, hta, hmat, hmark⟩)
      obtain ⟨tb, htb, hm1, hm2⟩ := hmk
      cases fl.tombWrite <;> cases fl.stateWrite <;> rcases n with _ | _ | n <;>
        simp [applyWrites, applyWrite] <;>
        first
          | exact hdisk
          | exact Or.inr (Or.inl ⟨_, rfl, hl⟩)
          | exact Or.inr (Or.inr ⟨_, rfl, tb, htb, hm1, hm2⟩)

/-! ## histories -/

theorem step_keeps_barred (P : Params) (cfg : List Key) (s : Sys) (e : Ev) (m : Nat)
    (hok : EvOK s e) (hb : Barred s.disk m) : Barred (step P cfg s e).disk m := by
  cases e with
  | tick dt => exact hb
  | restart => exact hb
  | boot fl => exact hb
  | damage dm =>
    cases dm with
    | tomb => exact Or.inl rfl
    | tombEmpty => exact Or.inl rfl
    | state =>
      rcases hb with hc | ⟨ms, hms, hm⟩ | ⟨tas, htas, ta, hta, hmat, hmark⟩
      · exact Or.inl hc
      · exact Or.inr (Or.inl ⟨ms, hms, hm⟩)
      · rcases hok tas htas ta hta hmark with hc | ⟨ms, hms, hm⟩
        · exact Or.inl hc
        · exact Or.inr (Or.inl ⟨ms, hms, hmat ▸ hm⟩)
    | stateEmpty =>
      rcases hb with hc | ⟨ms, hms, hm⟩ | ⟨tas, htas, ta, hta, hmat, hmark⟩
      · exact Or.inl hc
      · exact Or.inr (Or.inl ⟨ms, hms, hm⟩)
      · rcases hok tas htas ta hta hmark with hc | ⟨ms, hms, hm⟩
        · exact Or.inl hc
        · exact Or.inr (Or.inl ⟨ms, hms, hmat ▸ hm⟩)
  | run f fl crash =>
    have hs := hok
    cases crash with
    | none =>
      have := run_keeps_barred P cfg s.disk (startLive cfg s) f fl s.now m
        (autoTA P cfg s.disk (startLive cfg s) f fl s.now).writes.length hb hs
      rw [List.take_length] at this
      exact this
    | some k => exact run_keeps_barred P cfg s.disk (startLive cfg s) f fl s.now m k hb hs

/-- **Revocation records are monotone along every history**: restarts, crashes
after any prefix of the persistence steps, failures of either or both writes,
corruption of the tombstone file, arbitrary fetched data. -/
theorem barred_monotone (P : Params) (cfg : List Key) (s : Sys) (evs : List Ev) (m : Nat)
    (hok : HistOK P cfg s evs) (hb : Barred s.disk m) : Barred (runHist P cfg s evs).disk m := by
  induction evs generalizing s with
  | nil => exact hb
  | cons e rest ih =>
    simp only [runHist, List.foldl_cons]
    exact ih _ hok.2 (step_keeps_barred P cfg s e m hok.1 hb)

/-- **tombstone_permanent (partial: readable / absent / corrupt stores).**
Once a revocation of material `m` has a durable record — tombstone or
`StateRevoked` marker — every `AutoTA` run that completes afterwards, after any
history of further refreshes (any fetched sets, colliding tags, forged
signatures), restarts, crashes between the two writes, write failures and
tombstone corruption, with a configuration that may still list the key,
publishes a live trust set without any key of material `m`.

The tombstone file may be unreadable at any refresh (the run then fails
closed, `unreadable_store_fail_closed`). The only hypothesis left, `HistOK`:
the state file is not lost (read fault / corruption) at a moment when its
`StateRevoked` marker is the only record of a revocation.

FULL-STRENGTH STATEMENT (false, see `tombstone_permanent_fails_when_state_lost`):
the same without `HistOK`. -/
theorem tombstone_permanent_partial (P : Params) (cfg : List Key) (s : Sys) (evs : List Ev)
    (f : Option Fetch) (fl : Faults) (m : Nat)
    (hb : Barred s.disk m) (hok : HistOK P cfg s (evs ++ [.run f fl none])) :
    ∀ live, (runHist P cfg s (evs ++ [.run f fl none])).proc = some live → ∀ k ∈ live, k.mat ≠ m := by
  obtain ⟨h1, h2⟩ := (histOK_append P cfg s evs _).mp hok
  have hb' := barred_monotone P cfg s evs m h1 hb
  obtain ⟨hs, _⟩ := h2
  intro live hl k hk
  have hrun : runHist P cfg s (evs ++ [.run f fl none]) =
      step P cfg (runHist P cfg s evs) (.run f fl none) := by simp [runHist]
  rw [hrun] at hl
  simp only [step, runResult, Option.some.injEq] at hl
  subst hl
  exact run_excludes_barred P cfg _ _ f fl _ m hb' hs k hk

/-! ## a new revocation: recorded, or fail closed -/

/-- **both_writes_fail_closed.** A run that accepted a new revocation and
could persist neither record publishes the empty trust set. -/
theorem both_writes_fail_closed (P : Params) (cfg : List Key) (d : Disk) (live : List Key)
    (f : Option Fetch) (fl : Faults) (now : Nat)
    (hrev : (autoTA P cfg d live f fl now).revoked ≠ [])
    (h1 : fl.tombWrite = true) (h2 : fl.stateWrite = true) :
    (autoTA P cfg d live f fl now).live = [] ∧ (autoTA P cfg d live f fl now).writes = [] := by
  rcases autoTA_inv P cfg d live f fl now with ⟨_, hr, _, _⟩ | ⟨tomb0, f', a, _, _, _, _, heq⟩
  · exact absurd hr hrev
  · rw [heq] at hrev ⊢
    generalize process P f' (a == Auth.revOnly) now _ _ = l at hrev ⊢
    unfold finish at hrev ⊢
    simp only at hrev
    have : l.revoked.isEmpty = false := by
      cases h : l.revoked with
      | nil => exact absurd h hrev
      | cons _ _ => rfl
    simp [h1, h2, this]

/-- **Every accepted revocation is recorded or the resolver fails closed.**
For a material revoked in this run: if at least one of the two writes lands,
the revocation is on record afterwards (tombstone, or `StateRevoked` marker
when only the state write landed); otherwise the live set is empty. -/
theorem revocation_recorded_or_closed (P : Params) (cfg : List Key) (d : Disk) (live : List Key)
    (f : Option Fetch) (fl : Faults) (now m : Nat)
    (hm : m ∈ (autoTA P cfg d live f fl now).revoked) :
    (autoTA P cfg d live f fl now).live = [] ∨
    Barred (applyWrites d (autoTA P cfg d live f fl now).writes) m := by
  rcases autoTA_inv P cfg d live f fl now with ⟨_, hr, _, _⟩ | ⟨tomb0, f', a, _, _, _, _, heq⟩
  · rw [hr] at hm; cases hm
  · by_cases hboth : fl.tombWrite = true ∧ fl.stateWrite = true
    · left
      exact (both_writes_fail_closed P cfg d live f fl now (fun h => by rw [h] at hm; cases hm) hboth.1 hboth.2).1
    · right
      rw [heq] at hm ⊢
      have hinv := process_revInv (now := now) P f' (a == .revOnly)
        (prepare cfg (readState d live fl now) tomb0 now).1 (prepare cfg (readState d live fl now) tomb0 now).2
      generalize process P f' (a == .revOnly) now _ _ = l at hm hinv ⊢
      rw [finish_writes]
      have hm' : m ∈ l.revoked := hm
      obtain ⟨htomb, tb, htb, hm1, hm2⟩ := hinv m hm'
      revert hboth
      cases fl.tombWrite <;> cases fl.stateWrite <;> intro hboth <;>
        simp [applyWrites, applyWrite] at hboth ⊢ <;>
        first
          | exact Or.inr (Or.inl ⟨_, rfl, htomb⟩)
          | exact Or.inr (Or.inr ⟨_, rfl, tb, htb, hm1, hm2⟩)

/-- **revocation_needs_material_and_selfsig.** Whatever authenticated the set
(fully, or revocation-only), a revocation is accepted only for an anchor that
was on record as Valid or Missing, on the evidence of a fetched key that is
that anchor with exactly the REVOKE bit toggled (same key material — a key-tag
match alone never suffices) and that validly self-signed the fetched RRset. -/
theorem revocation_needs_material_and_selfsig (P : Params) (cfg : List Key) (d : Disk) (live : List Key)
    (f : Fetch) (fl : Faults) (now m : Nat)
    (hm : m ∈ (autoTA P cfg d live (some f) fl now).revoked) :
    ∃ old ∈ (autoTA P cfg d live none fl now).curFinal,
      old.key.mat = m ∧ isTrusted old.st = true ∧ RevocationOf f old.key := by
  rcases autoTA_inv P cfg d live (some f) fl now with ⟨_, hr, _, _⟩ | ⟨tomb0, f', a, hrt, hf, _, _, heq⟩
  · rw [hr] at hm; cases hm
  · cases hf
    rw [heq] at hm
    rw [autoTA_none P cfg d live fl now tomb0 hrt]
    simp only
    have hm' : m ∈ (process P f (a == .revOnly) now
        (prepare cfg (readState d live fl now) tomb0 now).1
        (prepare cfg (readState d live fl now) tomb0 now).2).revoked := hm
    obtain ⟨k, h1, h2, h3, h4, old, h5, h6, h7⟩ := process_revoked P f _ now _ _ m hm'
    exact ⟨old, h5, by rw [sameKey_mat h7]; exact h4, h6, k, h1, h2, h7, h3⟩

/-- **A validly self-signed revocation of a Valid OR Missing anchor is acted
on** (RFC 5011 state table: Valid + RevBit and Missing + RevBit both go to
Revoked; a Missing key is still a published trust anchor). The staging step
accepts it ... -/
theorem stageOne_honours_valid_and_missing (cur : List TA) (tomb : List Nat) (f : Fetch) (k : Key) (old : TA)
    (hr : k.revoke = true) (ht : tomb.contains k.mat = false) (hne : sameAsExisting cur k = false)
    (hl : lookup cur (tagSub128 k.tag) = some old)
    (hst : old.st = .valid ∨ old.st = .missing)
    (hs : sameKeyExceptRevoke old.key k = true) (hself : selfSigned f k = true) :
    stageOne cur tomb f k = true := by
  unfold stageOne
  have : isTrusted old.st = true := by rcases hst with h | h <;> simp [h, isTrusted]
  simp only [hr, ht, hne, hl, this, hs, hself, Bool.not_false, Bool.and_self]

/-- ... and the loop then revokes exactly that entry, tombstones its material
and counts the revocation. -/
theorem procFetched_honours_valid_and_missing (staged : List Key) (ro : Bool) (now : Nat) (s : Loop) (k : Key) (old : TA)
    (hr : k.revoke = true) (ht : s.tomb.contains k.mat = false) (hne : sameAsExisting s.cur k = false)
    (hl : lookup s.cur (tagSub128 k.tag) = some old)
    (hst : old.st = .valid ∨ old.st = .missing)
    (hs : sameKeyExceptRevoke old.key k = true) (hstaged : staged.contains k = true) :
    k.mat ∈ (procFetched staged ro now s k).revoked ∧ k.mat ∈ (procFetched staged ro now s k).tomb ∧
    { old with st := .revoked, firstSeen := now } ∈ (procFetched staged ro now s k).cur := by
  have htr : isTrusted old.st = true := by rcases hst with h | h <;> simp [h, isTrusted]
  unfold procFetched
  simp only [ht, hne, hr, hl, htr, hs, hstaged, Bool.false_eq_true, if_false, if_true, Bool.and_self]
  exact ⟨List.mem_append_right _ (by simp), List.mem_append_right _ (by simp), setRevoked_lookup _ _ now old hl⟩

/-- **self_signed_revocation_is_honoured (whole run).** Completeness of the
revocation path: in an accepted refresh (fully authenticated or
revocation-only), a SEP key `k` of the answer that carries the REVOKE bit,
validly self-signed the answer section, and is the anchor on record at
`tag - 128` — Valid OR Missing — with only the REVOKE bit toggled, IS accepted
as that anchor's revocation (`k.mat ∈ revoked`, hence recorded or fail-closed by
`revocation_recorded_or_closed`, and out of the trust set). Side conditions:
the material is not tombstoned yet, `k` is not already tracked, and no other
SEP key of the answer carries the REVOKE bit or one of the two key tags (the
hypotheses under which the tag-indexed loop cannot be diverted). -/
theorem self_signed_revocation_is_honoured (P : Params) (cfg : List Key) (d : Disk) (live : List Key)
    (f : Fetch) (fl : Faults) (now : Nat) (tomb0 : List Nat) (k : Key) (old : TA)
    (hrt : readTomb d fl = .ok tomb0)
    (hv : verifyFetched (candidate (prepare cfg (readState d live fl now) tomb0 now).1) f ≠ .none)
    (hk : k ∈ f.all) (hsep : k.sep = true) (hr : k.revoke = true) (hself : selfSigned f k = true)
    (hl : lookup (prepare cfg (readState d live fl now) tomb0 now).1 (tagSub128 k.tag) = some old)
    (hst : old.st = .valid ∨ old.st = .missing)
    (hs : sameKeyExceptRevoke old.key k = true)
    (ht : (prepare cfg (readState d live fl now) tomb0 now).2.contains k.mat = false)
    (hne : sameAsExisting (prepare cfg (readState d live fl now) tomb0 now).1 k = false)
    (hothers : ∀ q ∈ f.all, q.sep = true → q ≠ k →
      q.revoke = false ∧ q.tag ≠ tagSub128 k.tag ∧ q.tag ≠ k.tag) :
    k.mat ∈ (autoTA P cfg d live (some f) fl now).revoked := by
  rcases autoTA_inv P cfg d live (some f) fl now with ⟨_, _, ha, _⟩ | ⟨t0, f', a, hrt', hf, hva, _, heq⟩
  · -- an early return means the answer was not accepted
    exfalso
    unfold autoTA at ha
    simp only [hrt] at ha
    generalize prepare cfg (readState d live fl now) tomb0 now = pr at ha hv
    obtain ⟨cur, tomb⟩ := pr
    simp only at ha hv
    cases hvv : verifyFetched (candidate cur) f with
    | none => exact hv hvv
    | full => simp [hvv, finish] at ha
    | revOnly => simp [hvv, finish] at ha
  · cases hf
    rw [hrt] at hrt'
    cases hrt'
    rw [heq]
    show k.mat ∈ (process P f (a == .revOnly) now _ _).revoked
    generalize hpr : prepare cfg (readState d live fl now) tomb0 now = pr at hl ht hne
    obtain ⟨cur, tomb⟩ := pr
    simp only at hl ht hne ⊢
    have hrev : (process P f (a == .revOnly) now cur tomb).revoked =
        ((sortByTag (fetchedMap f.all)).foldl
          (procFetched (stage cur tomb f (sortByTag (fetchedMap f.all))) (a == .revOnly) now)
          { cur := cur, tomb := tomb }).revoked := by
      unfold process
      simp only
      split <;> rfl
    rw [hrev]
    have hkf : k ∈ sortByTag (fetchedMap f.all) :=
      (mem_sortByTag k _).mpr (mem_fetchedMap_of f.all k hk hsep
        (fun q hq hqs hqk => (hothers q hq hqs hqk).2.2))
    have hstage : (stage cur tomb f (sortByTag (fetchedMap f.all))).contains k = true := by
      have : k ∈ stage cur tomb f (sortByTag (fetchedMap f.all)) := by
        unfold stage
        exact List.mem_filter.mpr ⟨hkf, stageOne_honours_valid_and_missing cur tomb f k old hr ht hne hl hst hs hself⟩
      simpa using this
    have htr : isTrusted old.st = true := by rcases hst with h | h <;> simp [h, isTrusted]
    apply foldl_procFetched_honours _ _ now _ { cur := cur, tomb := tomb } k old hkf ?_ hr ht hne hl htr hs hstage
    intro q hq hqk
    obtain ⟨h1, h2⟩ := mem_fetchedMap q _ ((mem_sortByTag q _).mp hq)
    exact hothers q h1 h2 hqk

/-! ## corrupt / unreadable revocation store -/

/-- **corrupt_store_fail_closed.** A tombstone file whose bytes do not decode
clears the live trust set and aborts the refresh: nothing is written. -/
theorem corrupt_store_fail_closed (P : Params) (cfg : List Key) (d : Disk) (live : List Key)
    (f : Option Fetch) (fl : Faults) (now : Nat)
    (hc : d.tomb.undecodable = true) :
    (autoTA P cfg d live f fl now).live = [] ∧ (autoTA P cfg d live f fl now).writes = [] := by
  unfold autoTA
  simp [readTomb_undecodable d fl hc]

/-- **empty_store_fail_closed.** The instance the C09 round-2 seed broke: a
tombstone file that exists with ZERO length (a post-crash / full-disk
truncation artefact; `gob` returns `io.EOF`) is NOT an empty store: trust is
cleared and the file is not replaced. Only NotExist is an empty store. -/
theorem empty_store_fail_closed (P : Params) (cfg : List Key) (d : Disk) (live : List Key)
    (f : Option Fetch) (fl : Faults) (now : Nat) (hc : d.tomb = .empty) :
    (autoTA P cfg d live f fl now).live = [] ∧ (autoTA P cfg d live f fl now).writes = [] :=
  corrupt_store_fail_closed P cfg d live f fl now (by rw [hc]; rfl)

/-- **unreadable_store_fail_closed.** A tombstone file that exists but cannot
be opened or read (any `readTombstones` error other than NotExist) clears the
live trust set and aborts the refresh: nothing is written — in particular the
store is not replaced by an empty one. Full strength (tree ≥ 1cde6e3). -/
theorem unreadable_store_fail_closed (P : Params) (cfg : List Key) (d : Disk) (live : List Key)
    (f : Option Fetch) (fl : Faults) (now : Nat) (ht : fl.tombRead = true) :
    (autoTA P cfg d live f fl now).live = [] ∧ (autoTA P cfg d live f fl now).writes = [] := by
  unfold autoTA
  simp [readTomb, ht]

/-! ## unauthenticated responses -/

/-- the trust anchors a run authenticates the fetched RRset with. -/
def anchors (P : Params) (cfg : List Key) (d : Disk) (live : List Key) (fl : Faults) (now : Nat) : List Key :=
  (autoTA P cfg d live none fl now).cand

/-- **What acceptance requires: every RRset of the answer is covered.** If
`verifyFetchedKeys` accepts an answer, then EVERY RRset in its answer section —
the root's DNSKEY RRset and every other RRset, in particular a DNSKEY RRset
under any other owner name, all of which `AutoTA` goes on to consume — carries
an RRSIG that verifies under an `Anchoring` key: a SEP candidate anchor, or the
REVOKE form (in the answer) of one. Nothing unsigned rides along. -/
theorem accepted_needs_trusted_signature (cand : List Key) (f : Fetch)
    (h : verifyFetched cand f ≠ .none) :
    (f.keys ≠ [] → ∃ k, Anchoring cand f k ∧ signedBy f.signers k = true) ∧
    ∀ e ∈ f.extras, ∃ k, Anchoring cand f k ∧ signedBy e.signers k = true := by
  have cur : ∀ k ∈ cand.filter (·.sep), Anchoring cand f k := by
    intro k hk
    obtain ⟨h1, h2⟩ := List.mem_filter.mp hk
    exact Or.inl ⟨h1, h2⟩
  have boot : ∀ k ∈ bootstrap (cand.filter (·.sep)) f, Anchoring cand f k := by
    intro k hk
    unfold bootstrap at hk
    obtain ⟨hk1, hk2⟩ := List.mem_filter.mp hk
    simp only [Bool.and_eq_true] at hk2
    obtain ⟨c, hc, hcc⟩ := List.any_eq_true.mp hk2.2
    simp only [Bool.and_eq_true] at hcc
    obtain ⟨hc1, hc2⟩ := List.mem_filter.mp hc
    exact Or.inr ⟨hk1, hk2.1, c, hc1, hc2, hcc.2⟩
  have lift : ∀ ks : List Key, (∀ k ∈ ks, Anchoring cand f k) → coveredBy f ks = true →
      (f.keys ≠ [] → ∃ k, Anchoring cand f k ∧ signedBy f.signers k = true) ∧
      ∀ e ∈ f.extras, ∃ k, Anchoring cand f k ∧ signedBy e.signers k = true := by
    intro ks hks hcov
    obtain ⟨h1, h2⟩ := coveredBy_spec f ks hcov
    refine ⟨fun hne => ?_, fun e he => ?_⟩
    · obtain ⟨k, hk, hs⟩ := h1 hne; exact ⟨k, hks k hk, hs⟩
    · obtain ⟨k, hk, hs⟩ := h2 e he; exact ⟨k, hks k hk, hs⟩
  unfold verifyFetched at h
  split at h
  · exact absurd rfl h
  · simp only at h
    split at h
    · exact absurd rfl h
    · split at h
      · next hcov => exact lift _ cur hcov
      · split at h
        · next hcov =>
          simp only [Bool.and_eq_true] at hcov
          exact lift _ boot hcov.2
        · exact absurd rfl h

/-- **Every DNSKEY the run consumes was covered.** `AutoTA` builds `kskFetched`
from every DNSKEY of the answer section, whatever its owner name (`Fetch.all`);
if the answer was accepted, each of them lies in an RRset validly signed by an
`Anchoring` key — an unsigned key under another owner name cannot ride along
with a genuinely signed root DNSKEY RRset. -/
theorem consumed_key_is_covered (cand : List Key) (f : Fetch)
    (h : verifyFetched cand f ≠ .none) (k : Key) (hk : k ∈ f.all) :
    (k ∈ f.keys ∧ ∃ a, Anchoring cand f a ∧ signedBy f.signers a = true) ∨
    (∃ e ∈ f.extras, k ∈ e.keys ∧ ∃ a, Anchoring cand f a ∧ signedBy e.signers a = true) := by
  obtain ⟨h1, h2⟩ := accepted_needs_trusted_signature cand f h
  unfold Fetch.all at hk
  rcases List.mem_append.mp hk with hk1 | hk1
  · exact Or.inl ⟨hk1, h1 (by intro he; rw [he] at hk1; cases hk1)⟩
  · obtain ⟨e, he, hke⟩ := List.mem_flatMap.mp hk1
    exact Or.inr ⟨e, he, hke, h2 e he⟩

/-- **unauthenticated_changes_nothing.** A DNSKEY response that no trusted key
authenticates (and likewise a failed query) has exactly the effect of no
response at all: no file is written, no revocation is accepted, and the live
set is the tombstone-filtered set of anchors already on record — the fetched
keys and signatures have no influence on anything. -/
theorem unauthenticated_changes_nothing (P : Params) (cfg : List Key) (d : Disk) (live : List Key)
    (f : Fetch) (fl : Faults) (now : Nat)
    (h : verifyFetched (anchors P cfg d live fl now) f = .none) :
    autoTA P cfg d live (some f) fl now = autoTA P cfg d live none fl now ∧
    (autoTA P cfg d live none fl now).writes = [] ∧
    (autoTA P cfg d live none fl now).revoked = [] := by
  unfold anchors at h
  unfold autoTA at h ⊢
  cases hrt : readTomb d fl with
  | corrupt => simp
  | ok tomb0 =>
    simp only [hrt] at h ⊢
    generalize prepare cfg (readState d live fl now) tomb0 now = pr at h ⊢
    obtain ⟨cur, tomb⟩ := pr
    simp only at h ⊢
    simp [h]

/-! ## revocation-only authentication -/

/-- **revocation_only_restricted.** When a set is authenticated only by the
self-signature of a revoked anchor (no non-revoked anchor signed it), the run
can do nothing but complete revocations that the set itself carries: compared
with the same run without any response,
1. nothing new is trusted,
2. an anchor leaves the live set only because its own revocation is in the set
   (or the resolver fails closed),
3. every entry of `kskCurrent` is an unchanged old entry or the `StateRevoked`
   form of an anchor whose own revocation is in the set — no new pending key,
   no Missing / Valid / Removed transition, no timer touched,
4. and the state file, if written, holds only such entries. -/
theorem revocation_only_restricted (P : Params) (cfg : List Key) (d : Disk) (live : List Key)
    (f : Fetch) (fl : Faults) (now : Nat)
    (hro : (autoTA P cfg d live (some f) fl now).auth = .revOnly) :
    (∀ k ∈ (autoTA P cfg d live (some f) fl now).live, k ∈ (autoTA P cfg d live none fl now).cand) ∧
    (∀ k ∈ (autoTA P cfg d live none fl now).cand, k ∉ (autoTA P cfg d live (some f) fl now).live →
      (autoTA P cfg d live (some f) fl now).live = [] ∨ RevocationOf f k) ∧
    (∀ ta ∈ (autoTA P cfg d live (some f) fl now).curFinal,
      ta ∈ (autoTA P cfg d live none fl now).curFinal ∨
      (ta.st = .revoked ∧ ∃ old ∈ (autoTA P cfg d live none fl now).curFinal,
        old.key = ta.key ∧ isTrusted old.st = true ∧ RevocationOf f old.key)) ∧
    (∀ tas, Write.state tas ∈ (autoTA P cfg d live (some f) fl now).writes →
      ∀ ta ∈ tas, ta ∈ (autoTA P cfg d live (some f) fl now).curFinal) := by
  rcases autoTA_inv P cfg d live (some f) fl now with ⟨_, _, ha, _⟩ | ⟨tomb0, f', a, hrt, hf, _, _, heq⟩
  · rw [ha] at hro; cases hro
  · cases hf
    rw [heq] at hro ⊢
    have ha : a = .revOnly := hro
    subst ha
    rw [autoTA_none P cfg d live fl now tomb0 hrt]
    simp only
    generalize hpr : prepare cfg (readState d live fl now) tomb0 now = pr
    obtain ⟨cur, tomb⟩ := pr
    simp only
    -- the loop result (the hold-down loop is skipped)
    have hl : process P f (Auth.revOnly == Auth.revOnly) now cur tomb =
        (sortByTag (fetchedMap f.all)).foldl
          (procFetched (stage cur tomb f (sortByTag (fetchedMap f.all))) true now)
          { cur := cur, tomb := tomb } := by
      unfold process; simp
    rw [hl]
    generalize hst : stage cur tomb f (sortByTag (fetchedMap f.all)) = staged
    have hspec : ∀ k, staged.contains k = true → k ∈ f.all ∧ selfSigned f k = true := by
      intro k hk; rw [← hst] at hk; exact staged_spec cur tomb f k hk
    generalize hfin : (sortByTag (fetchedMap f.all)).foldl (procFetched staged true now)
      { cur := cur, tomb := tomb } = l
    -- (3) entries
    have h3 : ∀ ta ∈ l.cur, ta ∈ cur ∨ (ta.st = .revoked ∧ ∃ old ∈ cur,
        old.key = ta.key ∧ isTrusted old.st = true ∧ RevocationOf f old.key) := by
      rw [← hfin]
      apply foldl_procFetched_all
      · intro ta hta; exact Or.inl hta
      · intro k _ old hold ht hs hc hr
        rcases hold with h1 | ⟨h1, _⟩
        · right
          exact ⟨rfl, old, h1, rfl, ht, k, (hspec k hc).1, hr, hs, (hspec k hc).2⟩
        · rw [h1] at ht; cases ht
      · intro k _ h; cases h
    -- forward: an anchor stays as it is unless its own revocation is in the set
    have hfwd : ∀ ta ∈ cur, ta ∈ l.cur ∨ RevocationOf f ta.key := by
      intro ta hta
      have := foldl_procFetched_fwd staged true now (sortByTag (fetchedMap f.all))
        { cur := cur, tomb := tomb } ta hta
      rw [hfin] at this
      rcases this with h1 | ⟨k, _, hr, hc, hs, _⟩
      · exact Or.inl h1
      · exact Or.inr ⟨k, (hspec k hc).1, hr, hs, (hspec k hc).2⟩
    have hlive1 : ∀ k ∈ (if (!live.isEmpty) = true then candidate cur else live), k ∈ candidate cur := by
      intro k hk
      split at hk
      · exact hk
      · next hne =>
        have : live = [] := by
          cases live with
          | nil => rfl
          | cons a b => simp at hne
        subst this; cases hk
    refine ⟨?_, ?_, ?_, ?_⟩
    · -- (1)
      intro k hk
      rcases finish_live_cases fl (if (!live.isEmpty) = true then candidate cur else live)
        .revOnly (candidate cur) l with h | ⟨h, _, _⟩ | ⟨h, _⟩
      · rw [h] at hk; cases hk
      · rw [h] at hk; exact hlive1 k hk
      · rw [h] at hk
        obtain ⟨ta, hta, rfl, htr⟩ := candidate_mem _ k hk
        rcases h3 ta (final_sub fl l ta hta) with h1 | ⟨h1, _⟩
        · exact mem_candidate cur ta h1 htr
        · rw [h1] at htr; cases htr
    · -- (2)
      intro k hk hnot
      obtain ⟨ta, hta, rfl, htr⟩ := candidate_mem _ k hk
      rcases hfwd ta hta with h1 | h1
      · left
        rcases finish_live_cases fl (if (!live.isEmpty) = true then candidate cur else live)
          .revOnly (candidate cur) l with h | ⟨h, _, _⟩ | ⟨h, _⟩
        · exact h
        · rw [h] at hnot ⊢
          split at hnot
          · exact absurd hk hnot
          · next hne =>
            cases live with
            | nil => simp
            | cons a b => simp at hne
        · rw [h] at hnot
          exact absurd (mem_final_candidate fl l ta h1 htr) hnot
      · exact Or.inr h1
    · -- (3)
      exact h3
    · -- (4)
      intro tas hw ta hta
      have := finish_state_write fl _ _ _ l tas hw
      rw [this] at hta
      exact final_sub fl l ta hta

/-! ## a key that merely disappears -/

/-- **missing_keeps_trust_90d_and_returns.** In a fully authenticated refresh
whose outcome can be published (not both writes failed), an anchor on record
(Valid or Missing) whose own revocation is not in the set
* stays in the live trust set when it is absent from the set — for as long as
  it has not been Missing for more than the remove hold-down (`P.remHold`,
  ≥ 90 days by the regenerated fact below), and
* is `Valid` again (not pending, no new hold-down) when its tag is in the set, and
* when a `Valid` anchor disappears, the 90-day clock STARTS at that refresh
  (`Missing`, `FirstSeen = now`), however long the key had been Valid — so a
  long-established key is not removed by the next refresh. -/
theorem missing_keeps_trust_90d_and_returns (P : Params) (cfg : List Key) (d : Disk) (live : List Key)
    (f : Fetch) (fl : Faults) (now : Nat) (ta : TA)
    (hfull : (autoTA P cfg d live (some f) fl now).auth = .full)
    (hta : ta ∈ (autoTA P cfg d live none fl now).curFinal) (htr : isTrusted ta.st = true)
    (hnorev : ∀ k' ∈ f.all, k'.revoke = true → sameKeyExceptRevoke ta.key k' = false)
    (hwin : ta.st = .missing → ta.key.tag ∉ fetchedTags f → now - ta.firstSeen ≤ P.remHold)
    (hw : ¬(fl.tombWrite = true ∧ fl.stateWrite = true)) :
    ta.key ∈ (autoTA P cfg d live (some f) fl now).live ∧
    (ta.key.tag ∈ fetchedTags f →
      ∃ ta' ∈ (autoTA P cfg d live (some f) fl now).curFinal, ta'.key = ta.key ∧ ta'.st = .valid) ∧
    (ta.st = .valid → ta.key.tag ∉ fetchedTags f →
      ∃ ta' ∈ (autoTA P cfg d live (some f) fl now).curFinal,
        ta'.key = ta.key ∧ ta'.st = .missing ∧ ta'.firstSeen = now) := by
  rcases autoTA_inv P cfg d live (some f) fl now with ⟨_, _, ha, _⟩ | ⟨tomb0, f', a, hrt, hf, _, _, heq⟩
  · rw [ha] at hfull; cases hfull
  · cases hf
    rw [heq] at hfull ⊢
    have ha : a = .full := hfull
    subst ha
    rw [autoTA_none P cfg d live fl now tomb0 hrt] at hta
    simp only at hta
    generalize hpr : prepare cfg (readState d live fl now) tomb0 now = pr at hta ⊢
    obtain ⟨cur, tomb⟩ := pr
    simp only at hta ⊢
    -- the entry survives the fetched-key loop untouched
    have hproc : process P f (Auth.full == Auth.revOnly) now cur tomb =
        { ((sortByTag (fetchedMap f.all)).foldl
            (procFetched (stage cur tomb f (sortByTag (fetchedMap f.all))) false now)
            { cur := cur, tomb := tomb }) with
          cur := holdDown P (fetchedTags f) now
            ((sortByTag (fetchedMap f.all)).foldl
              (procFetched (stage cur tomb f (sortByTag (fetchedMap f.all))) false now)
              { cur := cur, tomb := tomb }).cur } := by
      have hb : (Auth.full == Auth.revOnly) = false := by decide
      rw [hb]
      unfold process fetchedTags; simp
    have hfwd := foldl_procFetched_fwd (stage cur tomb f (sortByTag (fetchedMap f.all))) false now
      (sortByTag (fetchedMap f.all)) { cur := cur, tomb := tomb } ta hta
    generalize (sortByTag (fetchedMap f.all)).foldl
      (procFetched (stage cur tomb f (sortByTag (fetchedMap f.all))) false now)
      { cur := cur, tomb := tomb } = l0 at hproc hfwd
    have hin : ta ∈ l0.cur := by
      rcases hfwd with h1 | ⟨k, hk, hr, _, hs, _⟩
      · exact h1
      · have hk' := (mem_fetchedMap k _ ((mem_sortByTag k _).mp hk)).1
        rw [hnorev k hk' hr] at hs; cases hs
    -- the hold-down loop keeps it trusted
    have hstep : ∃ ta', holdStep P (fetchedTags f) now ta = some ta' ∧ ta'.key = ta.key ∧
        isTrusted ta'.st = true ∧ (ta.key.tag ∈ fetchedTags f → ta'.st = .valid) ∧
        (ta.st = .valid → ta.key.tag ∉ fetchedTags f → ta'.st = .missing ∧ ta'.firstSeen = now) := by
      unfold holdStep
      by_cases hmem : (fetchedTags f).contains ta.key.tag = true
      · have hm : ta.key.tag ∈ fetchedTags f := by simpa using hmem
        simp only [hmem, Bool.not_true, Bool.false_eq_true, if_false]
        cases hst : ta.st <;> simp_all [isTrusted]
      · have hm : ta.key.tag ∉ fetchedTags f := by simpa using hmem
        have hmem' : (fetchedTags f).contains ta.key.tag = false := by simpa using hmem
        simp only [hmem', Bool.not_false, if_true]
        cases hst : ta.st <;> simp_all [isTrusted] <;> omega
    obtain ⟨ta', hs1, hs2, hs3, hs4, hs5⟩ := hstep
    have hin' : ta' ∈ (process P f (Auth.full == Auth.revOnly) now cur tomb).cur := by
      rw [hproc]
      simp only
      unfold holdDown
      exact List.mem_filterMap.mpr ⟨ta, hin, hs1⟩
    generalize process P f (Auth.full == Auth.revOnly) now cur tomb = l at hin'
    refine ⟨?_, ?_, ?_⟩
    · rw [finish_live_not_both fl _ _ _ l hw, ← hs2]
      exact mem_final_candidate fl l ta' hin' hs3
    · intro hm
      exact ⟨ta', hin', hs2, hs4 hm⟩
    · intro hv hm
      exact ⟨ta', hin', hs2, hs5 hv hm⟩

/-! ## what validation does with the live set; the pre-fetch publication -/

/-- **validation_fails_closed.** With an empty (cleared) trust set nothing
validates: `verifyRootKeys` refuses (`ErrTrustAnchorsUnavailable`), the lookup
fails — it is never answered unvalidated. -/
theorem validation_fails_closed (f : Fetch) : validates [] f = false := by
  simp [validates]

/-- **validation_needs_live_signature.** A root DNSKEY response validates only
if every RRset of its answer section is validly signed by a key of the live
trust set (a non-revoked KSK, `Flags == 257`). -/
theorem validation_needs_live_signature (live : List Key) (f : Fetch) (h : validates live f = true) :
    (f.keys ≠ [] → ∃ k ∈ live, k.revoke = false ∧ signedBy f.signers k = true) ∧
    ∀ e ∈ f.extras, ∃ k ∈ live, k.revoke = false ∧ signedBy e.signers k = true := by
  unfold validates at h
  simp only [Bool.and_eq_true] at h
  obtain ⟨h1, h2⟩ := coveredBy_spec f _ h.2
  have up : ∀ k ∈ live.filter (fun k => k.sep && !k.revoke && k.other == 256), k ∈ live ∧ k.revoke = false := by
    intro k hk
    obtain ⟨ha, hb⟩ := List.mem_filter.mp hk
    simp only [Bool.and_eq_true, Bool.not_eq_eq_eq_not, Bool.not_true] at hb
    exact ⟨ha, hb.1.2⟩
  refine ⟨fun hne => ?_, fun e he => ?_⟩
  · obtain ⟨k, hk, hs⟩ := h1 hne; exact ⟨k, (up k hk).1, (up k hk).2, hs⟩
  · obtain ⟨k, hk, hs⟩ := h2 e he; exact ⟨k, (up k hk).1, (up k hk).2, hs⟩

/-- **A revoked key never validates anything again.** Once the revocation of
material `m` is on record, after every later completed refresh (any history
allowed by `HistOK`) a root DNSKEY response validates only through a live key
of OTHER material: a signature by the revoked key (or any key of its material)
alone is worthless, restarts and stale configuration notwithstanding. -/
theorem revoked_key_never_validates (P : Params) (cfg : List Key) (s : Sys) (evs : List Ev)
    (f : Option Fetch) (fl : Faults) (m : Nat)
    (hb : Barred s.disk m) (hok : HistOK P cfg s (evs ++ [.run f fl none]))
    (live : List Key) (hl : (runHist P cfg s (evs ++ [.run f fl none])).proc = some live)
    (g : Fetch) (hv : validates live g = true) (hne : g.keys ≠ []) :
    ∃ k ∈ live, k.mat ≠ m ∧ signedBy g.signers k = true := by
  obtain ⟨k, hk, _, hs⟩ := (validation_needs_live_signature live g hv).1 hne
  exact ⟨k, hk, tombstone_permanent_partial P cfg s evs f fl m hb hok live hl k hk, hs⟩

/-- **The trust set while the DNSKEY query is in flight.** The pre-fetch
publication — what validation trusts during the fetch and what stays if the
fetch fails — is the tombstone-filtered candidate set when the process had a
non-empty trust set, and stays EMPTY when it was in fail-closed mode
(`priorTrustValid`): a cleared trust set is not refilled from disk before a
write has succeeded. -/
theorem prefetch_publication (P : Params) (cfg : List Key) (d : Disk) (live : List Key)
    (f : Option Fetch) (fl : Faults) (now : Nat) (pre : List Key)
    (h : (autoTA P cfg d live f fl now).pre = some pre) :
    (live = [] → pre = []) ∧ (live ≠ [] → pre = (autoTA P cfg d live none fl now).cand) := by
  cases hrt : readTomb d fl with
  | corrupt =>
    have : (autoTA P cfg d live f fl now).pre = none := by unfold autoTA; simp [hrt]
    rw [this] at h; cases h
  | ok tomb0 =>
    have hpre : (autoTA P cfg d live f fl now).pre =
        some (if !live.isEmpty then candidate (prepare cfg (readState d live fl now) tomb0 now).1 else live) := by
      rcases autoTA_inv P cfg d live f fl now with ⟨_, _, _, _⟩ | ⟨t0, f', a, hrt', _, _, _, heq⟩
      · unfold autoTA
        simp only [hrt]
        generalize prepare cfg (readState d live fl now) tomb0 now = pr
        obtain ⟨cur, tomb⟩ := pr
        cases f with
        | none => rfl
        | some f' =>
          simp only
          cases verifyFetched (candidate cur) f' <;> rfl
      · rw [hrt] at hrt'
        cases hrt'
        rw [heq]; rfl
    rw [hpre] at h
    simp only [Option.some.injEq] at h
    rw [autoTA_none P cfg d live fl now tomb0 hrt]
    simp only
    subst h
    constructor
    · intro hl; subst hl; simp
    · intro hl
      cases live with
      | nil => exact absurd rfl hl
      | cons a b => simp

/-- ... and it never contains a key whose revocation is on record. -/
theorem prefetch_excludes_barred (P : Params) (cfg : List Key) (d : Disk) (live : List Key)
    (f : Option Fetch) (fl : Faults) (now m : Nat) (pre : List Key)
    (hb : Barred d m) (hs : fl.stateRead = true → MarkersCovered d)
    (h : (autoTA P cfg d live f fl now).pre = some pre) : ∀ k ∈ pre, k.mat ≠ m := by
  obtain ⟨h1, h2⟩ := prefetch_publication P cfg d live f fl now pre h
  by_cases hl : live = []
  · rw [h1 hl]; intro k hk; cases hk
  · rw [h2 hl]
    -- the candidate set is what a run without any response publishes
    have hrun := run_excludes_barred P cfg d live none fl now m hb hs
    cases hrt : readTomb d fl with
    | corrupt =>
      have : (autoTA P cfg d live none fl now).cand = [] := by unfold autoTA; simp [hrt]
      rw [this]; intro k hk; cases hk
    | ok tomb0 =>
      rw [autoTA_none P cfg d live fl now tomb0 hrt] at hrun ⊢
      simp only at hrun ⊢
      have : (!live.isEmpty) = true := by
        cases live with
        | nil => exact absurd rfl hl
        | cons a b => rfl
      simpa [this] using hrun

/-! ## every accepted refresh is recorded; an aborted hold-down does not survive -/

/-- **accepted_refresh_rewrites_state.** Every accepted refresh — however
uneventful — replaces the state file (unless that write fails): what the run
decided, including the abort of a hold-down, reaches the disk it is re-read
from at the next refresh. -/
theorem accepted_refresh_rewrites_state (P : Params) (cfg : List Key) (d : Disk) (live : List Key)
    (f : Option Fetch) (fl : Faults) (now : Nat)
    (hacc : (autoTA P cfg d live f fl now).auth ≠ .none) (hw : fl.stateWrite = false) :
    ∃ tas, Write.state tas ∈ (autoTA P cfg d live f fl now).writes ∧
      ∀ ta ∈ tas, ta ∈ (autoTA P cfg d live f fl now).curFinal := by
  rcases autoTA_inv P cfg d live f fl now with ⟨_, _, ha, _⟩ | ⟨tomb0, f', a, _, _, _, _, heq⟩
  · exact absurd ha hacc
  · rw [heq, finish_writes]
    refine ⟨_, ?_, fun ta hta => final_sub fl _ ta hta⟩
    simp [hw]

/-- **pending_survives_only_if_present.** After a fully authenticated refresh
no entry is left Pending unless its key tag is in the fetched set: a pending
key that the accepted set omits is deleted (and with
`accepted_refresh_rewrites_state` the deletion is what the state file holds),
so its hold-down starts afresh when it is published again. -/
theorem pending_survives_only_if_present (P : Params) (cfg : List Key) (d : Disk) (live : List Key)
    (f : Fetch) (fl : Faults) (now : Nat)
    (hfull : (autoTA P cfg d live (some f) fl now).auth = .full) :
    ∀ ta ∈ (autoTA P cfg d live (some f) fl now).curFinal, ta.st = .addPend → ta.key.tag ∈ fetchedTags f := by
  rcases autoTA_inv P cfg d live (some f) fl now with ⟨_, _, ha, _⟩ | ⟨tomb0, f', a, _, hf, _, _, heq⟩
  · rw [ha] at hfull; cases hfull
  · cases hf
    rw [heq] at hfull ⊢
    have ha : a = .full := hfull
    subst ha
    intro ta hta hst
    have hta' : ta ∈ (process P f (Auth.full == Auth.revOnly) now
        (prepare cfg (readState d live fl now) tomb0 now).1 (prepare cfg (readState d live fl now) tomb0 now).2).cur := hta
    have hb : (Auth.full == Auth.revOnly) = false := by decide
    rw [hb] at hta'
    unfold process at hta'
    simp only [Bool.false_eq_true, if_false] at hta'
    unfold holdDown at hta'
    obtain ⟨t0, _, hs⟩ := List.mem_filterMap.mp hta'
    unfold holdStep at hs
    by_cases hmem : ((sortByTag (fetchedMap f.all)).map (·.tag)).contains t0.key.tag = true
    · have hk := holdStep_key (P := P) (tags := (sortByTag (fetchedMap f.all)).map (·.tag)) (now := now) (ta := t0) (ta' := ta)
        (by unfold holdStep; exact hs)
      unfold fetchedTags
      rw [hk.1]
      simpa using hmem
    · exfalso
      have hmem' : ((sortByTag (fetchedMap f.all)).map (·.tag)).contains t0.key.tag = false := by simpa using hmem
      simp only [hmem', Bool.not_false, if_true] at hs
      cases h0 : t0.st <;> simp [h0] at hs
      · subst hs; simp at hst
      · obtain ⟨_, hs⟩ := hs; subst hs; rw [h0] at hst; cases hst
      · subst hs; rw [h0] at hst; cases hst
      · subst hs; rw [h0] at hst; cases hst

/-! ## signature validity windows -/

/-- **A signature outside its validity window, or made under another signer
name, never counts** — not an hour, not a second after expiry or before
inception, however long the window is; and not when its Signer's Name field is
anything but "." (a key with the anchor's material signing as some other zone):
a replayed, once-genuine DNSKEY RRset authenticates nothing, and neither does a
signature borrowed from another zone. -/
theorem signature_outside_its_window_never_counts (signers : List Key) (timed : List TimedSig) (k : Key)
    (h : k ∈ effectiveSigners signers timed) :
    k ∈ signers ∨ ∃ t ∈ timed, t.key = k ∧ t.notBefore ≤ 0 ∧ 0 ≤ t.notAfter ∧ t.signer = 0 := by
  unfold effectiveSigners at h
  rcases List.mem_append.mp h with h1 | h1
  · exact Or.inl h1
  · obtain ⟨t, ht, rfl⟩ := List.mem_map.mp h1
    obtain ⟨h2, h3⟩ := List.mem_filter.mp ht
    unfold TimedSig.valid at h3
    simp only [Bool.and_eq_true, decide_eq_true_eq, beq_iff_eq] at h3
    exact Or.inr ⟨t, h2, rfl, h3.1.1, h3.1.2, h3.2⟩

/-- ... so an answer whose only signatures are expired, not yet valid, or carry a
signer name other than "." is exactly an unsigned one. -/
theorem expired_signatures_authenticate_nothing (cand : List Key) (f : Fetch) (timed : List TimedSig)
    (h : ∀ t ∈ timed, t.notAfter < 0 ∨ 0 < t.notBefore ∨ t.signer ≠ 0) :
    verifyFetched cand { f with signers := effectiveSigners f.signers timed } = verifyFetched cand f := by
  have : (timed.filter (·.valid)) = [] := by
    apply List.filter_eq_nil_iff.mpr
    intro t ht
    unfold TimedSig.valid
    rcases h t ht with h1 | h1 | h1
    · simp; omega
    · simp; omega
    · simp [h1]
  unfold effectiveSigners
  simp [this]

/-- **foreign_signer_name_authenticates_nothing.** The instance for signer names:
however many RRSIGs a response carries that verify under the anchors' key material
but name another zone as signer, it is treated exactly like the response without them. -/
theorem foreign_signer_name_authenticates_nothing (cand : List Key) (f : Fetch) (timed : List TimedSig)
    (h : ∀ t ∈ timed, t.signer ≠ 0) :
    verifyFetched cand { f with signers := effectiveSigners f.signers timed } = verifyFetched cand f :=
  expired_signatures_authenticate_nothing cand f timed (fun t ht => Or.inr (Or.inr (h t ht)))

/-! ## a REVOKE-flagged key is never tracked as pending or trusted -/

/-- invariant: no Pending / Valid / Missing entry of the state file and no live
key carries the REVOKE bit (`CleanEntry`: anything but a revocation marker has it clear). -/
structure NoRevInv (s : Sys) : Prop where
  disk : ∀ tas, s.disk.state = .ok tas → ∀ ta ∈ tas, CleanEntry ta
  live : ∀ l, s.proc = some l → ∀ k ∈ l, k.revoke = false

/-- one run: clean state file and a live set without REVOKE-flagged keys in ⇒
every entry of `kskCurrent`, the published set and the pre-fetch set are clean.
A fetched REVOKE-flagged key that is not the revocation of one of this
resolver's anchors is ignored — it never falls through to new-key handling. -/
theorem run_clean (P : Params) (cfg : List Key) (d : Disk) (live : List Key) (f : Option Fetch)
    (fl : Faults) (now : Nat)
    (hdisk : ∀ tas, d.state = .ok tas → ∀ ta ∈ tas, CleanEntry ta) :
    (∀ ta ∈ (autoTA P cfg d live f fl now).curFinal, CleanEntry ta) ∧
    ((∀ k ∈ live, k.revoke = false) → ∀ k ∈ (autoTA P cfg d live f fl now).live, k.revoke = false) := by
  have hcur0 : ∀ x ∈ readState d live fl now, CleanEntry x := by
    intro x hx
    unfold readState at hx
    split at hx
    · exact seedFromLive_clean live now x hx
    · split at hx
      · next tas htas => exact hdisk tas htas x hx
      · exact seedFromLive_clean live now x hx
  cases hrt : readTomb d fl with
  | corrupt =>
    have : autoTA P cfg d live f fl now = { live := [], outcome := .perr } := by unfold autoTA; simp [hrt]
    rw [this]
    exact ⟨(by intro ta hta; cases hta), (by intro _ k hk; cases hk)⟩
  | ok tomb0 =>
    have hprep := prepare_clean cfg _ tomb0 now hcur0
    have hnone := autoTA_none P cfg d live fl now tomb0 hrt
    have hlive1 : (∀ k ∈ live, k.revoke = false) →
        ∀ k ∈ (if (!live.isEmpty) = true then candidate (prepare cfg (readState d live fl now) tomb0 now).1 else live),
          k.revoke = false := by
      intro hl k hk
      split at hk
      · exact candidate_clean _ hprep k hk
      · exact hl k hk
    rcases autoTA_inv P cfg d live f fl now with ⟨_, _, _, hlv⟩ | ⟨t0, f', a, hrt', hf, _, _, heq⟩
    · constructor
      · -- curFinal of an early return is the prepared state (or nothing)
        unfold autoTA
        simp only [hrt]
        generalize hpe : prepare cfg (readState d live fl now) tomb0 now = pr at hprep
        obtain ⟨cur, tomb⟩ := pr
        cases f with
        | none => exact hprep
        | some f' =>
          simp only
          cases hv : verifyFetched (candidate cur) f' with
          | none => exact hprep
          | full => exact process_clean P f' _ now cur tomb hprep
          | revOnly => exact process_clean P f' _ now cur tomb hprep
      · intro hl k hk
        rcases hlv with h | h
        · rw [h] at hk; cases hk
        · rw [h, hnone] at hk
          exact hlive1 hl k hk
    · rw [hrt] at hrt'
      cases hrt'
      rw [heq]
      have hproc := process_clean P f' (a == .revOnly) now
        (prepare cfg (readState d live fl now) tomb0 now).1 (prepare cfg (readState d live fl now) tomb0 now).2 hprep
      generalize process P f' (a == .revOnly) now
        (prepare cfg (readState d live fl now) tomb0 now).1 (prepare cfg (readState d live fl now) tomb0 now).2 = l at hproc
      constructor
      · exact hproc
      · intro hl k hk
        rcases finish_live_cases fl _ a _ l with h | ⟨h, _, _⟩ | ⟨h, _⟩
        · rw [h] at hk; cases hk
        · rw [h] at hk; exact hlive1 hl k hk
        · rw [h] at hk
          exact candidate_clean _ (fun x hx => hproc x (final_sub fl l x hx)) k hk

theorem step_noRevInv (P : Params) (cfg : List Key) (s : Sys) (e : Ev) (hinv : NoRevInv s) :
    NoRevInv (step P cfg s e) := by
  cases e with
  | tick dt => exact ⟨hinv.disk, hinv.live⟩
  | restart => exact ⟨hinv.disk, (by intro l h; cases h)⟩
  | boot fl =>
    refine ⟨hinv.disk, ?_⟩
    intro l hl k hk
    simp only [step, Option.some.injEq] at hl
    subst hl
    exact startupKeys_clean cfg s.disk fl k hk
  | damage dm =>
    cases dm with
    | tomb => exact ⟨hinv.disk, hinv.live⟩
    | tombEmpty => exact ⟨hinv.disk, hinv.live⟩
    | state => exact ⟨(by intro tas h; cases h), hinv.live⟩
    | stateEmpty => exact ⟨(by intro tas h; cases h), hinv.live⟩
  | run f fl crash =>
    have hlive0 : ∀ k ∈ startLive cfg s, k.revoke = false := by
      intro k hk
      unfold startLive at hk
      cases hp : s.proc with
      | none => rw [hp] at hk; exact startupKeys_clean cfg s.disk {} k hk
      | some l => rw [hp] at hk; exact hinv.live l hp k hk
    obtain ⟨hc, hl⟩ := run_clean P cfg s.disk (startLive cfg s) f fl s.now hinv.disk
    rw [step_run_eq]
    refine ⟨?_, ?_⟩
    · -- whatever prefix of the writes landed, the state file holds old (clean) or final (clean) entries
      intro tas htas ta hta
      simp only at htas
      rcases autoTA_inv P cfg s.disk (startLive cfg s) f fl s.now with ⟨hw, _, _, _⟩ | ⟨t0, f', a, _, _, _, _, heq⟩
      · rw [hw] at htas
        have : applyWrites s.disk (writesKept [] crash) = s.disk := by cases crash <;> simp [writesKept, applyWrites]
        rw [this] at htas
        exact hinv.disk tas htas ta hta
      · rw [heq] at htas hc
        rw [finish_disk_state] at htas
        split at htas
        · simp only [FileC.ok.injEq] at htas
          subst htas
          exact hc ta (final_sub fl _ ta hta)
        · exact hinv.disk tas htas ta hta
    · intro l hl' k hk
      cases crash with
      | some _ => cases hl'
      | none =>
        simp only [procKept, Option.some.injEq] at hl'
        subst hl'
        exact hl hlive0 k hk

/-- **revoke_flagged_key_never_trusted.** From a fresh installation, after ANY
history (arbitrary fetched sets, faults, crashes, restarts, file damage): no key
in the live trust set carries the REVOKE bit and no REVOKE-flagged key is
Pending, Valid or Missing in the state file — such a key is only ever a
revocation marker. -/
theorem revoke_flagged_key_never_trusted (P : Params) (cfg : List Key) (evs : List Ev) :
    NoRevInv (runHist P cfg {} evs) := by
  suffices ∀ s, NoRevInv s → NoRevInv (runHist P cfg s evs) from
    this {} ⟨(by intro tas h; cases h), (by intro l h; cases h)⟩
  induction evs with
  | nil => intro s h; exact h
  | cons e rest ih =>
    intro s h
    simp only [runHist, List.foldl_cons]
    exact ih _ (step_noRevInv P cfg s e h)

/-- **RRSIGs over the extra RRsets that name another zone as signer count for
nothing**: an extra RRset whose only signatures carry a foreign signer name is an
unsigned one, so (with `accepted_needs_trusted_signature`) the whole answer is
rejected; adding such signatures to any RRset never changes the verdict. -/
theorem extra_foreign_signer_names_count_for_nothing (cand : List Key) (f : Fetch) (e : Extra)
    (named : List NamedSig) (h : ∀ s ∈ named, s.signer ≠ 0) (pre post : List Extra) :
    verifyFetched cand { f with extras := pre ++ { e with signers := e.signers ++ namedSigners named } :: post } =
    verifyFetched cand { f with extras := pre ++ e :: post } := by
  have : namedSigners named = [] := by
    unfold namedSigners
    rw [List.map_eq_nil_iff]
    apply List.filter_eq_nil_iff.mpr
    intro s hs
    simpa using h s hs
  rw [this, List.append_nil]

/-! ## the consumer side: what clients get -/

/-- **serving_fails_closed.** With no trust anchor a validating lookup is never
answered — not from a cached delegation, not for an unsigned zone — and nothing
is ever marked authenticated; only a client that sets CD gets (unvalidated) data. -/
theorem serving_fails_closed (cd secure : Bool) :
    serve [] cd secure ≠ .answered true ∧ (cd = false → serve [] cd secure = .servfail) := by
  cases cd <;> cases secure <;> simp [serve]

/-- **A store that cannot be loaded stops all validated service**: after a
refresh that finds the tombstone store undecodable (garbage, truncated, zero
length) or unreadable, and at a process start with such a store, every
validating lookup fails until a later refresh succeeds. -/
theorem unloadable_store_serves_nothing (P : Params) (cfg : List Key) (d : Disk) (live : List Key)
    (f : Option Fetch) (fl : Faults) (now : Nat) (secure : Bool)
    (h : d.tomb.undecodable = true ∨ fl.tombRead = true) :
    serve (autoTA P cfg d live f fl now).live false secure = .servfail ∧
    (d.tomb.undecodable = true → serve (startupKeys cfg d) false secure = .servfail) := by
  constructor
  · rcases h with h | h
    · rw [(corrupt_store_fail_closed P cfg d live f fl now h).1]; rfl
    · rw [(unreadable_store_fail_closed P cfg d live f fl now h).1]; rfl
  · intro hu
    have : startupKeys cfg d = [] := by
      unfold startupKeys
      cases htomb : d.tomb <;> simp_all [FileC.undecodable]
    rw [this]; rfl

/-- ... and so does a new revocation that could not be recorded. -/
theorem unrecorded_revocation_serves_nothing (P : Params) (cfg : List Key) (d : Disk) (live : List Key)
    (f : Option Fetch) (fl : Faults) (now : Nat) (secure : Bool)
    (hrev : (autoTA P cfg d live f fl now).revoked ≠ [])
    (h1 : fl.tombWrite = true) (h2 : fl.stateWrite = true) :
    serve (autoTA P cfg d live f fl now).live false secure = .servfail := by
  rw [(both_writes_fail_closed P cfg d live f fl now hrev h1 h2).1]; rfl

/-! ## the trust set of a starting process -/

/-- **startup_excludes_barred.** `NewResolver` (any disk, any configuration): a
key whose revocation is on record — tombstone, or `StateRevoked`/`StateRemoved`
marker — is not in the trust set a new process starts with; a tombstone store
that does not decode leaves it empty; a configured key carrying the REVOKE bit
is never in it. No read assumption: this is the set validation uses before the
first refresh. -/
theorem startup_excludes_barred (cfg : List Key) (d : Disk) (fl : Faults) (m : Nat) (hb : Barred d m)
    (hs : fl.stateRead = true → MarkersCovered d) :
    ∀ k ∈ startupKeys cfg d fl, k.mat ≠ m ∧ k.revoke = false := by
  intro k hk
  unfold startupKeys at hk
  split at hk
  · cases hk
  -- reduce a marker-only record under a state read fault to a tombstone record
  have hb' : d.tomb.undecodable = true ∨ (∃ ms, d.tomb = .ok ms ∧ m ∈ ms) ∨
      (fl.stateRead = false ∧ ∃ tas, d.state = .ok tas ∧ ∃ ta ∈ tas, ta.key.mat = m ∧ isMarker ta.st = true) := by
    rcases hb with hc | h2 | ⟨tas, htas, ta, hta, hmat, hmark⟩
    · exact Or.inl hc
    · exact Or.inr (Or.inl h2)
    · by_cases hsr : fl.stateRead = true
      · rcases hs hsr tas htas ta hta hmark with hc | ⟨ms, hms, hm⟩
        · exact Or.inl hc
        · exact Or.inr (Or.inl ⟨ms, hms, hmat ▸ hm⟩)
      · exact Or.inr (Or.inr ⟨by simpa using hsr, tas, htas, ta, hta, hmat, hmark⟩)
  rcases hb' with hc | ⟨ms, hms, hm⟩ | ⟨hsr, tas, htas, ta, hta, hmat, hmark⟩
  · cases htomb : d.tomb <;> simp_all [FileC.undecodable]
  · simp only [hms] at hk
    obtain ⟨_, h2⟩ := List.mem_filter.mp hk
    simp only [Bool.not_eq_eq_eq_not, Bool.not_true, Bool.or_eq_false_iff] at h2
    refine ⟨fun h => ?_, h2.2⟩
    have h3 := h2.1
    simp only [List.contains_eq_mem, List.mem_append, decide_eq_false_iff_not, not_or] at h3
    exact h3.1 (h ▸ hm)
  · have hmk : m ∈ (tas.filter (fun ta => isMarker ta.st)).map (·.key.mat) :=
      List.mem_map.mpr ⟨ta, List.mem_filter.mpr ⟨hta, hmark⟩, hmat⟩
    simp only [htas, hsr, Bool.false_eq_true, if_false] at hk
    cases htomb : d.tomb with
    | empty => simp [htomb] at hk
    | corrupt => simp [htomb] at hk
    | absent =>
      simp only [htomb] at hk
      obtain ⟨_, h2⟩ := List.mem_filter.mp hk
      simp only [Bool.not_eq_eq_eq_not, Bool.not_true, Bool.or_eq_false_iff] at h2
      refine ⟨fun h => ?_, h2.2⟩
      have h3 := h2.1
      simp only [List.contains_eq_mem, decide_eq_false_iff_not] at h3
      exact h3 (h ▸ hmk)
    | ok ms =>
      simp only [htomb] at hk
      obtain ⟨_, h2⟩ := List.mem_filter.mp hk
      simp only [Bool.not_eq_eq_eq_not, Bool.not_true, Bool.or_eq_false_iff] at h2
      refine ⟨fun h => ?_, h2.2⟩
      have h3 := h2.1
      simp only [List.contains_eq_mem, List.mem_append, decide_eq_false_iff_not, not_or] at h3
      exact h3.2 (h ▸ hmk)

/-- **A store that cannot be read at process start leaves nothing to trust** —
for EVERY read error (open / read errors like EIO, EMFILE, EACCES, ELOOP, not
only undecodable bytes). -/
theorem startup_unreadable_fail_closed (cfg : List Key) (d : Disk) (fl : Faults) (h : fl.tombRead = true) :
    startupKeys cfg d fl = [] := by
  unfold startupKeys; simp [h]

/-- **tombstone_permanent from process start.** Once a revocation is on record,
the trust set of every process started afterwards — before its first refresh,
while it primes and answers queries — has no key of that material (histories as
in `tombstone_permanent_partial`). -/
theorem tombstone_permanent_from_process_start (P : Params) (cfg : List Key) (s : Sys) (evs : List Ev) (m : Nat)
    (fl : Faults) (hb : Barred s.disk m) (hok : HistOK P cfg s (evs ++ [.boot fl])) :
    ∀ live, (runHist P cfg s (evs ++ [.boot fl])).proc = some live → ∀ k ∈ live, k.mat ≠ m := by
  obtain ⟨h1, h2⟩ := (histOK_append P cfg s evs _).mp hok
  have hb' := barred_monotone P cfg s evs m h1 hb
  intro live hl k hk
  have hrun : runHist P cfg s (evs ++ [.boot fl]) = step P cfg (runHist P cfg s evs) (.boot fl) := by simp [runHist]
  rw [hrun] at hl
  simp only [step, Option.some.injEq] at hl
  subst hl
  exact (startup_excludes_barred cfg _ fl m hb' h2.1 k hk).1

/-- ... so from process start on a revoked key validates nothing: a response
validates in the new process only through a live key of other material. -/
theorem revoked_key_never_validates_from_start (P : Params) (cfg : List Key) (s : Sys) (evs : List Ev) (m : Nat)
    (fl : Faults) (hb : Barred s.disk m) (hok : HistOK P cfg s (evs ++ [.boot fl]))
    (live : List Key) (hl : (runHist P cfg s (evs ++ [.boot fl])).proc = some live)
    (g : Fetch) (hv : validates live g = true) (hne : g.keys ≠ []) :
    ∃ k ∈ live, k.mat ≠ m ∧ signedBy g.signers k = true := by
  obtain ⟨k, hk, _, hs⟩ := (validation_needs_live_signature live g hv).1 hne
  exact ⟨k, hk, tombstone_permanent_from_process_start P cfg s evs m fl hb hok live hl k hk, hs⟩

/-! ## the add hold-down over histories -/

/-- the invariant is preserved by every event (given no pending-tag collision). -/
theorem step_holdInv (P : Params) (hP : thirtyDays ≤ P.addHold) (cfg : List Key) (s : Sys) (g : Ghost)
    (e : Ev) (hinv : HoldInv cfg s g) (hnc : NoPendCollision s e) :
    HoldInv cfg (step P cfg s e) (ghostStep P cfg s g e) := by
  cases e with
  | tick dt =>
    exact ⟨hinv.disk, hinv.live, fun k t0 h => by have := hinv.clock k t0 h; simp [step]; omega⟩
  | restart => exact ⟨hinv.disk, (by intro l h; cases h), hinv.clock⟩
  | boot fl =>
    refine ⟨hinv.disk, ?_, hinv.clock⟩
    intro l hl k hk
    simp only [step, Option.some.injEq] at hl
    subst hl
    exact Or.inl (startupKeys_sub cfg s.disk fl k hk)
  | damage dm =>
    cases dm with
    | tomb => exact ⟨hinv.disk, hinv.live, hinv.clock⟩
    | tombEmpty => exact ⟨hinv.disk, hinv.live, hinv.clock⟩
    | state => exact ⟨(by intro tas h; cases h), hinv.live, hinv.clock⟩
    | stateEmpty => exact ⟨(by intro tas h; cases h), hinv.live, hinv.clock⟩
  | run f fl crash =>
    have hlive0 : ∀ k ∈ startLive cfg s, k ∈ cfg ∨ g.earned k = true := by
      intro k hk
      unfold startLive at hk
      cases hp : s.proc with
      | none => rw [hp] at hk; exact Or.inl (startupKeys_sub cfg s.disk {} k hk)
      | some l => rw [hp] at hk; exact hinv.live l hp k hk
    rw [step_run_eq]
    rcases autoTA_inv P cfg s.disk (startLive cfg s) f fl s.now with ⟨hw, _, ha, hl⟩ | ⟨tomb0, f', a, hrt, hf, _, hane, heq⟩
    · -- early return: nothing written, bookkeeping unchanged
      have hg : ghostStep P cfg s g (.run f fl crash) = g := by
        cases f with
        | none => rfl
        | some f' => simp [ghostStep, runResult, ha]
      rw [hg, hw]
      have hd : applyWrites s.disk (writesKept [] crash) = s.disk := by
        cases crash <;> simp [writesKept, applyWrites]
      rw [hd]
      refine ⟨hinv.disk, ?_, hinv.clock⟩
      intro l hl' k hk
      cases crash with
      | some _ => cases hl'
      | none =>
        simp only [procKept, Option.some.injEq] at hl'
        subst hl'
        rcases hl with h | h
        · rw [h] at hk; cases hk
        · rw [h] at hk
          exact none_live_ok P cfg g s.disk _ fl s.now hlive0 hinv.disk k hk
    · subst hf
      have hprep := prepared_entries cfg g s.disk (startLive cfg s) fl s.now tomb0 hlive0 hinv.disk
      generalize hpr : prepare cfg (readState s.disk (startLive cfg s) fl s.now) tomb0 s.now = pr at heq hprep
      obtain ⟨cur, tomb⟩ := pr
      simp only at heq hprep
      have hauth : (runResult P cfg s (some f') fl).auth = a := by
        unfold runResult; rw [heq]; rfl
      have hlive1 : ∀ k ∈ (if (!(startLive cfg s).isEmpty) = true then candidate cur else startLive cfg s),
          k ∈ cfg ∨ g.earned k = true := by
        intro k hk
        split at hk
        · obtain ⟨ta, hta, rfl, htr⟩ := candidate_mem _ k hk
          exact (hprep ta hta).1.2 htr
        · exact hlive0 k hk
      rw [heq]
      cases a with
      | none => exact absurd rfl hane
      | revOnly =>
        have hg : ghostStep P cfg s g (.run (some f') fl crash) = g := by
          simp [ghostStep, hauth]
        rw [hg]
        have hent := process_revOnly_entries P cfg g f' s.now cur tomb (fun ta hta => (hprep ta hta).1)
        have hb : (Auth.revOnly == Auth.revOnly) = true := by decide
        rw [hb]
        generalize process P f' true s.now cur tomb = l at hent
        refine ⟨?_, ?_, hinv.clock⟩
        · intro tas htas ta hta
          simp only at htas
          rw [finish_disk_state] at htas
          split at htas
          · simp only [FileC.ok.injEq] at htas
            subst htas
            exact hent ta (final_sub fl l ta hta)
          · exact hinv.disk tas htas ta hta
        · intro lv hlv k hk
          cases crash with
          | some _ => cases hlv
          | none =>
            simp only [procKept, Option.some.injEq] at hlv
            subst hlv
            rcases finish_live_cases fl _ .revOnly (candidate cur) l with h | ⟨h, _, _⟩ | ⟨h, _⟩
            · rw [h] at hk; cases hk
            · rw [h] at hk; exact hlive1 k hk
            · rw [h] at hk
              obtain ⟨ta, hta, rfl, htr⟩ := candidate_mem _ k hk
              exact (hent ta (final_sub fl l ta hta)).2 htr
      | full =>
        have hg : ghostStep P cfg s g (.run (some f') fl crash) =
            { earned := earnedAfter g f' s.now,
              since := if stateLanded fl crash then sinceAfter g f' s.now else g.since } := by
          simp [ghostStep, hauth]
        rw [hg]
        have hnc' : ∀ ta ∈ cur, EntryOK cfg g ta ∧
            (ta.st = .addPend → ta.key.tag ∈ fetchedTags f' → ta.key ∈ f'.all) := by
          intro ta hta
          obtain ⟨h1, h2⟩ := hprep ta hta
          refine ⟨h1, fun hst htag => ?_⟩
          obtain ⟨tas, htas, hin⟩ := h2 hst
          obtain ⟨q, hq1, hq2, hq3⟩ := fetchedTag_origin f'.all ta.key.tag htag
          exact hnc tas htas ta hin hst q hq1 hq2 hq3
        have hent := process_full_entries P hP cfg g f' s.now hinv.clock cur tomb hnc'
        have hb : (Auth.full == Auth.revOnly) = false := by decide
        rw [hb]
        generalize process P f' false s.now cur tomb = l at hent
        refine ⟨?_, ?_, ?_⟩
        · intro tas htas ta hta
          simp only at htas
          rw [finish_disk_state] at htas
          split at htas
          · next hland =>
            simp only [FileC.ok.injEq] at htas
            subst htas
            obtain ⟨h1, h2⟩ := hent ta (final_sub fl l ta hta)
            exact ⟨by simpa [hland] using h2, h1⟩
          · next hland =>
            obtain ⟨h1, h2⟩ := hinv.disk tas htas ta hta
            refine ⟨by simpa [hland] using h1, fun htr => ?_⟩
            rcases h2 htr with h | h
            · exact Or.inl h
            · exact Or.inr (earnedAfter_mono g f' s.now _ h)
        · intro lv hlv k hk
          have lift : k ∈ cfg ∨ g.earned k = true → k ∈ cfg ∨ earnedAfter g f' s.now k = true := by
            rintro (h | h)
            · exact Or.inl h
            · exact Or.inr (earnedAfter_mono g f' s.now _ h)
          cases crash with
          | some _ => cases hlv
          | none =>
            simp only [procKept, Option.some.injEq] at hlv
            subst hlv
            rcases finish_live_cases fl _ .full (candidate cur) l with h | ⟨h, _, _⟩ | ⟨h, _⟩
            · rw [h] at hk; cases hk
            · rw [h] at hk; exact lift (hlive1 k hk)
            · rw [h] at hk
              obtain ⟨ta, hta, rfl, htr⟩ := candidate_mem _ k hk
              exact (hent ta (final_sub fl l ta hta)).1 htr
        · intro k t0 hk
          show t0 ≤ s.now
          simp only at hk
          split at hk
          · unfold sinceAfter at hk
            split at hk
            · cases hsn : g.since k with
              | none => simp [hsn] at hk; omega
              | some t1 => simp [hsn] at hk; have := hinv.clock k t1 hsn; omega
            · cases hk
          · exact hinv.clock k t0 hk

theorem holdInv_hist (P : Params) (hP : thirtyDays ≤ P.addHold) (cfg : List Key) (s : Sys) (g : Ghost)
    (evs : List Ev) (hinv : HoldInv cfg s g) (hnc : HistNC P cfg s evs) :
    HoldInv cfg (runHistG P cfg (s, g) evs).1 (runHistG P cfg (s, g) evs).2 := by
  induction evs generalizing s g with
  | nil => exact hinv
  | cons e rest ih =>
    simp only [runHistG]
    exact ih _ _ (step_holdInv P hP cfg s g e hinv hnc.1) hnc.2

/-- **new_key_needs_holddown (partial: no tag collision with a pending key).**
From a fresh installation (empty directory), after ANY history of refreshes
(arbitrary fetched sets and signatures), restarts, crashes after any prefix of
the writes, read and write faults, file corruption and elapsed times: a key in
the live trust set that the configuration does not list has, at some fully
authenticated refresh, been present with an unbroken streak — presence in every
fully authenticated, recorded refresh — that started more than 30 days
earlier. The add hold-down literal is a parameter constrained only by
`30 d ≤ P.addHold` (discharged for the tree's literal below).

FULL-STRENGTH STATEMENT (false, see `holddown_fails_on_tag_collision`): the
same without `HistNC`: the hold-down loop tests presence by key TAG, so a
different fetched key with the tag of a pending key keeps that key pending. -/
theorem new_key_needs_holddown_partial (P : Params) (hP : thirtyDays ≤ P.addHold) (cfg : List Key)
    (evs : List Ev) (hnc : HistNC P cfg {} evs) :
    ∀ live, (runHist P cfg {} evs).proc = some live →
      ∀ k ∈ live, k ∈ cfg ∨ (runHistG P cfg ({}, Ghost.init) evs).2.earned k = true := by
  have hinit : HoldInv cfg {} Ghost.init :=
    ⟨(by intro tas h; cases h), (by intro l h; cases h), (by intro k t0 h; cases h)⟩
  have := holdInv_hist P hP cfg {} Ghost.init evs hinit hnc
  rw [runHistG_fst] at this
  exact this.live

/-! ## facts regenerated from the tree (one-directional side conditions) -/

/-- the hold-down parameters of the current tree (literals inside `AutoTA`,
extracted from its AST on every run). -/
def treeParams : Params :=
  { addHold := SdnsVerif.Gen.C09.add_holddown_hours * 3600,
    remHold := SdnsVerif.Gen.C09.missing_holddown_hours * 3600 }

/-- the add hold-down of the tree is at least 30 days and is measured from
`FirstSeen` (the instant the key was first seen, never refreshed while pending). -/
theorem tree_add_holddown_at_least_30d :
    thirtyDays ≤ treeParams.addHold ∧ SdnsVerif.Gen.C09.add_holddown_from_first_seen = true := by decide

/-- a Missing anchor is kept for at least 90 days, measured from `FirstSeen`
(reset when the key went missing). -/
theorem tree_missing_holddown_at_least_90d :
    90 * 86400 ≤ treeParams.remHold ∧ SdnsVerif.Gen.C09.missing_holddown_from_first_seen = true := by decide

/-- statement order of the persistence tail in the tree is the one the model
has: tombstones are written before the state file, markers are deleted only in
the branch where the tombstone write succeeded, the corrupt-store and the
both-writes-failed branches clear the trust set, EVERY `readTombstones` error
clears the trust set and returns (no fall-through to an empty map), and the pre-fetch publication
is gated on the prior trust set; the two records live in two distinct files. -/
theorem tree_persistence_shape :
    SdnsVerif.Gen.C09.shape_tomb_write_before_state_write = true ∧
    SdnsVerif.Gen.C09.shape_markers_dropped_only_after_tomb_ok = true ∧
    SdnsVerif.Gen.C09.shape_corrupt_tombstones_clear_trust = true ∧
    SdnsVerif.Gen.C09.shape_unreadable_tombstones_clear_trust = true ∧
    SdnsVerif.Gen.C09.shape_unreadable_tombstones_use_empty_map = false ∧
    SdnsVerif.Gen.C09.shape_both_writes_failed_clears_trust = true ∧
    SdnsVerif.Gen.C09.shape_prefetch_publish_gated_on_prior = true ∧
    SdnsVerif.Gen.C09.shape_missing_clock_starts_at_disappearance = true ∧
    SdnsVerif.Gen.C09.state_file ≠ SdnsVerif.Gen.C09.tombstone_file := by decide

/-- **The real `readTombstones`, run over every file condition the model
distinguishes** (regenerated on every run): only NotExist is an empty store; a
zero-length file, a truncated stream, a single byte, garbage and a directory
are all `errCorruptTombstones` (model: `FileC.empty` / `FileC.corrupt`, both
`undecodable`); a file that cannot be opened is another error (model: the
`tombRead` fault) — and `tree_persistence_shape` says both error classes clear
the trust set. -/
theorem tree_tombstone_read_outcomes :
    SdnsVerif.Gen.C09.tomb_read_outcomes =
      ["absent=store:0", "valid=store:1", "zero-length=corrupt", "truncated=corrupt",
       "one-byte=corrupt", "garbage=corrupt", "directory=corrupt", "unopenable=error"] := by decide

/-- the hold-down theorem instantiated with the tree's literals. -/
theorem new_key_needs_holddown_tree (cfg : List Key) (evs : List Ev) (hnc : HistNC treeParams cfg {} evs) :
    ∀ live, (runHist treeParams cfg {} evs).proc = some live →
      ∀ k ∈ live, k ∈ cfg ∨ (runHistG treeParams cfg ({}, Ghost.init) evs).2.earned k = true :=
  new_key_needs_holddown_partial treeParams tree_add_holddown_at_least_30d.1 cfg evs hnc

/-! ## where the full-strength statements fail (witnesses checked by `decide`) -/

def kA : Key := { mat := 1, sep := true, revoke := false, other := 256, tag := 1000 }
/-- the REVOKE form of `kA` (tag + 128). -/
def kA' : Key := { mat := 1, sep := true, revoke := true, other := 256, tag := 1128 }
def kB : Key := { mat := 2, sep := true, revoke := false, other := 256, tag := 2000 }
def kP : Key := { mat := 3, sep := true, revoke := false, other := 256, tag := 3000 }
/-- a different key with the key tag of `kP`. -/
def kQ : Key := { mat := 4, sep := true, revoke := false, other := 256, tag := 3000 }

/-- the root revokes `kA`: `{kA', kB}` signed by `kB` and self-signed by `kA'`. -/
def revokeA : Fetch := { keys := [kA', kB], signers := [kA', kB] }

/-- `tombstone_permanent` at full strength: no assumption on reads at all. -/
def TombstonePermanentFull : Prop :=
  ∀ (P : Params) (cfg : List Key) (s : Sys) (evs : List Ev) (f : Option Fetch) (fl : Faults) (m : Nat),
    Barred s.disk m →
    ∀ live, (runHist P cfg s (evs ++ [.run f fl none])).proc = some live → ∀ k ∈ live, k.mat ≠ m

/-- **The one way left to lose a revocation**: the tombstone write fails when
`kA`'s revocation is accepted, so the only record is the `StateRevoked` marker
in the state file; at the next refresh the state file cannot be read,
`kskCurrent` is re-seeded from the live keys and the configuration, and `kA`
is trusted again (known finding `autota/state-unreadable/revoked-key-live-again`). -/
theorem tombstone_permanent_fails_when_state_lost : ¬ TombstonePermanentFull := by
  intro h
  have hb : Barred (runHist {} [kA, kB] {} [.run (some revokeA) { tombWrite := true } none]).disk 1 :=
    Or.inr (Or.inr ⟨_, rfl, ⟨kA, .revoked, 0⟩, by decide, rfl, rfl⟩)
  exact h {} [kA, kB] (runHist {} [kA, kB] {} [.run (some revokeA) { tombWrite := true } none]) [] none
    { stateRead := true } 1 hb [kB, kA] (by decide) kA (by decide) rfl

/-! The three witnesses that refuted the unreadable-store clause before /repo
1cde6e3 (`readTombstones`' open error was an empty map) — now rejected: -/

-- revocation of kA tombstoned, restart, tombstone file unopenable: nothing is trusted
-- (was: `some [kB, kA]`, the revoked and still configured kA live again)
example : (runHist {} [kA, kB] {} [.run (some revokeA) {} none, .restart,
    .run none { tombRead := true } none]).proc = some [] := by decide
-- ... and the store is left alone (was: replaced by the empty map `.ok []`)
example : (runHist {} [kA, kB] {} [.run (some revokeA) {} none, .restart,
    .run (some { keys := [kB], signers := [kB] }) { tombRead := true } none]).disk.tomb = .ok [1] := by decide
-- ... and no tombstoned key is trusted when the store is unreadable (was: kA)
example : (autoTA {} [kA] { tomb := .ok [1] } [kA] none { tombRead := true } 0).live = [] :=
  (unreadable_store_fail_closed {} [kA] { tomb := .ok [1] } [kA] none { tombRead := true } 0 rfl).1
-- tombstone_permanent_partial now covers that history: no assumption on tombstone reads
example : ∀ k ∈ ([] : List Key), k.mat ≠ 1 :=
  tombstone_permanent_partial {} [kA, kB]
    (runHist {} [kA, kB] {} [.run (some revokeA) {} none]) [.restart] none { tombRead := true } 1
    (Or.inr (Or.inl ⟨[1], by decide, by decide⟩))
    ⟨trivial, (by intro h; cases h), trivial⟩ [] (by decide)

/-- `new_key_needs_holddown` at full strength: no assumption on key tags. -/
def NewKeyNeedsHolddownFull : Prop :=
  ∀ (P : Params), thirtyDays ≤ P.addHold → ∀ (cfg : List Key) (evs : List Ev),
    ∀ live, (runHist P cfg {} evs).proc = some live →
      ∀ k ∈ live, k ∈ cfg ∨ (runHistG P cfg ({}, Ghost.init) evs).2.earned k = true

/-- **The hold-down fails under a key-tag collision.** `kP` is published once
(signed by the configured `kA`) and becomes pending; 31 days later the root's
set is `{kA, kQ}` — `kP` is gone, `kQ` is a different key with `kP`'s tag. The
loop finds the tag in `kskFetched`, treats `kP` as present and promotes it:
`kP` is trusted although it was absent from an accepted refresh — in fact
absent from the very refresh that promoted it. -/
theorem holddown_fails_on_tag_collision : ¬ NewKeyNeedsHolddownFull := by
  intro h
  have := h {} (by decide) [kA]
    [.run (some { keys := [kA, kP], signers := [kA] }) {} none, .tick (31 * 86400),
     .run (some { keys := [kA, kQ], signers := [kA] }) {} none]
    [kA, kP] (by decide) kP (by decide)
  revert this
  decide

/-- **An accepted but unrecordable revocation is not remembered by the running
process.** `kA`'s revocation is accepted while both writes fail (the live set is
cleared, as `both_writes_fail_closed` says); the root then drops the REVOKE
form; at the next fully authenticated refresh — same process, writes working
again — `kA` is read back from the state file as Valid, marked Missing and
published. "Never published again" therefore holds only from the first landed
record onwards (`tombstone_permanent_partial`). -/
theorem unrecorded_revocation_returns_in_same_process :
    1 ∈ (runResult {} [kA, kB] {} (some revokeA) { tombWrite := true, stateWrite := true }).revoked ∧
    (runHist {} [kA, kB] {} [.run (some revokeA) { tombWrite := true, stateWrite := true } none]).proc = some [] ∧
    (runHist {} [kA, kB] {} [.run (some revokeA) { tombWrite := true, stateWrite := true } none,
      .run (some { keys := [kB], signers := [kB] }) {} none]).proc = some [kA, kB] := by
  decide

/-! ## non-vacuity: each theorem applied to a concrete, non-trivial case -/

-- tombstone_permanent_partial: revocation accepted, restart, configuration still lists kA,
-- the next refresh serves the OLD set {kA, kB} signed by both: kA stays out.
example : ∀ k ∈ [kB], k.mat ≠ 1 :=
  tombstone_permanent_partial {} [kA, kB]
    (runHist {} [kA, kB] {} [.run (some revokeA) {} none]) [.restart]
    (some { keys := [kA, kB], signers := [kA, kB] }) {} 1
    (Or.inr (Or.inl ⟨[1], by decide, by decide⟩))
    ⟨trivial, (by intro h; cases h), trivial⟩ [kB] (by decide)

-- ... and across a crash between the two writes of the revoking run (tombstone landed,
-- state file still lists kA as Valid), then a restart: kA is not published.
example : ∀ k ∈ [kB], k.mat ≠ 1 :=
  tombstone_permanent_partial {} [kA, kB]
    (runHist {} [kA, kB] {} [.run (some { keys := [kA, kB], signers := [kA] }) {} none,
                             .run (some revokeA) {} (some 1)]) []
    none {} 1
    (Or.inr (Or.inl ⟨[1], by decide, by decide⟩))
    ⟨(by intro h; cases h), trivial⟩ [kB] (by decide)

-- both_writes_fail_closed: the revoking run with both writes failing
example : (autoTA {} [kA, kB] {} [kA, kB] (some revokeA) { tombWrite := true, stateWrite := true } 0).live = [] :=
  (both_writes_fail_closed {} [kA, kB] {} [kA, kB] (some revokeA) { tombWrite := true, stateWrite := true } 0
    (by decide) rfl rfl).1

-- revocation_recorded_or_closed: only the state write lands -> the marker is the record
example : Barred (applyWrites {} (autoTA {} [kA, kB] {} [kA, kB] (some revokeA) { tombWrite := true } 0).writes) 1 :=
  (revocation_recorded_or_closed {} [kA, kB] {} [kA, kB] (some revokeA) { tombWrite := true } 0 1 (by decide)).resolve_left
    (by decide)

-- revocation_needs_material_and_selfsig: the revoking run above
example : ∃ old ∈ (autoTA {} [kA, kB] {} [kA, kB] none {} 0).curFinal,
    old.key.mat = 1 ∧ isTrusted old.st = true ∧ RevocationOf revokeA old.key :=
  revocation_needs_material_and_selfsig {} [kA, kB] {} [kA, kB] revokeA {} 0 1 (by decide)

-- corrupt_store_fail_closed
example : (autoTA {} [kA] { tomb := .corrupt } [kA] (some revokeA) {} 0).live = [] :=
  (corrupt_store_fail_closed {} [kA] { tomb := .corrupt } [kA] (some revokeA) {} 0 rfl).1

-- empty_store_fail_closed: revocation tombstoned, file later truncated to zero length, restart,
-- the root no longer publishes the revoked form, configuration still lists kA: nothing is trusted
example : (runHist {} [kA, kB] {} [.run (some revokeA) {} none, .damage .tombEmpty, .restart,
    .run (some { keys := [kB], signers := [kB] }) {} none]).proc = some [] := by decide
example : (autoTA {} [kA] { tomb := .empty } [kA] none {} 0).writes = [] :=
  (empty_store_fail_closed {} [kA] { tomb := .empty } [kA] none {} 0 rfl).2

-- unauthenticated_changes_nothing: an attacker's key signs a set that adds it
example : autoTA {} [kA] {} [kA] (some { keys := [kA, kP], signers := [kP] }) {} 0 = autoTA {} [kA] {} [kA] none {} 0 :=
  (unauthenticated_changes_nothing {} [kA] {} [kA] { keys := [kA, kP], signers := [kP] } {} 0 (by decide)).1

-- revocation_only_restricted: kA' signs alone and the set also carries a new key kP
example : (autoTA {} [kA, kB] {} [kA, kB] (some { keys := [kA', kP], signers := [kA'] }) {} 0).auth = .revOnly := by
  decide
example : ∀ k ∈ (autoTA {} [kA, kB] {} [kA, kB] (some { keys := [kA', kP], signers := [kA'] }) {} 0).live,
    k ∈ (autoTA {} [kA, kB] {} [kA, kB] none {} 0).cand :=
  (revocation_only_restricted {} [kA, kB] {} [kA, kB] { keys := [kA', kP], signers := [kA'] } {} 0 (by decide)).1

-- missing_keeps_trust_90d_and_returns: kB disappears from a set signed by kA
example : kB ∈ (autoTA {} [kA, kB] {} [kA, kB] (some { keys := [kA], signers := [kA] }) {} 0).live :=
  (missing_keeps_trust_90d_and_returns {} [kA, kB] {} [kA, kB] { keys := [kA], signers := [kA] } {} 0
    ⟨kB, .valid, 0⟩ (by decide) (by decide) rfl (by decide) (by intro h; cases h) (by decide)).1

-- ... a key that has been Valid for 200 days and is absent from two consecutive refreshes 12 h apart
-- is still trusted after the second one (the clock started at the first absence)
example : (runHist {} [kA, kB] {} [.run (some { keys := [kA, kB], signers := [kA] }) {} none, .tick (200 * 86400),
    .run (some { keys := [kA], signers := [kA] }) {} none, .tick (12 * 3600),
    .run (some { keys := [kA], signers := [kA] }) {} none]).proc = some [kA, kB] := by decide

-- new_key_needs_holddown_partial: kP published, 31 days, published again -> trusted and earned
example : (runHist {} [kA] {} [.run (some { keys := [kA, kP], signers := [kA] }) {} none, .tick (31 * 86400),
    .run (some { keys := [kA, kP], signers := [kA] }) {} none]).proc = some [kA, kP] := by decide
example : (runHistG {} [kA] ({}, Ghost.init) [.run (some { keys := [kA, kP], signers := [kA] }) {} none,
    .tick (31 * 86400), .run (some { keys := [kA, kP], signers := [kA] }) {} none]).2.earned kP = true := by decide

-- consumed_key_is_covered / the seeded scenario: the genuine root DNSKEY RRset signed by kA plus an
-- unsigned KSK under another owner name: not accepted, so a no-op (and so for 30 days)
example : verifyFetched [kA] { keys := [kA], signers := [kA], extras := [{ keys := [{ kP with owner := 1 }] }] } = .none := by
  decide
example : (runHist {} [kA] {} [
    .run (some { keys := [kA], signers := [kA], extras := [{ keys := [{ kP with owner := 1 }] }] }) {} none,
    .tick (31 * 86400),
    .run (some { keys := [kA], signers := [kA], extras := [{ keys := [{ kP with owner := 1 }] }] }) {} none]).proc
    = some [kA] := by decide
-- ... accepted only when the extra RRset is signed by an anchor too
example : verifyFetched [kA] { keys := [kA], signers := [kA], extras := [{ keys := [], signers := [kA] }] } = .full := by
  decide
example : ∃ e ∈ [({ keys := [{ kP with owner := 1 }], signers := [kA] } : Extra)],
    ({ kP with owner := 1 } : Key) ∈ e.keys ∧ ∃ a, Anchoring [kA]
      { keys := [kA], signers := [kA], extras := [{ keys := [{ kP with owner := 1 }], signers := [kA] }] } a ∧
      signedBy e.signers a = true :=
  (consumed_key_is_covered [kA]
    { keys := [kA], signers := [kA], extras := [{ keys := [{ kP with owner := 1 }], signers := [kA] }] }
    (by decide) { kP with owner := 1 } (by decide)).resolve_left (fun h => absurd h.1 (by decide))

-- validation: the live set {kB} validates a set signed by kB, not one signed by the revoked kA alone;
-- a cleared set validates nothing
example : validates [kB] { keys := [kA, kB], signers := [kB] } = true := by decide
example : validates [kB] { keys := [kA, kB], signers := [kA] } = false := by decide
example : validates [] { keys := [kA, kB], signers := [kA, kB] } = false := validation_fails_closed _
-- prefetch_publication: fail-closed mode (live = []) publishes nothing before the fetch
example : (autoTA {} [kA, kB] {} [] (some revokeA) {} 0).pre = some [] := by decide
example : (autoTA {} [kA, kB] { tomb := .ok [1] } [kA, kB] none {} 0).pre = some [kB] := by decide

-- startup: revocation of kA tombstoned, restart, NewResolver: kA is not trusted before the first refresh,
-- and a response signed by kA alone does not validate (before /repo 24304ea: `some [kA, kB]`, validated)
example : (runHist {} [kA, kB] {} [.run (some revokeA) {} none, .restart, .boot {}]).proc = some [kB] := by decide
-- ... and with the store unopenable at that start (seeded C09-16): nothing is trusted
example : (runHist {} [kA, kB] {} [.run (some revokeA) {} none, .restart, .boot { tombRead := true }]).proc = some [] := by decide
example : validates [kB] { keys := [kA, kB], signers := [kA] } = false := by decide
example : ∀ k ∈ [kB], k.mat ≠ 1 :=
  tombstone_permanent_from_process_start {} [kA, kB] (runHist {} [kA, kB] {} [.run (some revokeA) {} none]) [.restart] 1 {}
    (Or.inr (Or.inl ⟨[1], by decide, by decide⟩)) ⟨trivial, (by intro h; cases h), trivial⟩ [kB] (by decide)
-- every configured key barred: the process starts fail closed and the pre-fetch publication is skipped
example : (autoTA {} [kA] { tomb := .ok [1] } (startupKeys [kA] { tomb := .ok [1] }) none {} 0).pre = some [] := by decide
-- marker-only record and zero-length store at start
example : startupKeys [kA, kB] { state := .ok [⟨kA, .revoked, 0⟩] } = [kB] := by decide
example : startupKeys [kA, kB] { tomb := .empty } = [] := by decide

-- Missing, then revoked (seeded C09-12): kA disappears, later kA' is published self-signed and co-signed by kB
example : (runHist {} [kA, kB] {} [.run (some { keys := [kA, kB], signers := [kB] }) {} none,
    .run (some { keys := [kB], signers := [kB] }) {} none, .tick (10 * 86400),
    .run (some revokeA) {} none]) =
    { disk := { state := .ok [⟨kB, .valid, 0⟩], tomb := .ok [1] }, proc := some [kB], now := 864000 } := by decide
-- a REVOKE copy of kA that kA never signed, next to a key with the SAME tag as the copy that did sign (seeded
-- C09-10): no self-signature, kA is neither revoked nor tombstoned (it merely goes Missing)
example : (autoTA {} [kA, kB] {} [kA, kB]
    (some { keys := [kA', kB, { kP with tag := 1128 }], signers := [kB, { kP with tag := 1128 }] }) {} 0).revoked = [] := by
  decide
example : selfSigned { keys := [kA', kB, { kP with tag := 1128 }], signers := [kB, { kP with tag := 1128 }] } kA' = false := by
  decide

-- self_signed_revocation_is_honoured on the Missing-then-revoked history: the third run's revocation of kA (Missing)
example : 1 ∈ (autoTA {} [kA, kB] { state := .ok [⟨kA, .missing, 0⟩, ⟨kB, .valid, 0⟩], tomb := .ok [] } [kA, kB]
    (some revokeA) {} 864000).revoked :=
  self_signed_revocation_is_honoured {} [kA, kB] _ [kA, kB] revokeA {} 864000 [] kA' ⟨kA, .missing, 0⟩
    rfl (by decide) (by decide) rfl rfl (by decide) (by decide) (Or.inr rfl) (by decide) (by decide) (by decide)
    (by decide)

-- the consumer side: zero-length store at a refresh -> nothing is served, not even with AD clear
example : serve (autoTA {} [kA] { tomb := .empty } [kA] (some { keys := [kA], signers := [kA] }) {} 0).live false true
    = .servfail := (unloadable_store_serves_nothing {} [kA] { tomb := .empty } [kA] _ {} 0 true (Or.inl rfl)).1
example : serve [kA] false true = .answered true := by decide
example : serve [] true true = .answered false := by decide
example : serve (autoTA {} [kA, kB] {} [kA, kB] (some revokeA) { tombWrite := true, stateWrite := true } 0).live false false
    = .servfail := unrecorded_revocation_serves_nothing {} [kA, kB] {} [kA, kB] _ _ 0 false (by decide) rfl rfl

-- permanence is not a matter of age (seeded C09-18): 1200 days after the revocation, two more refreshes and a restart
example : (runHist {} [kA, kB] {} [.run (some revokeA) {} none, .tick (1200 * 86400),
    .run (some { keys := [kB], signers := [kB] }) {} none, .tick (12 * 3600),
    .run (some { keys := [kB], signers := [kB] }) {} none, .restart, .boot {}]) =
    { disk := { state := .ok [⟨kB, .valid, 0⟩], tomb := .ok [1] }, proc := some [kB], now := 1200 * 86400 + 12 * 3600 } := by
  decide
-- the REVOKE form kA' (tag 1128) has the tag of another TRACKED key (seeded C09-17): still a revocation
example : (autoTA {} [kA, { kB with tag := 1128 }] {} [kA, { kB with tag := 1128 }]
    (some { keys := [{ kB with tag := 1128 }, kA'], signers := [{ kB with tag := 1128 }, kA'] }) {} 0).revoked = [1] := by
  decide

-- a pending key absent from one uneventful accepted refresh (seeded C09-20): gone from the state file, and a new
-- 30-day hold-down starts when it is published again (not trusted 31 days after the FIRST sighting)
example : (runHist {} [kA] {} [.run (some { keys := [kA, kP], signers := [kA] }) {} none, .tick (10 * 86400),
    .run (some { keys := [kA], signers := [kA] }) {} none]).disk.state = .ok [⟨kA, .valid, 0⟩] := by decide
example : (runHist {} [kA] {} [.run (some { keys := [kA, kP], signers := [kA] }) {} none, .tick (10 * 86400),
    .run (some { keys := [kA], signers := [kA] }) {} none, .tick 86400,
    .run (some { keys := [kA, kP], signers := [kA] }) {} none, .tick (20 * 86400 + 120),
    .run (some { keys := [kA, kP], signers := [kA] }) {} none]).proc = some [kA] := by decide
-- revocation-only answer with the REVOKE form of a second anchor that its key never signed (seeded C09-19)
example : (autoTA {} [kA, kB] {} [kA, kB]
    (some { keys := [kA', { kB with revoke := true, tag := 2128 }], signers := [kA'] }) {} 0).revoked = [1] := by decide
-- a rolled-in (not configured) anchor revoked in the first refresh after a restart, both writes failing (seeded C09-21)
example : (autoTA {} [kB] { state := .ok [⟨kB, .valid, 0⟩, ⟨kA, .valid, 0⟩], tomb := .ok [] } (startupKeys [kB] { state := .ok [⟨kB, .valid, 0⟩, ⟨kA, .valid, 0⟩], tomb := .ok [] })
    (some revokeA) { tombWrite := true, stateWrite := true } 0).live = [] := by decide

-- a genuine set whose only anchor signature expired a day ago (window 30 days): unauthenticated (seeded C09-22)
example : verifyFetched [kA] { keys := [kA, kP], signers := effectiveSigners [] [⟨kA, -30 * 86400, -86400, 0⟩] } = .none := by
  decide
example : verifyFetched [kA] { keys := [kA, kP], signers := effectiveSigners [] [⟨kA, -86400, 86400, 0⟩] } = .full := by decide

-- a REVOKE-flagged KSK that is nobody's revocation (seeded C09-25): ignored, never pending
example : (autoTA {} [kA] {} [kA] (some { keys := [kA, { kP with revoke := true }], signers := [kA] }) {} 0).curFinal
    = [⟨kA, .valid, 0⟩] := by decide
example : ∀ k ∈ [kA], k.revoke = false :=
  (revoke_flagged_key_never_trusted {} [kA] [.run (some { keys := [kA, { kP with revoke := true }], signers := [kA] }) {} none]).live
    [kA] (by decide)

-- an in-window RRSIG by the anchor's own key material whose Signer's Name is another zone: authenticates nothing
example : verifyFetched [kA] { keys := [kA, kP], signers := effectiveSigners [] [⟨kA, -86400, 86400, 1⟩] } = .none := by decide
example : verifyFetched [kA] { keys := [kA, kP], signers := effectiveSigners [] [⟨kA, -86400, 86400, 1⟩, ⟨kA, -86400, 86400, 0⟩] }
    = .full := by decide

-- the genuine root set plus a TXT RRset whose only RRSIG is by the anchor's key but names another zone as signer
example : verifyFetched [kA] { keys := [kA], signers := [kA], extras := [{ signers := [] ++ namedSigners [⟨kA, 7⟩] }] } = .none := by
  decide
example : verifyFetched [kA] { keys := [kA], signers := [kA], extras := [{ signers := [] ++ namedSigners [⟨kA, 0⟩] }] } = .full := by
  decide

end SdnsVerif.Props.C09
