import SdnsVerif.Model.Dns64
import SdnsVerif.Lemmas.Dns64
import SdnsVerif.Gen.C20
/-!
# C20 — DNS64 synthesises only RFC 6052 addresses, only when allowed, never with AD

Property theorems only.  Specifications (`rfc6052`, `arpaNameOf`) and helper
lemmas live in `Lemmas/Dns64.lean`, the model in `Model/Dns64.lean`.
-/
namespace SdnsVerif.Props.C20
open SdnsVerif.Model.Dns64 SdnsVerif.Lemmas.Dns64

/-! ## RFC 6052 algebra: all legal lengths, all prefix bytes, all IPv4 addresses -/

/-- **Illegal prefixes are rejected.** `validatePrefix` accepts only an IPv6
mask of one of the six RFC 6052 lengths, and a /96 only with bits 64..71 zero. -/
theorem illegal_lengths_rejected (n : Net) (h : validatePrefix n = .ok) :
    n.v6 = true ∧ n.bits ∈ [32, 40, 48, 56, 64, 96] ∧ (n.bits = 96 → n.ip.length ≥ 9 → bAt n.ip 8 = 0) := by
  unfold validatePrefix at h
  cases hv : n.v6 <;> simp [hv] at h
  by_cases hl : isLegal n.bits = true
  · simp only [hl] at h
    refine ⟨rfl, by simpa [isLegal, legalBits] using hl, ?_⟩
    intro h96 hlen
    by_cases hb : bAt n.ip 8 = 0
    · exact hb
    · simp [h96, hlen, hb] at h
  · simp [hl] at h

example : validatePrefix ⟨[0x20, 0x01, 0x0d, 0xb8, 0, 0, 0, 0, 0, 0, 0, 0, 0, 0, 0, 0], 32, true⟩ = .ok := by decide
example : validatePrefix ⟨[0x20, 0x01, 0x0d, 0xb8, 0, 0, 0, 0, 1, 0, 0, 0, 0, 0, 0, 0], 96, true⟩ = .byte8 := by decide
example : validatePrefix ⟨[0x20, 0x01, 0x0d, 0xb8, 0, 0, 0, 0, 0, 0, 0, 0, 0, 0, 0, 0], 72, true⟩ = .len := by decide

/-- **The embedding is the RFC 6052 §2.2 table**, row by row, for every legal
length, every prefix and every IPv4 address. -/
theorem embed_is_rfc6052 (p : IP) (bits : Nat) (v : IP) (hv : v.length = 4) (hl : isLegal bits = true) :
    embedIPv4 p bits v = rfc6052 p bits v :=
  embed_eq p bits v hv hl

-- RFC 6052 §2.4 examples for 192.0.2.33 under 2001:db8::/32, 2001:db8:100::/40, 2001:db8:122:300::/56
example : embedIPv4 [0x20, 0x01, 0x0d, 0xb8, 0, 0, 0, 0, 0, 0, 0, 0, 0, 0, 0, 0] 32 [192, 0, 2, 33]
    = [0x20, 0x01, 0x0d, 0xb8, 0xc0, 0x00, 0x02, 0x21, 0, 0, 0, 0, 0, 0, 0, 0] := by decide
example : embedIPv4 [0x20, 0x01, 0x0d, 0xb8, 0x01, 0, 0, 0, 0, 0, 0, 0, 0, 0, 0, 0] 40 [192, 0, 2, 33]
    = [0x20, 0x01, 0x0d, 0xb8, 0x01, 0xc0, 0x00, 0x02, 0, 0x21, 0, 0, 0, 0, 0, 0] := by decide
example : embedIPv4 [0x20, 0x01, 0x0d, 0xb8, 0x01, 0x22, 0x03, 0, 0, 0, 0, 0, 0, 0, 0, 0] 56 [192, 0, 2, 33]
    = [0x20, 0x01, 0x0d, 0xb8, 0x01, 0x22, 0x03, 0xc0, 0, 0x00, 0x02, 0x21, 0, 0, 0, 0] := by decide

/-- **Reserved octet and suffix are zero.** For a validated prefix the
synthesised address is 16 bytes, bits 64..71 are zero, and every byte after
the last embedded IPv4 octet is zero. -/
theorem reserved_octet_and_suffix_zero (p : IP) (bits : Nat) (v : IP) (hp : p.length = 16) (hv : v.length = 4)
    (hok : validatePrefix ⟨p, bits, true⟩ = .ok) :
    (embedIPv4 p bits v).length = 16 ∧ bAt (embedIPv4 p bits v) 8 = 0 ∧
      allZero ((embedIPv4 p bits v).drop (lastV4Index bits + 1)) = true := by
  obtain ⟨_, hmem, h96⟩ := illegal_lengths_rejected _ hok
  have hl : isLegal bits = true := by simpa [isLegal, legalBits] using hmem
  rw [embed_eq p bits v hv hl]
  have h8 := h96
  simp only [hp] at h8
  rcases legal_cases bits hl with rfl | rfl | rfl | rfl | rfl | rfl <;>
    simp [rfc6052, bAt, allZero, lastV4Index] <;> simpa [bAt] using h8

/-- **Reversible.** Extracting from the embedding gives back the IPv4
address: every legal length, every 16-byte prefix (the all-zero ones
included), every IPv4 address. -/
theorem extract_embed (p : IP) (bits : Nat) (v : IP) (hp : p.length = 16) (hv : v.length = 4)
    (hl : isLegal bits = true) :
    extractIPv4 p bits (embedIPv4 p bits v) = some v := by
  rw [embed_eq p bits v hv hl]
  obtain ⟨a, b, c, d, rfl⟩ := len4 v hv
  obtain ⟨p0, p1, p2, p3, p4, p5, p6, p7, p8, p9, p10, p11, p12, p13, p14, p15, rfl⟩ := len16 p hp
  rcases legal_cases bits hl with rfl | rfl | rfl | rfl | rfl | rfl <;>
    simp [extractIPv4, rfc6052, prefixContains, to16, allZero, bAt, eqUnder, isLegal, legalBits]

example : extractIPv4 (List.replicate 16 0) 64 (embedIPv4 (List.replicate 16 0) 64 [0, 255, 255, 7]) = some [0, 255, 255, 7] := by
  decide

/-- **Exact inverse on conformant addresses.** Whatever `extractIPv4` accepts
is exactly the embedding of the address it returns: a non-zero reserved octet,
a non-zero suffix or a foreign prefix never extracts. -/
theorem embed_extract (p : IP) (bits : Nat) (a v : IP) (hp : p.length = 16) (ha : a.length = 16)
    (h : extractIPv4 p bits a = some v) :
    isLegal bits = true ∧ v.length = 4 ∧ a = embedIPv4 p bits v := by
  have hc : prefixContains ⟨p, bits, true⟩ a = true := by
    unfold extractIPv4 at h
    by_cases hc : prefixContains ⟨p, bits, true⟩ a = true
    · exact hc
    · simp [hc] at h
  have hl : isLegal bits = true := by
    unfold extractIPv4 at h
    by_cases hl : isLegal bits = true
    · exact hl
    · simp [hl] at h
  have ht := (contains_take p a bits hp ha hl).mp hc
  unfold extractIPv4 at h
  simp only [hc, hl, Bool.not_true, Bool.false_eq_true, if_false] at h
  refine ⟨hl, ?_⟩
  obtain ⟨p0, p1, p2, p3, p4, p5, p6, p7, p8, p9, p10, p11, p12, p13, p14, p15, rfl⟩ := len16 p hp
  obtain ⟨a0, a1, a2, a3, a4, a5, a6, a7, a8, a9, a10, a11, a12, a13, a14, a15, rfl⟩ := len16 a ha
  rcases legal_cases bits hl with rfl | rfl | rfl | rfl | rfl | rfl <;>
    simp [allZero, bAt] at h ht <;>
    simp [embedIPv4, prefixCopy, range16, copyAt, bAt, ← h] <;> simp_all

-- reserved octet set / suffix set / other prefix: nothing is extracted
example : extractIPv4 [0x20, 0x01, 0x0d, 0xb8, 0, 0, 0, 0, 0, 0, 0, 0, 0, 0, 0, 0] 32
    [0x20, 0x01, 0x0d, 0xb8, 192, 0, 2, 33, 1, 0, 0, 0, 0, 0, 0, 0] = none := by decide
example : extractIPv4 [0x20, 0x01, 0x0d, 0xb8, 0, 0, 0, 0, 0, 0, 0, 0, 0, 0, 0, 0] 32
    [0x20, 0x01, 0x0d, 0xb8, 192, 0, 2, 33, 0, 0, 0, 0, 0, 0, 0, 1] = none := by decide

/-- **The ip6.arpa name of an address decodes to that address** (RFC 3596
§2.5 rendering, any 16-byte address). -/
theorem ptr_roundtrip (a : IP) (ha : a.length = 16) : parseIP6ArpaName (arpaNameOf a) = some a := by
  unfold arpaNameOf
  rw [parse_join _ (by simp [nibbles_length, ha]) (fun n hn => nibbles_lt a n (List.mem_reverse.mp hn))]
  simp [pairUp_nibbles]

/-- **Only the 32-nibble reverse name parses.** If `parseIP6ArpaName` accepts a
name then (lower-cased, final dot dropped) it is `head ++ ".ip6.arpa"` where
`head` splits at its dots into exactly 32 labels, every one a single hex digit,
and the address is assembled from those nibbles: a label of any other length —
a separator that is not a dot — is refused whatever the total length. -/
theorem arpa_parse_only_one_nibble_labels (n : Name) (a : IP) (h : parseIP6ArpaName n = some a) :
    ∃ (head : Name) (cs : List Char) (nibs : List Nat), trimSuffix (lower n) ['.'] = head ++ ip6ArpaSuffix ∧
      splitDots head = cs.map (fun c => [c]) ∧ cs.length = 32 ∧ cs.mapM hexNibble = some nibs ∧
      a = pairUp nibs.reverse := by
  unfold parseIP6ArpaName at h
  simp only at h
  split at h
  · cases h
  · rename_i hsuf
    split at h
    · cases h
    · rename_i h32
      split at h
      · cases h
      · rename_i nibs hn
        simp only [Option.some.injEq] at h
        obtain ⟨cs, hcs, hm⟩ := mapM_labelNibble_singletons _ _ hn
        refine ⟨_, cs, nibs, (take_of_hasSuffix _ _ (by simpa using hsuf)).symm, hcs, ?_, hm, h.symm⟩
        have : (cs.map fun c => [c]).length = 32 := by rw [← hcs]; simpa using h32
        simpa using this

example : parseIP6ArpaName ("1a2.2.0.0.0.0.c.0.0.0.0.0.0.0.0.0.0.0.0.0.0.0.0.b.9.f.f.4.6.0.0.ip6.arpa.".toList) = none := by
  decide

/-- **The matching PTR query maps back to the same IPv4 address.** -/
theorem ptr_maps_back (p : IP) (bits : Nat) (v : IP) (hp : p.length = 16) (hv : v.length = 4)
    (hl : isLegal bits = true) :
    (parseIP6ArpaName (arpaNameOf (embedIPv4 p bits v))).bind (extractIPv4 p bits) = some v := by
  have hlen : (embedIPv4 p bits v).length = 16 := by
    rw [embed_eq p bits v hv hl]
    rcases legal_cases bits hl with rfl | rfl | rfl | rfl | rfl | rfl <;> simp [rfc6052]
  rw [ptr_roundtrip _ hlen]
  exact extract_embed p bits v hp hv hl

example : (parseIP6ArpaName (arpaNameOf (embedIPv4 wkpIP 96 [192, 0, 2, 33]))).bind (extractIPv4 wkpIP 96)
    = some [192, 0, 2, 33] := ptr_maps_back _ _ _ rfl rfl rfl

/-- **Every compiled prefix is a validated 16-byte Pref64**, so the theorems
above apply to each configured prefix (and to the default well-known one). -/
theorem compiled_prefixes_valid (ps cs : List Ent) (zs : List Name) (xa x6 : Option (List Ent)) :
    ∀ p ∈ (compile ps cs zs xa x6).prefixes,
      validatePrefix p.net = .ok ∧ p.net.ip.length = 16 ∧ p.net.v6 = true ∧ isLegal p.net.bits = true := by
  intro p hp
  have key : ∀ q ∈ ps.filterMap compilePrefix,
      validatePrefix q.net = .ok ∧ q.net.ip.length = 16 ∧ q.net.v6 = true ∧ isLegal q.net.bits = true := by
    intro q hq
    obtain ⟨e, _, he⟩ := List.mem_filterMap.mp hq
    unfold compilePrefix at he
    cases hpc : parseCIDR e with
    | none => simp [hpc] at he
    | some n =>
      simp only [hpc] at he
      by_cases hv : validatePrefix n = .ok
      · simp only [hv, if_true, Option.some.injEq] at he
        subst he
        have hleg := illegal_lengths_rejected n hv
        refine ⟨hv, ?_, hleg.1, by simpa [isLegal, legalBits] using hleg.2.1⟩
        cases e with
        | bad => simp [parseCIDR] at hpc
        | v4 ip b =>
          simp only [parseCIDR] at hpc
          split at hpc
          · simp only [Option.some.injEq] at hpc; subst hpc; simp at hleg
          · simp at hpc
        | v6 ip b =>
          simp only [parseCIDR] at hpc
          split at hpc
          · rename_i hc
            simp only [Option.some.injEq] at hpc; subst hpc
            simp [maskIP, hc.2]
          · simp at hpc
      · simp [hv] at he
  unfold compile at hp
  simp only at hp
  split at hp
  · simp only [List.mem_singleton] at hp
    subst hp
    exact ⟨by decide, by decide, rfl, by decide⟩
  · exact key p hp

/-! ## TTL -/

/-- **TTL ≤ every A TTL.** -/
theorem synth_ttl_le_a (neg : Option Nat) (attls : List Nat) (a : Nat) (h : a ∈ attls) :
    synthTTL neg attls ≤ a :=
  foldl_min_le_mem attls _ a h

/-- **TTL ≤ the AAAA negative TTL** whenever the AAAA reply carried an SOA. -/
theorem synth_ttl_le_negative (soas : List (Nat × Nat)) (attls : List Nat) (n : Nat)
    (h : negativeAAAATTL soas = some n) : synthTTL (negativeAAAATTL soas) attls ≤ n := by
  rw [h]
  exact foldl_min_le_init attls n

/-- **The negative TTL is RFC 2308's** `min(SOA TTL, SOA MINIMUM)` of the first
SOA, zero values included. -/
theorem negative_ttl_is_rfc2308 (ttl mn : Nat) (rest : List (Nat × Nat)) :
    negativeAAAATTL ((ttl, mn) :: rest) = some (min ttl mn) := by
  unfold negativeAAAATTL
  by_cases h : mn < ttl <;> simp [h] <;> omega

/-- without an SOA the ceiling applies. -/
theorem synth_ttl_le_ceiling (attls : List Nat) : synthTTL (negativeAAAATTL []) attls ≤ 600 :=
  foldl_min_le_init attls _

example : synthTTL (negativeAAAATTL [(0, 300)]) [3600] = 0 := by decide
example : synthTTL (negativeAAAATTL [(3600, 0)]) [3600] = 0 := by decide
example : synthTTL (negativeAAAATTL [(900, 300)]) [3600, 120, 500] = 120 := by decide
example : synthTTL (negativeAAAATTL []) [3600] = 600 := by decide

/-! ## when synthesis happens -/

/-- `isDNSSECFailure` is "SERVFAIL carrying one of the RFC 8914 DNSSEC codes". -/
theorem dnssec_failure_iff (m : Down) :
    isDNSSECFailure m = true ↔
      m.rcode = 2 ∧ m.opt = true ∧ ∃ c ∈ m.edes, c ∈ [1, 2, 27, 5, 6, 7, 8, 9, 10, 11, 12] := by
  unfold isDNSSECFailure dnssecEDE
  simp [and_assoc]

/-- `clientEligible`: an empty list admits everyone, otherwise membership in one configured network. -/
theorem client_eligible_iff (c : Cfg) (ip : IP) :
    c.clientEligible ip = true ↔ c.clients = [] ∨ ∃ n ∈ c.clients, n.contains ip = true := by
  unfold Cfg.clientEligible
  cases hc : c.clients with
  | nil => simp
  | cons x t => simp

/-- `zoneExcluded` matches the zone itself or a name ending in `.zone` — on a label boundary only. -/
theorem zone_excluded_iff (c : Cfg) (qname : Name) :
    c.zoneExcluded qname = true ↔ ∃ z ∈ c.zones, qname = z ∨ ∃ pre, qname = pre ++ '.' :: z := by
  unfold Cfg.zoneExcluded hasSuffix
  simp only [List.any_eq_true, Bool.or_eq_true, beq_iff_eq, List.isSuffixOf_iff_suffix]
  constructor
  · rintro ⟨z, hz, h | ⟨pre, h⟩⟩
    · exact ⟨z, hz, Or.inl h⟩
    · exact ⟨z, hz, Or.inr ⟨pre, h.symm⟩⟩
  · rintro ⟨z, hz, h | ⟨pre, h⟩⟩
    · exact ⟨z, hz, Or.inl h⟩
    · exact ⟨z, hz, Or.inr ⟨pre, h.symm⟩⟩

example : ({ zones := ["example.org.".toList] } : Cfg).zoneExcluded "host.example.org.".toList = true := by decide
example : ({ zones := ["example.org.".toList] } : Cfg).zoneExcluded "badexample.org.".toList = false := by decide

/-- The writer is wrapped (synthesis can be considered at all) exactly when
every request-side gate is open. -/
theorem gate_wrap_iff (c : Cfg) (q : Query) :
    gate c q = .wrap ↔ (q.twoQ && !q.wire) = false ∧ q.qclass = 1 ∧ q.internal = false ∧ q.rd = true ∧ q.cd = false ∧
      c.clientEligible q.client = true ∧ q.qtype = 28 ∧ c.zoneExcluded (canonical q.qname) = false := by
  unfold gate
  by_cases h2 : (q.twoQ && !q.wire) = true
  · simp [h2]
  simp only [h2, if_false]
  have h2' : (q.twoQ && !q.wire) = false := by simpa using h2
  simp only [h2', true_and]
  by_cases h1 : q.qclass = 1 <;> simp [h1]
  cases q.internal <;> simp
  cases q.rd <;> simp
  cases q.cd <;> simp
  cases c.clientEligible q.client <;> simp
  by_cases h28 : q.qtype = 28
  · simp [h28]
  · by_cases h12 : q.qtype = 12 <;> simp [h28, h12]

/-- The secondary A lookup is reached only past every pass-through condition. -/
theorem dispatch_trySynth (c : Cfg) (q : Query) (m : Down) (h : dispatch c q m = .trySynth) :
    m.tc = false ∧ m.hasQ = true ∧ m.rcode ≠ 3 ∧ isDNSSECFailure m = false ∧
    isCachedFailureResponse m = false ∧ m.mark ≠ .attempt ∧ m.mark ≠ .other ∧
    (m.rcode = 0 → ∀ r ∈ m.ans, r.kind = '6' → c.shouldExcludeAAAA r.ip = true) := by
  unfold dispatch at h
  cases htc : m.tc <;> cases hq : m.hasQ <;> simp [htc, hq] at h
  by_cases h3 : m.rcode = 3
  · simp [h3] at h
  simp only [h3, if_false] at h
  cases hd : isDNSSECFailure m <;> simp [hd] at h
  cases hcf : isCachedFailureResponse m <;> simp [hcf] at h
  by_cases ha : m.mark = .attempt
  · simp [ha] at h
  by_cases ho : m.mark = .other
  · simp [ho] at h
  simp only [ha, ho, or_self, if_false] at h
  refine ⟨rfl, rfl, h3, rfl, rfl, ha, ho, ?_⟩
  intro h0 r hr h6
  by_cases hw : (m.rcode = 2 ∧ q.workExhausted = true)
  · simp [hw] at h
  rw [if_neg hw, if_pos h0] at h
  have hmem : r ∈ m.ans.filter (·.kind == '6') := List.mem_filter.mpr ⟨hr, by simp [h6]⟩
  have hne : (m.ans.filter (·.kind == '6')).isEmpty = false := by
    cases hl : m.ans.filter (·.kind == '6') with
    | nil => rw [hl] at hmem; simp at hmem
    | cons _ _ => rfl
  by_cases hk : (filterUpstreamAAAA c m.ans).2.fst = true ∧ 0 < (filterUpstreamAAAA c m.ans).2.2.fst
  · rw [if_pos hk] at h; cases h
  · simp only [filterUpstreamAAAA, hne, Bool.not_false, true_and, Nat.not_lt, Nat.le_zero_eq] at hk
    have hle := List.length_filter_le (fun r => c.shouldExcludeAAAA r.ip) (m.ans.filter (·.kind == '6'))
    have heq : ((m.ans.filter (·.kind == '6')).filter fun r => c.shouldExcludeAAAA r.ip).length
        = (m.ans.filter (·.kind == '6')).length := by omega
    exact (List.length_filter_eq_length_iff.mp heq) r hmem

/-- **Synthesis only when allowed.** A synthesised reply implies every gate of
the property statement: class IN, not an internal sub-query, RD, no CD,
eligible client, AAAA question, zone not excluded; a downstream reply that is
not truncated, not NXDOMAIN, not a DNSSEC validation failure, not a cached
failure, not a request-local failure, with no usable native AAAA; and an
error-free NOERROR A response. -/
theorem synth_only_when_allowed (c : Cfg) (q : Query) (down : Option Down) (a : AResp)
    (h : (serve c q down a).kind = .synth) :
    q.qclass = 1 ∧ q.internal = false ∧ q.rd = true ∧ q.cd = false ∧ c.clientEligible q.client = true ∧
    q.qtype = 28 ∧ c.zoneExcluded (canonical q.qname) = false ∧
    ∃ m, down = some m ∧ m.tc = false ∧ m.rcode ≠ 3 ∧ isDNSSECFailure m = false ∧
      isCachedFailureResponse m = false ∧ m.mark ≠ .attempt ∧ m.mark ≠ .other ∧
      (m.rcode = 0 → ∀ r ∈ m.ans, r.kind = '6' → c.shouldExcludeAAAA r.ip = true) ∧
      a.err = .none ∧ a.rcode = 0 ∧ serve c q down a = synthesise c q (origOf c m).1 (origOf c m).2 a := by
  unfold serve at h ⊢
  cases hg : gate c q with
  | next =>
    simp only [hg] at h
    cases down <;> simp [passReply] at h
  | ptr =>
    simp only [hg] at h
    repeat' split at h
    all_goals (first | (simp [passReply] at h; done) | skip)
    all_goals (unfold ptrReply at h; repeat' split at h)
    all_goals (simp at h)
  | wrap =>
    simp only [hg] at h ⊢
    have g := (gate_wrap_iff c q).mp hg
    have g := g.2
    refine ⟨g.1, g.2.1, g.2.2.1, g.2.2.2.1, g.2.2.2.2.1, g.2.2.2.2.2.1, g.2.2.2.2.2.2, ?_⟩
    cases down with
    | none => simp at h
    | some m =>
      simp only at h ⊢
      have hd : dispatch c q m = .trySynth := by
        unfold writeMsg at h
        cases hd : dispatch c q m with
        | trySynth => rfl
        | passNative s => cases s <;> simp [hd, passReply] at h
        | _ => simp [hd, passReply] at h
      have d := dispatch_trySynth c q m hd
      rw [writeMsg_trySynth c q m a hd] at h ⊢
      have s := synthesise_synth c q _ _ a h
      exact ⟨m, rfl, d.1, d.2.2.1, d.2.2.2.1, d.2.2.2.2.1, d.2.2.2.2.2.1, d.2.2.2.2.2.2.1, d.2.2.2.2.2.2.2,
        s.1, s.2.1, rfl⟩

/-- the converse of `dispatch_trySynth`: past every pass-through condition the
secondary lookup is reached. -/
theorem dispatch_trySynth_of (c : Cfg) (q : Query) (m : Down)
    (htc : m.tc = false) (hq : m.hasQ = true) (h3 : m.rcode ≠ 3) (hd : isDNSSECFailure m = false)
    (hc : isCachedFailureResponse m = false) (ha : m.mark ≠ .attempt) (ho : m.mark ≠ .other)
    (hw : ¬ (m.rcode = 2 ∧ q.workExhausted = true))
    (hn : m.rcode = 0 → ∀ r ∈ m.ans, r.kind = '6' → c.shouldExcludeAAAA r.ip = true) :
    dispatch c q m = .trySynth := by
  have hmk : (m.mark == Mark.attempt || m.mark == Mark.other) = false := by
    cases hm : m.mark <;> simp_all
  have hwf : (m.rcode == 2 && q.workExhausted) = false := by
    cases hx : q.workExhausted
    · simp
    · by_cases h2 : m.rcode = 2
      · exact absurd ⟨h2, hx⟩ hw
      · simp [h2]
  have h3' : (m.rcode == 3) = false := by simpa using h3
  unfold dispatch
  simp only [htc, hq, Bool.not_true, Bool.or_self, Bool.false_eq_true, if_false, h3', hd, hc, hmk, hwf]
  by_cases h0 : m.rcode = 0
  · have hall := hn h0
    have heq : ((m.ans.filter (·.kind == '6')).filter fun r => c.shouldExcludeAAAA r.ip).length
        = (m.ans.filter (·.kind == '6')).length := by
      apply List.length_filter_eq_length_iff.mpr
      intro r hr
      have := List.mem_filter.mp hr
      exact hall r this.1 (by simpa using this.2)
    simp only [h0, beq_self_eq_true, if_true, filterUpstreamAAAA, heq, Nat.sub_self]
    simp
  · simp [h0]

/-- **…and synthesis does happen when allowed** (the converse of
`synth_only_when_allowed`): with every request gate open, a downstream reply
past every pass-through condition, and an error-free NOERROR A response that
holds at least one A record whose address is not excluded under some
configured prefix, the reply IS a synthesised one. Together the two theorems
characterise synthesis exactly; dropping usable A records (for instance
because their owner differs from the alias target only in letter case — names
are opaque to the decision) is not a behaviour of the model. -/
theorem synthesis_when_allowed (c : Cfg) (q : Query) (m : Down) (a : AResp)
    (hg : gate c q = .wrap)
    (htc : m.tc = false) (hq : m.hasQ = true) (h3 : m.rcode ≠ 3) (hd : isDNSSECFailure m = false)
    (hc : isCachedFailureResponse m = false) (ha : m.mark ≠ .attempt) (ho : m.mark ≠ .other)
    (hw : ¬ (m.rcode = 2 ∧ q.workExhausted = true))
    (hn : m.rcode = 0 → ∀ r ∈ m.ans, r.kind = '6' → c.shouldExcludeAAAA r.ip = true)
    (he : a.err = .none) (hr : a.rcode = 0)
    (hx : ∃ p ∈ c.prefixes, ∃ x ∈ a.ans, ∃ v4, x.kind = '4' ∧ to4 x.ip = some v4 ∧
      c.shouldExcludeAOnPrefix v4 p = false) :
    (serve c q (some m) a).kind = .synth := by
  have hdisp := dispatch_trySynth_of c q m htc hq h3 hd hc ha ho hw hn
  unfold serve
  simp only [hg]
  rw [writeMsg_trySynth c q m a hdisp]
  obtain ⟨p, hp, x, hxm, v4, hk, h4, hex⟩ := hx
  have hxa : x ∈ addrsOf a.ans := List.mem_filter.mpr ⟨hxm, by simp [hk]⟩
  have hne : (addrsOf a.ans).isEmpty = false := by
    cases hl : addrsOf a.ans with
    | nil => rw [hl] at hxa; simp at hxa
    | cons _ _ => rfl
  unfold synthesise
  simp only [he, hr, bne_self_eq_false, Bool.false_eq_true, if_false, hne]
  have hmem := (mem_synthAAAA c (addrsOf a.ans)
    (synthTTL (negativeAAAATTL (origOf c m).1.soas) ((addrsOf a.ans).map (·.ttl))) _).mpr
    ⟨p, hp, x, hxa, v4, h4, hex, rfl⟩
  have hs : (synthAAAA c (addrsOf a.ans)
      (synthTTL (negativeAAAATTL (origOf c m).1.soas) ((addrsOf a.ans).map (·.ttl)))).isEmpty = false := by
    cases hl : synthAAAA c (addrsOf a.ans)
        (synthTTL (negativeAAAATTL (origOf c m).1.soas) ((addrsOf a.ans).map (·.ttl))) with
    | nil => rw [hl] at hmem; simp at hmem
    | cons _ _ => rfl
  simp only [hs, Bool.false_eq_true, if_false]

-- alias target stored as "Host.Example.NET." (token 11), A RRset owned by it: still synthesised
example :
    let c : Cfg := { prefixes := [⟨⟨wkpIP, 96, true⟩, true⟩], exA := defaultExcludeAv4, exAAAA := defaultExcludeAAAA }
    let q : Query := { client := [203, 0, 113, 5], internal := false, rd := true, cd := false, qclass := 1,
                       qtype := 28, qname := "host.example.net.".toList, workExhausted := false }
    let m : Down := { rcode := 0, ad := false, tc := false, opt := true, hasQ := true, edes := [], mark := .none,
                      ans := [], soas := [(60, 60)] }
    let a : AResp := { err := .none, rcode := 0, ans := [{ kind := 'c', ttl := 60, owner := "0", target := "1" },
                                                         { kind := '4', ttl := 60, owner := "11", ip := [8, 8, 8, 8] }] }
    (serve c q (some m) a).kind = .synth := by decide

/-! ## what is synthesised -/

/-- **Synthesised records are exactly RFC 6052 embeddings of the A records.**
In a synthesised reply every AAAA record is the embedding of one A record of
the secondary answer into one configured prefix, is owned by that A record's
owner (the terminal name of the alias chain), skips IPv4 addresses in the
excluded ranges under the well-known prefix, and has a TTL no larger than
every A TTL, than the AAAA negative TTL (when the AAAA reply carried an SOA)
and than 600 s otherwise. -/
theorem synth_addresses_exact (c : Cfg) (q : Query) (down : Option Down) (a : AResp)
    (h : (serve c q down a).kind = .synth) :
    ∃ m, down = some m ∧ ∀ r ∈ (serve c q down a).ans, r.kind = '6' →
      ∃ p ∈ c.prefixes, ∃ x ∈ a.ans, ∃ v4, x.kind = '4' ∧ to4 x.ip = some v4 ∧
        r.ip = embedIPv4 p.net.ip p.net.bits v4 ∧ r.owner = x.owner ∧
        (p.wellKnown = true → excludedV4 v4 c.exA = false) ∧
        (∀ y ∈ a.ans, y.kind = '4' → r.ttl ≤ y.ttl) ∧
        (∀ n, negativeAAAATTL m.soas = some n → r.ttl ≤ n) ∧
        (negativeAAAATTL m.soas = none → r.ttl ≤ 600) := by
  obtain ⟨_, _, _, _, _, _, _, m, hm, _, _, _, _, _, _, _, _, _, heq⟩ := synth_only_when_allowed c q down a h
  refine ⟨m, hm, ?_⟩
  rw [heq] at h ⊢
  have s := synthesise_synth c q _ _ a h
  rw [s.2.2.2.2, (origOf_fields c m).1]
  intro r hr h6
  rcases List.mem_append.mp hr with hr | hr
  · -- chain records are CNAME/DNAME
    obtain ⟨y, hy, rfl⟩ := List.mem_map.mp hr
    have hk : y.kind = 'c' ∨ y.kind = 'd' := by
      have := (List.mem_filter.mp hy).2
      simpa using this
    exfalso
    split at h6 <;> rcases hk with hk | hk <;> simp_all
  · obtain ⟨p, hp, x, hx, v4, hl, he, rfl⟩ := (mem_synthAAAA c _ _ r).mp hr
    have hx4 : x ∈ a.ans ∧ x.kind = '4' := by
      have := List.mem_filter.mp hx
      exact ⟨this.1, by simpa using this.2⟩
    refine ⟨p, hp, x, hx4.1, v4, hx4.2, hl, rfl, rfl, ?_, ?_, ?_, ?_⟩
    · intro hw
      unfold Cfg.shouldExcludeAOnPrefix at he
      simpa [hw] using he
    · intro y hy hy4
      apply synth_ttl_le_a
      exact List.mem_map.mpr ⟨y, List.mem_filter.mpr ⟨hy, by simp [hy4]⟩, rfl⟩
    · intro n hn
      exact synth_ttl_le_negative _ _ n hn
    · intro hn
      simp only [hn]
      exact foldl_min_le_init _ _

/-- **…into each configured prefix.** Every A record × configured prefix pair
that is not excluded is present in the synthesised reply. -/
theorem synth_complete (c : Cfg) (q : Query) (down : Option Down) (a : AResp)
    (h : (serve c q down a).kind = .synth) :
    ∀ p ∈ c.prefixes, ∀ x ∈ a.ans, ∀ v4, x.kind = '4' → to4 x.ip = some v4 → c.shouldExcludeAOnPrefix v4 p = false →
      ∃ r ∈ (serve c q down a).ans, r.kind = '6' ∧ r.owner = x.owner ∧ r.ip = embedIPv4 p.net.ip p.net.bits v4 := by
  obtain ⟨_, _, _, _, _, _, _, m, hm, _, _, _, _, _, _, _, _, _, heq⟩ := synth_only_when_allowed c q down a h
  rw [heq] at h ⊢
  have s := synthesise_synth c q _ _ a h
  rw [s.2.2.2.2]
  intro p hp x hx v4 h4 hl he
  refine ⟨_, List.mem_append_right _ ((mem_synthAAAA c _ _ _).mpr
    ⟨p, hp, x, List.mem_filter.mpr ⟨hx, by simp [h4]⟩, v4, hl, he, rfl⟩), rfl, rfl, rfl⟩

/-- **Excluded IPv4 ranges are skipped under the well-known prefix only.** -/
theorem wkp_exclusions_skipped (c : Cfg) (v4 : IP) (p : Prefix) :
    c.shouldExcludeAOnPrefix v4 p = true ↔ p.wellKnown = true ∧ ∃ n ∈ c.exA, n.contains v4 = true := by
  unfold Cfg.shouldExcludeAOnPrefix excludedV4
  cases p.wellKnown <;> simp

-- 10.1.2.3 is skipped under 64:ff9b::/96 with the default list, kept under an operator prefix
example : ({ exA := defaultExcludeAv4 } : Cfg).shouldExcludeAOnPrefix [10, 1, 2, 3] ⟨⟨wkpIP, 96, true⟩, true⟩ = true := by decide
example : ({ exA := defaultExcludeAv4 } : Cfg).shouldExcludeAOnPrefix [10, 1, 2, 3]
    ⟨⟨[0x20, 0x01, 0x0d, 0xb8, 0, 0, 0, 0, 0, 0, 0, 0, 0, 0, 0, 0], 96, true⟩, false⟩ = false := by decide
example : ({ exA := defaultExcludeAv4 } : Cfg).shouldExcludeAOnPrefix [8, 8, 8, 8] ⟨⟨wkpIP, 96, true⟩, true⟩ = false := by decide

/-- **No synthesis, no new addresses.** Unless the reply is a synthesised one,
every AAAA record in it was supplied by the downstream reply itself. -/
theorem no_new_aaaa_unless_synth (c : Cfg) (q : Query) (down : Option Down) (a : AResp)
    (h : (serve c q down a).kind ≠ .synth) :
    ∀ r ∈ (serve c q down a).ans, r.kind = '6' → ∃ m, down = some m ∧ r ∈ m.ans := by
  intro r hr h6
  rcases serve_cases c q down a with hs | ⟨m, hm, hs⟩ | ⟨_, addr, v4, _, _, hs⟩ | ⟨_, m, hm, hs⟩
  · rw [hs] at hr; simp at hr
  · rw [hs] at hr; exact ⟨m, hm, by simpa [passReply] using hr⟩
  · rw [hs] at hr; exact absurd h6 ((ptrReply_props q "0" v4 a).2.2.2.1 r hr)
  · rw [hs] at h hr
    refine ⟨m, hm, ?_⟩
    rcases writeMsg_cases c q m a with ⟨_, hw⟩ | hw | hw | hw
    · rw [hw] at h hr
      exact (origOf_fields c m).2.2.2.2 r ((synthesise_other c q _ _ a h).2.2 r hr h6)
    · rw [hw] at hr; simpa [passReply] using hr
    · rw [hw] at hr; simp at hr
    · rw [hw] at hr
      simp only [filterUpstreamAAAA] at hr
      exact (List.mem_filter.mp hr).1

/-- **A usable native AAAA is never replaced.** For an AAAA question, a
NOERROR downstream reply holding an AAAA record outside every
`exclude_aaaa_networks` range (in particular any AAAA when that list is
explicitly empty) is answered without a secondary lookup, is not synthesised,
and keeps that record. -/
theorem native_aaaa_kept (c : Cfg) (q : Query) (m : Down) (a : AResp) (r : RR)
    (hq28 : q.qtype = 28) (h0 : m.rcode = 0) (hr : r ∈ m.ans) (h6 : r.kind = '6')
    (hex : c.shouldExcludeAAAA r.ip = false) :
    (serve c q (some m) a).kind ≠ .synth ∧ (serve c q (some m) a).aq = 0 ∧ r ∈ (serve c q (some m) a).ans := by
  have hns : (serve c q (some m) a).kind ≠ .synth := by
    intro h
    obtain ⟨_, _, _, _, _, _, _, m', hm', _, _, _, _, _, _, hnat, _⟩ := synth_only_when_allowed c q (some m) a h
    cases hm'
    have := hnat h0 r hr h6
    rw [hex] at this; cases this
  refine ⟨hns, ?_⟩
  rcases serve_cases c q (some m) a with hs | ⟨m', hm', hs⟩ | ⟨hg, _, _, _, _, _⟩ | ⟨_, m', hm', hs⟩
  · exfalso
    -- something is always written when the downstream wrote
    unfold serve at hs
    cases hg : gate c q <;> simp only [hg] at hs
    · simp [passReply] at hs
    · unfold gate at hg
      by_cases h2 : (q.twoQ && !q.wire) = true <;> simp [h2, hq28] at hg
      repeat' split at hg
      all_goals simp at hg
    · rcases writeMsg_cases c q m a with ⟨hd, hw⟩ | hw | hw | hw
      · exact absurd (by simpa using (dispatch_trySynth c q m hd).2.2.2.2.2.2.2 h0 r hr h6) (by simp [hex])
      all_goals (rw [hw] at hs; simp [passReply] at hs)
  · cases hm'
    rw [hs]; exact ⟨rfl, by simpa [passReply] using hr⟩
  · exfalso
    unfold gate at hg
    by_cases h2 : (q.twoQ && !q.wire) = true <;> simp [h2, hq28] at hg
    repeat' split at hg
    all_goals simp at hg
  · cases hm'
    rw [hs]
    rcases writeMsg_cases c q m a with ⟨hd, _⟩ | hw | hw | hw
    · exact absurd (by simpa using (dispatch_trySynth c q m hd).2.2.2.2.2.2.2 h0 r hr h6) (by simp [hex])
    · rw [hw]; exact ⟨rfl, by simpa [passReply] using hr⟩
    · -- the local work-limit failure needs a SERVFAIL downstream
      exfalso
      have : dispatch c q m = .workFail := by
        cases hd : dispatch c q m with
        | workFail => rfl
        | passNative s => cases s <;> simp [writeMsg, hd, passReply] at hw
        | trySynth =>
          exact absurd (by simpa using (dispatch_trySynth c q m hd).2.2.2.2.2.2.2 h0 r hr h6) (by simp [hex])
        | _ => simp [writeMsg, hd, passReply] at hw
      unfold dispatch at this
      repeat' split at this
      all_goals (first | (simp at this; done) | skip)
      all_goals simp_all
    · rw [hw]
      refine ⟨rfl, ?_⟩
      simp only [filterUpstreamAAAA]
      exact List.mem_filter.mpr ⟨hr, by simp [h6, hex]⟩

-- exclude_aaaa_networks = [] and a dual-stacked name: the native AAAA goes out untouched, no A lookup
example :
    let c : Cfg := { prefixes := [⟨⟨wkpIP, 96, true⟩, true⟩], exA := defaultExcludeAv4, exAAAA := [] }
    let q : Query := { client := [203, 0, 113, 5], internal := false, rd := true, cd := false, qclass := 1,
                       qtype := 28, qname := "host.example.net.".toList, workExhausted := false }
    let m : Down := { rcode := 0, ad := true, tc := false, opt := true, hasQ := true, edes := [], mark := .none,
                      ans := [{ kind := '6', ttl := 60, owner := "0", ip := [0x20, 1, 0xd, 0xb8, 0, 0, 0, 0, 0, 0, 0, 0, 0, 0, 0, 1] }],
                      soas := [] }
    let a : AResp := { err := .none, rcode := 0, ans := [{ kind := '4', ttl := 60, owner := "0", ip := [8, 8, 8, 8] }] }
    (serve c q (some m) a).kind = .pass ∧ (serve c q (some m) a).aq = 0 ∧ (serve c q (some m) a).ad = true := by decide

/-- **Pass-through is exact and costs no lookup.** On the synthesis path (every
request gate open) a downstream reply that is NXDOMAIN — whatever its Answer
section holds, alias chains included —, a DNSSEC-failure SERVFAIL, a cached
failure (meta mark, or EDE 13 on a SERVFAIL) or a request-local failure goes to
the client as the very same message, and no secondary lookup is issued. -/
theorem failure_replies_pass_untouched (c : Cfg) (q : Query) (m : Down) (a : AResp)
    (hg : gate c q = .wrap) (htc : m.tc = false) (hq : m.hasQ = true)
    (hf : m.rcode = 3 ∨ isDNSSECFailure m = true ∨ isCachedFailureResponse m = true ∨
      m.mark = .attempt ∨ m.mark = .other) :
    serve c q (some m) a = passReply m ∧ (serve c q (some m) a).kind = .pass ∧ (serve c q (some m) a).aq = 0 ∧
      (serve c q (some m) a).ans = m.ans ∧ (serve c q (some m) a).ad = m.ad := by
  have hs : serve c q (some m) a = passReply m := by
    unfold serve
    simp only [hg]
    unfold writeMsg dispatch
    simp only [htc, hq, Bool.not_true, Bool.or_self, Bool.false_eq_true, if_false]
    by_cases h3 : m.rcode = 3
    · simp [h3]
    · have h3' : (m.rcode == 3) = false := by simpa using h3
      simp only [h3', Bool.false_eq_true, if_false]
      cases hd : isDNSSECFailure m
      · cases hc : isCachedFailureResponse m
        · rcases hf with h | h | h | h | h
          · exact absurd h h3
          · rw [hd] at h; cases h
          · rw [hc] at h; cases h
          · simp [h]
          · simp [h]
        · simp
      · simp
  rw [hs]
  exact ⟨rfl, rfl, rfl, rfl, rfl⟩

-- NXDOMAIN behind an alias chain ("alias exists, target does not"), A lookup would have answered
example :
    let c : Cfg := { prefixes := [⟨⟨wkpIP, 96, true⟩, true⟩], exA := defaultExcludeAv4, exAAAA := defaultExcludeAAAA }
    let q : Query := { client := [203, 0, 113, 5], internal := false, rd := true, cd := false, qclass := 1,
                       qtype := 28, qname := "host.example.net.".toList, workExhausted := false, wire := true }
    let m : Down := { rcode := 3, ad := true, tc := false, opt := true, hasQ := true, edes := [], mark := .none,
                      ans := [{ kind := 'c', ttl := 60, owner := "0", target := "1" }], soas := [(60, 60)] }
    let a : AResp := { err := .none, rcode := 0, ans := [{ kind := '4', ttl := 60, owner := "1", ip := [8, 8, 8, 8] }] }
    (serve c q (some m) a).kind = .pass ∧ (serve c q (some m) a).aq = 0 ∧ (serve c q (some m) a).rcode = 3 ∧
      (serve c q (some m) a).ad = true := by decide

/-- **A response as basis (RFC 6147 §5.1.6).** When the reply is built from an
A response without usable addresses, that response was error-free at the
queryer level and either not NOERROR or without A records; the reply takes its
rcode and Authority, carries only its CNAME/DNAME chain (no address record of
any family) and has AD clear. -/
theorem a_response_as_basis (c : Cfg) (q : Query) (down : Option Down) (a : AResp)
    (h : (serve c q down a).kind = .abasis) :
    a.err = .none ∧ (a.rcode ≠ 0 ∨ addrsOf a.ans = []) ∧ (serve c q down a).rcode = a.rcode ∧
    (serve c q down a).ans = chainOf a.ans ∧ (serve c q down a).ad = false ∧ (serve c q down a).ns = a.ns := by
  rcases serve_cases c q down a with hs | ⟨m, _, hs⟩ | ⟨_, addr, v4, _, _, hs⟩ | ⟨_, m, _, hs⟩
  · rw [hs] at h; simp at h
  · rw [hs] at h; simp [passReply] at h
  · rw [hs] at h; exact absurd h (ptrReply_not_abasis q "0" v4 a)
  · rw [hs] at h ⊢
    rcases writeMsg_cases c q m a with ⟨_, hw⟩ | hw | hw | hw
    · rw [hw] at h ⊢
      exact synthesise_abasis c q _ _ a h
    · rw [hw] at h; simp [passReply] at h
    · rw [hw] at h; simp at h
    · rw [hw] at h; simp at h

example :
    let c : Cfg := { prefixes := [⟨⟨wkpIP, 96, true⟩, true⟩], exA := defaultExcludeAv4, exAAAA := defaultExcludeAAAA }
    let q : Query := { client := [203, 0, 113, 5], internal := false, rd := true, cd := false, qclass := 1,
                       qtype := 28, qname := "host.example.net.".toList, workExhausted := false }
    let m : Down := { rcode := 0, ad := true, tc := false, opt := true, hasQ := true, edes := [], mark := .none,
                      ans := [], soas := [(60, 60)] }
    let a : AResp := { err := .none, rcode := 3, ans := [{ kind := 'c', ttl := 60, owner := "0", target := "1" }] }
    (serve c q (some m) a).kind = .abasis ∧ (serve c q (some m) a).rcode = 3 ∧ (serve c q (some m) a).ad = false := by
  decide

-- a /64 address with a non-zero reserved octet is not an embedding and is not translated
example : ptrV4 { prefixes := [⟨⟨[0x20, 1, 0xd, 0xb8, 1, 0x22, 3, 0x44, 0, 0, 0, 0, 0, 0, 0, 0], 64, true⟩, false⟩] }
    [0x20, 1, 0xd, 0xb8, 1, 0x22, 3, 0x44, 0xff, 0xc6, 0x33, 0x64, 0x4d, 0, 0, 0] = none := by decide

/-! ## never AD -/

/-- **A synthesised or AAAA-filtered reply never carries AD.** Stronger: every
reply that is not the downstream message itself, untouched (`Kind.pass`), has
AD clear — synthesised, A-response-as-basis, AAAA-filtered with some native
AAAA kept, AAAA-filtered with none left, PTR translation, local failure. -/
theorem synth_or_filtered_never_ad (c : Cfg) (q : Query) (down : Option Down) (a : AResp)
    (h : (serve c q down a).kind ≠ .pass) : (serve c q down a).ad = false := by
  rcases serve_cases c q down a with hs | ⟨m, _, hs⟩ | ⟨_, addr, v4, _, _, hs⟩ | ⟨_, m, _, hs⟩
  · rw [hs]
  · rw [hs] at h; simp [passReply] at h
  · rw [hs]; exact (ptrReply_props q "0" v4 a).2.2.1
  · rw [hs] at h ⊢
    rcases writeMsg_cases c q m a with ⟨_, hw⟩ | hw | hw | hw
    · rw [hw] at h ⊢
      by_cases hk : (synthesise c q (origOf c m).1 (origOf c m).2 a).kind = .synth
      · exact (synthesise_synth c q _ _ a hk).2.2.1
      · exact (synthesise_other c q _ _ a hk).2.1 h
    · rw [hw] at h; simp [passReply] at h
    · rw [hw]
    · rw [hw]

/-- the pass-through reply is the downstream message, unchanged. -/
theorem pass_is_downstream (c : Cfg) (q : Query) (down : Option Down) (a : AResp)
    (h : (serve c q down a).kind = .pass) :
    ∃ m, down = some m ∧ (serve c q down a).ans = m.ans ∧ (serve c q down a).ad = m.ad ∧
      (serve c q down a).rcode = m.rcode := by
  rcases serve_cases c q down a with hs | ⟨m, hm, hs⟩ | ⟨_, addr, v4, _, _, hs⟩ | ⟨_, m, hm, hs⟩
  · rw [hs] at h; simp at h
  · exact ⟨m, hm, by rw [hs]; simp [passReply]⟩
  · rw [hs] at h; exact absurd h (ptrReply_props q "0" v4 a).2.1
  · refine ⟨m, hm, ?_⟩
    rw [hs] at h ⊢
    rcases writeMsg_cases c q m a with ⟨_, hw⟩ | hw | hw | hw
    · rw [hw] at h ⊢
      have sp := synthesise_pass c q _ _ a h
      have e := origOf_not_copied c m sp.1
      exact ⟨by rw [sp.2.1, e], by rw [sp.2.2.1, e], by rw [sp.2.2.2, e]⟩
    · rw [hw]; simp [passReply]
    · rw [hw] at h; simp at h
    · rw [hw] at h; simp at h

-- the fully filtered reply (every AAAA excluded, nothing synthesised) has AD clear although upstream set it
example :
    let c : Cfg := { prefixes := [⟨⟨wkpIP, 96, true⟩, true⟩], exA := defaultExcludeAv4, exAAAA := defaultExcludeAAAA }
    let q : Query := { client := [203, 0, 113, 5], internal := false, rd := true, cd := false, qclass := 1,
                       qtype := 28, qname := "host.example.net.".toList, workExhausted := false }
    let m : Down := { rcode := 0, ad := true, tc := false, opt := true, hasQ := true, edes := [], mark := .none,
                      ans := [{ kind := '6', ttl := 60, owner := "0", ip := [0, 0, 0, 0, 0, 0, 0, 0, 0, 0, 255, 255, 10, 0, 0, 1] }],
                      soas := [(60, 60)] }
    let a : AResp := { err := .none, rcode := 0, ans := [{ kind := '4', ttl := 60, owner := "0", ip := [10, 0, 0, 1] }] }
    (serve c q (some m) a).kind = .filteredAll ∧ (serve c q (some m) a).ad = false ∧ (serve c q (some m) a).ans = [] := by
  decide

-- a synthesised reply: 8.8.8.8 under the well-known prefix, TTL min(A 300, SOA min(900, 120)) = 120, AD clear
example :
    let c : Cfg := { prefixes := [⟨⟨wkpIP, 96, true⟩, true⟩], exA := defaultExcludeAv4, exAAAA := defaultExcludeAAAA }
    let q : Query := { client := [203, 0, 113, 5], internal := false, rd := true, cd := false, qclass := 1,
                       qtype := 28, qname := "host.example.net.".toList, workExhausted := false }
    let m : Down := { rcode := 0, ad := true, tc := false, opt := true, hasQ := true, edes := [], mark := .none,
                      ans := [], soas := [(900, 120)] }
    let a : AResp := { err := .none, rcode := 0, ans := [{ kind := 'c', ttl := 500, owner := "0", target := "1" },
                                                         { kind := '4', ttl := 300, owner := "1", ip := [8, 8, 8, 8] }] }
    (serve c q (some m) a).kind = .synth ∧ (serve c q (some m) a).ad = false ∧
    (serve c q (some m) a).ans = [{ kind := 'c', ttl := 120, owner := "0", target := "1" },
      { kind := '6', ttl := 120, owner := "1", ip := [0, 0x64, 0xff, 0x9b, 0, 0, 0, 0, 0, 0, 0, 0, 8, 8, 8, 8] }] := by
  decide

/-! ## PTR translation -/

/-- **A PTR translation is the inverse of the embedding.** When the reply is
a DNS64 PTR translation, the request gates are open, the queried name decodes
to an address that extracts under a configured prefix to an IPv4 address that
is not excluded, and the CNAME (owned by the queried name, TTL 600) points at
exactly that address's `in-addr.arpa.` name. -/
theorem ptr_translation_sound (c : Cfg) (q : Query) (down : Option Down) (a : AResp)
    (h : (serve c q down a).kind = .ptr) :
    q.qclass = 1 ∧ q.internal = false ∧ q.rd = true ∧ q.cd = false ∧ c.clientEligible q.client = true ∧
    ∃ addr v4, parseIP6ArpaName (canonical q.qname) = some addr ∧
      (∃ p ∈ c.prefixes, extractIPv4 p.net.ip p.net.bits addr = some v4 ∧ c.shouldExcludeAOnPrefix v4 p = false) ∧
      (serve c q down a).ans.head? =
        some { kind := 'c', ttl := 600, owner := "0", target := "x:" ++ String.ofList (inAddrArpa v4) } := by
  rcases serve_cases c q down a with hs | ⟨m, _, hs⟩ | ⟨hg, addr, v4, hp, hv, hs⟩ | ⟨_, m, _, hs⟩
  · rw [hs] at h; simp at h
  · rw [hs] at h; simp [passReply] at h
  · have g : q.qclass = 1 ∧ q.internal = false ∧ q.rd = true ∧ q.cd = false ∧ c.clientEligible q.client = true := by
      unfold gate at hg
      by_cases h2 : (q.twoQ && !q.wire) = true
      · simp [h2] at hg
      simp only [h2, if_false] at hg
      by_cases h1 : q.qclass = 1 <;> simp [h1] at hg
      cases hi : q.internal <;> simp [hi] at hg
      cases hr : q.rd <;> simp [hr] at hg
      cases hc : q.cd <;> simp [hc] at hg
      cases he : c.clientEligible q.client <;> simp [he] at hg
      exact ⟨h1, rfl, rfl, rfl, rfl⟩
    refine ⟨g.1, g.2.1, g.2.2.1, g.2.2.2.1, g.2.2.2.2, addr, v4, hp, ?_, ?_⟩
    · unfold ptrV4 at hv
      obtain ⟨p, hpp, hf⟩ := List.exists_of_findSome?_eq_some hv
      refine ⟨p, hpp, ?_⟩
      split at hf
      · simp at hf
      · cases he : extractIPv4 p.net.ip p.net.bits addr with
        | none => simp [he] at hf
        | some w =>
          simp only [he] at hf
          cases hx : c.shouldExcludeAOnPrefix w p <;> simp [hx] at hf
          subst hf
          exact ⟨rfl, hx⟩
    · rw [hs] at h ⊢
      exact (ptrReply_props q "0" v4 a).2.2.2.2 h
  · rw [hs] at h
    rcases writeMsg_cases c q m a with ⟨_, hw⟩ | hw | hw | hw
    · rw [hw] at h
      by_cases hk : (synthesise c q (origOf c m).1 (origOf c m).2 a).kind = .synth
      · rw [hk] at h; simp at h
      · exact absurd h (synthesise_other c q _ _ a hk).1
    · rw [hw] at h; simp [passReply] at h
    · rw [hw] at h; simp at h
    · rw [hw] at h; simp at h

/-- **Only RFC 6052 embeddings are translated.** A PTR translation happens only
for an ip6.arpa name whose address IS the embedding of the returned IPv4
address under a configured 16-byte prefix: a non-zero reserved octet, a
non-zero suffix or a foreign prefix is never turned into an in-addr.arpa
CNAME (for every legal length, /64 included). -/
theorem ptr_only_for_embeddings (c : Cfg) (q : Query) (down : Option Down) (a : AResp)
    (hpl : ∀ p ∈ c.prefixes, p.net.ip.length = 16) (h : (serve c q down a).kind = .ptr) :
    ∃ addr v4 p, parseIP6ArpaName (canonical q.qname) = some addr ∧ p ∈ c.prefixes ∧
      isLegal p.net.bits = true ∧ v4.length = 4 ∧ addr = embedIPv4 p.net.ip p.net.bits v4 ∧
      bAt addr 8 = bAt p.net.ip 8 * (if p.net.bits = 96 then 1 else 0) := by
  obtain ⟨_, _, _, _, _, addr, v4, hp, ⟨p, hpp, he, _⟩, _⟩ := ptr_translation_sound c q down a h
  have hlen := parse_length _ _ hp
  obtain ⟨hl, hv, hemb⟩ := embed_extract p.net.ip p.net.bits addr v4 (hpl p hpp) hlen he
  refine ⟨addr, v4, p, hp, hpp, hl, hv, hemb, ?_⟩
  rw [hemb, embed_eq _ _ _ hv hl]
  obtain ⟨x0, x1, x2, x3, rfl⟩ := len4 v4 hv
  rcases legal_cases _ hl with h' | h' | h' | h' | h' | h' <;> simp [h', rfc6052, bAt]

/-- **Every embedded address is translated back.** If the address extracts
under some configured (IPv6-masked, as every compiled prefix is) prefix to a
non-excluded IPv4 address, the prefix loop of `handlePTR` finds a translation. -/
theorem ptr_translation_complete (c : Cfg) (addr v4 : IP) (p : Prefix) (hp : p ∈ c.prefixes) (hv6 : p.net.v6 = true)
    (he : extractIPv4 p.net.ip p.net.bits addr = some v4) (hx : c.shouldExcludeAOnPrefix v4 p = false) :
    (ptrV4 c addr).isSome = true := by
  unfold ptrV4
  rw [List.findSome?_isSome_iff]
  refine ⟨p, hp, ?_⟩
  have hc : prefixContains p.net addr = true := by
    unfold extractIPv4 at he
    by_cases hc : prefixContains ⟨p.net.ip, p.net.bits, true⟩ addr = true
    · have : p.net = ⟨p.net.ip, p.net.bits, true⟩ := by
        cases hn : p.net with
        | mk ip bits v6 => rw [hn] at hv6; simp at hv6; simp [hv6]
      rw [this]; exact hc
    · simp [hc] at he
  simp [hc, he, hx]

-- the PTR query for 64:ff9b::192.0.2.33 … under a configuration that excludes nothing
example : ptrV4 { prefixes := [⟨⟨wkpIP, 96, true⟩, true⟩] } (embedIPv4 wkpIP 96 [192, 0, 2, 33]) = some [192, 0, 2, 33] := by
  decide

/-! ## every pass, every entry path, every wire name -/

/-- **The gates do not depend on the pass.** `Chain.Replay()` (the worker pass
that finishes a query the inline reader handed off) changes no decision; all
theorems of this file quantify over `q.replay` and `q.wire`. -/
theorem gate_ignores_replay (c : Cfg) (q : Query) (r : Bool) : gate c { q with replay := r } = gate c q := rfl

/-- for a request with exactly one question the wire-born and the decoded entry take the same gates. -/
theorem gate_ignores_entry_path (c : Cfg) (q : Query) (w : Bool) (h : q.twoQ = false) :
    gate c { q with wire := w } = gate c q := by
  unfold gate; simp [h]

theorem serve_ignores_replay (c : Cfg) (q : Query) (down : Option Down) (a : AResp) (r : Bool) :
    serve c { q with replay := r } down a = serve c q down a := rfl

example : gate { prefixes := [⟨⟨wkpIP, 96, true⟩, true⟩] }
    { client := [203, 0, 113, 5], internal := false, rd := true, cd := true, qclass := 1, qtype := 28,
      qname := "host.example.net.".toList, workExhausted := false, replay := true } = .next := by decide

/-- **A name under an excluded zone is excluded, for every wire name.** If the
label list of the queried name ends with the labels of a zone whose rendered
lower-case form is configured, `zoneExcluded` holds for the name as miekg
renders it — whatever bytes the labels contain (dots inside labels, upper
case, non-printable and 8-bit bytes). -/
theorem excluded_zone_covers_subtree (c : Cfg) (pre z : List (List UInt8)) (hz : z ≠ [])
    (hmem : lower (present z) ∈ c.zones) :
    c.zoneExcluded (canonical (present (pre ++ z))) = true := by
  have hne : pre ++ z ≠ [] := by simp [hz]
  have hpz : present z = presentLabels z := by simp [present, hz]
  have hp : present (pre ++ z) = presentLabels pre ++ presentLabels z := by
    simp [present, hz, presentLabels_append]
  obtain ⟨x, hx⟩ := presentLabels_ends_with_dot (pre ++ z) hne
  have hcanon : canonical (present (pre ++ z)) = lower (presentLabels pre) ++ lower (presentLabels z) := by
    unfold canonical
    rw [hp, ← presentLabels_append, hx, hasSuffix_append, if_pos rfl, ← hx, presentLabels_append, lower_append]
  rw [hcanon]
  unfold Cfg.zoneExcluded
  rw [List.any_eq_true]
  refine ⟨lower (present z), hmem, ?_⟩
  rw [hpz]
  by_cases hpre : pre = []
  · subst hpre; simp [presentLabels, lower]
  · obtain ⟨y, hy⟩ := presentLabels_ends_with_dot pre hpre
    have : lower (presentLabels pre) ++ lower (presentLabels z) = lower y ++ ('.' :: lower (presentLabels z)) := by
      rw [hy, lower_append]; simp [lower]
    rw [this, Bool.or_eq_true]
    right
    exact hasSuffix_append _ _

/-- **Every wire name is read back as its labels**: the model's reader of the
uncompressed question name inverts RFC 1035 packing for all label lists with
labels of 1..63 bytes, so the name theorems above range over all wire names. -/
theorem wire_name_roundtrip (ls : List (List UInt8)) (h : ∀ l ∈ ls, 0 < l.length ∧ l.length < 64) :
    ∀ fuel, ls.length < fuel → parseWireName fuel (wireOf ls) = some ls := by
  induction ls with
  | nil =>
    intro fuel hf
    cases fuel with
    | zero => omega
    | succ n => simp [wireOf, parseWireName]
  | cons l t ih =>
    intro fuel hf
    cases fuel with
    | zero => omega
    | succ n =>
      have hl := h l (by simp)
      have ht := ih (fun x hx => h x (List.mem_cons_of_mem _ hx)) n (by simp at hf; omega)
      have e : wireOf (l :: t) = UInt8.ofNat l.length :: (l ++ wireOf t) := by simp [wireOf]
      rw [e]
      unfold parseWireName
      have hn : (UInt8.ofNat l.length).toNat = l.length := by
        simp [UInt8.toNat_ofNat']; omega
      have h0 : (UInt8.ofNat l.length == 0) = false := by
        rw [beq_eq_false_iff_ne]; intro hc
        have h1 := congrArg UInt8.toNat hc
        rw [hn] at h1
        have h2 : (0 : UInt8).toNat = 0 := rfl
        rw [h2] at h1
        have := hl.1
        omega
      simp only [h0, Bool.false_eq_true, if_false, hn]
      have : ¬ l.length ≥ 64 := by omega
      simp only [this, if_false]
      have : ¬ (l ++ wireOf t).length < l.length := by simp
      simp only [this, if_false, List.drop_left, List.take_left, ht, Option.map_some]

example : parseWireName 130 (wireOf [[97, 46, 98], [111, 114, 103]]) = some [[97, 46, 98], [111, 114, 103]] := by decide

/-- **…and is never synthesised for.** -/
theorem excluded_zone_never_synthesised (c : Cfg) (q : Query) (down : Option Down) (a : AResp)
    (pre z : List (List UInt8)) (hz : z ≠ []) (hq : q.qname = present (pre ++ z))
    (hmem : lower (present z) ∈ c.zones) : (serve c q down a).kind ≠ .synth := by
  intro h
  have := (synth_only_when_allowed c q down a h).2.2.2.2.2.2.1
  rw [hq, excluded_zone_covers_subtree c pre z hz hmem] at this
  cases this

-- "WWW" + "a.b" (a dot inside the label) + "Example" + "ORG" under the excluded zone example.org.
example : ({ zones := ["example.org.".toList] } : Cfg).zoneExcluded
    (canonical (present [[87, 87, 87], [97, 46, 98], [69, 120, 97, 109, 112, 108, 101], [79, 82, 71]])) = true := by decide
example : present [[97, 46, 98], [233, 0]] = "a\\.b.\\233\\000.".toList := by decide

/-! ## Authority and Additional of a synthesised reply (RFC 6147 §5.3.2, §5.4) -/

/-- **Sections of a synthesised reply.** Authority is the A response's
Authority and Additional the A response's Additional, record for record and
in order, minus OPT records; the one OPT in front is the AAAA reply's own (if
it had one). In particular A / AAAA records outside the Answer section pass
through verbatim and nothing is synthesised there. -/
theorem synth_sections (c : Cfg) (q : Query) (down : Option Down) (a : AResp)
    (h : (serve c q down a).kind = .synth) :
    ∃ m, down = some m ∧
      (serve c q down a).ns = a.ns.filter (·.kind != 'O') ∧
      (serve c q down a).extra = (if m.opt then [optRR] else []) ++ a.extra.filter (·.kind != 'O') ∧
      ((serve c q down a).extra.filter (·.kind == 'O')).length ≤ 1 := by
  obtain ⟨_, _, _, _, _, _, _, m, hm, _, _, _, _, _, _, _, _, _, heq⟩ := synth_only_when_allowed c q down a h
  refine ⟨m, hm, ?_⟩
  rw [heq] at h ⊢
  have s := synthesise_synth_sections c q _ _ a h
  rw [s.1, s.2]
  have ho := (origOf_fields c m).2.2.1
  refine ⟨rfl, ?_, ?_⟩
  · unfold appendOPTFrom copyExtraNoOPT; rw [ho]; cases m.opt <;> simp
  · unfold appendOPTFrom copyExtraNoOPT
    rw [ho]
    have hno : (List.filter (fun r => r.kind == 'O') (List.filter (fun r => r.kind != 'O') a.extra)) = [] := by
      apply List.filter_eq_nil_iff.mpr
      intro r hr
      have := (List.mem_filter.mp hr).2
      simpa using this
    cases m.opt <;> simp [optRR, hno]

/-- IPv6 network (non-mapped 16-byte address) never contains an IPv4 source, whatever its length. -/
theorem v6_net_excludes_v4_sources (n : Net) (ip : IP) (hn : n.ip.length = 16) (hm : isMapped n.ip = false)
    (hip : ip.length = 4 ∨ (ip.length = 16 ∧ isMapped ip = true)) : n.contains ip = false := by
  unfold Net.contains norm4
  have h4 : (n.ip.length == 4) = false := by simp [hn]
  simp only [h4, hm, Bool.false_eq_true, if_false, hn]
  rcases hip with h | ⟨h16, hmp⟩
  · simp [h]; intro h'; omega
  · simp [hmp, h16]; intro h'; omega

/-- **An IPv6-only client set admits no IPv4 source.** With a non-empty
`client_networks` holding only IPv6 networks (`::/0` included) a query from an
IPv4 source — 4-byte or `::ffff:a.b.c.d` form — is neither synthesised for nor
PTR-translated. -/
theorem ipv6_only_clients_exclude_v4 (c : Cfg) (q : Query) (down : Option Down) (a : AResp)
    (hne : c.clients ≠ []) (hv6 : ∀ n ∈ c.clients, n.ip.length = 16 ∧ isMapped n.ip = false)
    (hip : q.client.length = 4 ∨ (q.client.length = 16 ∧ isMapped q.client = true)) :
    (serve c q down a).kind ≠ .synth ∧ (serve c q down a).kind ≠ .ptr := by
  have hel : c.clientEligible q.client = false := by
    unfold Cfg.clientEligible
    have : c.clients.isEmpty = false := by
      cases hcl : c.clients with
      | nil => exact absurd hcl hne
      | cons _ _ => rfl
    simp only [this, Bool.false_eq_true, if_false]
    rw [List.any_eq_false]
    intro n hn
    have := v6_net_excludes_v4_sources n q.client (hv6 n hn).1 (hv6 n hn).2 hip
    simp [this]
  constructor
  · intro h
    have := (synth_only_when_allowed c q down a h).2.2.2.2.1
    rw [hel] at this; cases this
  · intro h
    have := (ptr_translation_sound c q down a h).2.2.2.2.1
    rw [hel] at this; cases this

example : ({ clients := [⟨List.replicate 16 0, 0, true⟩] } : Cfg).clientEligible [203, 0, 113, 5] = false := by decide
example : ({ clients := [⟨List.replicate 16 0, 0, true⟩] } : Cfg).clientEligible
    [0x20, 1, 0xd, 0xb8, 0, 0, 0, 0, 0, 0, 0, 0, 0, 0, 0, 9] = true := by decide

/-- **The secondary lookup is a validated one.** Whenever DNS64 issues a
sub-query (A lookup or PTR chase) the client asked with CD = 0, and the
sub-query's CD bit — the client's, nothing else — is clear: an A RRset that
fails validation surfaces as the A-side failure, it is never embedded. -/
theorem secondary_lookup_is_validated (c : Cfg) (q : Query) (down : Option Down) (a : AResp)
    (h : (serve c q down a).aq ≠ 0) : q.cd = false ∧ subQueryCD q (serve c q down a).aq = false := by
  have hcd : q.cd = false := by
    rcases serve_cases c q down a with hs | ⟨m, _, hs⟩ | ⟨hg, _, _, _, _, _⟩ | ⟨hg, _, _, _⟩
    · rw [hs] at h; simp at h
    · rw [hs] at h; simp [passReply] at h
    · unfold gate at hg
      by_cases h2 : (q.twoQ && !q.wire) = true
      · simp [h2] at hg
      simp only [h2, if_false] at hg
      by_cases h1 : q.qclass = 1 <;> simp [h1] at hg
      cases hi : q.internal <;> simp [hi] at hg
      cases hr : q.rd <;> simp [hr] at hg
      cases hc : q.cd <;> simp [hc] at hg
      rfl
    · exact ((gate_wrap_iff c q).mp hg).2.2.2.2.1
  exact ⟨hcd, by simp [subQueryCD, hcd]⟩

/-- **Replies are history-free.** The reply to a request is a function of the
compiled configuration and that request alone: whatever was served before on
the same instance (pooled writers included) changes nothing. -/
theorem replies_are_history_free (c : Cfg) (hist₁ hist₂ : List (Query × Option Down × AResp))
    (r : Query × Option Down × AResp) :
    ((hist₁ ++ [r]).map fun x => serve c x.1 x.2.1 x.2.2).getLast? =
    ((hist₂ ++ [r]).map fun x => serve c x.1 x.2.1 x.2.2).getLast? := by
  simp

-- nested prefixes, the shorter one first: the /96 embedding is not conformant under the /32
-- (non-zero suffix), the loop goes on to the /96 and translates
example : ptrV4 { prefixes := [⟨⟨[0x20, 1, 0xd, 0xb8, 0, 0, 0, 0, 0, 0, 0, 0, 0, 0, 0, 0], 32, true⟩, false⟩,
                               ⟨⟨[0x20, 1, 0xd, 0xb8, 0, 0, 0, 0, 0, 0, 0, 0, 0, 0, 0, 0], 96, true⟩, false⟩] }
    (embedIPv4 [0x20, 1, 0xd, 0xb8, 0, 0, 0, 0, 0, 0, 0, 0, 0, 0, 0, 0] 96 [192, 0, 2, 33]) = some [192, 0, 2, 33] := by
  decide

/-- **One AAAA per usable (prefix, A record) pair, no more, no fewer.** The
synthesised block has exactly as many records as there are pairs of a
configured prefix and an A record usable under it — with several prefixes and
several A records no slot is duplicated, lost or left stale. -/
theorem synth_record_count (c : Cfg) (addrs : List RR) (ttl : Nat) :
    (synthAAAA c addrs ttl).length = (c.prefixes.map fun p => (addrs.filter (usableUnder c p)).length).sum := by
  unfold synthAAAA
  rw [List.length_flatMap]
  congr 1
  apply List.map_congr_left
  intro p _
  rw [filterMap_length_eq_filter]
  congr 1
  apply List.filter_congr
  intro x _
  unfold usableUnder
  cases to4 x.ip with
  | none => rfl
  | some v4 => cases h : c.shouldExcludeAOnPrefix v4 p <;> simp [h]

example : (synthAAAA { prefixes := [⟨⟨wkpIP, 96, true⟩, true⟩,
    ⟨⟨[0x20, 1, 0xd, 0xb8, 0, 0, 0, 0, 0, 0, 0, 0, 0, 0, 0, 0], 96, true⟩, false⟩], exA := defaultExcludeAv4 }
    [{ kind := '4', ttl := 60, owner := "0", ip := [8, 8, 8, 8] }, { kind := '4', ttl := 60, owner := "0", ip := [10, 0, 0, 1] },
     { kind := '4', ttl := 60, owner := "0", ip := [1, 1, 1, 1] }] 60).length = 5 := by decide

/-- **The client's own AD bit (RFC 6840 §5.7) never reaches the reply.** -/
theorem reply_ignores_query_ad (c : Cfg) (q : Query) (down : Option Down) (a : AResp) (b : Bool) :
    serve c { q with ad := b } down a = serve c q down a := rfl

/-- every request-local provenance kind the middleware package knows is accepted
as a mark by the linked `MarkRequestLocalFailureResponse` (so each is exercised
as `Mark.attempt` / `Mark.other` by the correspondence). -/
theorem request_local_kinds_pinned : SdnsVerif.Gen.C20.request_local_kinds_marked = [true, true, true, true, true, true, true] := by
  decide

/-! ## configuration corners: networks bit by bit, zone text, where the well-known prefix sits -/

/-- **CIDR membership is "the first `bits` bits agree"** — IPv4 network, IPv4 source. -/
theorem v4_net_contains_iff (ip v : IP) (bits : Nat) (hip : ip.length = 4) (hv : v.length = 4) :
    (⟨ip, bits, false⟩ : Net).contains v = true ↔ ∀ j, j < 32 → j < bits → bitOf ip j = bitOf v j := by
  unfold Net.contains norm4
  simp only [hip, hv, beq_self_eq_true, if_true, bne_self_eq_false, Bool.false_eq_true, if_false]
  rw [eqUnder_iff_bits bits ip v 0 (by rw [hip, hv])]
  simp [hip]

/-- …IPv6 network, IPv6 (non-mapped) source. -/
theorem v6_net_contains_iff (ip a : IP) (bits : Nat) (hip : ip.length = 16) (ha : a.length = 16)
    (hmi : isMapped ip = false) (hma : isMapped a = false) :
    (⟨ip, bits, true⟩ : Net).contains a = true ↔ ∀ j, j < 128 → j < bits → bitOf ip j = bitOf a j := by
  have e : (⟨ip, bits, true⟩ : Net).contains a = eqUnder bits 0 ip a := by
    simp [Net.contains, norm4, hip, ha, hmi, hma]
  rw [e, eqUnder_iff_bits bits ip a 0 (by rw [hip, ha])]
  simp [hip]

/-- …and the Pref64 containment of `extractIPv4` / `handlePTR` on 16-byte forms. -/
theorem prefix_contains_iff (ip a : IP) (bits : Nat) (hip : ip.length = 16) (ha : a.length = 16) :
    prefixContains ⟨ip, bits, true⟩ a = true ↔ ∀ j, j < 128 → j < bits → bitOf ip j = bitOf a j := by
  have e : prefixContains ⟨ip, bits, true⟩ a = eqUnder bits 0 ip a := by
    simp [prefixContains, to16, hip, ha]
  rw [e, eqUnder_iff_bits bits ip a 0 (by rw [hip, ha])]
  simp [hip]

/-- **An upstream AAAA is excluded exactly when it lies in a configured
network, bit for bit** — for every `exclude_aaaa_networks` length, those that
are not a whole number of octets (fc00::/7, fe80::/10, a /33) included: an
address outside the real network is never stripped because it shares the
network's leading bytes. -/
theorem exclude_aaaa_iff_bits (c : Cfg) (a : IP) (ha : a.length = 16) (hma : isMapped a = false)
    (hn : ∀ n ∈ c.exAAAA, n.v6 = true ∧ n.ip.length = 16 ∧ isMapped n.ip = false) :
    c.shouldExcludeAAAA a = true ↔
      ∃ n ∈ c.exAAAA, ∀ j, j < 128 → j < n.bits → bitOf n.ip j = bitOf a j := by
  unfold Cfg.shouldExcludeAAAA
  rw [List.any_eq_true]
  constructor
  · rintro ⟨n, hmem, hc⟩
    obtain ⟨hv, hl, hm⟩ := hn n hmem
    refine ⟨n, hmem, ?_⟩
    have : n = ⟨n.ip, n.bits, true⟩ := by cases n; simp_all
    rw [this] at hc
    exact (v6_net_contains_iff n.ip a n.bits hl ha hm hma).mp hc
  · rintro ⟨n, hmem, hb⟩
    obtain ⟨hv, hl, hm⟩ := hn n hmem
    refine ⟨n, hmem, ?_⟩
    have : n = ⟨n.ip, n.bits, true⟩ := by cases n; simp_all
    rw [this]
    exact (v6_net_contains_iff n.ip a n.bits hl ha hm hma).mpr hb

-- fc00::/7 excludes fd00::1, not 2001:db8::1; 2001:db8:8000::/33 excludes neither 2001:db8:1::1 nor 2001:db8:7fff:ffff::1
example : ({ exAAAA := [⟨[0xfc, 0, 0, 0, 0, 0, 0, 0, 0, 0, 0, 0, 0, 0, 0, 0], 7, true⟩] } : Cfg).shouldExcludeAAAA
    [0xfd, 0, 0, 0, 0, 0, 0, 0, 0, 0, 0, 0, 0, 0, 0, 1] = true := by decide
example : ({ exAAAA := [⟨[0xfc, 0, 0, 0, 0, 0, 0, 0, 0, 0, 0, 0, 0, 0, 0, 0], 7, true⟩] } : Cfg).shouldExcludeAAAA
    [0x20, 1, 0xd, 0xb8, 0, 0, 0, 0, 0, 0, 0, 0, 0, 0, 0, 1] = false := by decide
example : ({ exAAAA := [⟨[0x20, 1, 0xd, 0xb8, 0x80, 0, 0, 0, 0, 0, 0, 0, 0, 0, 0, 0], 33, true⟩] } : Cfg).shouldExcludeAAAA
    [0x20, 1, 0xd, 0xb8, 0x7f, 0xff, 0xff, 0xff, 0, 0, 0, 0, 0, 0, 0, 1] = false := by decide

-- 192.168.0.0/23 contains 192.168.1.255, not 192.168.2.0; 100.64.0.0/10 boundary
example : (⟨[192, 168, 0, 0], 23, false⟩ : Net).contains [192, 168, 1, 255] = true := by decide
example : (⟨[192, 168, 0, 0], 23, false⟩ : Net).contains [192, 168, 2, 0] = false := by decide
example : (⟨[100, 64, 0, 0], 10, false⟩ : Net).contains [100, 127, 255, 255] = true ∧
    (⟨[100, 64, 0, 0], 10, false⟩ : Net).contains [100, 128, 0, 0] = false := by decide

/-- **The exclusion list is loaded when ANY compiled prefix is the well-known one**, not only the first. -/
theorem wkp_anywhere_loads_exclusions (ps cs : List Ent) (zs : List Name) (x6 : Option (List Ent))
    (h : ∃ p ∈ (compile ps cs zs none x6).prefixes, p.wellKnown = true) :
    (compile ps cs zs none x6).exA = defaultExcludeAv4 := by
  obtain ⟨p, hp, hw⟩ := h
  unfold compile at hp ⊢
  simp only at hp ⊢
  have hany : (if (ps.filterMap compilePrefix).isEmpty = true then [(⟨⟨wkpIP, 96, true⟩, true⟩ : Prefix)]
      else ps.filterMap compilePrefix).any (·.wellKnown) = true :=
    List.any_eq_true.mpr ⟨p, hp, hw⟩
  simp only [hany, if_true]

/-- the text `compileConfig` hands to the library for a configured zone:
lower-cased, blanks trimmed, final dot added. -/
def zoneText (t : Name) : Name :=
  if hasSuffix (trimSpace (lower t)) ['.'] then trimSpace (lower t) else trimSpace (lower t) ++ ['.']

/-- `compileConfig` stores, for a zone text the library reads as the name `ls`
— in ANY legal presentation form: `\\DDD`, `\\X`, upper case, blanks, no final
dot — the library's own lower-case rendering of `ls`. -/
theorem compiled_zone_of_text (t : Name) (ls : List (List UInt8)) (hne : trimSpace (lower t) ≠ [])
    (hp : packName (zoneText t) = some ls) : compileZone t = some (lower (present ls)) := by
  unfold compileZone canonicalZoneText
  have hemp : (trimSpace (lower t)).isEmpty = false := by
    cases hh : trimSpace (lower t) with
    | nil => exact absurd hh hne
    | cons _ _ => rfl
  unfold zoneText at hp
  simp only [hemp, Bool.false_eq_true, if_false, hp]

/-- **A configured zone, in any presentation form, excludes its whole subtree
for every wire name.** If the library reads the configured text as the name
`ls`, every query name whose labels end with those labels (in any letter case)
is excluded — end to end through `compileConfig` and `zoneExcluded`. -/
theorem configured_zone_any_form_excludes_subtree (ps cs : List Ent) (zs : List Name) (xa x6 : Option (List Ent))
    (t : Name) (ht_mem : t ∈ zs) (ls : List (List UInt8)) (hne : trimSpace (lower t) ≠ [])
    (hp : packName (zoneText t) = some ls)
    (pre z : List (List UInt8)) (hz : z ≠ []) (hcase : lower (present z) = lower (present ls)) :
    (compile ps cs zs xa x6).zoneExcluded (canonical (present (pre ++ z))) = true := by
  apply excluded_zone_covers_subtree _ pre z hz
  unfold compile
  simp only
  rw [hcase]
  exact List.mem_filterMap.mpr ⟨t, ht_mem, compiled_zone_of_text t ls hne hp⟩

/-- **The library reads back its own rendering**: for every label list with
labels of 1..63 bytes and at most 255 wire bytes, `packName (present ls) = some ls`. -/
theorem packName_present (ls : List (List UInt8)) (hl : ∀ l ∈ ls, 0 < l.length ∧ l.length < 64)
    (hw : (ls.map fun l => l.length + 1).sum < 255) : packName (present ls) = some ls := by
  cases ls with
  | nil => decide
  | cons l t =>
    have hne : (l :: t) ≠ [] := by simp
    have hp : present (l :: t) = presentLabels (l :: t) := by simp [present]
    have hl0 := hl l (by simp)
    -- the rendering has at least two characters (a byte and the dot)
    have hlen : 2 ≤ (presentLabels (l :: t)).length := by
      cases l with
      | nil => simp at hl0
      | cons b bs =>
        have := presentByte_length_pos b
        simp [presentLabels, presentLabel, List.flatMap_cons]
        omega
    have hemp : (presentLabels (l :: t)).isEmpty = false := by
      cases hh : presentLabels (l :: t) with
      | nil => rw [hh] at hlen; simp at hlen
      | cons _ _ => rfl
    have hdot : (presentLabels (l :: t) == ['.']) = false := by
      rw [beq_eq_false_iff_ne]; intro hc; rw [hc] at hlen; simp at hlen
    unfold packName
    rw [hp]
    simp only [hemp, Bool.false_eq_true, if_false, isFqdn_presentLabels _ hne, Bool.not_true, hdot]
    rw [packGo_labels _ (l :: t) true false [] 0 hl (by omega)]
    have a : ¬ ((List.map (fun l => l.length + 1) (l :: t)).sum ≥ 256) := by omega
    have b : ¬ ((List.map (fun l => l.length + 1) (l :: t)).sum ≥ 255) := by omega
    simp only [List.reverse_nil, List.nil_append, a, b, if_false]

example : packName (present [[97, 46, 98], [0, 233, 92], [79, 82, 71]]) = some [[97, 46, 98], [0, 233, 92], [79, 82, 71]] :=
  packName_present _ (by decide) (by decide)

/-- **A zone written the way the library renders names compiles to itself** —
the hypothesis of `compiled_zone_of_text` discharged for every canonical text:
if the normalised configured text IS the rendering of a well-formed label list
`ls`, the stored zone is `lower (present ls)` and its whole subtree is excluded
for every wire name, in any letter case. -/
theorem configured_canonical_zone_excludes_subtree (ps cs : List Ent) (zs : List Name) (xa x6 : Option (List Ent))
    (t : Name) (ht_mem : t ∈ zs) (ls : List (List UInt8)) (hne : trimSpace (lower t) ≠ [])
    (hl : ∀ l ∈ ls, 0 < l.length ∧ l.length < 64) (hw : (ls.map fun l => l.length + 1).sum < 255)
    (ht : zoneText t = present ls)
    (pre z : List (List UInt8)) (hz : z ≠ []) (hcase : lower (present z) = lower (present ls)) :
    (compile ps cs zs xa x6).zoneExcluded (canonical (present (pre ++ z))) = true :=
  configured_zone_any_form_excludes_subtree ps cs zs xa x6 t ht_mem ls hne
    (by rw [ht]; exact packName_present ls hl hw) pre z hz hcase

-- "\069xample.org" IS example.org: WWW.Example.ORG is excluded (before fix 9b7ec79 it was not)
example : packName (zoneText "\\069xample.org".toList) = some [[69, 120, 97, 109, 112, 108, 101], [111, 114, 103]] := by decide
example : (compile [] [] ["\\069xample.org".toList] none none).zoneExcluded
    (canonical (present [[87, 87, 87], [69, 120, 97, 109, 112, 108, 101], [79, 82, 71]])) = true := by decide
example : (compile [] [] [" Example.ORG".toList] none none).zoneExcluded
    (canonical (present [[87, 87, 87], [69, 120, 97, 109, 112, 108, 101], [79, 82, 71]])) = true := by decide
-- "a\046b.example.org" and "a\.b.example.org" are the same zone; an unescaped space is read and re-rendered escaped
example : compileZone "a\\046b.example.org".toList = compileZone "a\\.b.example.org".toList := by decide
example : compileZone "sp ace.test".toList = some "sp\\ ace.test.".toList := by decide
-- texts the library cannot read as a name are kept as they are
example : compileZone "a..b.test".toList = some "a..b.test.".toList := by decide

example : (compile [.v6 [0x20, 1, 0xd, 0xb8, 0, 0x64, 0, 0, 0, 0, 0, 0, 0, 0, 0, 0] 96, .v6 wkpIP 96] [] [] none none).exA
    = defaultExcludeAv4 := by decide

/-! ## facts regenerated from the tree -/

/-- the code's legal length set is within RFC 6052's six lengths (the model's `embedIPv4` covers exactly these). -/
theorem legal_lengths_pinned : ∀ b ∈ SdnsVerif.Gen.C20.legal_prefix_bits, b ∈ legalBits := by decide

/-- every RFC 8914 DNSSEC failure code is still passed through, and only on SERVFAIL. -/
theorem dnssec_codes_pinned :
    (∀ code ∈ [1, 2, 5, 6, 7, 8, 9, 10, 11, 12, 27], code ∈ SdnsVerif.Gen.C20.dnssec_ede_codes) ∧
    (∀ code ∈ SdnsVerif.Gen.C20.dnssec_ede_codes, code ∈ dnssecEDE) := by decide

/-- EDE 13 (Cached Error) on a SERVFAIL still marks a cached failure. -/
theorem cached_failure_code_pinned : 13 ∈ SdnsVerif.Gen.C20.cached_failure_ede_codes := by decide

/-- the no-SOA ceiling has not grown beyond RFC 6147 §5.1.7's 600 s; the model uses the same constants. -/
theorem ttl_constants_pinned :
    SdnsVerif.Gen.C20.no_soa_ttl_ceiling ≤ 600 ∧ SdnsVerif.Gen.C20.no_soa_ttl_ceiling = noSOATTLCeiling ∧
    SdnsVerif.Gen.C20.ptr_synth_ttl = ptrSynthTTL := by decide

/-- the six byte layouts of the compiled `embedIPv4` (evaluated on marker
bytes) are the model's, hence the RFC table's. -/
theorem layouts_pinned :
    let P : IP := (List.range 16).map fun i => UInt8.ofNat (100 + i)
    let V : IP := [201, 202, 203, 204]
    SdnsVerif.Gen.C20.layout_32 = (embedIPv4 P 32 V).map (·.toNat) ∧
    SdnsVerif.Gen.C20.layout_40 = (embedIPv4 P 40 V).map (·.toNat) ∧
    SdnsVerif.Gen.C20.layout_48 = (embedIPv4 P 48 V).map (·.toNat) ∧
    SdnsVerif.Gen.C20.layout_56 = (embedIPv4 P 56 V).map (·.toNat) ∧
    SdnsVerif.Gen.C20.layout_64 = (embedIPv4 P 64 V).map (·.toNat) ∧
    SdnsVerif.Gen.C20.layout_96 = (embedIPv4 P 96 V).map (·.toNat) := by decide

set_option maxRecDepth 16384 in
/-- the model renders every label byte exactly as the linked miekg/dns does
(`UnpackDomainName` evaluated on all 256 one-byte labels). -/
theorem label_rendering_pinned :
    SdnsVerif.Gen.C20.label_byte_rendering =
      (List.range 256).map fun b => (presentByte (UInt8.ofNat b)).map Char.toNat := by decide

/-- the well-known prefix and the default exclusion lists are the model's;
a /96 with a non-zero reserved octet is rejected; DNS64 is client-only. -/
theorem defaults_pinned :
    SdnsVerif.Gen.C20.wkp_ip = wkpIP.map (·.toNat) ∧ SdnsVerif.Gen.C20.wkp_bits = 96 ∧
    SdnsVerif.Gen.C20.default_exclude_a = defaultExcludeAv4.map (fun n => n.ip.map (·.toNat) ++ [n.bits]) ∧
    SdnsVerif.Gen.C20.default_exclude_aaaa = defaultExcludeAAAA.map (fun n => n.ip.map (·.toNat) ++ [n.bits]) ∧
    SdnsVerif.Gen.C20.byte8_rejected_96 = true ∧ SdnsVerif.Gen.C20.clientonly_dns64 = true ∧
    SdnsVerif.Gen.C20.dnssec_ede_on_non_servfail = false := by decide

end SdnsVerif.Props.C20
