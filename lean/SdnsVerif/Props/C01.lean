import SdnsVerif.Model.Dnssec
import SdnsVerif.Lemmas.Dnssec
import SdnsVerif.Gen.C01
/-!
# C01 — DNSSEC: validating clients get only authenticated data; AD implies authentic

Property theorems only (helper lemmas: `Lemmas/Dnssec.lean`).  Cryptography is
an arbitrary oracle: every statement holds for all `sv : Key → Sig → List RR → Bool`
(signature verification) and `dm : Key → DS → Bool` (digest match).  PARTIAL in
one respect that no theorem here can repair: the network walk that produces the
inputs of these decision functions (`findDS`, `isZoneSecure`,
`provenInsecureDelegation`, the DNSKEY fetch) is not refined; it is explored
system-level by the `l3` ops of the Go driver.
-/
namespace SdnsVerif.Props.C01
open SdnsVerif.Model.Dnssec SdnsVerif.Lemmas.Dnssec

variable {sv : Key → Sig → List RR → Bool} {dm : Key → DS → Bool} {now : Int}

/-! ## `verifyRRSIG` -/

/-- **Every in-zone RRset is covered, nothing foreign rides in the answer.**
If `verifyRRSIG signer keys msg` accepts, then (1) every answer-section record
lies in the signer zone (label-wise) or is a CNAME that an in-zone DNAME of
the same message synthesises, and (2) for every collected record `r` the
whole RRset of `r` has a signature `s` travelling with the message and a key
`k` of the supplied set such that the public-key operation succeeded on
exactly that RRset, with `k` bound to `s` (tag, algorithm, class, owner =
signer name, protocol 3, ZONE flag), `s` bound to the RRset (owner, type,
class, label count, RRset owner inside the signer name's zone, one spelling),
a supported algorithm and `now` inside the validity window. -/
theorem verifyRRSIG_sound {signer : Name} {keys : List Key} {m : Msg}
    (h : verifyRRSIG sv now signer keys m = .ok) :
    (∀ r ∈ m.answer, nameInZone r.owner signer = true ∨
        (r.rtype = tCNAME ∧ isSynthesizedCNAME r (dnamesOf signer m) = true)) ∧
    ∀ r ∈ collected signer m, ∃ s ∈ m.sigs, ∃ k ∈ keys,
      Bound now k s (rrsetOf (collected signer m) (keyOf r)) ∧
      sv k s (rrsetOf (collected signer m) (keyOf r)) = true ∧
      nameInZone s.owner signer = true := by
  unfold verifyRRSIG at h
  split at h; · cases h
  split at h; · cases h
  rename_i _ hforeign
  constructor
  · intro r hr
    have hnf : ¬ (classify signer (dnamesOf signer m) false r == Collect.foreign) = true := by
      intro hc
      exact hforeign (List.any_eq_true.mpr ⟨r, hr, hc⟩)
    unfold classify at hnf
    simp only [Bool.and_false, Bool.false_eq_true, if_false] at hnf
    by_cases hcn : (r.rtype == tCNAME && isSynthesizedCNAME r (dnamesOf signer m)) = true
    · right
      simp only [Bool.and_eq_true, beq_iff_eq] at hcn
      exact hcn
    · simp only [hcn] at hnf
      by_cases hz : nameInZone r.owner signer = true
      · exact Or.inl hz
      · simp [hz] at hnf
  · intro r hr
    simp only at h
    split at h
    · rename_i hempty
      have : collected signer m = [] := by simpa using hempty
      rw [this] at hr; simp at hr
    · split at h; · cases h
      obtain ⟨g, hg, hkey, hset⟩ := groups_complete _ r hr
      have hg' : g ∈ sortBy Group.rank (groups (collected signer m)) := (mem_sortBy _ _ _).mpr hg
      have hgrp := checkGroups_ok _ h g hg'
      obtain ⟨s, hs, _, hone⟩ := checkGroup_ok hgrp
      obtain ⟨k, hk, hb, hsv⟩ := verifyOneSig_ok hone
      rw [List.mem_filter] at hs
      rw [hset] at hb hsv
      exact ⟨s, hs.1, k, hk, hb, hsv, hs.2⟩

/-- what the binding says in plain terms about the record it covers. -/
theorem bound_covers {signer : Name} {m : Msg} {r : RR} {k : Key} {s : Sig}
    (hb : Bound now k s (rrsetOf (collected signer m) (keyOf r))) :
    s.owner = r.owner ∧ s.covered = r.rtype ∧ s.cls = r.cls ∧ s.labels ≤ r.owner.length ∧
      nameInZone r.owner s.signer = true ∧ k.owner = s.signer ∧ inWindow now s = true := by
  obtain ⟨h1, h2, h3, h4, h5, _, _⟩ := sigMatches_key hb.fits
  exact ⟨h1, h2, h3, h4, h5, hb.owner, hb.window⟩

/-- **No wildcard-expanded denial record** (a691674): an NSEC / NSEC3 RRset is never accepted under a
signature that counts fewer labels than its owner has — the wildcard's own NSEC renamed onto an
existing name would otherwise deny that name's types and neighbours "with authentication". -/
theorem accepted_denial_is_not_expanded {signer : Name} {m : Msg} {r : RR} {k : Key} {s : Sig}
    (hb : Bound now k s (rrsetOf (collected signer m) (keyOf r))) (hd : r.rtype = 47 ∨ r.rtype = 50) :
    sigExpands r.owner s.labels = false := by
  obtain ⟨_, h2, _, _, _, _, hx⟩ := sigMatches_key hb.fits
  unfold expandedDenial at hx
  have hc : (s.covered == 47 || s.covered == 50) = true := by
    rw [h2]; unfold keyOf; rcases hd with h | h <;> simp [h]
  rw [hc] at hx
  have : (keyOf r).1 = r.owner := rfl
  rw [this] at hx
  simpa using hx

example : sigMatchesRRset { id := 1, owner := ["example", "host"], covered := 47, alg := 13, labels := 1, expiration := 0, inception := 0, tag := 1, signer := ["example"] }
    [{ owner := ["example", "host"], rtype := 47 }] = false := by decide
example : sigMatchesRRset { id := 1, owner := ["example", "*"], covered := 47, alg := 13, labels := 1, expiration := 0, inception := 0, tag := 1, signer := ["example"] }
    [{ owner := ["example", "*"], rtype := 47 }] = true := by decide

/-- **With unforgeable signatures accepted data is published data.**
HYPOTHESIS `uf` (not provable here, it is the cryptographic assumption): a
signature that verifies under a genuine key of the zone was made by the
zone's signer over exactly that RRset (`publishedBy s set`).  Then every
RRset `verifyRRSIG` accepted under genuine keys is one the signer published,
under a signature whose owner, type, class and label count are those of the
record and whose validity window contains `now`. -/
theorem verifyRRSIG_published {signer : Name} {keys : List Key} {m : Msg}
    (genuine : Key → Prop) (publishedBy : Sig → List RR → Prop)
    (uf : ∀ k s set, genuine k → sv k s set = true → publishedBy s set)
    (hk : ∀ k ∈ keys, genuine k)
    (h : verifyRRSIG sv now signer keys m = .ok) :
    ∀ r ∈ collected signer m, ∃ s ∈ m.sigs,
      publishedBy s (rrsetOf (collected signer m) (keyOf r)) ∧
      s.owner = r.owner ∧ s.covered = r.rtype ∧ s.cls = r.cls ∧ s.labels ≤ r.owner.length ∧
      inWindow now s = true := by
  intro r hr
  obtain ⟨s, hs, k, hkk, hb, hsv, _⟩ := (verifyRRSIG_sound h).2 r hr
  obtain ⟨h1, h2, h3, h4, _, _, h7⟩ := bound_covers hb
  exact ⟨s, hs, uf k s _ (hk k hkk) hsv, h1, h2, h3, h4, h7⟩

/-- When the key set went through `Resolver.verifyDNSSEC`'s filter (owner = signer), the
accepted signature names the signer zone itself. -/
theorem verifyRRSIG_signer_is_zone {signer : Name} {dnskeys : List Key} {m : Msg}
    (h : verifyRRSIG sv now signer (zoneKeys signer dnskeys) m = .ok) :
    ∀ r ∈ collected signer m, ∃ s ∈ m.sigs, s.signer = signer ∧ s.owner = r.owner ∧ s.covered = r.rtype := by
  intro r hr
  obtain ⟨s, hs, k, hkk, hb, _, _⟩ := (verifyRRSIG_sound h).2 r hr
  obtain ⟨h1, h2, _, _, _, h6, _⟩ := bound_covers hb
  unfold zoneKeys at hkk
  rw [List.mem_filter] at hkk
  have : k.owner = signer := by
    have := hkk.2
    simp only [Bool.and_eq_true, beq_iff_eq] at this
    exact this.1
  exact ⟨s, hs, by rw [← h6, this], h1, h2⟩

/-- the validity window away from the serial-number wrap is the plain interval. -/
theorem inWindow_plain (s : Sig) (hi : ((s.inception : Int) - now).natAbs < 2147483648)
    (he : ((s.expiration : Int) - now).natAbs < 2147483648) :
    inWindow now s = true ↔ (s.inception : Int) ≤ now ∧ now ≤ (s.expiration : Int) := by
  have small : ∀ a : Int, a.natAbs < 2147483648 → a.tdiv 2147483648 = 0 := by
    intro a ha
    by_cases h0 : 0 ≤ a
    · exact Int.tdiv_eq_zero_of_lt h0 (by omega)
    · have : (-a).tdiv 2147483648 = 0 := Int.tdiv_eq_zero_of_lt (by omega) (by omega)
      rw [Int.neg_tdiv] at this
      omega
  unfold inWindow year68
  simp [small _ hi, small _ he]

/-! ## synthesised CNAMEs (RFC 6672 §3.3 / §5.3.1) -/

/-- **The CNAMEs exempt from carrying a signature are exactly the ones a DNAME of the list
implies**: some DNAME owner (not the root) is a PROPER label-wise ancestor of the CNAME owner and
the CNAME target is the DNAME target followed by exactly the owner's labels above the DNAME owner —
nothing inserted, nothing glued on, no other tail. -/
theorem synthesized_cname_exact (c : RR) (dnames : List RR) :
    isSynthesizedCNAME c dnames = true ↔
      ∃ d ∈ dnames, ∃ rel dt, rel ≠ [] ∧ d.owner ≠ [] ∧ c.owner = d.owner ++ rel ∧
        d.target = some dt ∧ c.target = some (dt ++ rel) := by
  unfold isSynthesizedCNAME
  rw [List.any_eq_true]
  constructor
  · rintro ⟨d, hd, h⟩
    simp only [Bool.and_eq_true, bne_iff_ne, ne_eq, decide_eq_true_eq, and_assoc] at h
    obtain ⟨h0, hlt, hpre, hm⟩ := h
    obtain ⟨rel, hrel⟩ := List.isPrefixOf_iff_prefix.mp hpre
    refine ⟨d, hd, rel, ?_⟩
    have hne : rel ≠ [] := by
      intro he; subst he; rw [← hrel] at hlt; simp at hlt
    have h0' : d.owner ≠ [] := by
      intro he; apply h0; simp [he]
    cases hct : c.target with
    | none => rw [hct] at hm; simp at hm
    | some ct =>
      cases hdt : d.target with
      | none => rw [hct, hdt] at hm; simp at hm
      | some dt =>
        rw [hct, hdt] at hm
        simp only [beq_iff_eq] at hm
        refine ⟨dt, hne, h0', hrel.symm, rfl, ?_⟩
        rw [hm, ← hrel]; simp
  · rintro ⟨d, hd, rel, dt, hne, h0, how, hdt, hct⟩
    refine ⟨d, hd, ?_⟩
    have hrl : 0 < rel.length := by
      cases rel with
      | nil => exact absurd rfl hne
      | cons _ _ => simp
    have hpre : d.owner.isPrefixOf (d.owner ++ rel) = true :=
      List.isPrefixOf_iff_prefix.mpr ⟨rel, rfl⟩
    have h0' : (d.owner.length != 0) = true := by
      simp only [bne_iff_ne, ne_eq]
      intro hz; exact h0 (List.eq_nil_of_length_eq_zero hz)
    rw [hct, hdt, how]
    simp [h0', hpre, hrl]

-- the shapes of the seeded breakage: text between the relative labels and the target, or a longer tail
example : isSynthesizedCNAME { owner := ["test", "secure", "d", "a"], rtype := 5, target := some ["test", "eviltarget", "a"] }
    [{ owner := ["test", "secure", "d"], rtype := 39, target := some ["test", "target"] }] = false := by decide
example : isSynthesizedCNAME { owner := ["test", "secure", "d", "a"], rtype := 5, target := some ["test", "target", "c", "b", "a"] }
    [{ owner := ["test", "secure", "d"], rtype := 39, target := some ["test", "target"] }] = false := by decide
example : isSynthesizedCNAME { owner := ["test", "secure", "d", "a"], rtype := 5, target := some ["test", "target", "a"] }
    [{ owner := ["test", "secure", "d"], rtype := 39, target := some ["test", "target"] }] = true := by decide

/-! ## `ValidateSigner` -/

/-- **The signer is the query name or a proper ancestor of it, label by label.** -/
theorem validateSigner_ancestor {e : Bool} {signer qname : Name} (h : validateSigner e signer qname = true) :
    e = false ∧ (signer = qname ∨ ∃ rest, rest ≠ [] ∧ qname = signer ++ rest) := by
  unfold validateSigner at h
  simp only [Bool.and_eq_true, Bool.not_eq_true'] at h
  refine ⟨h.1, ?_⟩
  obtain ⟨rest, hr⟩ := (nameInZone_iff _ _).mp h.2
  by_cases hn : rest = []
  · left; simp [hr, hn]
  · right; exact ⟨rest, hn, hr⟩

-- a string suffix that is not a label suffix is refused, an escaped dot does not split a label
example : validateSigner false ["com", "example"] ["com", "evilexample", "x"] = false := by decide
example : validateSigner false ["com", "example"] ["com", "foo.example", "www"] = false := by decide
example : validateSigner false ["com", "example"] ["com", "example", "www"] = true := by decide
example : validateSigner false ["com", "example", "www", "deeper"] ["com", "example", "www"] = false := by decide

/-! ## `VerifyDS` -/

/-- **A DS match is a real match**: `(false, nil)` needs a DS of a supported digest type and
algorithm and a key bound to it by tag, algorithm, class, owner, ZONE flag and protocol 3
whose digest equals the DS digest. -/
theorem verifyDS_sound {keys : List Key} {dss : List DS} (h : verifyDS dm keys dss = .matched) :
    ∃ d ∈ dss, ∃ k ∈ keys, supportedDS d = true ∧ usableDSCandidate d k = true ∧
      d.digestOk = true ∧ dm k d = true := by
  unfold verifyDS at h
  split at h
  · rename_i hloop
    obtain ⟨d, hd, hs, hstep⟩ := dsLoop_none _ _ hloop
    obtain ⟨k, hk, h1, h2, h3⟩ := dsStep_none hstep
    exact ⟨d, (mem_sortBy _ _ _).mp hd, k, hk, hs, h1, h2, h3⟩
  · split at h; · cases h
    split at h; · cases h
    split at h <;> cases h

/-- **"Insecure" is indicated exactly for a non-empty DS RRset without any supported member.** -/
theorem verifyDS_unsupported_iff (keys : List Key) (dss : List DS) :
    verifyDS dm keys dss = .unsupportedOnly ↔ dss ≠ [] ∧ ∀ d ∈ dss, supportedDS d = false := by
  constructor
  · intro h
    unfold verifyDS at h
    split at h; · cases h
    split at h; · cases h
    rename_i hne
    split at h
    · rename_i hany
      refine ⟨by simpa using hne, ?_⟩
      intro d hd
      cases hsd : supportedDS d
      · rfl
      · exact absurd (List.any_eq_true.mpr ⟨d, hd, hsd⟩) (by simpa using hany)
    · split at h <;> cases h
  · rintro ⟨hne, hall⟩
    unfold verifyDS
    have hl : dsLoop dm keys (sortBy DS.rank dss) none = some none :=
      dsLoop_unsupported _ _ (fun d hd => hall d ((mem_sortBy _ _ _).mp hd))
    rw [hl]
    have h1 : dss.isEmpty = false := by cases dss <;> simp_all
    have h2 : dss.any supportedDS = false := by
      cases hany : dss.any supportedDS
      · rfl
      · obtain ⟨d, hd, hs⟩ := List.any_eq_true.mp hany
        rw [hall d hd] at hs; cases hs
    simp [h1, h2]

/-- the keys handed to the validation of the zone's own DNSKEY RRset are exactly the DS-authenticated ones. -/
theorem anchoredKeys_sound {keys : List Key} {dss : List DS} {k : Key} (h : k ∈ anchoredKeys dm keys dss) :
    k ∈ keys ∧ ∃ d ∈ dss, supportedDS d = true ∧ usableDSCandidate d k = true ∧ d.digestOk = true ∧ dm k d = true :=
  (mem_anchoredKeys dm keys dss k).mp h

/-! ## wildcard answers -/

/-- **A wildcard-expanded answer needs the next-closer denial**: every answer-section
signature whose label count is below its owner's needs an NSEC of the same message that
covers the next-closer name and does not show it to be an empty non-terminal (next name below it). -/
theorem wildcard_needs_denial {covers : NSEC → Name → Bool} {ansSigs : List Sig} {nsecs : List NSEC}
    (h : verifyWildcard covers ansSigs nsecs = .ok) :
    ∀ s ∈ ansSigs, s.labels < s.owner.length →
      ∃ n ∈ nsecs, covers n (nextCloser s) = true ∧ provesENT n (nextCloser s) = false := by
  unfold verifyWildcard at h
  split at h
  · rename_i hall
    intro s hs hl
    have := List.all_eq_true.mp hall s hs
    simp only [wildcardExpanded, hl, decide_true, Bool.not_true, Bool.false_or] at this
    obtain ⟨n, hn, hc⟩ := List.any_eq_true.mp this
    simp only [Bool.and_eq_true, Bool.not_eq_true'] at hc
    exact ⟨n, hn, hc.1, hc.2⟩
  · cases h

/-- **The no-closer-match proof comes from inside the signer zone.**  `Resolver.answer` filters the
authority section to the signer zone before the wildcard check, so a wildcard-expanded answer is
accepted only on an NSEC whose owner AND next name lie in the signer zone (an out-of-zone NSEC is
exempt from the signature check as a "referral remnant" and must never serve as proof). -/
theorem wildcard_proof_in_zone {covers : NSEC → Name → Bool} {signer : Name} {ansSigs : List Sig} {nsecs : List NSEC}
    (h : answerWildcard covers signer ansSigs nsecs = .ok) :
    ∀ s ∈ ansSigs, s.labels < s.owner.length →
      ∃ n ∈ nsecs, nameInZone n.owner signer = true ∧ nameInZone n.next signer = true ∧
        covers n (nextCloser s) = true ∧ provesENT n (nextCloser s) = false := by
  intro s hs hl
  obtain ⟨n, hn, hc, he⟩ := wildcard_needs_denial h s hs hl
  unfold filterNSEC at hn
  rw [List.mem_filter] at hn
  simp only [Bool.and_eq_true] at hn
  exact ⟨n, hn.1, hn.2.1, hn.2.2, hc, he⟩

/-- … and such an NSEC is one `verifyRRSIG` demanded a signature for: every in-zone NSEC record of the
authority section is among the collected records (so `verifyRRSIG_sound` applies to it). -/
theorem inzone_nsec_is_collected {signer : Name} {m : Msg} {r : RR}
    (hr : r ∈ m.ns) (ht : r.rtype = 47) (hz : nameInZone r.owner signer = true) : r ∈ collected signer m := by
  unfold collected
  apply List.mem_append_right
  rw [List.mem_filter]
  refine ⟨hr, ?_⟩
  simp [classify, ht, tNS, tCNAME, hz]

example : answerWildcard (fun _ _ => true) ["test", "zone"]
    [{ id := 0, owner := ["test", "zone", "w", "real"], covered := 16, alg := 13, labels := 3, expiration := 0, inception := 0, tag := 1, signer := ["test", "zone"] }]
    [{ id := 0, owner := ["test", "a"], next := ["test", "zz"] }] = .fail .wildcard := by decide
example : answerWildcard (fun _ _ => true) ["test", "zone"]
    [{ id := 0, owner := ["test", "zone", "w", "real"], covered := 16, alg := 13, labels := 3, expiration := 0, inception := 0, tag := 1, signer := ["test", "zone"] }]
    [{ id := 0, owner := ["test", "zone", "w", "a"], next := ["test", "zone", "w", "zz"] }] = .ok := by decide

/-- what `answer` lets through of a section (`FilterRRsToZone`, fdb9218 for the answer section): only
records owned inside the zone that was asked, NSECs only with their next name inside it as well. -/
theorem filterToZone_sound {zone : Name} {l : List SecRR} {r : SecRR} (h : r ∈ filterToZone zone l) :
    r ∈ l ∧ nameInZone r.owner zone = true ∧ (r.rtype = 47 → ∀ n, r.next = some n → nameInZone n zone = true) := by
  unfold filterToZone at h
  rw [List.mem_filter] at h
  obtain ⟨hm, hk⟩ := h
  unfold keepInZone at hk
  simp only [Bool.and_eq_true] at hk
  refine ⟨hm, hk.1, ?_⟩
  intro ht n hn
  have := hk.2
  simp [ht, hn] at this
  exact this

example : filterToZone ["test", "zone"] [⟨["test", "zone", "www"], 1, none⟩, ⟨["test", "evilzone"], 1, none⟩,
    ⟨["test", "zone", "a"], 47, some ["test", "zz"]⟩] = [⟨["test", "zone", "www"], 1, none⟩] := by decide

/-! ## NODATA from hashed denial -/

/-- **AD over an NSEC3 NODATA rests on the right Opt-Out bit** (RFC 5155 §9.2).  `secure` (the
verdict that lets `authority` set AD and mark the denial validated) is given only for an exact-owner
match without the type — or, without an exact match, when a closest encloser that is no delegation /
DNAME owner was found, the wildcard at it exists without the type, and the record COVERING THE NEXT
CLOSER NAME has Opt-Out clear; the flags of the wildcard's and the encloser's records play no part. -/
theorem nodata3_secure_needs_optout_clear_cover {isDS : Bool} {v : N3View} (h : verifyNODATA3 isDS v = .secure) :
    (∃ soa ns, v.exact = some (false, soa, ns)) ∨
    (v.exact = none ∧ isDS = false ∧ v.ceFound = true ∧ v.ceBad = false ∧ v.cover = some false ∧
      ∃ woo, v.wild = some (false, woo)) := by
  unfold verifyNODATA3 at h
  split at h
  · rename_i ty soa ns hex
    left
    cases ty
    · exact ⟨soa, ns, hex⟩
    · simp at h
  · rename_i hex
    right
    split at h; · cases h
    split at h; · cases h
    rename_i hce hbad
    split at h
    · split at h <;> cases h
    · rename_i hds
      split at h
      · cases h
      · cases h
      · rename_i oo ty woo hc hw
        cases ty
        · cases oo
          · refine ⟨hex, by simpa using hds, by simpa using hce, by simpa using hbad, hc, woo, hw⟩
          · simp at h
        · simp at h

/-- a DS NODATA without an exact match is never `secure`: it is accepted (as insecure) only on an
Opt-Out cover. -/
theorem nodata3_ds_optout_only {v : N3View} (hex : v.exact = none) :
    verifyNODATA3 true v ≠ .secure ∧ (verifyNODATA3 true v = .insecure → v.cover = some true) := by
  unfold verifyNODATA3
  rw [hex]
  constructor
  · simp only []
    split; · simp
    split; · simp
    simp only [if_true]
    split <;> simp
  · simp only []
    split; · simp
    split; · simp
    simp only [if_true]
    split <;> simp_all

/-- **The NSEC3 proof of an insecure delegation** (RFC 5155 §8.9, §7.2.1): accepted only on a record
matching the delegation name with NS set and DS and SOA clear, or — Opt-Out — on a closest provable
encloser that is itself NO delegation point / DNAME owner together with an Opt-Out record covering
the next closer name.  (A cut fabricated below a SECURE delegation has that delegation as its
closest encloser and is refused.) -/
theorem delegation3_proof {v : N3View} (h : verifyDelegation3 v = .insecure) :
    (v.exact = some (true, false, false)) ∨
    (v.exact = none ∧ v.ceFound = true ∧ v.ceBad = false ∧ v.cover = some true) := by
  unfold verifyDelegation3 at h
  split at h
  · rename_i ns ds soa hex
    left
    cases ns <;> cases ds <;> cases soa <;> simp_all
  · rename_i hex
    right
    split at h; · cases h
    split at h; · cases h
    rename_i hce hbad
    split at h
    · cases h
    · cases h
    · rename_i hc
      exact ⟨hex, by simpa using hce, by simpa using hbad, hc⟩

example : verifyDelegation3 { ceFound := true, ceBad := true, cover := some true } = .badDelegation := by decide
example : verifyDelegation3 { ceFound := true, cover := some true } = .insecure := by decide

-- the seeded shape: cover has Opt-Out set, the wildcard's own record has it clear → not secure
example : verifyNODATA3 false { ceFound := true, cover := some true, wild := some (false, false) } = .insecure := by decide
example : verifyNODATA3 false { ceFound := true, cover := some false, wild := some (false, true) } = .secure := by decide

/-- **A DS question is judged on the parent side of its cut** (e583743): the name handed to
`provenInsecureDelegation` for a DS question is a PROPER ancestor of the owner (one label up), so the
insecure delegation of the owner itself can never excuse an unsigned DS answer or denial. -/
theorem ds_question_judged_above_its_owner (qname : Name) (h : qname ≠ []) :
    ∃ l, qname = insecureProofName qname true ++ [l] := by
  unfold insecureProofName
  have : qname.isEmpty = false := by cases qname <;> simp_all
  simp only [this, Bool.not_false, Bool.and_true, if_true]
  exact ⟨qname.getLast h, (List.dropLast_concat_getLast h).symm⟩

example : insecureProofName ["test", "zone", "sub"] true = ["test", "zone"] := by decide
example : insecureProofName ["test", "zone", "sub"] false = ["test", "zone", "sub"] := by decide

/-- **A validated denial carries only the signer zone's records** (fadc30d): every record that
`authority` leaves in the authority section of a reply it is about to mark AD is owned inside the
chosen signer's zone — hence (NS aside) one `verifyRRSIG` demanded a signature for; an out-of-zone
record, which the signature check skips as a referral remnant, cannot ride along. -/
theorem validated_denial_authority_in_zone {signer : Name} {l : List SecRR} {r : SecRR}
    (h : r ∈ filterToZone signer l) : nameInZone r.owner signer = true :=
  (filterToZone_sound h).2.1

example : filterToZone ["test", "zone"] [⟨["test", "zone"], 6, none⟩, ⟨["test", "other", "victim"], 1, none⟩] =
    [⟨["test", "zone"], 6, none⟩] := by decide

/-- **Only the denial's own records reach a validated denial**: what `filterAuthorityRecords` lets through
is SOA, NSEC, NSEC3 or RRSIG — never an NS RRset, which the signature check would skip unseen. -/
theorem authority_allowlist {types : List Nat} {t : Nat} (h : t ∈ filterAuthorityRecords types) :
    t ∈ types ∧ (t = 6 ∨ t = 47 ∨ t = 50 ∨ t = 46) := by
  unfold filterAuthorityRecords at h
  rw [List.mem_filter] at h
  refine ⟨h.1, ?_⟩
  have := h.2
  unfold denialRecordType at this
  simp only [Bool.or_eq_true, beq_iff_eq] at this
  rcases this with ((h1 | h2) | h3) | h4
  · exact Or.inl h1
  · exact Or.inr (Or.inl h2)
  · exact Or.inr (Or.inr (Or.inl h3))
  · exact Or.inr (Or.inr (Or.inr h4))

example : filterAuthorityRecords [6, 2, 46, 47, 1, 2] = [6, 46, 47] := by decide

/-- **A DNAME answer is authentic only if its target leg is** — records or empty-answer denial alike:
a signed DNAME into an unsigned zone never yields AD, whatever the unsigned zone says. -/
theorem dname_ad_needs_target {outer target : Bool} {n : Nat} (h : dnameSpliceAD outer target n = true) :
    outer = true ∧ target = true := by
  unfold dnameSpliceAD at h
  simpa using h

example : dnameSpliceAD true false 0 = false := by decide

/-! ## how long a validated response is cached -/

theorem sectionBound_le_start (a : Bool) : ∀ (l : List TTLItem) (s : Nat), sectionBound a l s ≤ s := by
  intro l
  induction l with
  | nil => intro s; simp [sectionBound]
  | cons x t ih =>
    intro s
    unfold sectionBound
    simp only [List.foldl_cons]
    exact Nat.le_trans (ih _) (Nat.min_le_left _ _)

theorem sectionBound_le_item (a : Bool) : ∀ (l : List TTLItem) (s : Nat) (x : TTLItem), x ∈ l →
    sectionBound a l s ≤ itemBound a x := by
  intro l
  induction l with
  | nil => intro s x hx; simp at hx
  | cons y t ih =>
    intro s x hx
    unfold sectionBound
    simp only [List.foldl_cons]
    rcases List.mem_cons.mp hx with rfl | hin
    · exact Nat.le_trans (sectionBound_le_start a t _) (Nat.min_le_right _ _)
    · exact ih _ x hin

/-- **A cached response never outlives a signature it carries — in whichever section.**  For every RRSIG
of the answer, AUTHORITY or additional section with `left` seconds to its expiration the entry's
lifetime is at most `left` seconds, apart from the 5 s floor; so a denial whose SOA / NSEC
signatures lapse sooner than the negative TTL is re-resolved, not served (with AD) past them. -/
theorem cacheTTL_within_every_signature (answer ns extra : List TTLItem) (ttl : Nat) (left : Int)
    (h : TTLItem.sig ttl left ∈ answer ∨ TTLItem.sig ttl left ∈ ns ∨ TTLItem.sig ttl left ∈ extra) (hl : 0 < left) :
    cacheTTL answer ns extra ≤ max 5 left.toNat := by
  have hb : ∀ a, itemBound a (TTLItem.sig ttl left) ≤ left.toNat := by
    intro a
    unfold itemBound sigTTL
    have : ¬ left ≤ 0 := by omega
    simp only [this, if_false]
    split <;> omega
  have key : sectionBound false extra (sectionBound true ns (sectionBound false answer 86400)) ≤ left.toNat := by
    rcases h with h | h | h
    · have h1 := sectionBound_le_item false answer 86400 _ h
      have h2 := sectionBound_le_start true ns (sectionBound false answer 86400)
      have h3 := sectionBound_le_start false extra (sectionBound true ns (sectionBound false answer 86400))
      have := hb false
      omega
    · have h1 := sectionBound_le_item true ns (sectionBound false answer 86400) _ h
      have h3 := sectionBound_le_start false extra (sectionBound true ns (sectionBound false answer 86400))
      have := hb true
      omega
    · have h1 := sectionBound_le_item false extra (sectionBound true ns (sectionBound false answer 86400)) _ h
      have := hb false
      omega
  unfold cacheTTL
  split
  · omega
  · simp only
    split <;> omega

example : cacheTTL [] [.soa 3600 300, .sig 3600 20, .rr 300, .sig 300 20] [] = 20 := by decide
example : cacheTTL [.rr 300, .sig 300 4000] [] [] = 300 := by decide

/-! ## candidate signers -/

theorem mem_insertSigner (x a : Name) (l : List Name) : a ∈ insertSigner x l ↔ a = x ∨ a ∈ l := by
  induction l with
  | nil => simp [insertSigner]
  | cons y t ih =>
    unfold insertSigner
    split
    · simp
    · simp [ih]; constructor
      · rintro (h | h | h) <;> simp [h]
      · rintro (h | h | h) <;> simp [h]

theorem mem_sortSigners (a : Name) (l : List Name) : a ∈ sortSigners l ↔ a ∈ l := by
  induction l with
  | nil => simp [sortSigners]
  | cons x t ih => simp [sortSigners, mem_insertSigner, ih]

theorem mem_dedupNames (a : Name) : ∀ (l seen : List Name), a ∈ dedupNames l seen ↔ a ∈ l ∧ a ∉ seen := by
  intro l
  induction l with
  | nil => intro seen; simp [dedupNames]
  | cons x t ih =>
    intro seen
    unfold dedupNames
    by_cases hc : seen.contains x = true
    · have hx : x ∈ seen := by simpa using hc
      simp only [hc, if_true, ih, List.mem_cons]
      constructor
      · rintro ⟨h1, h2⟩; exact ⟨Or.inr h1, h2⟩
      · rintro ⟨h1 | h1, h2⟩
        · subst h1; exact absurd hx h2
        · exact ⟨h1, h2⟩
    · have hcf : seen.contains x = false := by simpa using hc
      have hx : x ∉ seen := by
        intro hm; rw [List.contains_iff_mem.mpr hm] at hcf; cases hcf
      simp only [hcf, Bool.false_eq_true, if_false, List.mem_cons, ih]
      constructor
      · rintro (h | ⟨h1, h2⟩)
        · subst h; exact ⟨Or.inl rfl, hx⟩
        · exact ⟨Or.inr h1, fun hs => h2 (Or.inr hs)⟩
      · rintro ⟨h1 | h1, h2⟩
        · exact Or.inl h1
        · by_cases hax : a = x
          · exact Or.inl hax
          · exact Or.inr ⟨h1, fun hs => by rcases hs with h | h; exact hax h; exact h2 h⟩

/-- **The candidate signers are exactly the nominated ones**: a name is tried by the signer loops iff
some RRSIG of the section names it as signer AND covers an RRset that is present in the section (for
answers: owned by the query name, or covering a DNAME).  A stray signature nominates nobody, and no
genuine signer is dropped (no truncation of the candidate list). -/
theorem findRRSIGSigners_exact (recs : List (Name × Nat)) (sigs : List (Name × Nat × Name)) (q : Name) (inA : Bool) (x : Name) :
    x ∈ findRRSIGSigners recs sigs q inA ↔
      ∃ s ∈ sigs, s.2.2 = x ∧ (s.1, s.2.1) ∈ recs ∧ (inA = true → s.1 = q ∨ s.2.1 = tDNAME) := by
  unfold findRRSIGSigners
  rw [mem_sortSigners, mem_dedupNames]
  simp only [List.mem_map, List.mem_filter, List.not_mem_nil, not_false_eq_true, and_true]
  constructor
  · rintro ⟨s, ⟨hs, hn⟩, rfl⟩
    unfold nominates at hn
    simp only [Bool.and_eq_true, List.contains_iff_mem, Bool.or_eq_true, Bool.not_eq_true', beq_iff_eq] at hn
    refine ⟨s, hs, rfl, hn.1, ?_⟩
    intro hi
    rcases hn.2 with (h | h) | h
    · rw [hi] at h; cases h
    · exact Or.inl h
    · exact Or.inr h
  · rintro ⟨s, hs, rfl, hr, hq⟩
    refine ⟨s, ⟨hs, ?_⟩, rfl⟩
    unfold nominates
    simp only [Bool.and_eq_true, List.contains_iff_mem, Bool.or_eq_true, Bool.not_eq_true', beq_iff_eq]
    refine ⟨hr, ?_⟩
    cases inA
    · exact Or.inl (Or.inl rfl)
    · rcases hq rfl with h | h
      · exact Or.inl (Or.inr h)
      · exact Or.inr h

-- most specific first; the ancestor an attacker adds is tried after the genuine apex, a stray RRSIG nominates nobody
example : findRRSIGSigners [(["com", "example", "www"], 1)]
    [(["com", "example", "www"], 1, ["com"]), (["com", "example", "www"], 1, ["com", "example"]), (["com", "example", "mail"], 1, ["org", "evil"])]
    ["com", "example", "www"] true = [["com", "example"], ["com"]] := by decide

/-- both serving routes of a cached alias chain fold the same verdict: the byte composer's `all
segments` is the Msg path's running AND. -/
theorem wireChase_eq_chase (h : Bool) (t : List Bool) : wireChaseAD (h :: t) = chaseAD h t := by
  have key : ∀ b : Bool, (wireChaseAD (h :: t) = b) ↔ (chaseAD h t = b) := by
    intro b
    cases b
    · rw [← Bool.not_eq_true, ← Bool.not_eq_true, chaseAD_true]
      unfold wireChaseAD
      rw [List.all_eq_true]
      simp
    · rw [chaseAD_true]
      unfold wireChaseAD
      rw [List.all_eq_true]
      simp
  cases hb : chaseAD h t
  · exact (key false).mpr hb
  · exact (key true).mpr hb

/-- the composed reply is authentic only if every segment — the LAST one included — was. -/
theorem wireChase_needs_every_segment (segs : List Bool) : wireChaseAD segs = true ↔ ∀ s ∈ segs, s = true := by
  unfold wireChaseAD; rw [List.all_eq_true]; simp

example : wireChaseAD [true, true, false] = false := by decide

/-- no supported DS inherited ⇒ the zone counts as insecure (the local half of `isZoneSecure`). -/
theorem isZoneSecure_needs_supported_ds {pds : List DS} {zone : Name} {probe : Bool}
    (h : isZoneSecure pds zone probe = true) : hasSupportedDS pds = true := by
  unfold isZoneSecure at h
  unfold hasSupportedDS
  cases hs : pds.any supportedDS
  · simp [hs] at h
  · rfl

/-! ## the chain of trust -/

/-- **RFC 4035 §5 authenticity, inductively.**  The root's keys are authentic when a configured
trust anchor (flags 257) signs the root DNSKEY RRset.  A child's keys are authentic when its
DS RRset is signed by an authentic key of the parent and SOME DS-AUTHENTICATED key of the child
(supported DS, tag/algorithm/class/owner/ZONE/protocol binding, digest equality) signs the
child's DNSKEY RRset. -/
inductive Authentic (sv : Key → Sig → List RR → Bool) (dm : Key → DS → Bool) (now : Int) (c : Codec)
    (anchors : List Key) : Name → List Key → Prop
  | root (m : Msg) (a : Key) (s : Sig) :
      a ∈ anchors → a.flags = 257 → s ∈ m.sigs →
      Bound now a s (keySetOf [] m) → sv a s (keySetOf [] m) = true →
      Authentic sv dm now c anchors [] (zoneKeys [] ((keySetOf [] m).map c.decodeKey))
  | child (p : Name) (pks : List Key) (z : Name) (dsMsg keyMsg : Msg)
      (sd : Sig) (kp : Key) (d : DS) (k : Key) (sk : Sig) :
      Authentic sv dm now c anchors p pks →
      nameInZone z p = true → z ≠ p →
      -- the DS RRset is signed by an authentic parent key
      sd ∈ dsMsg.sigs → kp ∈ pks →
      Bound now kp sd (dsSetOf z p dsMsg) → sv kp sd (dsSetOf z p dsMsg) = true →
      -- a DS of it authenticates a published key of the child …
      d ∈ (dsSetOf z p dsMsg).map c.decodeDS →
      k ∈ zoneKeys z ((keySetOf z keyMsg).map c.decodeKey) →
      supportedDS d = true → usableDSCandidate d k = true → d.digestOk = true → dm k d = true →
      -- … and THAT key signs the child's DNSKEY RRset
      sk ∈ keyMsg.sigs → Bound now k sk (keySetOf z keyMsg) → sv k sk (keySetOf z keyMsg) = true →
      Authentic sv dm now c anchors z (zoneKeys z ((keySetOf z keyMsg).map c.decodeKey))

theorem rrsetOf_nonempty_mem {coll : List RR} {k : GKey} (h : rrsetOf coll k ≠ []) :
    ∃ r ∈ coll, keyOf r = k := by
  cases hx : rrsetOf coll k with
  | nil => exact absurd hx h
  | cons x t =>
    have : x ∈ rrsetOf coll k := by rw [hx]; simp
    exact ⟨x, ((mem_rrsetOf coll k x).mp this).1, ((mem_rrsetOf coll k x).mp this).2⟩

theorem walk_authentic (c : Codec) (anchors : List Key) :
    ∀ (links : List Link) (z : Name) (ks : List Key) (z' : Name) (ks' : List Key),
      Authentic sv dm now c anchors z ks →
      walk sv dm now c z ks links = some (z', ks') → Authentic sv dm now c anchors z' ks' := by
  intro links
  induction links with
  | nil =>
    intro z ks z' ks' ha h
    simp only [walk, Option.some.injEq, Prod.mk.injEq] at h
    obtain ⟨rfl, rfl⟩ := h
    exact ha
  | cons l rest ih =>
    intro z ks z' ks' ha h
    unfold walk at h
    split at h; · cases h
    rename_i hz
    split at h; · cases h
    rename_i hds
    simp only at h
    split at h; · cases h
    rename_i hne
    split at h; · cases h
    rename_i hvds
    split at h; · cases h
    rename_i hkeys
    apply ih l.zone _ z' ks' _ h
    -- facts
    have hz' : nameInZone l.zone z = true ∧ l.zone ≠ z := by
      simp only [Bool.not_eq_true', Bool.and_eq_false_imp] at hz
      by_cases h1 : nameInZone l.zone z = true
      · by_cases h2 : l.zone = z
        · exfalso; have := hz; simp [h2] at this
        · exact ⟨h1, h2⟩
      · exfalso; have := hz; simp [h1] at this
    have hdsok : verifyRRSIG sv now z ks l.dsMsg = .ok := by
      by_cases hq : verifyRRSIG sv now z ks l.dsMsg = .ok
      · exact hq
      · exfalso; exact hds (by simp [hq])
    have hkeyok : verifyRRSIG sv now l.zone
        (anchoredKeys dm (zoneKeys l.zone ((keySetOf l.zone l.keyMsg).map c.decodeKey))
          ((dsSetOf l.zone z l.dsMsg).map c.decodeDS)) l.keyMsg = .ok := by
      by_cases hq : verifyRRSIG sv now l.zone
          (anchoredKeys dm (zoneKeys l.zone ((keySetOf l.zone l.keyMsg).map c.decodeKey))
            ((dsSetOf l.zone z l.dsMsg).map c.decodeDS)) l.keyMsg = .ok
      · exact hq
      · exfalso; exact hkeys (by simp [hq])
    have hnonempty : (dsSetOf l.zone z l.dsMsg) ≠ [] ∧ (keySetOf l.zone l.keyMsg) ≠ [] := by
      simp only [Bool.or_eq_true, List.isEmpty_iff, List.map_eq_nil_iff, not_or] at hne
      refine ⟨hne.1, ?_⟩
      intro hk
      apply hne.2
      simp [zoneKeys, hk]
    -- the DS RRset is signed by a parent key
    obtain ⟨rd, hrd, hrdk⟩ := rrsetOf_nonempty_mem hnonempty.1
    obtain ⟨sd, hsd, kp, hkp, hbd, hsvd, _⟩ := (verifyRRSIG_sound hdsok).2 rd hrd
    rw [hrdk] at hbd hsvd
    -- the DNSKEY RRset is signed by an anchored key
    obtain ⟨rk, hrk, hrkk⟩ := rrsetOf_nonempty_mem hnonempty.2
    obtain ⟨sk, hsk, k, hk, hbk, hsvk, _⟩ := (verifyRRSIG_sound hkeyok).2 rk hrk
    rw [hrkk] at hbk hsvk
    obtain ⟨hkin, d, hd, h1, h2, h3, h4⟩ := anchoredKeys_sound hk
    exact Authentic.child z ks l.zone l.dsMsg l.keyMsg sd kp d k sk ha hz'.1 hz'.2 hsd hkp hbd hsvd hd hkin
      h1 h2 h3 h4 hsk hbk hsvk

/-- **`chain_authentic`.**  If the code's walk from the live trust set down the links succeeds
and ends at zone `z` with key set `ks`, then `ks` are authentic keys of `z` in the sense of
`Authentic` — at every cut the DS RRset was signed by an authentic parent key and the child's
DNSKEY RRset by a key that DS RRset authenticates.  (Full strength since the repair of
`Resolver.verifyDNSSEC`, a7f9f7d: before it the last premise of `Authentic.child` held only for
SOME key of the RRset, and this theorem was false — see notes/C01.md.) -/
theorem chain_authentic (c : Codec) (anchors : List Key) (rootKeyMsg : Msg) (links : List Link)
    (z : Name) (ks : List Key)
    (h : chainWalk sv dm now c anchors rootKeyMsg links = some (z, ks)) :
    Authentic sv dm now c anchors z ks := by
  unfold chainWalk at h
  split at h; · cases h
  rename_i hroot
  simp only at h
  split at h; · cases h
  rename_i hany
  apply walk_authentic c anchors links [] _ z ks _ h
  have hrk : verifyRootKeys sv now anchors rootKeyMsg = .ok := by
    by_cases hq : verifyRootKeys sv now anchors rootKeyMsg = .ok
    · exact hq
    · exfalso; exact hroot (by simp [hq])
  unfold verifyRootKeys at hrk
  simp only at hrk
  split at hrk; · cases hrk
  have hne : keySetOf [] rootKeyMsg ≠ [] := by
    intro hk
    apply hany
    simp [zoneKeys, hk]
  obtain ⟨rk, hrkm, hrkk⟩ := rrsetOf_nonempty_mem hne
  obtain ⟨s, hs, a, ha, hb, hsv, _⟩ := (verifyRRSIG_sound hrk).2 rk hrkm
  rw [hrkk] at hb hsv
  rw [List.mem_filter] at ha
  exact Authentic.root rootKeyMsg a s ha.1 (by simpa using ha.2) hs hb hsv

/-- **Every verdict of `verifyDNSSEC` rests on authentic keys.**  `verifyDNSSEC` checks a response
of zone `p` (a DS answer, a DS denial, a referral, data) with the DNSKEY RRset it fetches itself.
HYPOTHESIS `hk`: that RRset is the one the walk validated — which is what the code guarantees by
fetching it with a CD=0 sub-query whatever the CD bit of the response under check is (regenerated
shape facts `shape_key_fetch_is_validated`, `shape_cd_fetch_only_before_explicit_validation`).
Then a `verified` verdict means: the keys are `Authentic` and every collected RRset of the response
— in particular the NSEC / DS RRsets a "no DS here" verdict is read from — carries a signature that
verifies under one of THOSE keys.  A key merely padded into an unvalidated DNSKEY answer proves nothing. -/
theorem verdict_rests_on_authentic_keys (c : Codec) (anchors : List Key) (rootKeyMsg : Msg) (links : List Link)
    (p : Name) (pks dnskeys : List Key) (parentDS : List DS) (resp : Msg)
    (hw : chainWalk sv dm now c anchors rootKeyMsg links = some (p, pks))
    (hk : zoneKeys p dnskeys = pks)
    (hv : verifyDNSSEC sv dm now p dnskeys parentDS false false resp = .verified) :
    Authentic sv dm now c anchors p pks ∧
    ∀ r ∈ collected p resp, ∃ s ∈ resp.sigs, ∃ k ∈ pks,
      Bound now k s (rrsetOf (collected p resp) (keyOf r)) ∧ sv k s (rrsetOf (collected p resp) (keyOf r)) = true := by
  refine ⟨chain_authentic c anchors rootKeyMsg links p pks hw, ?_⟩
  unfold verifyDNSSEC at hv
  simp only [Bool.false_eq_true, if_false] at hv
  split at hv; · cases hv
  split at hv; · cases hv
  split at hv
  · cases hv
  · cases hv
  · split at hv
    · rename_i hok
      rw [hk] at hok
      intro r hr
      obtain ⟨s, hs, k, hkk, hb, hsv, _⟩ := (verifyRRSIG_sound hok).2 r hr
      exact ⟨s, hs, k, hkk, hb, hsv⟩
    · cases hv

/-- **"Insecure" never comes from the response under check.**  `verifyDNSSEC` says `(false, nil)` —
which every caller reads as "treat as unsigned" — only when the PARENT's DS RRset has no member this
validator can use (RFC 6840 §5.2) or the question is for RRSIG records themselves; whatever the
response's own RRSIGs claim (unimplemented algorithm, unknown key tag, …) ends in `verified` or in an
error, because `verifyRRSIG` has no third verdict. -/
theorem insecure_verdict_only_from_parent_ds {signer : Name} {dnskeys : List Key} {pds : List DS} {isKey qR : Bool} {resp : Msg}
    (h : verifyDNSSEC sv dm now signer dnskeys pds isKey qR resp = .insecure) :
    verifyDS dm (zoneKeys signer dnskeys) pds = .unsupportedOnly ∨
      (verifyDS dm (zoneKeys signer dnskeys) pds = .matched ∧ qR = true) := by
  unfold verifyDNSSEC at h
  simp only at h
  split at h; · cases h
  split at h; · cases h
  split at h
  · rename_i hds; exact Or.inl hds
  · cases h
  · rename_i hds
    split at h
    · rename_i hq; exact Or.inr ⟨hds, hq⟩
    · split at h <;> cases h

example : ∀ r : Res, r = .ok ∨ ∃ e, r = .fail e := by intro r; cases r <;> simp

/-- an authentic chain starts at a configured anchor: with an empty trust set nothing is authentic. -/
theorem authentic_needs_anchor (c : Codec) (anchors : List Key) (z : Name) (ks : List Key)
    (h : Authentic sv dm now c anchors z ks) : anchors ≠ [] := by
  induction h with
  | root m a s ha _ _ _ _ => intro hn; rw [hn] at ha; simp at ha
  | child _ _ _ _ _ _ _ _ _ _ _ _ _ _ _ _ _ _ _ _ _ _ _ _ _ _ ih => exact ih

/-! ## fail closed without a trust anchor -/

/-- **No trust anchor ⇒ error on every path**: with validation on, CD=0 and an empty live trust
set, `answer`, `authority` and `validateDelegation` all return `ErrTrustAnchorsUnavailable`
whatever the response and the helper verdicts are, and the chain walk yields nothing. -/
theorem no_anchor_fail_closed (qname : Name) (cands : List Cand) (a b n1 n2 n3 n4 p : Bool)
    (nsp : Deleg) (cds : List DS) (c : Codec) (m : Msg) (links : List Link) :
    answerDecision true false false qname cands a b = .fail .anchors ∧
    authorityDecision true false false qname cands a b n1 n2 n3 n4 = .fail .anchors ∧
    delegationDecision true false false qname p cands nsp cds n1 n2 n3 n4 = .fail .anchors ∧
    chainWalk sv dm now c [] m links = none := by
  refine ⟨by simp [answerDecision], by simp [authorityDecision], by simp [delegationDecision], ?_⟩
  simp [chainWalk, verifyRootKeys]

/-- **Losing the anchors in mid-history fails every fresh validation**, whatever was cached: below a
cached secure cut (DS set inherited), below a cached INSECURE cut (empty DS set) and at the root
alike, `answer` returns `ErrTrustAnchorsUnavailable` — the gate does not depend on `parentDS` or on
the zone that answered (the seeded change that folded it into `rootParentDS` made it depend on both). -/
theorem anchor_loss_fails_below_cached_cuts (qname zone : Name) (pds ads : List DS) (cands : List Cand) (probe pi : Bool) :
    answerAt true false false qname zone pds ads cands probe pi = .fail .anchors := by
  simp [answerAt]

example : answerAt true false false ["test", "zone", "www"] ["test", "zone"] [] [] [] false true = .fail .anchors := by decide

/-- the gates are in place in the tree under check (regenerated `go/ast` shape facts):
`hasTrustAnchors` is tested, with an error return, before the first signer lookup of each of the
three functions; `ValidateSigner` guards each signer loop before `findDS` / `verifyDNSSEC` /
`isZoneSecure`; `verifyDNSSEC` hands the DS-anchored subset to the check of the signer's own
DNSKEY response; `answer` / `authority` derive the root's DS set from the anchors (`rootParentDS`)
before judging anything; `resolve` hands a bare NXDOMAIN and an empty NOERROR to `authority`. -/
theorem gates_present_in_tree :
    SdnsVerif.Gen.C01.shape_anchor_gate_answer = true ∧
    SdnsVerif.Gen.C01.shape_anchor_gate_authority = true ∧
    SdnsVerif.Gen.C01.shape_anchor_gate_validateDelegation = true ∧
    SdnsVerif.Gen.C01.shape_signer_checked_before_findds_answer = true ∧
    SdnsVerif.Gen.C01.shape_signer_checked_before_findds_authority = true ∧
    SdnsVerif.Gen.C01.shape_signer_checked_before_findds_validateDelegation = true ∧
    SdnsVerif.Gen.C01.shape_verifydnssec_anchors_own_dnskey_rrset = true ∧
    SdnsVerif.Gen.C01.shape_root_ds_from_anchors_answer = true ∧
    SdnsVerif.Gen.C01.shape_root_ds_from_anchors_authority = true ∧
    SdnsVerif.Gen.C01.shape_bare_denials_go_through_authority = true ∧
    SdnsVerif.Gen.C01.shape_key_fetch_is_validated = true ∧
    SdnsVerif.Gen.C01.shape_cd_fetch_only_before_explicit_validation = true ∧
    SdnsVerif.Gen.C01.shape_wildcard_proof_from_filtered_authority = true ∧
    SdnsVerif.Gen.C01.shape_validated_denial_keeps_signer_zone_only = true ∧
    SdnsVerif.Gen.C01.shape_dname_target_ad_anded_whatever_the_target_carries = true ∧
    SdnsVerif.Gen.C01.shape_soa_beside_ns_goes_through_allowlist = true ∧
    SdnsVerif.Gen.C01.shape_zone_security_judged_for_serving_zone_answer = true ∧
    SdnsVerif.Gen.C01.shape_zone_security_judged_for_serving_zone_authority = true ∧
    SdnsVerif.Gen.C01.shape_zone_security_judged_for_serving_zone_validateDelegation = true ∧
    SdnsVerif.Gen.C01.shape_private_lookup_keyed_on_request_cd = true ∧
    SdnsVerif.Gen.C01.shape_window_checked_on_real_clock = true := by
  decide

/-! ## a zone is treated as unsigned only on proof -/

/-- `authenticatedDelegationDS` says "insecure" only for a DS response that validated under the
parent's keys and either carries a DS RRset without a supported member or carries no DS and a
verified NSEC3 / NSEC delegation proof. -/
theorem delegation_insecure_only_on_proof {verify : VRes} {ds : List DS} {h3 o3 h1 o1 : Bool}
    (h : authenticatedDelegationDS verify ds h3 o3 h1 o1 = .insecure) :
    verify = .verified ∧
      ((ds ≠ [] ∧ ∀ d ∈ ds, supportedDS d = false) ∨
       (ds = [] ∧ ((h3 = true ∧ o3 = true) ∨ (h3 = false ∧ h1 = true ∧ o1 = true)))) := by
  unfold authenticatedDelegationDS at h
  split at h
  · cases h
  · cases h
  · refine ⟨rfl, ?_⟩
    split at h
    · rename_i hne
      split at h
      · cases h
      · rename_i hany
        left
        refine ⟨by simpa using hne, ?_⟩
        intro d hd
        cases hsd : supportedDS d
        · rfl
        · exact absurd (List.any_eq_true.mpr ⟨d, hd, hsd⟩) hany
    · rename_i he
      have hde : ds = [] := by simpa using he
      right
      refine ⟨hde, ?_⟩
      cases h3 <;> cases o3 <;> cases h1 <;> cases o1 <;> simp_all

/-- **The NSEC proof of an insecure delegation**: `VerifyDelegationNSEC` succeeds only on an NSEC
owned by the delegation point with the NS bit set and BOTH the DS and the SOA bit clear (an NSEC
that lists DS says the opposite; one that lists SOA is the child's apex, not the parent's cut). -/
theorem delegation_nsec_proof {delegation : Name} {nsecs : List DelegNSEC}
    (h : verifyDelegationNSEC delegation nsecs = .ok) :
    ∃ n ∈ nsecs, n.owner = delegation ∧ n.ns = true ∧ n.ds = false ∧ n.soa = false := by
  induction nsecs with
  | nil => simp [verifyDelegationNSEC] at h
  | cons n t ih =>
    unfold verifyDelegationNSEC at h
    split at h
    · obtain ⟨x, hx, hp⟩ := ih h; exact ⟨x, by simp [hx], hp⟩
    · rename_i ho
      split at h; · cases h
      rename_i hns
      split at h; · cases h
      rename_i hds
      refine ⟨n, by simp, by simpa using ho, by simpa using hns, ?_, ?_⟩ <;>
        (cases hd : n.ds <;> cases hs : n.soa <;> simp_all)

-- all eight subsets of {NS, DS, SOA} at the delegation point: exactly {NS} proves it
example : ∀ ns ds soa : Bool, (verifyDelegationNSEC ["test", "victim"] [⟨["test", "victim"], ns, ds, soa⟩] = .ok) =
    (ns = true ∧ ds = false ∧ soa = false) := by decide

/-- **Who may deny what at a name** (RFC 6840 §4.1): the exact-owner NODATA proof is accepted only from
a record without the type and without CNAME that SPEAKS for the type — the parent's delegation-point
NSEC (NS set, SOA clear) speaks for DS only, the child's apex NSEC (SOA set) never for DS. -/
theorem nodata_exact_denial {isDS : Bool} {l : List (Name × Bool × Bool × Bool)} {q : Name}
    (h : verifyNodataExact isDS l q = some .ok) :
    ∃ soa ns, (q, false, soa, ns) ∈ l ∧ (isDS = true → soa = false) ∧ (isDS = false → ns = true → soa = true) := by
  induction l with
  | nil => simp [verifyNodataExact] at h
  | cons x t ih =>
    obtain ⟨owner, ty, soa, ns⟩ := x
    unfold verifyNodataExact at h
    split at h
    · obtain ⟨s', n', hm, h1, h2⟩ := ih h
      exact ⟨s', n', by simp [hm], h1, h2⟩
    · rename_i ho
      have hq : owner = q := by simpa using ho
      split at h; · cases h
      rename_i hty
      split at h; · cases h
      rename_i hds
      split at h; · cases h
      rename_i hns
      subst hq
      refine ⟨soa, ns, ?_, ?_, ?_⟩
      · have : ty = false := by simpa using hty
        simp [this]
      · intro hd; subst hd; cases soa <;> simp_all
      · intro hd hn; subst hd; subst hn; cases soa <;> simp_all

example : verifyNodataExact false [(["example", "child"], false, false, true)] ["example", "child"] = some .badDelegation := by decide
example : verifyNodataExact true [(["example", "child"], false, false, true)] ["example", "child"] = some .ok := by decide

/-- **`insecure_only_on_proof` (answer / authority).**  With CD=0, unsigned data is accepted only
when (a) the response carries no usable signature and `isZoneSecure` said the zone has no DS
chain, or `provenInsecureDelegation` succeeded, or (b) a candidate signer that passed
`ValidateSigner` got an EMPTY DS set from the (validated) DS lookup and `isZoneSecure` said
insecure.  A candidate that fails `ValidateSigner` can never cause it. -/
theorem insecure_only_on_proof {on anchorsOk : Bool} {qname : Name} {cands : List Cand} {zs pi : Bool}
    (h : answerDecision on anchorsOk false qname cands zs pi = .acceptedInsecure) :
    (cands = [] ∧ (zs = false ∨ pi = true)) ∨
    ∃ c ∈ cands, validateSigner c.signerEmpty c.signer qname = true ∧ c.findDS = some [] ∧ c.zoneSecure = false := by
  unfold answerDecision at h
  simp only [Bool.false_eq_true, if_false] at h
  split at h; · cases h
  split at h
  · rename_i he
    left
    refine ⟨by simpa using he, ?_⟩
    split at h
    · cases h
    · rename_i hc
      cases zs <;> cases pi <;> simp_all
  · right
    exact answerLoop_insecure qname cands _ h

/-- **The root level is no exception** (after a185dbb).  A response served by a root server that
carries no usable signature is fatal whenever validation is on, CD=0 and the trust anchors yield a
supported DS for the root — unless an insecure delegation below the root is proven.  (Before the
repair `parentDS` was empty there, `isZoneSecure` said "insecure" and any unsigned answer that
claimed to come from a root server was accepted for any name.) -/
theorem root_unsigned_is_fatal {qname : Name} {anchorDS : List DS} {d : DS} {rest : List DS} {probe : Bool}
    (ha : anchorDS = d :: rest) (hown : d.owner = []) (hsup : supportedDS d = true) :
    answerAt true true false qname [] [] anchorDS [] probe false = .fail .nosigs := by
  subst ha
  simp [answerAt, rootParentDS, answerDecision, isZoneSecure, hown, hsup]

/-- and for any zone: with CD=0 an unsigned response is accepted by `answer` only if the DS chain
says the serving zone is insecure (no supported DS inherited, or the DS walk said so) or the
insecure delegation is proven. -/
theorem unsigned_accepted_only_if_insecure {on anchorsOk : Bool} {qname zone : Name} {pds ads : List DS}
    {probe pi : Bool}
    (h : answerAt on anchorsOk false qname zone pds ads [] probe pi = .acceptedInsecure) :
    pi = true ∨ ∃ p, rootParentDS on pds ads zone = some p ∧ isZoneSecure p zone probe = false := by
  unfold answerAt at h
  simp only [Bool.false_eq_true, if_false] at h
  split at h; · cases h
  split at h
  · cases h
  · rename_i p hp
    rcases insecure_only_on_proof h with ⟨_, hz | hpi⟩ | ⟨c, hc, _⟩
    · exact Or.inr ⟨p, hp, hz⟩
    · exact Or.inl hpi
    · simp at hc

/-- **Nothing that reads as an answer or a denial bypasses validation** (after dc006eb): the only
responses `resolve` hands back unvalidated are data-less error replies (rcode neither NOERROR nor
NXDOMAIN, no answer, no authority); a bare NXDOMAIN and an empty NOERROR go through `authority`. -/
theorem only_dataless_errors_are_relayed {rcode nAns nNs : Nat} {minimized : Bool}
    (h : dispatch rcode nAns nNs minimized = .relay) :
    rcode ≠ 0 ∧ rcode ≠ 3 ∧ nAns = 0 ∧ nNs = 0 := by
  unfold dispatch at h
  split at h
  · rename_i hc
    simp only [Bool.and_eq_true, bne_iff_ne, ne_eq, beq_iff_eq] at hc
    split at h; · cases h
    split at h; · cases h
    rename_i h3
    exact ⟨hc.1.1, by simpa using h3, hc.1.2, hc.2⟩
  · split at h; · cases h
    split at h; · cases h
    split at h <;> cases h

example : dispatch 3 0 0 false = .authority := by decide
example : dispatch 0 0 0 false = .authority := by decide
example : dispatch 5 0 0 false = .relay := by decide

/-- **The choice of signer cannot downgrade a signed zone.**  "Is the zone signed?" is one fact about the
zone that served the response (regenerated shape facts `shape_zone_security_judged_for_serving_zone_*`:
`isZoneSecure(…, zone)`, no argument taken from the candidate signer), so every candidate of the loop
sees the same verdict `zs`.  If the serving zone is signed (`zs = true`) then NO candidate signer —
in particular not an RRSIG SignerName rewritten to a non-delegation name below the zone, for which
the DS lookup genuinely comes back empty — gets the response accepted as insecure: the outcome is a
validated one or an error. -/
theorem signed_zone_not_downgraded_by_signer_choice {on anchorsOk : Bool} {qname : Name} {cands : List Cand} {a b : Bool}
    (hne : cands ≠ []) (hzs : ∀ c ∈ cands, c.zoneSecure = true) :
    answerDecision on anchorsOk false qname cands a b ≠ .acceptedInsecure := by
  intro h
  rcases insecure_only_on_proof h with ⟨he, _⟩ | ⟨c, hc, _, _, hz⟩
  · exact hne he
  · rw [hzs c hc] at hz; cases hz

example : answerDecision true true false ["test", "zone", "www"]
    [{ signer := ["test", "zone", "www"], findDS := some [], zoneSecure := true, verify := .verified }] true false = .fail .dsrecords := by decide

/-- the same for the delegation path: the child is treated as insecure only for one of the
listed reasons; in particular never because a signer outside the ancestry of the name was offered. -/
theorem delegation_decision_insecure {on anchorsOk : Bool} {qname : Name} {p : Bool} {cands : List Cand}
    {nsp : Deleg} {cds : List DS} {h3 o3 h1 o1 : Bool}
    (h : delegationDecision on anchorsOk false qname p cands nsp cds h3 o3 h1 o1 = .insecure) :
    (cands = [] ∧ (p = false ∨ nsp = .insecure)) ∨
    (∃ c ∈ cands, validateSigner c.signerEmpty c.signer qname = true ∧
        ((c.findDS = some [] ∧ c.zoneSecure = false) ∨ c.verify = .insecure ∨
         (c.verify = .verified ∧ cds = [] ∧ ((h3 = true ∧ o3 = true) ∨ (h3 = false ∧ h1 = true ∧ o1 = true))))) := by
  unfold delegationDecision at h
  simp only [Bool.false_eq_true, if_false] at h
  split at h; · cases h
  split at h
  · rename_i he
    left
    refine ⟨by simpa using he, ?_⟩
    split at h
    · left; rename_i hp; simpa using hp
    · right; exact h
  · right
    split at h
    · cases h
    · rename_i hl
      obtain ⟨c, hc, hv, hds, hzs⟩ := answerLoop_insecure qname _ _ hl
      obtain ⟨c0, hc0, rfl⟩ := List.mem_map.mp hc
      exact ⟨c0, hc0, hv, Or.inl ⟨hds, hzs⟩⟩
    · rename_i hl
      -- the loop never yields passthrough
      exfalso
      have : ∀ (cs : List Cand) (e : Err), answerLoop qname cs e ≠ .passthrough := by
        intro cs
        induction cs with
        | nil => intro e; simp [answerLoop]
        | cons c t ih =>
          intro e
          unfold answerLoop
          split; · exact ih _
          split; · exact ih _
          split
          · split; · exact ih _
            · simp
          · split
            · exact ih _
            · simp
            · split <;> simp
      exact this _ _ hl
    · rename_i hl
      obtain ⟨c, hc, hv, _, hor⟩ := answerLoop_validated qname _ _ _ hl
      obtain ⟨c0, hc0, rfl⟩ := List.mem_map.mp hc
      rcases hor with ⟨_, _, had⟩ | ⟨hver, _⟩
      · simp at had
      · exact ⟨c0, hc0, hv, Or.inr (Or.inl hver)⟩
    · rename_i hl
      obtain ⟨c, hc, hv, _, hor⟩ := answerLoop_validated qname _ _ _ hl
      obtain ⟨c0, hc0, rfl⟩ := List.mem_map.mp hc
      rcases hor with ⟨hver, _, _⟩ | ⟨_, had⟩
      · refine ⟨c0, hc0, hv, Or.inr (Or.inr ⟨hver, ?_⟩)⟩
        split at h
        · cases h
        · rename_i hcd
          refine ⟨by simpa using hcd, ?_⟩
          revert h
          cases h3 <;> cases o3 <;> cases h1 <;> cases o1 <;> simp
      · simp at had

/-- AD is put on a response only by a candidate signer that passed `ValidateSigner`, had a
non-empty DS set and verified (and, for answers, passed the wildcard check). -/
theorem validated_only_by_verified_ancestor_signer {on anchorsOk : Bool} {qname : Name} {cands : List Cand} {zs pi : Bool}
    (h : answerDecision on anchorsOk false qname cands zs pi = .validated true) :
    ∃ c ∈ cands, validateSigner c.signerEmpty c.signer qname = true ∧ (∃ ds, c.findDS = some ds ∧ ds ≠ []) ∧
      c.verify = .verified ∧ c.wildcard = .ok ∧ c.wildcardSecure = true := by
  unfold answerDecision at h
  simp only [Bool.false_eq_true, if_false] at h
  split at h; · cases h
  split at h
  · split at h <;> cases h
  · obtain ⟨c, hc, hv, hds, hor⟩ := answerLoop_validated qname cands _ _ h
    rcases hor with ⟨h1, h2, h3⟩ | ⟨_, h3⟩
    · exact ⟨c, hc, hv, hds, h1, h2, h3.symm⟩
    · cases h3

/-! ## the AD bit toward the client -/

/-- **`ad_implies`.**  On every serving route (resolver write-back or cache hit, decoded or wire,
with any number of chased CNAME hops, with or without DNS64, any transport) a client-visible AD
bit implies: the client did not set CD, it set DO or AD, the reply is not truncated, DNS64 did not
rewrite it, the resolver reported the answer validated, and so did every chased hop. -/
theorem ad_implies {validated : Bool} {hops : List Bool} {fromCache : Bool} {r : ReqFlags} {d64 tc : Bool}
    (h : clientAD validated hops fromCache r d64 tc = true) :
    r.cd = false ∧ (r.doBit = true ∨ r.ad = true) ∧ tc = false ∧ d64 = false ∧
      validated = true ∧ ∀ hop ∈ hops, hop = true := by
  have key : chaseAD validated hops = true := by
    cases hc : chaseAD validated hops
    · unfold clientAD at h
      rw [hc] at h
      cases fromCache <;> simp [cacheHitAD, dns64AD, ednsWriteAD] at h
    · rfl
  obtain ⟨hv, hh⟩ := (chaseAD_true _ _).mp key
  unfold clientAD at h
  rw [key] at h
  rcases r with ⟨cd, dob, ad, opt⟩
  refine ⟨?_, ?_, ?_, ?_, hv, hh⟩ <;>
    (cases fromCache <;> cases cd <;> cases dob <;> cases ad <;> cases d64 <;> cases tc <;>
      simp [cacheHitAD, dns64AD, ednsWriteAD, ednsNoAD] at h ⊢)

-- non-vacuity: AD does reach a DO client over a validated two-hop chase from cache
example : clientAD true [true, true] true { cd := false, doBit := true, ad := false } false false = true := by decide
-- and one unvalidated hop removes it
example : clientAD true [true, false] false { cd := false, doBit := true, ad := false } false false = false := by decide

/-! ## errors toward the client -/

def allErrs : List Err :=
  [.nokey, .missing, .nosigs, .period, .alg, .badsig, .noksk, .mismatchds, .convert, .nodnskey,
   .emptyds, .dsrecords, .anchors, .wildcard, .nsecmissing, .denial]

/-- **`error_is_servfail`.**  Every validation error becomes rcode SERVFAIL with no data and no
AD, and carries an Extended DNS Error option exactly when the request had an OPT record; the
code table of the model is the one the tree's `ErrorToEDE` computes, and SERVFAIL is 2. -/
theorem error_is_servfail (e : Err) (hasOPT : Bool) :
    (errorReply e hasOPT).rcode = SdnsVerif.Gen.C01.rcode_servfail ∧ (errorReply e hasOPT).ad = false ∧
    (errorReply e hasOPT).answers = 0 ∧ ((errorReply e hasOPT).ede.isSome = hasOPT) ∧
    SdnsVerif.Gen.C01.ede_codes = allErrs.map Err.ede ∧
    SdnsVerif.Gen.C01.err_classes = allErrs.map Err.str := by
  refine ⟨rfl, rfl, rfl, ?_, by decide, by decide⟩
  cases hasOPT <;> simp [errorReply]

/-- every failing decision of the three validation entry points is such an error reply. -/
theorem decisions_fail_to_servfail (o : Outcome) (e : Err) (hasOPT : Bool) (_h : o = .fail e) :
    (errorReply e hasOPT).rcode = 2 := rfl

/-! ## the validity window at its edges -/

/-- **the window is closed at both ends and one second wide at its edges**: away from the serial wrap a
signature is valid at its inception second and at its expiration second, and invalid one second before
the one and one second after the other — no tolerance either way. (`ValidityPeriod` is the only window
test of the tree and is handed the real clock: `shape_window_checked_on_real_clock`.) -/
theorem inWindow_edges (s : Sig) (hle : s.inception ≤ s.expiration)
    (hspan : s.expiration - s.inception < 2147483647) :
    inWindow (s.inception : Int) s = true ∧ inWindow ((s.inception : Int) - 1) s = false ∧
    inWindow (s.expiration : Int) s = true ∧ inWindow ((s.expiration : Int) + 1) s = false := by
  have h1 := @inWindow_plain (s.inception : Int) s (by omega) (by omega)
  have h2 := @inWindow_plain ((s.inception : Int) - 1) s (by omega) (by omega)
  have h3 := @inWindow_plain (s.expiration : Int) s (by omega) (by omega)
  have h4 := @inWindow_plain ((s.expiration : Int) + 1) s (by omega) (by omega)
  refine ⟨h1.mpr ⟨by omega, by omega⟩, ?_, h3.mpr ⟨by omega, by omega⟩, ?_⟩
  · cases h : inWindow ((s.inception : Int) - 1) s
    · rfl
    · have := h2.mp h; omega
  · cases h : inWindow ((s.expiration : Int) + 1) s
    · rfl
    · have := h4.mp h; omega

/-- a signature never validates an instant outside `[inception, expiration]` (wrap-free). -/
theorem inWindow_outside (s : Sig) (now : Int) (hi : ((s.inception : Int) - now).natAbs < 2147483648)
    (he : ((s.expiration : Int) - now).natAbs < 2147483648)
    (hout : now < (s.inception : Int) ∨ (s.expiration : Int) < now) : inWindow now s = false := by
  cases h : inWindow now s
  · rfl
  · have := (inWindow_plain s hi he).mp h; omega

-- non-vacuity: a one-hour window, second by second at its edges
private def edgeSig (inc exp : Nat) : Sig :=
  { id := 0, owner := [], covered := 1, alg := 13, labels := 0, expiration := exp, inception := inc, tag := 0, signer := [] }

example : [inWindow 1789999999 (edgeSig 1790000000 1790003600), inWindow 1790000000 (edgeSig 1790000000 1790003600),
    inWindow 1790003600 (edgeSig 1790000000 1790003600), inWindow 1790003601 (edgeSig 1790000000 1790003600)]
      = [false, true, true, false] := by decide
-- the same across the 2^31 second (January 2038)
example : [inWindow 2147483647 (edgeSig 2147483648 2147483649), inWindow 2147483648 (edgeSig 2147483648 2147483649),
    inWindow 2147483649 (edgeSig 2147483648 2147483649), inWindow 2147483650 (edgeSig 2147483648 2147483649)]
      = [false, true, true, false] := by decide

/-! ## round 9: CD partitions, cuts, failing alias hops -/

/-- **the validator's own fetches stay in their CD partition.** Whatever `Store.GetWithContext` hands
`Resolver.subQuery` was filed under the CD bit of the request itself; in particular a validating (CD=0)
DS / DNSKEY fetch is never served an entry a checking-disabled query left behind unvalidated — it is a
miss and goes to the network, where the reply is validated. -/
theorem private_lookup_keeps_partition {s0 s1 ask p : Bool} (h : privateLookup s0 s1 ask = some p) :
    p = ask ∧ (if ask then s1 else s0) = true := by
  unfold privateLookup at h
  cases ask <;> cases s0 <;> cases s1 <;> simp at h ⊢ <;> first | exact h | exact h.symm

theorem validating_fetch_misses_cd_entries (s1 : Bool) : privateLookup false s1 false = none := by
  cases s1 <;> rfl

-- non-vacuity: both partitions are served to their own readers
example : privateLookup true true false = some false ∧ privateLookup true true true = some true := by decide
example : privateLookup false true false = none := by decide

/-- one step keeps "the validating partition holds no unvalidated key set" and never answers a
validating client with one. -/
theorem keyCache_step_inv (c : KeyCache) (e : KeyEv) (h : c.e0 ≠ some .padded) :
    (c.step e).1.e0 ≠ some .padded ∧ (∀ a, e = .ask false a → (c.step e).2 ≠ some .padded) := by
  rcases c with ⟨e0, e1⟩
  cases e with
  | expire => simp [KeyCache.step]
  | ask cd a =>
    cases cd <;> cases a <;> cases e0 <;> cases e1 <;> simp_all [KeyCache.step, upstreamKeys]

/-- **whatever clients asked before, with whatever CD bits, while upstream was tampered or not, and
whatever ran out in between: the key set the validator's own (CD=0) fetch is served from the cache is
never one that was relayed unvalidated**, and no validating client is answered with one. By induction
over the history. -/
theorem validator_never_served_unvalidated_keys (evs : List KeyEv) :
    ((KeyCache.run { e0 := none, e1 := none } evs).fetch false ≠ some .padded) ∧
    (∀ (i : Nat) (a : Bool), evs[i]? = some (KeyEv.ask false a) →
      (KeyCache.replies { e0 := none, e1 := none } evs)[i]? ≠ some (some KV.padded)) := by
  have inv : ∀ (evs : List KeyEv) (c : KeyCache), c.e0 ≠ some .padded →
      (c.run evs).e0 ≠ some .padded ∧
      (∀ (i : Nat) (a : Bool), evs[i]? = some (KeyEv.ask false a) → (c.replies evs)[i]? ≠ some (some KV.padded)) := by
    intro evs
    induction evs with
    | nil => intro c h; exact ⟨h, by intro i a hi; simp at hi⟩
    | cons e es ih =>
      intro c h
      obtain ⟨h1, h2⟩ := keyCache_step_inv c e h
      obtain ⟨i1, i2⟩ := ih (c.step e).1 h1
      refine ⟨by simpa [KeyCache.run] using i1, ?_⟩
      intro i a hi
      cases i with
      | zero =>
        simp at hi
        simp [KeyCache.replies]
        exact h2 a hi
      | succ j =>
        simp at hi
        simpa [KeyCache.replies] using i2 j a hi
  obtain ⟨h1, h2⟩ := inv evs { e0 := none, e1 := none } (by simp)
  refine ⟨?_, h2⟩
  generalize KeyCache.run { e0 := none, e1 := none } evs = c at h1
  rcases c with ⟨e0, e1⟩
  cases e0 <;> cases e1 <;> simp_all [KeyCache.fetch, privateLookup]

-- non-vacuity: the padded set does sit in the checking-disabled partition, and is served there
example : (KeyCache.run { e0 := none, e1 := none } [.ask true false, .ask false false]).fetch true = some .padded := by decide
example : (KeyCache.run { e0 := none, e1 := none } [.ask true false, .ask false false]).fetch false = some .failed := by decide
example : (KeyCache.run { e0 := none, e1 := none } [.ask true false, .ask false true]).fetch false = some .genuine := by decide
example : (KeyCache.run { e0 := none, e1 := none } [.ask true false]).fetch false = none := by decide

/-- **a reply synthesised from a cached NXDOMAIN cut obeys the AD rule on every route.** AD only toward
CD=0 clients that set DO or AD; a CD=1 client is never answered from the cut at all; DNSSEC records only
toward DO. -/
theorem cut_reply_ad_only_when_asked (r : ReqFlags) :
    ((cutServe r).ad = true → r.cd = false ∧ (r.doBit = true ∨ r.ad = true)) ∧
    (r.cd = true → (cutServe r).hit = false) ∧
    ((cutServe r).dnssec = true → r.doBit = true) := by
  rcases r with ⟨cd, dob, ad, opt⟩
  cases cd <;> cases dob <;> cases ad <;> simp [cutServe, ednsWriteAD, ednsNoAD]

-- non-vacuity: a DO client is told AD with the proof, an AD-only client AD without, a plain client neither
example : cutServe { cd := false, doBit := true, ad := false } = { hit := true, ad := true, dnssec := true } := by decide
example : cutServe { cd := false, doBit := false, ad := true } = { hit := true, ad := true, dnssec := false } := by decide
example : cutServe { cd := false, doBit := false, ad := false } = { hit := true, ad := false, dnssec := false } := by decide

/-- **a cached alias whose target fails is a failure of the whole question.** SERVFAIL, no records, no
AD, and an Extended DNS Error exactly when the client sent an OPT — the hop's own code when it has one. -/
theorem alias_hit_failure_is_servfail_with_ede (hopEDE : Option Nat) (hasOPT : Bool) :
    (hitChaseFailReply hopEDE hasOPT).rcode = SdnsVerif.Gen.C01.rcode_servfail ∧
    (hitChaseFailReply hopEDE hasOPT).ad = false ∧ (hitChaseFailReply hopEDE hasOPT).answers = 0 ∧
    ((hitChaseFailReply hopEDE hasOPT).ede.isSome = hasOPT) ∧
    (∀ c, hopEDE = some c → hasOPT = true → (hitChaseFailReply hopEDE hasOPT).ede = some c) := by
  refine ⟨rfl, rfl, rfl, ?_, ?_⟩
  · cases hasOPT <;> simp [hitChaseFailReply]
  · intro c hc ho
    simp [hitChaseFailReply, hc, ho]

example : (hitChaseFailReply (some 6) true).ede = some 6 ∧ (hitChaseFailReply none true).ede = some 0 ∧
    (hitChaseFailReply (some 6) false).ede = none := by decide

/-! ## regenerated tables -/

/-- the algorithm and digest tables of the tree are the model's: nothing the model treats as
supported is unsupported in the code (a shrinking table would turn signed zones insecure) and the
code supports nothing the model does not know. -/
theorem supported_tables :
    SdnsVerif.Gen.C01.dnskey_algs_supported = supportedAlgs ∧
    SdnsVerif.Gen.C01.ds_digests_supported = supportedDigests ∧
    SdnsVerif.Gen.C01.zone_flag = 256 := by
  decide

/-! ## non-vacuity: a signed answer that verifies, and the same answer with a foreign record -/

def kZ : Key := { id := 1, owner := ["com", "example"], cls := 1, flags := 256, proto := 3, alg := 13, tag := 77 }
def rA : RR := { owner := ["com", "example", "www"], rtype := 1, rdata := 5 }
def sA : Sig :=
  { id := 9, owner := ["com", "example", "www"], covered := 1, alg := 13, labels := 3
    expiration := 2000, inception := 1000, tag := 77, signer := ["com", "example"] }
def rForeign : RR := { owner := ["test", "other"], rtype := 1, rdata := 6 }
def rUnsigned : RR := { owner := ["com", "example", "mail"], rtype := 1, rdata := 6, rank := 1 }
def svAll : Key → Sig → List RR → Bool := fun k s _ => k.id == 1 && s.id == 9

example : verifyRRSIG svAll 1500 ["com", "example"] [kZ] { answer := [rA], ansSigs := [sA] } = .ok := by decide
example : verifyRRSIG svAll 2500 ["com", "example"] [kZ] { answer := [rA], ansSigs := [sA] } = .fail .period := by decide
example : verifyRRSIG svAll 1500 ["com", "example"] [kZ]
    { answer := [rA, rForeign], ansSigs := [sA] } = .fail .missing := by decide
-- an RRset without a signature is fatal although another RRset verified
example : verifyRRSIG svAll 1500 ["com", "example"] [kZ]
    { answer := [rA, rUnsigned], ansSigs := [sA] } = .fail .missing := by decide

end SdnsVerif.Props.C01
