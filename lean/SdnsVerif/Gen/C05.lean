-- REGENERATED on every run by /verif/check from the compiled /repo tree. Do not edit.
namespace SdnsVerif.Gen.C05

def acceptHeader_by_counts : List Nat := [3, 0, 3, 0, 3, 0, 3, 0, 3, 0, 3]
def acceptHeader_by_qr_opcode : List Nat := [0, 2, 2, 2, 0, 2, 2, 2, 2, 2, 2, 2, 2, 2, 2, 2, 1, 1, 1, 1, 1, 1, 1, 1, 1, 1, 1, 1, 1, 1, 1, 1]
def acceptHeader_query_qr0 : Nat := 0
def applyReply_opcodes : List Nat := [32768, 34816, 36864, 38912, 40960, 43008, 45056, 47104, 49152, 51200, 53248, 55296, 57344, 59392, 61440, 63488]
def applyReply_single_bits : List Nat := [32769, 32770, 32772, 32776, 32768, 32800, 32832, 32896, 32768, 33280, 32768, 32768, 32768, 32768, 32768, 32768]
def applyReply_single_bits_op15_rd_cd : List Nat := [63761, 63762, 63764, 63768, 63760, 63792, 63824, 63888, 63760, 64272, 63760, 63760, 63760, 63760, 63760, 63760]
def as112_zone_last_labels : List String := ["arpa"]
def clearAD_single_bits : List Nat := [1, 2, 4, 8, 16, 0, 64, 128, 256, 512, 1024, 2048, 4096, 8192, 16384, 32768]
def clientCookieHexLen : Nat := 16
def codeCookie : Nat := 10
def codeEDE : Nat := 15
def codeKeepalive : Nat := 11
def codeNSID : Nat := 3
def codePadding : Nat := 12
def codeSubnet : Nat := 8
def cookiePreimageMax : Nat := 256
def defaultMsgSize : Nat := 1232
def flagAA : Nat := 1024
def flagAD : Nat := 32
def flagCD : Nat := 16
def flagOpcodeMsk : Nat := 30720
def flagOpcodeSh : Nat := 11
def flagQR : Nat := 32768
def flagRA : Nat := 128
def flagRD : Nat := 256
def flagTC : Nat := 512
def headerLen : Nat := 12
def maxMsgSizeLib : Nat := 65535
def maxTextualAddrLen : Nat := 45
def minMsgSize : Nat := 512
def minMsgSizeLib : Nat := 512
def optFixedLen : Nat := 11
def optOptionHdrLen : Nat := 4
def parsewire_cookie_lens_ok : List Nat := [8, 9, 10, 11, 12, 13, 14, 15, 16, 17, 18, 19, 20, 21, 22, 23, 24, 25, 26, 27, 28, 29, 30, 31, 32, 33, 34, 35, 36, 37, 38, 39, 40]
def parsewire_keepalive_lens_ok : List Nat := [0, 2]
def parsewire_max_label : Nat := 63
def parsewire_max_name : Nat := 255
def parsewire_option_codes_ok : List Nat := [3, 8, 10, 12]
def parsewire_two_cookies_ok : Bool := false
def serverCookieLen : Nat := 40
def tcpKeepaliveUnits : Nat := 80
def typeOPT : Nat := 41
def wire_recomposable_types : List Nat := [1, 5, 6, 16, 28, 43, 46, 47, 50]

end SdnsVerif.Gen.C05
