-- REGENERATED on every run by /verif/check from the compiled /repo tree. Do not edit.
namespace SdnsVerif.Gen.C03

def canonicalname_rewritten_bytes : List Nat := [128, 255]
def cut_salt : Nat := 9232590889316880868
def decoder_ddd_bytes : List Nat := [0, 31, 127, 255]
def decoder_escaped_bytes : List Nat := [32, 34, 39, 40, 41, 46, 59, 64, 92]
def equalfold_covers_ascii_fold : Bool := true
def equalfold_extra_ascii_pairs : List Nat := []
def failure_question_salt : Nat := 6028393302611553803
def failure_zone_salt : Nat := 13394572768568508630
def max_wire_chase_hops : Nat := 10
def max_wire_name_octets : Nat := 255
def special_bytes : List Nat := [32, 34, 39, 40, 41, 46, 59, 64, 92]

end SdnsVerif.Gen.C03
