-- REGENERATED on every run by /verif/check from the compiled /repo tree. Do not edit.
namespace SdnsVerif.Gen.C14

def dnskey_algorithms : List Nat := [5, 7, 8, 10, 13, 14, 15]
def ds_hash_sizes : List Nat := [20, 32, 48]
def ds_hash_types : List Nat := [1, 2, 4]
def ds_supported_types : List Nat := [1, 2, 4]
def key_tag_chunk : Nat := 256
def max_ds_key_material : Nat := 4092
def max_rsa_exponent_bits : Nat := 64
def max_rsa_modulus_bits : Nat := 4096
def max_stdlib_exponent : Nat := 2147483647
def min_rsa_modulus_bits : Nat := 1024
def oversized_limit : Nat := 5456
def own_verifier_algorithms : List Nat := [5, 7, 8, 10, 13, 14, 15]
def rdata_fold_all : List Nat := [2, 3, 4, 5, 6, 7, 8, 9, 12, 14, 15, 17, 18, 21, 24, 26, 33, 35, 36, 39]
def rdata_fold_any : List Nat := [2, 3, 4, 5, 6, 7, 8, 9, 12, 14, 15, 17, 18, 21, 24, 26, 33, 35, 36, 39]
def rdata_name_types : List Nat := [2, 3, 4, 5, 6, 7, 8, 9, 12, 14, 15, 17, 18, 21, 23, 24, 26, 30, 33, 35, 36, 39, 46, 47, 55, 58, 64, 65, 107, 249, 250]
def rsa_prefix_algorithms : List Nat := [5, 7, 8, 10]
def rsa_prefixes : List (List Nat) := [[48, 33, 48, 9, 6, 5, 43, 14, 3, 2, 26, 5, 0, 4, 20], [48, 33, 48, 9, 6, 5, 43, 14, 3, 2, 26, 5, 0, 4, 20], [48, 49, 48, 13, 6, 9, 96, 134, 72, 1, 101, 3, 4, 2, 1, 5, 0, 4, 32], [48, 81, 48, 13, 6, 9, 96, 134, 72, 1, 101, 3, 4, 2, 3, 5, 0, 4, 64]]

end SdnsVerif.Gen.C14
