-- REGENERATED on every run by /verif/check from the compiled /repo tree. Do not edit.
namespace SdnsVerif.Gen.C02

def max_nsec3_iterations : Nat := 150
def max_safe_iterations : Nat := 150
def nodata_exceptions : List Nat := [0, 41, 249, 250, 251, 252, 253, 254, 255]
def nsec3_safe_algorithms : List Nat := [1]
def nsec3_safe_flags : List Nat := [0, 1]

end SdnsVerif.Gen.C02
