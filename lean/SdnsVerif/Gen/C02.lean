-- REGENERATED on every run by /verif/check from the compiled /repo tree. Do not edit.
namespace SdnsVerif.Gen.C02

def max_nsec3_iterations : Nat := 150
def max_safe_iterations : Nat := 150
def nodata_exceptions : List Nat := [0, 41, 249, 250, 251, 252, 253, 254, 255]
def nsec3_safe_algorithms : List Nat := [1]
def nsec3_safe_flags : List Nat := [0, 1]
def shape_ad_is_denial_secure : Bool := true
def shape_aggressive_flag_from_evaluator : Bool := true
def shape_mark_guarded_by_secure_cd_negative : Bool := true
def shape_nsec3_aggressive_needs_secure : Bool := true
def shape_prefetch_admission_guard : Bool := true
def shape_prefetch_cut_needs_nxdomain : Bool := true
def shape_rfc8020_stop_guard : Bool := true
def shape_validator_error_returns_error : Bool := true
def shape_writemsg_cut_needs_nxdomain : Bool := true
def typesset_mismatches : List Nat := []

end SdnsVerif.Gen.C02
