-- REGENERATED on every run by /verif/check from the compiled /repo tree. Do not edit.
namespace SdnsVerif.Gen.C11

def query_timeout_default_ms : Nat := 10000
def regroup_limit : Nat := 1
def rw_table : List (List Nat) := [[0, 1, 0, 1], [0, 0, 0, 0], [0, 1, 0, 1], [0, 1, 0, 1], [0, 1, 0, 1], [0, 0, 0, 0], [0, 1, 0, 1], [0, 0, 0, 0], [1, 0, 1, 1], [1, 0, 1, 1], [1, 0, 1, 1], [1, 0, 1, 1], [1, 0, 1, 1], [1, 0, 0, 1], [1, 0, 1, 1], [1, 0, 0, 1]]
def tcp_class_mismatches : List Nat := []
def tcp_small_frame : Nat := 2048
def tcp_write_wait_ms : Nat := 2000
def wg_timeout_ms : Nat := 15000

end SdnsVerif.Gen.C11
