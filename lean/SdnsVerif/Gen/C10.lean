-- REGENERATED on every run by /verif/check from the compiled /repo tree. Do not edit.
namespace SdnsVerif.Gen.C10

def beginwire_pins_capacity : Bool := true
def cancelwithrcode_allocates_reply : Bool := true
def carrier_reset_in_serveraw : Nat := 1
def carrier_reset_in_serverawinline : Nat := 1
def carrier_reset_in_serverawreplay : Nat := 1
def chain_fields : List String := ["Writer", "Request", "base", "reqStorage", "Meta", "handlers", "pos", "count", "workPolicy", "detachCleanup", "inlineOnly", "handoff", "replay"]
def chain_finish_touches : List String := ["Meta", "Request", "detachCleanup"]
def chain_rebind_resets_writer : Bool := true
def chain_reset_touches : List String := ["Meta", "Request", "Writer", "base", "count", "detachCleanup", "handoff", "inlineOnly", "pos", "replay", "reqStorage"]
def chain_reset_untouched : List String := ["handlers", "workPolicy"]
def chain_resetwire_touches : List String := ["Meta", "Request", "Writer", "base", "count", "detachCleanup", "handoff", "inlineOnly", "pos", "replay"]
def chain_resetwire_untouched : List String := ["handlers", "reqStorage", "workPolicy"]
def dnsclient_defer_and_branch_release : List Nat := []
def edns_servedns_slot_unreset : List Nat := []
def edns_servewire_slot_unreset : List Nat := []
def grouplookup_copies_when_shared : Bool := true
def grouplookup_rewrites_id : Bool := true
def queryer_newchain_calls : Nat := 1
def queryer_putchain_calls : Nat := 1
def reader_sender_slot_past_workers : Bool := true
def rw_fields : List String := ["Transport", "msg", "wire", "size", "rcode", "proto", "remoteip", "internal", "directPack"]
def rw_reset_sets : List String := ["Transport", "directPack", "internal", "msg", "proto", "rcode", "remoteip", "size", "wire"]
def rw_unreset : List Nat := []
def senders_sized_workers_plus_readers : Bool := true
def servemsgby_newchain_calls : Nat := 1
def servemsgby_putchain_calls : Nat := 1
def size_tcp_buf : Nat := 65535
def size_tcp_drain : Nat := 8192
def size_tcp_fill : Nat := 4096
def size_tcp_min_frame : Nat := 12
def size_tcp_small_rx : Nat := 2048
def size_tcp_small_tx : Nat := 16382
def size_udp_batch : Nat := 16
def size_udp_buf : Nat := 4096
def size_udp_tx_max : Nat := 16
def stream_fields : List String := ["conn", "fill", "start", "end", "drain", "held", "werr", "deadline", "armed", "wait"]
def stream_reset_sets : List String := ["armed", "conn", "deadline", "end", "held", "start", "wait", "werr"]
def stream_unreset : List String := ["drain", "fill"]
def tcp_fields : List String := ["engine", "conn", "stream", "slabShard", "rx", "tx", "large", "written", "readTime", "leased", "req", "chain", "carrier", "ednsWriter"]
def tcp_frame_sets : List String := ["conn", "readTime", "stream", "written"]
def tcp_unowned : List String := ["carrier", "chain", "ednsWriter", "engine", "large", "req", "rx", "tx"]
def trypack_pins_capacity : Bool := true
def udp_batch_reader_sets : List String := ["pc", "pktinfo", "pktinfoLen", "raddr", "rawSA", "rawSALen", "readTime", "remote", "replay", "rxLen", "state", "txLen", "written"]
def udp_fields : List String := ["engine", "pc", "slabShard", "rx", "rxLen", "tx", "raddr", "readTime", "pktinfo", "pktinfoLen", "remote", "ipScratch", "req", "chain", "carrier", "ednsWriter", "rawSA", "rawSALen", "txLen", "burst", "written", "replay", "state"]
def udp_portable_reader_sets : List String := ["pc", "pktinfo", "pktinfoLen", "raddr", "rawSALen", "readTime", "remote", "replay", "rxLen", "state", "txLen", "written"]
def udp_release_resets : List String := ["pktinfoLen", "replay", "rxLen", "state", "txLen", "written"]
def udp_unowned : List String := ["carrier", "chain", "ednsWriter", "engine", "ipScratch", "rawSA", "req", "rx", "tx"]
def views_answers_not_copied : List Nat := []

end SdnsVerif.Gen.C10
