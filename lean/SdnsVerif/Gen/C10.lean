-- placeholder until the first run regenerates it
namespace SdnsVerif.Gen.C10

def size_udp_buf : Nat := 4096
def size_udp_batch : Nat := 16
def size_udp_tx_max : Nat := 16
def size_tcp_buf : Nat := 65535
def size_tcp_small_rx : Nat := 2048
def size_tcp_small_tx : Nat := 16382
def size_tcp_fill : Nat := 4096
def size_tcp_drain : Nat := 8192
def size_tcp_min_frame : Nat := 12

end SdnsVerif.Gen.C10
