-- REGENERATED on every run by /verif/check from the compiled /repo tree. Do not edit.
namespace SdnsVerif.Gen.C20

def byte8_rejected_96 : Bool := true
def cached_failure_ede_codes : List Nat := [13]
def clientonly_dns64 : Bool := true
def default_exclude_a : List (List Nat) := [[0, 0, 0, 0, 8], [10, 0, 0, 0, 8], [100, 64, 0, 0, 10], [127, 0, 0, 0, 8], [169, 254, 0, 0, 16], [172, 16, 0, 0, 12], [192, 0, 0, 0, 24], [192, 0, 2, 0, 24], [192, 88, 99, 0, 24], [192, 168, 0, 0, 16], [198, 18, 0, 0, 15], [198, 51, 100, 0, 24], [203, 0, 113, 0, 24], [224, 0, 0, 0, 4], [240, 0, 0, 0, 4], [255, 255, 255, 255, 32]]
def default_exclude_aaaa : List (List Nat) := [[0, 0, 0, 0, 0, 0, 0, 0, 0, 0, 255, 255, 0, 0, 0, 0, 96]]
def dnssec_ede_codes : List Nat := [1, 2, 5, 6, 7, 8, 9, 10, 11, 12, 27]
def dnssec_ede_on_non_servfail : Bool := false
def layout_32 : List Nat := [100, 101, 102, 103, 201, 202, 203, 204, 0, 0, 0, 0, 0, 0, 0, 0]
def layout_40 : List Nat := [100, 101, 102, 103, 104, 201, 202, 203, 0, 204, 0, 0, 0, 0, 0, 0]
def layout_48 : List Nat := [100, 101, 102, 103, 104, 105, 201, 202, 0, 203, 204, 0, 0, 0, 0, 0]
def layout_56 : List Nat := [100, 101, 102, 103, 104, 105, 106, 201, 0, 202, 203, 204, 0, 0, 0, 0]
def layout_64 : List Nat := [100, 101, 102, 103, 104, 105, 106, 107, 0, 201, 202, 203, 204, 0, 0, 0]
def layout_96 : List Nat := [100, 101, 102, 103, 104, 105, 106, 107, 108, 109, 110, 111, 201, 202, 203, 204]
def legal_prefix_bits : List Nat := [32, 40, 48, 56, 64, 96]
def no_soa_ttl_ceiling : Nat := 600
def ptr_synth_ttl : Nat := 600
def wkp_bits : Nat := 96
def wkp_ip : List Nat := [0, 100, 255, 155, 0, 0, 0, 0, 0, 0, 0, 0, 0, 0, 0, 0]

end SdnsVerif.Gen.C20
