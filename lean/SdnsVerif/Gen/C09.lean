-- REGENERATED on every run by /verif/check from the compiled /repo tree. Do not edit.
namespace SdnsVerif.Gen.C09

def add_holddown_hours : Nat := 720
def missing_holddown_hours : Nat := 2160

end SdnsVerif.Gen.C09
