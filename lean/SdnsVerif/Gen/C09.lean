-- REGENERATED on every run by /verif/check from the compiled /repo tree. Do not edit.
namespace SdnsVerif.Gen.C09

def add_holddown_from_first_seen : Bool := true
def add_holddown_hours : Nat := 720
def missing_holddown_from_first_seen : Bool := true
def missing_holddown_hours : Nat := 2160
def shape_both_writes_failed_clears_trust : Bool := true
def shape_corrupt_tombstones_clear_trust : Bool := true
def shape_markers_dropped_only_after_tomb_ok : Bool := true
def shape_missing_clock_starts_at_disappearance : Bool := true
def shape_prefetch_publish_gated_on_prior : Bool := true
def shape_tomb_write_before_state_write : Bool := true
def shape_unreadable_tombstones_clear_trust : Bool := true
def shape_unreadable_tombstones_use_empty_map : Bool := false
def state_file : String := "trust-anchor.db"
def tomb_read_outcomes : List String := ["absent=store:0", "valid=store:1", "zero-length=corrupt", "truncated=corrupt", "one-byte=corrupt", "garbage=corrupt", "directory=corrupt", "unopenable=error"]
def tombstone_file : String := "trust-anchor-tombstones.db"

end SdnsVerif.Gen.C09
