-- REGENERATED on every run by /verif/check from the compiled /repo tree. Do not edit.
namespace SdnsVerif.Gen.C16

def grow_pairs : List (List Nat) := [[8, 6]]

end SdnsVerif.Gen.C16
