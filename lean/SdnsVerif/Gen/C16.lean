-- REGENERATED on every run by /verif/check from the compiled /repo tree. Do not edit.
namespace SdnsVerif.Gen.C16

def cache_delegations : List String := ["Add:SetWithCap", "ForEach:ForEach", "Get:Get", "Len:Len", "Remove:Del", "Stop:Stop"]
def cache_global_locks : Nat := 0
def cache_segments : List Nat := [256, 256, 256, 256]
def cache_wrappers_touching_internals : List Nat := []
def expiry_cleanup_not_conditional : List Nat := []
def grow_pairs : List (List Nat) := [[8, 6], [16, 12], [32, 24], [8, 6], [16, 12], [32, 24], [16, 12], [32, 24], [64, 48], [16, 12], [32, 24], [64, 48], [32, 24], [64, 48], [128, 96], [32, 24], [64, 48], [128, 96], [64, 48], [128, 96], [256, 192], [64, 48], [128, 96], [256, 192], [256, 192], [512, 384], [1024, 768], [2048, 1536], [4096, 3072], [8192, 6144], [262144, 196608], [524288, 393216], [1048576, 786432]]
def len_functions_touching_locks : List Nat := []
def limiter_cleanup_locks : List Nat := [1, 0]
def limiter_global_locks : Nat := 1
def limiter_sampled_evictions : Nat := 6000
def limiter_sampled_no_victim : Nat := 0
def limiter_sampled_own_key : Nat := 0
def limiter_sampled_victim_not_stored : Nat := 0
def mutators_without_write_lock : List Nat := []
def seg_counts : List Nat := [16, 16, 16, 16, 16, 32, 64, 128, 256, 256, 256]
def segmap_count_atomic : Bool := true
def segmap_global_locks : Nat := 0
def segmap_trylocks : Nat := 0
def segment_locks : Nat := 1
def setwithcap_defers : Nat := 0
def setwithcap_max_lock_depth : Nat := 1

end SdnsVerif.Gen.C16
