-- REGENERATED on every run by /verif/check from the compiled /repo tree. Do not edit.
namespace SdnsVerif.Gen.C08

def lease_ceiling_ns : Nat := 43200000000000
def max_denial_proof_ttl_ns : Nat := 10800000000000
def maximumTTL_ns : Nat := 43200000000000
def mono_delegation_set : Bool := true
def mono_delegation_setuntil : Bool := true
def mono_entry_cut : Bool := true
def mono_entry_cut_after_refresh : Bool := true
def mono_entry_stored : Bool := true
def mono_meta_cut : Bool := true
def mono_mincut : Bool := true
def shape_cached_descent_min : Bool := true
def shape_chase_inherits_lineage : Bool := true
def shape_ds_bounds_lease : Bool := true
def shape_flight_key_has_fingerprint : Bool := true
def shape_hit_does_not_store : Bool := true
def shape_lease_anchored_at_observation : Bool := true
def shape_lease_clamped_at_observation : Bool := true
def shape_notecut_after_each_cut : Bool := true
def shape_observed_before_validate : Bool := true
def shape_provisional_bounded_by_cut : Bool := true
def shape_seed_min : Bool := true
def shape_setuntil_from_mincut : Bool := true
def shape_single_clock_read : Bool := true
def shape_subquery_stores_cut : Bool := true
def shape_validreferral_before_setuntil : Bool := true
def wallstep_fabrication_works : Bool := true

end SdnsVerif.Gen.C08
