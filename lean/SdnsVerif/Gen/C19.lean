-- REGENERATED on every run by /verif/check from the compiled /repo tree. Do not edit.
namespace SdnsVerif.Gen.C19

def bad_entry_table : List String := ["-", "20", "2020", "09", "0a", "2031302e302e302e302f38", "31302e302e302e302f3820", "2031302e302e302e302f3820", "0931302e302e302e302f38", "31302e302e302e302f380a", "323030313a6462383a3a2f333220", "31302e302e302e302f3878", "31302e302e302e302f382067617262616765", "31302e302e302e302f382c3139322e302e322e302f3234", "31302e302e302e302f382f38", "31302e302e302e302f38236c616e", "31302e302e302e30", "323030313a6462383a3a", "31302e302e302e302f", "2f38", "312e322e332e342f", "31302e302e302e302f3333", "3a3a2f313239", "31302e302e302e302f2d31", "31302e302e302e302f3038", "31302e302e302e302f2b38", "3031302e302e302e302f38", "31302e302e302f38", "31302e302e302e302e302f38", "666538303a3a3125657468302f3634", "6e6f742d612d63696472", "2a", "302e302e302e302f307830", "616e79"]
def bad_entry_table_rejected : List Bool := [true, true, true, true, true, true, true, true, true, true, true, true, true, true, true, true, true, true, true, true, true, true, true, true, true, true, true, true, true, true, true, true, true, true]
def bad_network_rejected : Bool := true
def code_cookie : Nat := 10
def code_keepalive : Nat := 11
def code_subnet : Nat := 8
def default_enabled_allows_everyone : Bool := true
def default_forward_v4 : Nat := 24
def default_forward_v6 : Nat := 56
def default_min_scope_v4 : Nat := 24
def default_min_scope_v6 : Nat := 56
def disabled_build_is_nil : Bool := true
def duplicate_network_accepted : Bool := true
def max_accepted_forward_v4 : Nat := 32
def max_accepted_forward_v6 : Nat := 128
def max_accepted_min_scope_v4 : Nat := 32
def max_accepted_min_scope_v6 : Nat := 128
def max_cache_ttl_s : Nat := 86400
def min_cache_ttl_s : Nat := 5
def shipped_cache_limit_ttl_s : Nat := 300
def shipped_client_networks : Nat := 0
def shipped_enabled : Bool := false
def shipped_forward_v4 : Nat := 24
def shipped_forward_v6 : Nat := 56
def shipped_min_scope_v4 : Nat := 24
def shipped_min_scope_v6 : Nat := 56
def zero_config_cache_policy_nil : Bool := true
def zero_config_edns_policy_nil : Bool := true

end SdnsVerif.Gen.C19
