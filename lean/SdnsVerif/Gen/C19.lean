-- REGENERATED on every run by /verif/check from the compiled /repo tree. Do not edit.
namespace SdnsVerif.Gen.C19

def bad_network_rejected : Bool := true
def code_cookie : Nat := 10
def code_keepalive : Nat := 11
def code_subnet : Nat := 8
def default_enabled_allows_everyone : Bool := true
def default_forward_v4 : Nat := 24
def default_forward_v6 : Nat := 56
def default_min_scope_v4 : Nat := 24
def default_min_scope_v6 : Nat := 56
def disabled_build_is_nil : Bool := true
def max_accepted_forward_v4 : Nat := 32
def max_accepted_forward_v6 : Nat := 128
def max_accepted_min_scope_v4 : Nat := 32
def max_accepted_min_scope_v6 : Nat := 128
def shipped_cache_limit_ttl_s : Nat := 300
def shipped_client_networks : Nat := 0
def shipped_enabled : Bool := false
def shipped_forward_v4 : Nat := 24
def shipped_forward_v6 : Nat := 56
def shipped_min_scope_v4 : Nat := 24
def shipped_min_scope_v6 : Nat := 56
def zero_config_cache_policy_nil : Bool := true
def zero_config_edns_policy_nil : Bool := true

end SdnsVerif.Gen.C19
