-- REGENERATED on every run by /verif/check from the compiled /repo tree. Do not edit.
namespace SdnsVerif.Gen.C01

def dnskey_algs_supported : List Nat := [5, 7, 8, 10, 13, 14, 15]
def ds_digests_supported : List Nat := [1, 2, 4]
def ede_codes : List Nat := [9, 6, 10, 7, 0, 0, 9, 6, 6, 9, 0, 6, 0, 6, 12, 6]
def err_classes : List String := ["nokey", "missing", "nosigs", "period", "alg", "badsig", "noksk", "mismatchds", "convert", "nodnskey", "emptyds", "dsrecords", "anchors", "wildcard", "nsecmissing", "denial"]
def rcode_servfail : Nat := 2
def shape_anchor_gate_answer : Bool := true
def shape_anchor_gate_authority : Bool := true
def shape_anchor_gate_validateDelegation : Bool := true
def shape_bare_denials_go_through_authority : Bool := true
def shape_cd_fetch_only_before_explicit_validation : Bool := true
def shape_dname_target_ad_anded_whatever_the_target_carries : Bool := true
def shape_key_fetch_is_validated : Bool := true
def shape_private_lookup_keyed_on_request_cd : Bool := true
def shape_root_ds_from_anchors_answer : Bool := true
def shape_root_ds_from_anchors_authority : Bool := true
def shape_signer_checked_before_findds_answer : Bool := true
def shape_signer_checked_before_findds_authority : Bool := true
def shape_signer_checked_before_findds_validateDelegation : Bool := true
def shape_soa_beside_ns_goes_through_allowlist : Bool := true
def shape_validated_denial_keeps_signer_zone_only : Bool := true
def shape_verifydnssec_anchors_own_dnskey_rrset : Bool := true
def shape_wildcard_proof_from_filtered_authority : Bool := true
def shape_window_checked_on_real_clock : Bool := true
def shape_zone_security_judged_for_serving_zone_answer : Bool := true
def shape_zone_security_judged_for_serving_zone_authority : Bool := true
def shape_zone_security_judged_for_serving_zone_validateDelegation : Bool := true
def zone_flag : Nat := 256

end SdnsVerif.Gen.C01
