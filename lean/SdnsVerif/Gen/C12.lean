-- REGENERATED on every run by /verif/check from the compiled /repo tree. Do not edit.
namespace SdnsVerif.Gen.C12

def default_caps : List Nat := [128, 32, 4, 8, 32, 32, 32, 32]
def default_maxdepth : Nat := 30
def default_mode : String := "shadow"
def detached_copy_keeps_policy : Bool := true
def ede_code_dnssec : Nat := 5
def ede_code_network : Nat := 0
def exchange_debit_conditions : List String := ["middleware.IsBestEffortRecursionWork(ctx)", "rs.work != nil"]
def kind_aggregate : List Bool := [true, true, false, false, true, true, true, false]
def kind_dnssec : List Bool := [false, false, true, true, true, true, true, true]
def max_cname_chase_depth : Nat := 10
def max_dname_depth : Nat := 10
def max_nsec3_iterations : Nat := 150
def max_nsec3_memo_entries : Nat := 64
def max_queryer_recursion : Nat := 32
def max_resolution_attempts : Nat := 3
def net_call_funcs : List String := ["dialUDP", "exchange"]
def nsec3_verifier_calls : Nat := 5
def nsec3_verifier_work_args : List String := ["r.dnssecWork(ctx)"]
def shape_cacheable_reads_ledger_at_decision : Bool := true
def shape_cached_descent_spends_depth : Bool := true
def shape_chase_checks_deadline : Bool := true
def shape_chase_state_outside_loop : Bool := true
def shape_checkhosts_uses_request_context : Bool := true
def shape_checkloop_before_ns_lookup : Bool := true
def shape_delegation_spends_depth : Bool := true
def shape_dialudp_only_from_exchange : Bool := true
def shape_dname_depth_guard : Bool := true
def shape_exchange_debit_dominates_dial : Bool := true
def shape_exchange_guard_dominates_dial : Bool := true
def shape_level_up_only_when_minimized : Bool := true
def shape_nomin_retry_only_when_minimized : Bool := true
def shape_queryer_debit_before_dispatch : Bool := true
def shape_queryer_depth_check_before_dispatch : Bool := true
def shape_resolve_relabels_unconditionally : Bool := true
def shape_resolvestate_literals_carry_work : Bool := true
def shape_subquery_debit_before_resolve : Bool := true

end SdnsVerif.Gen.C12
