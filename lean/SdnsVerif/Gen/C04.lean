-- REGENERATED on every run by /verif/check from the compiled /repo tree. Do not edit.
namespace SdnsVerif.Gen.C04

def alias_soamin60_s : Nat := 60
def cut_max_ttl_expire600 : Nat := 600000000000
def dns64_no_soa_ceiling_s : Nat := 600
def ecs_cap_under_fallback_ns : Nat := 7000000000
def hist_cut_max_big_ns : Nat := 86400000000000
def hist_cut_max_ns : Nat := 7200000000000
def hist_proof_max_big_ns : Nat := 10800000000000
def hist_proof_max_ns : Nat := 7200000000000
def maxCacheTTL_ns : Nat := 86400000000000
def max_denial_proof_ns : Nat := 10800000000000
def minCacheTTL_ns : Nat := 5000000000
def neg_sig40_soa300_s : Nat := 40
def nodata_soamin60_s : Nat := 60
def pkg_maxTTL_ns : Nat := 86400000000000
def pkg_minTTL_ns : Nat := 5000000000
def positive_max_ns : Nat := 86400000000000
def positive_min_ns : Nat := 5000000000
def rrsig_expired_inverted_ttl_ns : Nat := 5000000000
def rrsig_expired_ttl_ns : Nat := 5000000000
def rrsig_short_ttl_ns : Nat := 7000000000

end SdnsVerif.Gen.C04
