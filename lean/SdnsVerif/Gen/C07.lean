-- REGENERATED on every run by /verif/check from the compiled /repo tree. Do not edit.
namespace SdnsVerif.Gen.C07

def compare_suffix_probe : List Nat := [2, 2, 2, 1, 0, 1, 1, 2, 2, 1, 0, 2]
def in_zone_probe : List Bool := [true, true, true, false, false, false, false, true, true, false, true, false]
def progressing_probe : List Bool := [true, false, false, false, false, false, false, false, true, false, true, false]
def question_match_probe : List Bool := [true, true, false, false, false, false, false, false]
def shape_addresses_built_only_by_usableAddr : Bool := true
def shape_answer_clears_sections : Bool := true
def shape_answer_filters_before_splice : Bool := true
def shape_checkhosts_uses_filtered_lookups : Bool := true
def shape_delegation_guard_first : Bool := true
def shape_dname_target_resolved_separately : Bool := true
def shape_exchange_checks_question : Bool := true
def shape_level_is_zone_depth : Bool := true
def shape_lookup_applies_rule : Bool := true
def shape_lookup_sets_invalid_referrals_aside : Bool := true
def shape_nsaddr_lookups_use_searchAddrs : Bool := true
def shape_store_filters_before_entry : Bool := true
def usable_local_probe : List Bool := [false, false, false, false, false]
def usable_loopback_probe : List Bool := [false, false, false, false, false, false]
def usable_public_probe : Bool := true

end SdnsVerif.Gen.C07
