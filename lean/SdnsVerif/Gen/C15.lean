-- REGENERATED on every run by /verif/check from the compiled /repo tree. Do not edit.
namespace SdnsVerif.Gen.C15

def admission_of_skipwriters : List Nat := [0, 1, 1, 1, 0, 1, 0, 1, 0, 1, 0, 0, 0, 1, 0, 0]
def header_len : Nat := 12
def lib_hroom_violations : Nat := 0
def lib_mono_violations : Nat := 0
def lib_sample_messages : Nat := 640
def lib_sample_records : Nat := 25569
def lib_writesall_violations : Nat := 0
def libbits_single : List Nat := [0, 32768, 1024, 512, 256, 128, 64, 32, 16, 2048, 4096, 8192, 16384, 32768, 0, 1, 2, 4, 8, 0, 0, 15]
def max_pooled_compression_entries : Nat := 64
def msgbits_single : List Nat := [0, 32768, 1024, 512, 256, 128, 64, 32, 16, 2048, 4096, 8192, 16384, 32768, 0, 1, 2, 4, 8, 0, 0, 15]
def pack_buffer_size : Nat := 4096
def puts_after_err : Nat := 1
def puts_after_fail : Nat := 1
def puts_after_ok : Nat := 1
def puts_after_panic : Nat := 1
def puts_after_werr : Nat := 1
def release_clean_after_names : List Bool := [true, true, true, true, true, true, true, true, true, true]
def type_opt : Nat := 41
def write_while_borrowed : Bool := true

end SdnsVerif.Gen.C15
