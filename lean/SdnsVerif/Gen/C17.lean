-- REGENERATED on every run by /verif/check from the compiled /repo tree. Do not edit.
namespace SdnsVerif.Gen.C17

def chain_clientonly : List Bool := [false, true, true, true, true, true, false, true, false, false, true, false, false, false, false, false, false, false, false]
def chain_order : List String := ["recovery", "metrics", "dnstap", "accesslist", "ratelimit", "reflex", "edns", "accesslog", "chaos", "hostsfile", "views", "blocklist", "as112", "kubernetes", "dns64", "cache", "failover", "resolver", "forwarder"]
def clientonly_accesslist : Bool := true
def clientonly_ratelimit : Bool := true
def clientonly_reflex : Bool := true
def clientonly_views : Bool := true
def pool_foreign_access : List Nat := []
def pool_new_binds_own : Bool := true
def pool_unpaired : List Nat := []

end SdnsVerif.Gen.C17
