/-
Model of the bounded concurrent tables of sdns (property C16). Core Lean only.

  /repo/internal/cache/uint64_unsafe_map.go   UInt64Map        → `UMap`
  /repo/internal/cache/segment_uint64_map.go  SegmentUInt64Map → `SegMap`
  /repo/internal/cache/uint64_sync_map.go     SyncUInt64Map    (pure forwarding, folded into `Cache`)
  /repo/internal/cache/cache.go               Cache            → `Cache`
  /repo/middleware/ratelimit/limiter_store.go LimiterStore     → `Lim`

Conventions
* keys are `Nat` (the uint64 value); a slot is a pair `(key, value)`, key `0`
  marks an empty slot exactly as in the Go code (`Pair.Key == 0`); the zero key
  lives out of band (`hasZeroKey`/`zeroVal` are the one field `zero : Option V`).
* every hash is a PARAMETER: `idx n k` is `primaryIndex` of key `k` in a table
  of `n` slots, `seg n k` is `getSegmentIndex` with `n` segments, `off k` is the
  scan offset of `SetWithCap`.  The theorems quantify over arbitrary functions;
  only `Driver/C16.lean` instantiates them with the real mixers.
* `(i + 1) & mask` is `next n i` (wrap at `n`); `offset & mask` is `offset % n`.
  `mask = n - 1` with `n` a power of two is a fact about the code that the
  proofs never need; the correspondence run compares raw slot layouts.
* Go loops become structural recursion on a fuel argument that is never
  exhausted on well-formed tables (proved in `Lemmas/UMap.lean`).
-/
namespace SdnsVerif.Model.UMap

/-- slot array `[]Pair[V]` -/
abbrev Slots (V : Type) := Array (Nat × V)

section slots
variable {V : Type} [Inhabited V]

/-- `m.data[i]` (out of range reads as an empty pair; never happens). -/
def rd (a : Slots V) (i : Nat) : Nat × V := a.getD i (0, default)

/-- `m.data[i] = x` -/
def wr (a : Slots V) (i : Nat) (x : Nat × V) : Slots V := a.setIfInBounds i x

/-- `(i + 1) & m.mask` -/
def next (n i : Nat) : Nat := if i + 1 < n then i + 1 else 0

/-- the test of `backwardShiftDelete`: is `k` cyclically within `(i, j]`?
`if i <= j { i < k && k <= j } else { i < k || k <= j }` -/
def goBetween (i k j : Nat) : Bool :=
  if i ≤ j then decide (i < k ∧ k ≤ j) else decide (i < k ∨ k ≤ j)

inductive Probe where
  | found (i : Nat)
  | empty (i : Nat)
  | full
deriving Repr, DecidableEq

/-- The probe loop shared by `Has`, `Get`, `Put`, `PutIfNotExists`, `Del`:
look at the primary slot, then at most `len-1` following slots, stop at the
key or at the first empty slot. (`k ≠ 0`, so the order of the two tests —
which differs between `Get` and `Put` — is immaterial.) -/
def probe (a : Slots V) (k : Nat) : Nat → Nat → Probe
  | 0, _ => .full
  | f + 1, i =>
    if (rd a i).1 = k then .found i
    else if (rd a i).1 = 0 then .empty i
    else probe a k f (next a.size i)

/-- the insertion loop inlined in `grow`: first empty slot from `i`. -/
def probeEmpty (a : Slots V) : Nat → Nat → Option Nat
  | 0, _ => none
  | f + 1, i => if (rd a i).1 = 0 then some i else probeEmpty a f (next a.size i)

/-- `backwardShiftDelete(deletedIdx)`: `i` is the hole, `j` the cursor.  The Go
loop has no bound (it ends at the first empty slot); the model gives it `len`
steps of fuel. -/
def backShift (idx : Nat → Nat → Nat) (n : Nat) : Slots V → Nat → Nat → Nat → Slots V
  | a, 0, _, _ => a
  | a, f + 1, i, j =>
    let j' := next n j
    if (rd a j').1 = 0 then a
    else if goBetween i (idx n (rd a j').1) j' then backShift idx n a f i j'
    else backShift idx n (wr (wr a i (rd a j')) j' (0, default)) f j' j'

end slots

/-- `type UInt64Map[V any] struct` -/
structure UMap (V : Type) where
  data : Slots V
  size : Nat
  growAt : Nat
  zero : Option V

/-- `int(float64(size) * 0.75)` -/
def growAtOf (n : Nat) : Nat := 3 * n / 4

def ceilPow2Go (x : Nat) : Nat → Nat → Nat
  | 0, s => s
  | f + 1, s => if s < x then ceilPow2Go x f (2 * s) else s

/-- `size = 1; for size < capacity { size *= 2 }` -/
def ceilPow2 (x : Nat) : Nat := ceilPow2Go x x 1

/-- new length computed by `grow` (double; 1.5x rounded up to a power of two
from 1M slots on, which is the double again). -/
def growLen (oldLen : Nat) : Nat :=
  ceilPow2 (if oldLen ≥ 1048576 then oldLen + oldLen / 2 else oldLen * 2)

namespace UMap
variable {V : Type} [Inhabited V]

instance : Inhabited (UMap V) := ⟨{ data := #[], size := 0, growAt := 0, zero := none }⟩

/-- `NewUInt64Map(capacity)` -/
def new (capacity : Nat) : UMap V :=
  let size := if capacity > 8 then ceilPow2 (capacity * 4 / 3) else 8
  { data := Array.replicate size (0, default), size := 0, growAt := growAtOf size, zero := none }

/-- `Get` -/
def get (idx : Nat → Nat → Nat) (m : UMap V) (k : Nat) : Option V :=
  if k = 0 then m.zero else
  match probe m.data k m.data.size (idx m.data.size k) with
  | .found i => some (rd m.data i).2
  | _ => none

/-- `Has` -/
def has (idx : Nat → Nat → Nat) (m : UMap V) (k : Nat) : Bool :=
  if k = 0 then m.zero.isSome else
  match probe m.data k m.data.size (idx m.data.size k) with
  | .found _ => true
  | _ => false

/-- `Len` -/
def len (m : UMap V) : Nat := m.size

/-- one re-insertion step of `grow` -/
def reinsert (idx : Nat → Nat → Nat) (acc : Slots V × Nat) (p : Nat × V) : Slots V × Nat :=
  if p.1 = 0 then acc else
  match probeEmpty acc.1 acc.1.size (idx acc.1.size p.1) with
  | some h => (wr acc.1 h p, acc.2 + 1)
  | none => acc

/-- `grow` -/
def grow (idx : Nat → Nat → Nat) (m : UMap V) : UMap V :=
  let newLen := growLen m.data.size
  let r := m.data.toList.foldl (reinsert idx) (Array.replicate newLen (0, default), 0)
  { data := r.1, size := r.2 + (if m.zero.isSome then 1 else 0), growAt := growAtOf newLen, zero := m.zero }

/-- the probe-and-store part of `Put` (after the growth check). -/
def putProbe (idx : Nat → Nat → Nat) (m : UMap V) (k : Nat) (v : V) : Option (UMap V) :=
  match probe m.data k m.data.size (idx m.data.size k) with
  | .found i => some { m with data := wr m.data i (k, v) }
  | .empty i => some { m with data := wr m.data i (k, v), size := m.size + 1 }
  | .full => none

/-- `Put`.  The "should never happen" tail (`m.grow(); m.Put(key, val)`) is
unrolled once. -/
def put (idx : Nat → Nat → Nat) (m : UMap V) (k : Nat) (v : V) : UMap V :=
  if k = 0 then
    { m with zero := some v, size := if m.zero.isSome then m.size else m.size + 1 }
  else
    let m1 := if m.size ≥ m.growAt then grow idx m else m
    match putProbe idx m1 k v with
    | some m2 => m2
    | none =>
      let m2 := grow idx m1
      (putProbe idx m2 k v).getD m2

/-- `PutIfNotExists`: (map, value now stored, inserted?) -/
def putIfNotExists (idx : Nat → Nat → Nat) (m : UMap V) (k : Nat) (v : V) : UMap V × V × Bool :=
  if k = 0 then
    match m.zero with
    | some z => (m, z, false)
    | none => ({ m with zero := some v, size := m.size + 1 }, v, true)
  else
    let m1 := if m.size ≥ m.growAt then grow idx m else m
    match probe m1.data k m1.data.size (idx m1.data.size k) with
    | .found i => (m1, (rd m1.data i).2, false)
    | .empty i => ({ m1 with data := wr m1.data i (k, v), size := m1.size + 1 }, v, true)
    | .full =>
      let m2 := grow idx m1
      match probe m2.data k m2.data.size (idx m2.data.size k) with
      | .found i => (m2, (rd m2.data i).2, false)
      | .empty i => ({ m2 with data := wr m2.data i (k, v), size := m2.size + 1 }, v, true)
      | .full => (m2, v, false)

/-- the common tail of `Del` and `EvictKeysAt`: clear slot `i`, `size--`,
`backwardShiftDelete(i)`. -/
def delAt (idx : Nat → Nat → Nat) (m : UMap V) (i : Nat) : UMap V :=
  { m with
    data := backShift idx m.data.size (wr m.data i (0, default)) m.data.size i i
    size := m.size - 1 }

/-- `Del` -/
def del (idx : Nat → Nat → Nat) (m : UMap V) (k : Nat) : UMap V × Bool :=
  if k = 0 then
    if m.zero.isSome then ({ m with zero := none, size := m.size - 1 }, true) else (m, false)
  else
    match probe m.data k m.data.size (idx m.data.size k) with
    | .found i => (delAt idx m i, true)
    | _ => (m, false)

/-- `Clear` -/
def clear (m : UMap V) : UMap V :=
  { m with data := Array.replicate m.data.size (0, default), size := 0, zero := none }

/-- the scan loop of `EvictKeysAt`: cursor `c`, `scanned`, `deleted`.
Every iteration advances the cursor or consumes one deletion, so
`2*len + 1` steps of fuel are never exhausted. -/
def evictLoop (idx : Nat → Nat → Nat) (skip n : Nat) : UMap V → Nat → Nat → Nat → Nat → UMap V × Nat
  | m, 0, _, _, d => (m, d)
  | m, f + 1, c, s, d =>
    if s < m.data.size ∧ d < n then
      if (rd m.data c).1 = 0 ∨ (rd m.data c).1 = skip then
        evictLoop idx skip n m f (next m.data.size c) (s + 1) d
      else
        evictLoop idx skip n (delAt idx m c) f c s (d + 1)
    else (m, d)

/-- `EvictKeysAt(offset, n, skip)`: (map, number deleted). -/
def evictKeysAt (idx : Nat → Nat → Nat) (m : UMap V) (offset n skip : Nat) : UMap V × Nat :=
  if n = 0 ∨ m.data.size = 0 then (m, 0) else
  let r := evictLoop idx skip n m (2 * m.data.size + 1) (offset % m.data.size) 0 0
  if r.2 < n ∧ r.1.zero.isSome ∧ skip ≠ 0 then
    ({ r.1 with zero := none, size := r.1.size - 1 }, r.2 + 1)
  else r

/-- `ForEach` order: zero key first, then the slots in array order. -/
def toList (m : UMap V) : List (Nat × V) :=
  (match m.zero with | some z => [(0, z)] | none => []) ++ m.data.toList.filter (fun p => p.1 ≠ 0)

end UMap

/-- the three mixers of the segmented table, as parameters. -/
structure Hashes where
  idx : Nat → Nat → Nat
  seg : Nat → Nat → Nat
  off : Nat → Nat

/-- `type SegmentUInt64Map[V any] struct`; `count` is the atomic counter. -/
structure SegMap (V : Type) where
  segs : Array (UMap V)
  count : Int

namespace SegMap
variable {V : Type} [Inhabited V]

/-- `NewSegmentUInt64Map(segmentPower, initialCapacity)` -/
def new (pow cap : Nat) : SegMap V :=
  let p := if pow < 4 then 4 else if pow > 8 then 8 else pow
  let cnt := 2 ^ p
  let sc := if cap / cnt < 8 then 8 else cap / cnt
  { segs := Array.replicate cnt (UMap.new sc), count := 0 }

def segAt (m : SegMap V) (i : Nat) : UMap V := m.segs.getD i default

/-- `getSegmentIndex` -/
def segOf (H : Hashes) (m : SegMap V) (k : Nat) : Nat := H.seg m.segs.size k

def get (H : Hashes) (m : SegMap V) (k : Nat) : Option V := (m.segAt (segOf H m k)).get H.idx k
def has (H : Hashes) (m : SegMap V) (k : Nat) : Bool := (m.segAt (segOf H m k)).has H.idx k
def len (m : SegMap V) : Int := m.count

/-- `Set` -/
def set (H : Hashes) (m : SegMap V) (k : Nat) (v : V) : SegMap V :=
  let i := segOf H m k
  let s := m.segAt i
  let s' := s.put H.idx k v
  { segs := m.segs.setIfInBounds i s', count := if s'.len > s.len then m.count + 1 else m.count }

/-- `PutIfNotExists` -/
def putIfNotExists (H : Hashes) (m : SegMap V) (k : Nat) (v : V) : SegMap V × V × Bool :=
  let i := segOf H m k
  let r := (m.segAt i).putIfNotExists H.idx k v
  ({ segs := m.segs.setIfInBounds i r.1, count := if r.2.2 then m.count + 1 else m.count }, r.2.1, r.2.2)

/-- `Del` -/
def del (H : Hashes) (m : SegMap V) (k : Nat) : SegMap V × Bool :=
  let i := segOf H m k
  let r := (m.segAt i).del H.idx k
  ({ segs := m.segs.setIfInBounds i r.1, count := if r.2 then m.count - 1 else m.count }, r.2)

/-- `Clear` -/
def clear (m : SegMap V) : SegMap V := { segs := m.segs.map UMap.clear, count := 0 }

/-- `ClearSegment(index)` -/
def clearSegment (m : SegMap V) (i : Nat) : SegMap V :=
  if i < m.segs.size then
    { segs := m.segs.setIfInBounds i (m.segAt i).clear, count := m.count - (m.segAt i).len }
  else m

/-- the spill loop of `SetWithCap` (`for i := 1; i < len(segments) && deficit > 0; i++`),
one segment lock at a time. -/
def spill (H : Hashes) (k : Nat) (cap : Int) (si offset : Nat) : SegMap V → Nat → Nat → Nat → SegMap V
  | m, 0, _, _ => m
  | m, f + 1, i, deficit =>
    if i < m.segs.size ∧ deficit > 0 then
      if m.count ≤ cap then m else
      let ni := (si + i) % m.segs.size
      let r := (m.segAt ni).evictKeysAt H.idx offset deficit k
      spill H k cap si offset
        { segs := m.segs.setIfInBounds ni r.1, count := m.count - r.2 } f (i + 1) (deficit - r.2)
    else m

/-- `SetWithCap(key, value, capacity)`, executed without interleaving. -/
def setWithCap (H : Hashes) (m : SegMap V) (k : Nat) (v : V) (cap : Int) : SegMap V :=
  let si := segOf H m k
  let offset := H.off k
  let s := m.segAt si
  let s1 := s.put H.idx k v
  let c1 := if s1.len > s.len then m.count + 1 else m.count
  if c1 > cap then
    let r := s1.evictKeysAt H.idx offset 2 k
    let m1 : SegMap V := { segs := m.segs.setIfInBounds si r.1, count := c1 - r.2 }
    if 2 - r.2 = 0 then m1 else spill H k cap si offset m1 m1.segs.size 1 (2 - r.2)
  else
    { segs := m.segs.setIfInBounds si s1, count := c1 }

/-- the segment locks the spill loop takes, in order (`spill` with the same
control flow, recording instead of returning the table). -/
def spillTrace (H : Hashes) (k : Nat) (cap : Int) (si offset : Nat) : SegMap V → Nat → Nat → Nat → List Nat
  | _, 0, _, _ => []
  | m, f + 1, i, deficit =>
    if i < m.segs.size ∧ deficit > 0 then
      if m.count ≤ cap then [] else
      let ni := (si + i) % m.segs.size
      let r := (m.segAt ni).evictKeysAt H.idx offset deficit k
      ni :: spillTrace H k cap si offset
        { segs := m.segs.setIfInBounds ni r.1, count := m.count - r.2 } f (i + 1) (deficit - r.2)
    else []

/-- every lock `SetWithCap(key, value, capacity)` takes, in order: the key's
own segment, then (only if the own segment could not pay the toll) the
following segments one at a time.  There is nothing else to wait for. -/
def lockTrace (H : Hashes) (m : SegMap V) (k : Nat) (v : V) (cap : Int) : List Nat :=
  let si := segOf H m k
  let offset := H.off k
  let s := m.segAt si
  let s1 := s.put H.idx k v
  let c1 := if s1.len > s.len then m.count + 1 else m.count
  if c1 > cap then
    let r := s1.evictKeysAt H.idx offset 2 k
    let m1 : SegMap V := { segs := m.segs.setIfInBounds si r.1, count := c1 - r.2 }
    if 2 - r.2 = 0 then [si] else si :: spillTrace H k cap si offset m1 m1.segs.size 1 (2 - r.2)
  else [si]

/-- all entries (ForEach order: segment by segment). -/
def toList (m : SegMap V) : List (Nat × V) := m.segs.toList.flatMap UMap.toList

/-- `ForEach` while writers work: segment `i` is read (under its read lock, in
`UMap.toList` order) from `ms i`, the table as it is at that moment. -/
def sweep (n : Nat) (ms : Nat → SegMap V) : List (Nat × V) :=
  (List.range n).flatMap fun i => ((ms i).segAt i).toList

/-- number of entries actually reachable by iteration. -/
def reachable (m : SegMap V) : Nat := m.toList.length

end SegMap

/-- `cache.Cache`: values are compared by identity (`cur != old` on `any`
holding pointers), so `V` only needs decidable equality of identities. -/
structure Cache (V : Type) where
  data : SegMap V
  maxSize : Nat

namespace Cache
variable {V : Type} [Inhabited V] [DecidableEq V]

/-- `New(size)` (through `NewSyncUInt64Map(power)`: always 256 segments). -/
def new (size : Nat) : Cache V :=
  let size := if size < 1 then 1 else size
  let power := if size ≤ 1024 then 8 else if size ≤ 10000 then 10 else if size ≤ 100000 then 12
    else if size ≤ 500000 then 14 else 16
  { data := SegMap.new 8 (2 ^ power), maxSize := size }

def get (H : Hashes) (c : Cache V) (k : Nat) : Option V := c.data.get H k
/-- `Add` -/
def add (H : Hashes) (c : Cache V) (k : Nat) (v : V) : Cache V :=
  { c with data := c.data.setWithCap H k v c.maxSize }
/-- `Remove` -/
def remove (H : Hashes) (c : Cache V) (k : Nat) : Cache V := { c with data := (c.data.del H k).1 }
def len (c : Cache V) : Int := c.data.len

/-- `CompareAndSwap`: under the segment lock, `Get`, compare identities, `Put`
(directly on the segment: the counter is not touched). -/
def compareAndSwap (H : Hashes) (c : Cache V) (k : Nat) (old new : V) : Cache V × Bool :=
  let i := SegMap.segOf H c.data k
  let s := c.data.segAt i
  match s.get H.idx k with
  | some cur =>
    if cur = old then
      ({ c with data := { c.data with segs := c.data.segs.setIfInBounds i (s.put H.idx k new) } }, true)
    else (c, false)
  | none => (c, false)

/-- `CompareAndDelete` -/
def compareAndDelete (H : Hashes) (c : Cache V) (k : Nat) (old : V) : Cache V × Bool :=
  let i := SegMap.segOf H c.data k
  let s := c.data.segAt i
  match s.get H.idx k with
  | some cur =>
    if cur = old then
      let r := s.del H.idx k
      if r.2 then
        ({ c with data := { segs := c.data.segs.setIfInBounds i r.1, count := c.data.count - 1 } }, true)
      else (c, false)
    else (c, false)
  | none => (c, false)

/-- `PositiveCache.Get` / `NegativeCache.Get` (middleware/cache): look the key up;
an entry found expired is cleaned up with `CompareAndDelete(key, thatEntry)`
and reported as a miss.  `expired` stands for `CacheEntry.IsExpired()`. -/
def ansGet (H : Hashes) (expired : V → Bool) (c : Cache V) (k : Nat) : Cache V × Option V :=
  match c.get H k with
  | none => (c, none)
  | some e => if expired e then ((c.compareAndDelete H k e).1, none) else (c, some e)

/-- `PositiveCache.Set` / `NegativeCache.Set`: a plain `Add`, whatever the entry's lifetime. -/
def ansSet (H : Hashes) (c : Cache V) (k : Nat) (e : V) : Cache V := c.add H k e

end Cache

/-! ### FailureCache (middleware/cache/failure_cache.go): the production callers
of `CompareAndSwap` / `CompareAndDelete`.  An entry is `(streak, retryAfter)`;
times are integer nanoseconds. -/

/-- `FailureCache.backoff(streak)`: `initialTTL` doubled per generation, capped at `maxTTL`. -/
def failBackoffGo (maxT : Nat) : Nat → Nat → Nat
  | 0, ttl => if ttl > maxT then maxT else ttl
  | g + 1, ttl => if ttl < maxT then (if ttl > maxT / 2 then maxT else failBackoffGo maxT g (ttl * 2))
                  else (if ttl > maxT then maxT else ttl)

def failBackoff (init maxT streak : Nat) : Nat := failBackoffGo maxT (streak - 1) init

/-- the entry `record` wants to publish over `cur` at time `now` -/
def failNext (init maxT now : Nat) (cur : Nat × Nat) : Nat × Nat :=
  let s' := if now - cur.2 ≥ maxT then 1 else cur.1 + 1
  (s', now + failBackoff init maxT s')

namespace Cache

/-- `FailureCache.record`: load; absent → `Add` a first generation; still
active → return it; expired → build the next generation and
`CompareAndSwap(hash, current, &next)`, retrying on a lost race. -/
def failRecord (H : Hashes) (init maxT now : Nat) (k : Nat) : Cache (Nat × Nat) → Nat → Cache (Nat × Nat) × (Nat × Nat)
  | c, 0 => (c, (0, 0))
  | c, f + 1 =>
    match c.get H k with
    | none => (c.add H k (1, now + init), (1, now + init))
    | some cur =>
      if now < cur.2 then (c, cur)
      else
        let r := c.compareAndSwap H k cur (failNext init maxT now cur)
        if r.2 then (r.1, failNext init maxT now cur) else failRecord H init maxT now k r.1 f

/-- `FailureCache.ResetQuestion` / `ResetZone`: load, then `CompareAndDelete(hash, entry)`, retrying on a lost race. -/
def failReset (H : Hashes) (k : Nat) : Cache (Nat × Nat) → Nat → Cache (Nat × Nat) × Bool
  | c, 0 => (c, false)
  | c, f + 1 =>
    match c.get H k with
    | none => (c, false)
    | some cur =>
      let r := c.compareAndDelete H k cur
      if r.2 then (r.1, true) else failReset H k r.1 f

/-- `ResetMatching` (ResetQuestion, then ResetZone on every ancestor zone) and
`PurgeQuestion` (sweep, then CompareAndDelete of every match): a reset of each
listed table key in turn; returns the number of states deleted. -/
def failResetAll (H : Hashes) : Cache (Nat × Nat) → List Nat → Cache (Nat × Nat) × Nat
  | c, [] => (c, 0)
  | c, k :: ks =>
    let r := c.failReset H k 4
    let rest := failResetAll H r.1 ks
    (rest.1, (if r.2 then 1 else 0) + rest.2)

/-- `FailureCache.Lookup` (exact question): an entry is a hit only while active -/
def failLookup (H : Hashes) (now : Nat) (c : Cache (Nat × Nat)) (k : Nat) : Option (Nat × Nat) :=
  match c.get H k with
  | some e => if now < e.2 then some e else none
  | none => none

/-- `FailureCache.Lookup`: the exact question if active, otherwise the closest
active ancestor-zone state (`zs`: zone keys from the name itself up to the root). -/
def failLookupZ (H : Hashes) (now : Nat) (c : Cache (Nat × Nat)) (qk : Nat) (zs : List Nat) : Option (Nat × Nat) :=
  match c.failLookup H now qk with
  | some e => some e
  | none => zs.findSome? (fun z => c.failLookup H now z)

end Cache

/-- `ratelimit.LimiterStore`: a Go map `key → (limiter, lastSeen)` under one
RWMutex.  The model keeps `(key, lastSeen)` pairs (the list order carries no
meaning); the limiter's token bucket and cookie never influence the store. -/
structure Lim where
  ents : List (Nat × Nat)
  maxSize : Nat

namespace Lim

def keys (s : Lim) : List Nat := s.ents.map (·.1)

/-- the scan of `evictOne` over a map of at most 1000 entries: the entry with
the smallest `lastSeen` (`seen.Before(oldestTime)` is strict: the first one
met wins a tie). -/
def oldest : List (Nat × Nat) → Option (Nat × Nat)
  | [] => none
  | e :: t =>
    match oldest t with
    | none => some e
    | some o => if o.2 < e.2 then some o else some e

/-- `delete(s.limiters, w)` -/
def remove (s : Lim) (w : Nat) : Lim := { s with ents := s.ents.filter (fun e => e.1 != w) }

/-- `evictOne`.  Above 1000 entries the loop breaks after its first iteration:
the victim is the first key the map iteration yields (`first`, free);
otherwise it is the least recently seen entry. -/
def evictOne (s : Lim) (first : Option Nat) : Lim :=
  if s.ents.length > 1000 then
    match first with
    | some w => s.remove w
    | none => s
  else
    match oldest s.ents with
    | some o => s.remove o.1
    | none => s

/-- `LimiterStore.Get(key)` at time `now`: a hit refreshes `lastSeen`; a miss
trims the store first (if `len >= maxSize`) and then inserts. -/
def get (s : Lim) (k now : Nat) (first : Option Nat) : Lim :=
  if k ∈ s.keys then
    { s with ents := s.ents.map (fun e => if e.1 = k then (k, now) else e) }
  else
    let s1 := if s.ents.length ≥ s.maxSize then s.evictOne first else s
    { s1 with ents := (k, now) :: s1.ents }

/-- `Cleanup(olderThan)` with `cutoff = now - olderThan`: drops entries seen before the cutoff. -/
def cleanup (s : Lim) (cutoff : Nat) : Lim := { s with ents := s.ents.filter (fun e => !(e.2 < cutoff)) }

end Lim

/-! ### the real mixers (used only by the driver) -/

def mask64 : Nat := 2 ^ 64

/-- `primaryIndex`: `h := key * 0x9E3779B9; int(h^(h>>16)) & mask` -/
def realIdx (n k : Nat) : Nat :=
  let h := k * 0x9E3779B9 % mask64
  (h ^^^ (h >>> 16)) % n

/-- `getSegmentIndex`: `(uint(key*0x9E3779B9) >> 16) & segmentMask` -/
def realSeg (n k : Nat) : Nat := ((k * 0x9E3779B9 % mask64) >>> 16) % n

/-- `int((key * 0xff51afd7ed558ccd) >> 40)` -/
def realOff (k : Nat) : Nat := (k * 0xff51afd7ed558ccd % mask64) >>> 40

def realHashes : Hashes := { idx := realIdx, seg := realSeg, off := realOff }

end SdnsVerif.Model.UMap
