/-
Shared helpers for the line-protocol side of the executable models
(core Lean only: this file is linked into the `sdnsmodel` executable).
-/
namespace SdnsVerif.Model.Util

def hexDigit (c : Char) : Option Nat :=
  if '0' ≤ c ∧ c ≤ '9' then some (c.toNat - '0'.toNat)
  else if 'a' ≤ c ∧ c ≤ 'f' then some (c.toNat - 'a'.toNat + 10)
  else if 'A' ≤ c ∧ c ≤ 'F' then some (c.toNat - 'A'.toNat + 10)
  else none

/-- Big-endian hex string to a natural number (`-` is the empty string). -/
def hexNat (s : String) : Option Nat :=
  if s == "-" then some 0 else
  s.toList.foldl (fun acc c => match acc, hexDigit c with
    | some a, some d => some (a * 16 + d)
    | _, _ => none) (some 0)

/-- Hex string to bytes (`-` is empty). -/
def hexBytes (s : String) : Option (List UInt8) :=
  if s == "-" then some [] else
  let rec go : List Char → List UInt8 → Option (List UInt8)
    | [], acc => some acc.reverse
    | [_], _ => none
    | a :: b :: t, acc => match hexDigit a, hexDigit b with
      | some x, some y => go t (UInt8.ofNat (x * 16 + y) :: acc)
      | _, _ => none
  go s.toList []

def nibble (n : Nat) : Char :=
  if n < 10 then Char.ofNat (n + '0'.toNat) else Char.ofNat (n - 10 + 'a'.toNat)

def bytesHex (b : List UInt8) : String :=
  if b.isEmpty then "-" else
  String.ofList (b.flatMap fun x => [nibble (x.toNat / 16), nibble (x.toNat % 16)])

def boolStr (b : Bool) : String := if b then "t" else "f"

def parseBool (s : String) : Option Bool :=
  if s == "t" then some true else if s == "f" then some false else none

def splitOn (s : String) (sep : String) : List String := s.splitOn sep

end SdnsVerif.Model.Util
