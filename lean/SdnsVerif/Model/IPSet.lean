/-
Model of /repo/internal/ipset/ipset.go and of the access decisions built on it
(accesslist.ServeDNS, views.ServeDNS selection).  Core Lean only.

Addresses are natural numbers (the 32- or 128-bit value); the code's `u128`
pair `{hi, lo uint64}` is modelled as `P128` with both halves below 2^64 and
its arithmetic (`lessEq`, `ones`, `bounds`) is mirrored function by function.
-/
namespace SdnsVerif.Model.IPSet

/-- `u128{hi, lo}`; well-formed when both halves are `< 2^64`. -/
structure P128 where
  hi : Nat
  lo : Nat
deriving Repr, DecidableEq

def P128.val (a : P128) : Nat := a.hi * 2 ^ 64 + a.lo

/-- `func (a u128) lessEq(b u128) bool`. -/
def P128.lessEq (a b : P128) : Bool :=
  a.hi < b.hi || (a.hi == b.hi && a.lo ≤ b.lo)

/-- `func ones(n int) uint64` (saturating at both ends). -/
def ones (n : Int) : Nat :=
  if n ≤ 0 then 0 else if n ≥ 64 then 2 ^ 64 - 1 else 2 ^ n.toNat - 1

/-- `func bounds(p netip.Prefix) (lo, hi u128)` on an already masked prefix
address `lo`; `width` is 32 or 128. -/
def bounds (width bits : Nat) (lo : P128) : P128 × P128 :=
  let host : Int := (width : Int) - (bits : Int)
  if width = 32 ∨ host < 64 then
    (lo, { hi := lo.hi, lo := lo.lo ||| ones host })
  else
    (lo, { hi := lo.hi ||| ones (host - 64), lo := 2 ^ 64 - 1 })

/-- `netip.Prefix.Masked` on the numeric value: clear the low `width-bits` bits. -/
def maskAddr (width bits a : Nat) : Nat := a / 2 ^ (width - bits) * 2 ^ (width - bits)

def split (a : Nat) : P128 := { hi := a / 2 ^ 64, lo := a % 2 ^ 64 }

structure Span where
  lo : Nat
  hi : Nat
  maxHi : Nat := 0
deriving Repr, DecidableEq

/-- `Set.add`: mask, compute bounds, append. -/
def mkSpan (width bits a : Nat) : Span :=
  let (lo, hi) := bounds width bits (split (maskAddr width bits a))
  { lo := lo.val, hi := hi.val }

/-- insertion into a list sorted by `lo` (stands for `sort.Slice`; the
theorems only use "sorted permutation"). -/
def insertByLo (s : Span) : List Span → List Span
  | [] => [s]
  | x :: t => if s.lo ≤ x.lo then s :: x :: t else x :: insertByLo s t

def sortByLo : List Span → List Span
  | [] => []
  | x :: t => insertByLo x (sortByLo t)

/-- the running maximum loop of `compile`. -/
def runMax : Nat → List Span → List Span
  | _, [] => []
  | m, s :: t =>
    let m' := if m ≤ s.hi then s.hi else m
    { s with maxHi := m' } :: runMax m' t

def compile (l : List Span) : List Span := runMax 0 (sortByLo l)

/-- the hand written binary search of `Contains`: the number of leading
spans whose `lo ≤ k`, over an index function. -/
def bsearch (get : Nat → Nat) (k : Nat) (i j : Nat) : Nat :=
  if h : i < j then
    let m := (i + j) / 2
    if get m ≤ k then bsearch get k (m + 1) j else bsearch get k i m
  else i
termination_by j - i
decreasing_by all_goals omega

def containsSorted (c : List Span) (k : Nat) : Bool :=
  if c.length = 0 then false else
  let i := bsearch (fun x => (c.getD x {lo := 0, hi := 0}).lo) k 0 c.length
  if i = 0 then false else decide (k ≤ (c.getD (i - 1) {lo := 0, hi := 0}).maxHi)

structure Set where
  v4 : List Span := []
  v6 : List Span := []

inductive Fam | v4 | v6 | mapped
deriving Repr, DecidableEq

/-- one configured entry: `none` is an entry the parser rejected. -/
abbrev Entry := Option (Fam × Nat × Nat)   -- family, address value, bits

def Set.new (es : List Entry) : Set :=
  let v4 := es.filterMap fun e => match e with
    | some (Fam.v4, a, b) => some (mkSpan 32 b a)
    | _ => none
  let v6 := es.filterMap fun e => match e with
    | some (Fam.v6, a, b) => some (mkSpan 128 b a)
    | _ => none
  { v4 := compile v4, v6 := compile v6 }

def Set.len (s : Set) : Nat := s.v4.length + s.v6.length

/-- `Set.Contains`: a 4-in-6 mapped source is unmapped first. -/
def Set.contains (s : Set) (f : Fam) (a : Nat) : Bool :=
  match f with
  | Fam.v6 => containsSorted s.v6 a
  | _ => containsSorted s.v4 a

/-- `accesslist.List.ServeDNS`: `true` = `ch.Next`, `false` = `ch.Cancel` (no reply). -/
def aclNext (allowed : Set) (internal : Bool) (f : Fam) (a : Nat) : Bool :=
  if internal then true else allowed.contains f a

/-- `views.ServeDNS` selection: index (from 1) of the first view whose
networks contain the client; internal traffic skips views. -/
def viewPick (vs : List Set) (internal : Bool) (f : Fam) (a : Nat) : Option Nat :=
  if internal then none else
  let rec go : List Set → Nat → Option Nat
    | [], _ => none
    | v :: t, i => if v.contains f a then some i else go t (i + 1)
  go vs 1

/-- What `views.ServeDNS` does with a query of type `qt`: the first view
containing the client decides; it answers (returning its index) iff it holds a
record of the queried type, otherwise the query falls through — no later view
is consulted (the `break` in the code). `types i` are the record types view
`i` (from 1) holds for the queried name. -/
def viewAnswer (vs : List Set) (types : List (List Nat)) (internal : Bool) (f : Fam) (a qt : Nat) :
    Option Nat :=
  match viewPick vs internal f a with
  | none => none
  | some i => if (types.getD (i - 1) []).contains qt then some i else none

end SdnsVerif.Model.IPSet
