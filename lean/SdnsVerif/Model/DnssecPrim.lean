/-
Model of the in-house DNSSEC primitives of
/repo/middleware/resolver/dnssec/{keytag,ds_digest,rsa,signature}.go.
Core Lean only (linked into `model_c14`).

Byte strings are `List UInt8`; numbers are `Nat`.  The standard library's
base64 decoder appears twice: as an executable model (`b64Decode`, validated
against encoding/base64 by the `b64 dec` correspondence op) and, in every
definition the theorems talk about, as a *parameter* `dec` so that the
theorems hold for an arbitrary decoder.  Hashes and crypto/rsa are
parameters as well.
-/
namespace SdnsVerif.Model.DnssecPrim

abbrev Bytes := List UInt8

/-! ## encoding/base64 `StdEncoding.Decode` (as called by `fromBase64`) -/

def isNL (c : UInt8) : Bool := c == 10 || c == 13

def sextet (c : UInt8) : Option Nat :=
  let n := c.toNat
  if 65 ≤ n ∧ n ≤ 90 then some (n - 65)
  else if 97 ≤ n ∧ n ≤ 122 then some (n - 97 + 26)
  else if 48 ≤ n ∧ n ≤ 57 then some (n - 48 + 52)
  else if n = 43 then some 62
  else if n = 47 then some 63
  else none

def dropNL : Bytes → Bytes
  | [] => []
  | c :: t => if isNL c then dropNL t else c :: t

/-- the last lines of `decodeQuantum`: 4×6 bits to 3 octets, `dlen-1` kept. -/
def emit (acc : List Nat) (dlen : Nat) : Bytes :=
  let g := fun i => acc.getD i 0
  let val := g 0 * 2 ^ 18 + g 1 * 2 ^ 12 + g 2 * 2 ^ 6 + g 3
  ([UInt8.ofNat (val / 65536 % 256), UInt8.ofNat (val / 256 % 256), UInt8.ofNat (val % 256)]).take (dlen - 1)

structure QOut where
  rest : Bytes
  out : Bytes
  err : Bool

/-- `decodeQuantum`: `acc` are the sextets read so far (`j = acc.length`).
Trailing garbage after padding still yields the padded quantum's octets
together with the error, exactly as the Go code does. -/
def quantum : Bytes → List Nat → QOut
  | [], acc => if acc.isEmpty then ⟨[], [], false⟩ else ⟨[], [], true⟩
  | c :: t, acc =>
    match sextet c with
    | some v =>
      let acc' := acc ++ [v]
      if acc'.length = 4 then ⟨t, emit acc' 4, false⟩ else quantum t acc'
    | none =>
      if isNL c then quantum t acc
      else if c != 61 then ⟨t, [], true⟩
      else match acc.length with
        | 0 => ⟨t, [], true⟩
        | 1 => ⟨t, [], true⟩
        | 2 =>
          match dropNL t with
          | [] => ⟨[], [], true⟩
          | c2 :: t2 =>
            if c2 != 61 then ⟨t2, [], true⟩
            else let r := dropNL t2; ⟨r, emit acc 2, !r.isEmpty⟩
        | _ => let r := dropNL t; ⟨r, emit acc 3, !r.isEmpty⟩

def decodeAux : Nat → Bytes → Bytes → Bytes × Bool
  | 0, _, acc => (acc, true)
  | f + 1, src, acc =>
    if src.isEmpty then (acc, true) else
    let q := quantum src []
    if q.err then (acc ++ q.out, false) else decodeAux f q.rest (acc ++ q.out)

/-- `(octets decoded before any error, err == nil)`. -/
def b64Decode (s : Bytes) : Bytes × Bool := decodeAux (s.length + 1) s []

/-! ## RFC 4648 §4 encoding (the reference the decoder is measured against) -/

/-- the base64 alphabet. -/
def encChar (v : Nat) : UInt8 :=
  if v < 26 then UInt8.ofNat (65 + v)
  else if v < 52 then UInt8.ofNat (97 + (v - 26))
  else if v < 62 then UInt8.ofNat (48 + (v - 52))
  else if v = 62 then 43
  else 47

/-- RFC 4648 §4: 24-bit groups as four characters, `=` padding at the end. -/
def b64Encode : Bytes → Bytes
  | [] => []
  | [x] => [encChar (x.toNat / 4), encChar (x.toNat % 4 * 16), 61, 61]
  | [x, y] => [encChar (x.toNat / 4), encChar (x.toNat % 4 * 16 + y.toNat / 16), encChar (y.toNat % 16 * 4), 61]
  | x :: y :: z :: t =>
    [encChar (x.toNat / 4), encChar (x.toNat % 4 * 16 + y.toNat / 16), encChar (y.toNat % 16 * 4 + z.toNat / 64),
      encChar (z.toNat % 64)] ++ b64Encode t

/-! ## RFC 4034 Appendix B (the reference) -/

/-- `ac += (i & 1) ? key[i] : key[i] << 8` from offset `i`. -/
def rfcAcc (i : Nat) : Bytes → Nat
  | [] => 0
  | b :: t => (if i % 2 = 0 then b.toNat * 256 else b.toNat) + rfcAcc (i + 1) t

/-- `ac += (ac >> 16) & 0xFFFF; return ac & 0xFFFF`. -/
def rfcFold (ac : Nat) : Nat := (ac + ac / 65536 % 65536) % 65536

def rfcKeyTag (rdata : Bytes) : Nat := rfcFold (rfcAcc 0 rdata)

/-- DNSKEY RDATA: flags, protocol, algorithm, key. -/
def keyRdata (flags proto alg : Nat) (key : Bytes) : Bytes :=
  [UInt8.ofNat (flags / 256), UInt8.ofNat (flags % 256), UInt8.ofNat proto, UInt8.ofNat alg] ++ key

/-! ## `KeyTag` (keytag.go) -/

def u32 (n : Nat) : Nat := n % 2 ^ 32

/-- `uint32(key.Flags>>8)<<8 + uint32(key.Flags&0xFF) + uint32(key.Protocol)<<8 + uint32(key.Algorithm)`. -/
def hdrSum (flags proto alg : Nat) : Nat := u32 (flags / 256 * 256 + flags % 256 + proto * 256 + alg)

/-- the inner `for i := range decoded` loop on a `uint32` accumulator. -/
def chunkSum (i sum : Nat) : Bytes → Nat
  | [] => sum
  | b :: t => chunkSum (i + 1) (u32 (sum + (if i % 2 = 0 then b.toNat * 256 else b.toNat))) t

/-- the accumulation over a list of already decoded chunks. -/
def streamSum (sum : Nat) (chunks : List Bytes) : Nat := chunks.foldl (fun s c => chunkSum 0 s c) sum

/-- `sum += sum >> 16 & 0xFFFF; return uint16(sum & 0xFFFF)`. -/
def finish (sum : Nat) : Nat := u32 (sum + sum / 65536 % 65536) % 65536

/-- the chunk loop of `KeyTag`; `none` = "handed to the library". -/
def keyTagLoop (dec : Bytes → Bytes × Bool) (chunk : Nat) : Nat → Bytes → Nat → Option Nat
  | 0, _, sum => some sum
  | f + 1, enc, sum =>
    if enc.isEmpty then some sum else
    let rest := enc.drop chunk
    let r := dec (enc.take chunk)
    if !r.2 then none
    else if !rest.isEmpty && r.1.length != chunk / 4 * 3 then none
    else keyTagLoop dec chunk f rest (chunkSum 0 sum r.1)

/-- the decoded pieces the loop feeds to the accumulator. -/
def chunkPieces (dec : Bytes → Bytes × Bool) (chunk : Nat) : Nat → Bytes → List Bytes
  | 0, _ => []
  | f + 1, enc => if enc.isEmpty then [] else (dec (enc.take chunk)).1 :: chunkPieces dec chunk f (enc.drop chunk)

/-- `oversizedKeyMaterial` (ds_digest.go); `limit = EncodedLen(maxDSKeyMaterial)`. -/
def walk (limit : Nat) : Bytes → Nat → Bool
  | [], _ => false
  | c :: t, m => if isNL c then walk limit t m else if m + 1 > limit then true else walk limit t (m + 1)

def oversized (limit : Nat) (pk : Bytes) : Bool :=
  if pk.length ≤ limit then false
  else if !(pk.take (limit + 1)).any isNL then true
  else walk limit pk 0

def material (pk : Bytes) : Nat := (pk.filter (fun c => !isNL c)).length

/-- `fillKeyTagChunk`: copy up to `room` non-CR/LF octets. -/
def fillChunk : Nat → Bytes → Bytes → Bytes × Bytes
  | _, [], acc => (acc.reverse, [])
  | room, c :: t, acc =>
    if room = 0 then (acc.reverse, c :: t)
    else if isNL c then fillChunk room t acc
    else fillChunk (room - 1) t (c :: acc)

/-- `tail [3]byte` and `seen` of `rsamd5KeyTag`. -/
structure Tail where
  t0 : UInt8 := 0
  t1 : UInt8 := 0
  t2 : UInt8 := 0
  seen : Nat := 0
deriving Repr, DecidableEq

def Tail.push (t : Tail) (b : UInt8) : Tail :=
  { t0 := t.t1, t1 := t.t2, t2 := b, seen := if t.seen < 3 then t.seen + 1 else t.seen }

def rsamd5Loop (dec : Bytes → Bytes × Bool) (chunk : Nat) : Nat → Bytes → Tail → Tail
  | 0, _, t => t
  | f + 1, enc, t =>
    if enc.isEmpty then t else
    let fc := fillChunk chunk enc []
    let r := dec fc.1
    let t' := r.1.foldl Tail.push t
    if !r.2 then t'
    else if !fc.2.isEmpty && r.1.length < chunk / 4 * 3 then t'
    else rsamd5Loop dec chunk f fc.2 t'

/-- the octets `rsamd5KeyTag` feeds through its three-octet window. -/
def rsamd5Fed (dec : Bytes → Bytes × Bool) (chunk : Nat) : Nat → Bytes → Bytes
  | 0, _ => []
  | f + 1, enc =>
    if enc.isEmpty then [] else
    let fc := fillChunk chunk enc []
    let r := dec fc.1
    if !r.2 then r.1
    else if !fc.2.isEmpty && r.1.length < chunk / 4 * 3 then r.1
    else r.1 ++ rsamd5Fed dec chunk f fc.2

def tagOfTail (t : Tail) : Nat := if t.seen < 3 then 0 else t.t0.toNat * 256 + t.t1.toNat

def rsamd5KeyTag (dec : Bytes → Bytes × Bool) (chunk : Nat) (pk : Bytes) : Nat :=
  tagOfTail (rsamd5Loop dec chunk (pk.length + 1) pk {})

/-- `KeyTag`; `libTag` is what `key.KeyTag()` answers (used on fallback). -/
def keyTag (dec : Bytes → Bytes × Bool) (chunk limit : Nat) (libTag : Nat) (flags proto alg : Nat) (pk : Bytes) : Nat :=
  if alg = 1 then rsamd5KeyTag dec chunk pk
  else if oversized limit pk then 0
  else match keyTagLoop dec chunk (pk.length + 1) pk (hdrSum flags proto alg) with
    | none => libTag
    | some s => finish s

/-- miekg `DNSKEY.KeyTag`: `none` = the library panics (RSAMD5, two octets). -/
def libKeyTag (dec : Bytes → Bytes × Bool) (flags proto alg : Nat) (pk : Bytes) : Option Nat :=
  if alg = 1 then
    let m := (dec pk).1
    if m.length > 1 then
      (if m.length < 3 then none
       else some ((m.getD (m.length - 3) 0).toNat * 256 + (m.getD (m.length - 2) 0).toNat))
    else some 0
  else
    let r := dec pk
    if !r.2 then some 0
    else if 4 + r.1.length > 4096 then some 0
    else some (rfcKeyTag (keyRdata flags proto alg r.1))

/-! ## DS digest (ds_digest.go) -/

/-- `dsDigestHash` as the size of the hash; `none` = not computed at all. -/
def dsHashSize : Nat → Option Nat
  | 1 => some 20
  | 2 => some 32
  | 4 => some 48
  | _ => none

/-- `dsDigestMatches`; `digest t data` is the hash oracle, `ownerWire` the
packed canonical owner (`none` = the name does not pack). -/
def dsDigestMatches (dec : Bytes → Bytes × Bool) (digest : Nat → Bytes → Bytes) (limit maxMat : Nat)
    (ownerWire : Option Bytes) (flags proto alg : Nat) (pk : Bytes) (dt : Nat) (want : Bytes) : Bool :=
  if want.isEmpty then false else
  match dsHashSize dt with
  | none => false
  | some sz =>
    if sz != want.length then false
    else if oversized limit pk then false
    else
      let r := dec pk
      if !r.2 || r.1.isEmpty || r.1.length > maxMat then false else
      match ownerWire with
      | none => false
      | some ow =>
        digest dt (ow ++ [UInt8.ofNat (flags / 256), UInt8.ofNat (flags % 256), UInt8.ofNat proto, UInt8.ofNat alg] ++ r.1) == want

/-! ## RSA (rsa.go) -/

/-- `big.Int.SetBytes`. -/
def natOfBytes (b : Bytes) : Nat := b.foldl (fun a x => a * 256 + x.toNat) 0

def bytesOfNatAux : Nat → Nat → Bytes → Bytes
  | 0, _, acc => acc
  | f + 1, n, acc => if n = 0 then acc else bytesOfNatAux f (n / 256) (UInt8.ofNat (n % 256) :: acc)

/-- `big.Int.Bytes`: minimal big-endian, empty for zero. -/
def bytesOfNat (n : Nat) : Bytes := bytesOfNatAux n n []

/-- `big.Int.BitLen`. -/
def bitLen (n : Nat) : Nat := if n = 0 then 0 else Nat.log2 n + 1

/-- the part of `parseRSAPublicKey` after the exponent length is known. -/
def parseRSAAt (kb : Bytes) (off explen : Nat) : Option (Nat × Nat) :=
  if explen = 0 || kb.length ≤ off + explen then none
  else if kb.getD off 0 == 0 || kb.getD (off + explen) 0 == 0 then none
  else if natOfBytes (kb.drop (off + explen)) = 0 || natOfBytes ((kb.drop off).take explen) = 0 then none
  else some (natOfBytes (kb.drop (off + explen)), natOfBytes ((kb.drop off).take explen))

/-- `parseRSAPublicKey` on the decoded key octets (RFC 3110): one length
octet, or a zero octet followed by two. -/
def parseRSA (kb : Bytes) : Option (Nat × Nat) :=
  match kb with
  | [] => none
  | b0 :: _ =>
    if b0 == 0 then
      (if kb.length < 3 then none else parseRSAAt kb 3 ((kb.getD 1 0).toNat * 256 + (kb.getD 2 0).toNat))
    else parseRSAAt kb 1 b0.toNat

structure RSALimits where
  minBits : Nat
  maxBits : Nat
  maxExpBits : Nat

/-- `usableRSAKey`. -/
def usableRSAKey (L : RSALimits) (n e : Nat) : Bool :=
  if bitLen n < L.minBits || bitLen n > L.maxBits then false
  else if e % 2 = 0 || e < 3 || e ≥ n || bitLen e > L.maxExpBits then false
  else true

/-- `big.Int.Exp(b, e, n)` by square and multiply. -/
def powMod (b e n : Nat) : Nat :=
  if h : e = 0 then 1 % n else
  let r := powMod (b * b % n) (e / 2) n
  if e % 2 = 1 then b * r % n else r
termination_by e
decreasing_by omega

/-- EMSA-PKCS1-v1_5 as `rsaVerifyPKCS1v15` builds it. -/
def emBytes (pfx hashed : Bytes) (size : Nat) : Option Bytes :=
  if size < pfx.length + hashed.length + 11 then none
  else some ([0, 1] ++ List.replicate (size - (pfx.length + hashed.length) - 3) 255 ++ [0] ++ pfx ++ hashed)

def leftPad (size : Nat) (b : Bytes) : Bytes := List.replicate (size - b.length) 0 ++ b

/-- `rsaVerifyPKCS1v15`: `true` = nil error. -/
def rsaRaw (n e : Nat) (pfx hashed sig : Bytes) : Bool :=
  let size := (bitLen n + 7) / 8
  if sig.length != size then false else
  let c := natOfBytes sig
  if c ≥ n then false else
  let em := bytesOfNat (powMod c e n)
  if em.length > size then false else
  match emBytes pfx hashed size with
  | none => false
  | some expected => leftPad size em == expected

inductive Verdict | ok | badSig | noKey | missingSigned | err
deriving Repr, DecidableEq

/-- `rsaHash`: DigestInfo prefix per algorithm. -/
def rsaPrefix : Nat → Option Bytes
  | 5 => some [0x30, 0x21, 0x30, 0x09, 0x06, 0x05, 0x2b, 0x0e, 0x03, 0x02, 0x1a, 0x05, 0x00, 0x04, 0x14]
  | 7 => some [0x30, 0x21, 0x30, 0x09, 0x06, 0x05, 0x2b, 0x0e, 0x03, 0x02, 0x1a, 0x05, 0x00, 0x04, 0x14]
  | 8 => some [0x30, 0x31, 0x30, 0x0d, 0x06, 0x09, 0x60, 0x86, 0x48, 0x01, 0x65, 0x03, 0x04, 0x02, 0x01, 0x05, 0x00, 0x04, 0x20]
  | 10 => some [0x30, 0x51, 0x30, 0x0d, 0x06, 0x09, 0x60, 0x86, 0x48, 0x01, 0x65, 0x03, 0x04, 0x02, 0x03, 0x05, 0x00, 0x04, 0x40]
  | _ => none

/-- `verifyRSASignature` after hashing; `std n e pfx hashed sig` stands for
`rsa.VerifyPKCS1v15` (taken for exponents of at most 31 bits). -/
def verifyRSA (std : Nat → Nat → Bytes → Bytes → Bytes → Bool) (dec : Bytes → Bytes × Bool) (L : RSALimits)
    (alg : Nat) (pk hashed sig : Bytes) : Verdict :=
  let r := dec pk
  if !r.2 || r.1.isEmpty then Verdict.noKey else
  match parseRSA r.1 with
  | none => Verdict.noKey
  | some (n, e) =>
    if !usableRSAKey L n e then Verdict.noKey else
    match rsaPrefix alg with
    | none => Verdict.noKey
    | some pfx =>
      if bitLen e ≤ 31 then (if std n e pfx hashed sig then Verdict.ok else Verdict.badSig)
      else if rsaRaw n e pfx hashed sig then Verdict.ok else Verdict.badSig

/-! ## canonical signed data (rsa.go `rrsigSignedData`, `canonicalRRset`) -/

def lowerByte (c : UInt8) : UInt8 := if 65 ≤ c.toNat ∧ c.toNat ≤ 90 then UInt8.ofNat (c.toNat + 32) else c

def lower (b : Bytes) : Bytes := b.map lowerByte

def be16 (n : Nat) : Bytes := [UInt8.ofNat (n / 256 % 256), UInt8.ofNat (n % 256)]
def be32 (n : Nat) : Bytes :=
  [UInt8.ofNat (n / 16777216 % 256), UInt8.ofNat (n / 65536 % 256), UInt8.ofNat (n / 256 % 256), UInt8.ofNat (n % 256)]

abbrev Label := Bytes

def wireName (ls : List Label) : Bytes := ls.flatMap (fun l => UInt8.ofNat l.length :: l) ++ [0]

/-- owner as signed: wildcard reconstruction from the RRSIG label count,
then lowercase.  `none`: Labels = 0 under a non-root owner gives `*..`,
which the packer rejects. -/
def canonOwner (labels : List Label) (sigLabels : Nat) : Option (List Label) :=
  if labels.length > sigLabels then
    (if sigLabels = 0 then none
     else some (([42] : Bytes) :: (labels.drop (labels.length - sigLabels)).map lower))
  else some (labels.map lower)

/-- `bytes.Compare(a, b) <= 0`. -/
def bytesLe : Bytes → Bytes → Bool
  | [], _ => true
  | _ :: _, [] => false
  | a :: s, b :: t => if a.toNat < b.toNat then true else if b.toNat < a.toNat then false else bytesLe s t

def insertRd (x : Bytes) : List Bytes → List Bytes
  | [] => [x]
  | y :: t => if bytesLe x y then x :: y :: t else y :: insertRd x t

/-- stands for `sort.Slice` by RDATA (theorems only use "sorted permutation"). -/
def sortRd : List Bytes → List Bytes
  | [] => []
  | x :: t => insertRd x (sortRd t)

/-- the `if i > 0 && bytes.Equal(wire, wires[i-1]) { continue }` loop. -/
def dedupAdj : List Bytes → List Bytes
  | [] => []
  | [x] => [x]
  | x :: y :: t => if x == y then dedupAdj (y :: t) else x :: dedupAdj (y :: t)

/-- `canonicalRRset` over an abstract per-record packer. -/
def canonicalRRset (pack : Bytes → Bytes) (rds : List Bytes) : Bytes :=
  (dedupAdj (sortRd rds)).flatMap pack

def packRR (ownerWire : Bytes) (typ cls ttl : Nat) (rd : Bytes) : Bytes :=
  ownerWire ++ be16 typ ++ be16 cls ++ be32 ttl ++ be16 rd.length ++ rd

/-- `rrsigSignedData`; `signerWire` and the canonical RDATA of each record
are the packer's output (oracle columns of the op line). -/
def signedData (typ cls alg labels origTTL exp inc keyTag : Nat) (signerWire : Bytes)
    (ownerLabels : List Label) (rds : List Bytes) : Option Bytes :=
  match canonOwner ownerLabels labels with
  | none => none
  | some o =>
    some (be16 typ ++ [UInt8.ofNat alg, UInt8.ofNat labels] ++ be32 origTTL ++ be32 exp ++ be32 inc ++ be16 keyTag
      ++ signerWire ++ canonicalRRset (packRR (wireName o) typ cls origTTL) rds)

/-! ## `canonicalizeRdataNames` on wire RDATA (RFC 4034 §6.2 as amended by RFC 6840 §5.1) -/

/-- lowercase the label contents of one uncompressed wire name at the head of
`rd`: `(folded name, rest)`; `none` if the name is malformed. -/
def foldName : Nat → Bytes → Option (Bytes × Bytes)
  | 0, _ => none
  | _ + 1, [] => none
  | f + 1, l :: t =>
    if l == 0 then some ([0], t)
    else if l.toNat > 63 || t.length < l.toNat then none
    else match foldName f (t.drop l.toNat) with
      | none => none
      | some (nm, rest) => some (l :: lower (t.take l.toNat) ++ nm, rest)

def foldNames : Nat → Bytes → Option (Bytes × Bytes)
  | 0, rd => some ([], rd)
  | n + 1, rd =>
    match foldName (rd.length + 1) rd with
    | none => none
    | some (nm, rest) =>
      match foldNames n rest with
      | none => none
      | some (nms, rest') => some (nm ++ nms, rest')

/-- where the names of a type's RDATA lie: octets before them, how many, octets after them. -/
def rdataLayout (typ : Nat) (rd : Bytes) : Option (Nat × Nat × Nat) :=
  if typ = 2 ∨ typ = 3 ∨ typ = 4 ∨ typ = 5 ∨ typ = 7 ∨ typ = 8 ∨ typ = 9 ∨ typ = 12 ∨ typ = 39 then some (0, 1, 0)
  else if typ = 15 ∨ typ = 18 ∨ typ = 21 ∨ typ = 36 then some (2, 1, 0)
  else if typ = 33 then some (6, 1, 0)
  else if typ = 6 then some (0, 2, 20)
  else if typ = 14 ∨ typ = 17 then some (0, 2, 0)
  else if typ = 26 then some (2, 2, 0)
  else if typ = 35 then
    let s1 := 4 + 1 + (rd.getD 4 0).toNat
    let s2 := s1 + 1 + (rd.getD s1 0).toNat
    let s3 := s2 + 1 + (rd.getD s2 0).toNat
    some (s3, 1, 0)
  else none

/-- the RDATA as it is signed: names of the listed types lowercased, everything
else (NSEC, SVCB, unknown types …) as published. `none`: RDATA that does not
parse under its type's layout. -/
def canonRdata (typ : Nat) (rd : Bytes) : Option Bytes :=
  match rdataLayout typ rd with
  | none => some rd
  | some (skip, n, tail) =>
    if rd.length < skip then none else
    match foldNames n (rd.drop skip) with
    | none => none
    | some (nms, rest) => if rest.length != tail then none else some (rd.take skip ++ nms ++ rest)

/-! ## binding preflight (signature.go `signatureBinding`) on presentation names -/

def equalFold (a b : Bytes) : Bool := lower a == lower b

/-- `dns.IsFqdn`. -/
def isFqdn (s : Bytes) : Bool :=
  match s.reverse with
  | [] => false
  | c :: r => if c != 46 then false else (r.takeWhile (· == 92)).length % 2 == 0

def fqdn (s : Bytes) : Bytes := if isFqdn s then s else s ++ [46]

/-- `dns.CanonicalName`. -/
def canonicalName (s : Bytes) : Bytes := lower (fqdn s)

def countDots : Bytes → Nat → Nat
  | [], _ => 0
  | [_], _ => 0
  | c :: t, bs =>
    if c == 46 then (if bs % 2 = 0 then 1 else 0) + countDots t 0
    else if c == 92 then countDots t (bs + 1)
    else countDots t 0

/-- `dns.CountLabel`. -/
def countLabel (s : Bytes) : Nat := if s == [46] then 0 else 1 + countDots s 0

/-- `dnsutil.NameInZone`. -/
def nameInZone (name zone : Bytes) : Bool :=
  if zone == [46] || zone.isEmpty then true
  else if name == zone then true
  else if name.length ≤ zone.length then false
  else
    let cut := name.length - zone.length
    if name.getD (cut - 1) 0 != 46 || name.drop cut != zone then false
    else (((name.take (cut - 1)).reverse.takeWhile (· == 92)).length % 2 == 0)

structure BKey where
  proto : Nat
  flags : Nat
  alg : Nat
  cls : Nat
  name : Bytes
  tag : Nat

structure BSig where
  tag : Nat
  alg : Nat
  cls : Nat
  labels : Nat
  typ : Nat
  signer : Bytes
  name : Bytes

structure BHdr where
  cls : Nat
  typ : Nat
  name : Bytes
deriving DecidableEq

/-- `dns.IsRRset` on the headers. -/
def isRRset : List BHdr → Bool
  | [] => false
  | h :: t => t.all (fun c => c.typ == h.typ && c.cls == h.cls && c.name == h.name)

/-- `signatureBinding`; `k.tag` is `KeyTag(k)`. -/
def signatureBinding (k : BKey) (sig : BSig) (hs : List BHdr) : Verdict :=
  match hs with
  | [] => Verdict.missingSigned
  | h0 :: _ =>
    if !isRRset hs then Verdict.missingSigned
    else if k.proto != 3 || k.flags / 256 % 2 == 0 then Verdict.noKey
    else if sig.tag != k.tag || sig.alg != k.alg || sig.cls != k.cls then Verdict.noKey
    else if !equalFold sig.signer k.name then Verdict.noKey
    else
      let signer := canonicalName sig.signer
      if h0.cls != sig.cls || h0.typ != sig.typ || countLabel h0.name < sig.labels
        || !equalFold h0.name sig.name || !nameInZone (canonicalName h0.name) signer then Verdict.missingSigned
      else Verdict.ok

/-- the preflight of miekg `RRSIG.Verify` (`true` = it goes on to the
cryptography); `libTag` is `k.KeyTag()`. -/
def libBinding (k : BKey) (libTag : Nat) (sig : BSig) (hs : List BHdr) : Bool :=
  match hs with
  | [] => false
  | h0 :: _ =>
    isRRset hs && sig.tag == libTag && sig.cls == k.cls && sig.alg == k.alg
      && equalFold (canonicalName sig.signer) k.name && k.proto == 3 && k.flags / 256 % 2 == 1
      && h0.cls == sig.cls && h0.typ == sig.typ && !(countLabel h0.name % 256 < sig.labels)
      && equalFold h0.name sig.name && (canonicalName sig.signer).isSuffixOf (canonicalName h0.name)

/-! ## `VerifyDS` (verify.go): which DS sets are bogus, which only unsupported -/

def hexVal (c : UInt8) : Option Nat :=
  let n := c.toNat
  if 48 ≤ n ∧ n ≤ 57 then some (n - 48)
  else if 97 ≤ n ∧ n ≤ 102 then some (n - 87)
  else if 65 ≤ n ∧ n ≤ 70 then some (n - 55)
  else none

/-- `hex.DecodeString`: `none` on odd length or a non-hex character. -/
def hexDecode : Bytes → Option Bytes
  | [] => some []
  | [_] => none
  | a :: b :: t =>
    match hexVal a, hexVal b, hexDecode t with
    | some x, some y, some r => some (UInt8.ofNat (x * 16 + y) :: r)
    | _, _, _ => none

structure DSRec where
  name : Bytes
  cls : Nat
  keyTag : Nat
  alg : Nat
  dt : Nat
  digest : Bytes   -- the Digest field as text
deriving DecidableEq

structure DKey where
  flags : Nat
  proto : Nat
  alg : Nat
  cls : Nat
  name : Bytes
  pk : Bytes
  tag : Nat        -- `KeyTag(key)`
deriving DecidableEq

/-- `usableDSCandidate` (the `keyMap[parentDS.KeyTag]` lookup is the tag test). -/
def usableDSCandidate (limit : Nat) (d : DSRec) (k : DKey) : Bool :=
  !oversized limit k.pk && k.tag == d.keyTag && k.alg == d.alg && k.cls == d.cls
    && equalFold k.name d.name && k.proto == 3 && k.flags / 256 % 2 == 1

structure DSState where
  supported : Nat := 0
  matched : Bool := false

/-- one iteration of the loop of `verifyDS` (`anchored == nil`: it returns at
the first DS that authenticates a key); `sup d` is `IsSupportedDS`,
`dmatch k dt want` is `dsDigestMatches`. -/
def verifyDSStep (sup : DSRec → Bool) (dmatch : DKey → Nat → Bytes → Bool) (limit : Nat) (keys : List DKey)
    (st : DSState) (d : DSRec) : DSState :=
  if st.matched then st
  else if !sup d then st
  else
    let st := { st with supported := st.supported + 1 }
    let cands := keys.filter (usableDSCandidate limit d)
    if cands.isEmpty then st
    else match hexDecode d.digest with
      | none => st
      | some want =>
        if want.isEmpty then st
        else if cands.any (fun k => dmatch k d.dt want) then { st with matched := true } else st

/-- `VerifyDS`: `(unsupportedOnly, err == nil)`. -/
def verifyDS (sup : DSRec → Bool) (dmatch : DKey → Nat → Bytes → Bool) (limit : Nat) (keys : List DKey)
    (dss : List DSRec) : Bool × Bool :=
  let st := dss.foldl (verifyDSStep sup dmatch limit keys) {}
  if st.matched then (false, true)
  else if dss.isEmpty then (false, false)
  else if st.supported = 0 then (true, false)
  else (false, false)

/-- a DS that authenticates one of the offered keys. -/
def dsAuthenticates (sup : DSRec → Bool) (dmatch : DKey → Nat → Bytes → Bool) (limit : Nat) (keys : List DKey)
    (d : DSRec) : Bool :=
  sup d && (match hexDecode d.digest with
    | none => false
    | some want => !want.isEmpty && (keys.filter (usableDSCandidate limit d)).any (fun k => dmatch k d.dt want))

/-- the keys `VerifyDSAnchoredWithWork` returns: every offered key some
supported DS authenticates. -/
def anchoredKeys (sup : DSRec → Bool) (dmatch : DKey → Nat → Bytes → Bool) (limit : Nat) (keys : List DKey)
    (dss : List DSRec) : List DKey :=
  keys.filter (fun k => dss.any (fun d => sup d && (match hexDecode d.digest with
    | none => false
    | some want => !want.isEmpty && usableDSCandidate limit d k && dmatch k d.dt want)))

/-! ## `verifySignature`, `cryptoVerify` (signature.go, verify.go) -/

structure VKey where
  flags : Nat
  proto : Nat
  alg : Nat
  cls : Nat
  name : Bytes
  pk : Bytes
deriving DecidableEq

structure VSig where
  typ : Nat
  alg : Nat
  labels : Nat
  origTTL : Nat
  exp : Nat
  inc : Nat
  tag : Nat
  cls : Nat
  signer : Bytes
  name : Bytes
  sigText : Bytes
deriving DecidableEq

/-- one record of an RRset: presentation owner, type, class, the owner's wire
labels and the canonical RDATA (packer output). -/
structure VRec where
  name : Bytes
  typ : Nat
  cls : Nat
  ownerLabels : List Label
  canonRd : Bytes
  target : Bytes   -- presentation target of a CNAME / DNAME record, empty otherwise
deriving DecidableEq

/-- what the standard library contributes for one (key, signature, RRset):
the digest of the signed data (RSA), the verdict of the curve arithmetic
(`none` = the key octets are not a point), the packed canonical signer. -/
structure SigOracle where
  hashed : Bytes := []
  curve : Option Bool := some false
  signerWire : Bytes := [0]

def bkeyOf (tagOf : VKey → Nat) (k : VKey) : BKey :=
  { proto := k.proto, flags := k.flags, alg := k.alg, cls := k.cls, name := k.name, tag := tagOf k }

def bsigOf (s : VSig) : BSig :=
  { tag := s.tag, alg := s.alg, cls := s.cls, labels := s.labels, typ := s.typ, signer := s.signer, name := s.name }

def hdrsOf (set : List VRec) : List BHdr := set.map (fun r => { cls := r.cls, typ := r.typ, name := r.name })

/-- `verifyECDSASignature` / `verifyEd25519Signature` after hashing. -/
def verifyCurve (dec : Bytes → Bytes × Bool) (alg : Nat) (curve : Option Bool) (pk sig : Bytes) : Verdict :=
  if alg = 15 then
    let p := dec pk
    if !p.2 || p.1.length != 32 then Verdict.noKey
    else if sig.length != 64 then Verdict.badSig
    else if curve == some true then Verdict.ok else Verdict.badSig
  else
    let size := if alg = 13 then 32 else 48
    let p := dec pk
    if !p.2 then Verdict.noKey
    else if p.1.length != 2 * size then Verdict.noKey
    else if sig.length != 2 * size then Verdict.badSig
    else match curve with
      | none => Verdict.noKey
      | some true => Verdict.ok
      | some false => Verdict.badSig

/-- `verifySignature`. -/
def verifySignature (std : Nat → Nat → Bytes → Bytes → Bytes → Bool) (dec : Bytes → Bytes × Bool) (L : RSALimits)
    (tagOf : VKey → Nat) (orc : SigOracle) (k : VKey) (sig : VSig) (set : List VRec) : Verdict :=
  match signatureBinding (bkeyOf tagOf k) (bsigOf sig) (hdrsOf set) with
  | Verdict.ok =>
    match set with
    | [] => Verdict.missingSigned
    | r0 :: _ =>
      match signedData sig.typ r0.cls sig.alg sig.labels sig.origTTL sig.exp sig.inc sig.tag orc.signerWire
          r0.ownerLabels (set.map (·.canonRd)) with
      | none => Verdict.err
      | some _ =>
        let s := dec sig.sigText
        if !s.2 then Verdict.badSig
        else if sig.alg = 5 ∨ sig.alg = 7 ∨ sig.alg = 8 ∨ sig.alg = 10 then verifyRSA std dec L sig.alg k.pk orc.hashed s.1
        else if sig.alg = 13 ∨ sig.alg = 14 ∨ sig.alg = 15 then verifyCurve dec sig.alg orc.curve k.pk s.1
        else Verdict.noKey
  | v => v

/-- `verifySignatureSupported`. -/
def ownAlg (a : Nat) : Bool := a = 5 || a = 7 || a = 8 || a = 10 || a = 13 || a = 14 || a = 15

/-- `cryptoVerify`: the own verifier for the algorithms it implements, the
library (`libOK`) for anything else. -/
def cryptoVerify (std : Nat → Nat → Bytes → Bytes → Bytes → Bool) (dec : Bytes → Bytes × Bool) (L : RSALimits)
    (tagOf : VKey → Nat) (libOK : Bool) (orc : SigOracle) (k : VKey) (sig : VSig) (set : List VRec) : Verdict :=
  if ownAlg k.alg then verifySignature std dec L tagOf orc k sig set
  else if libOK then Verdict.ok else Verdict.err

/-! ## `verifyOneSig`, `VerifyRRSIG` (verify.go) -/

/-- `usableSignatureCandidate`. -/
def usableSignatureCandidate (tagOf : VKey → Nat) (sig : VSig) (k : VKey) : Bool :=
  tagOf k == sig.tag && k.alg == sig.alg && k.cls == sig.cls && equalFold k.name sig.signer
    && k.proto == 3 && k.flags / 256 % 2 == 1

/-- `wildcardExpanded`: the RRSIG counts fewer labels than the owner has, the
leading `*` label of a wildcard owner itself not counted. -/
def wildcardExpanded (owner : Bytes) (sigLabels : Nat) : Bool :=
  let labels := countLabel owner
  let labels := if owner.take 2 == [42, 46] then labels - 1 else labels
  decide (sigLabels < labels)

/-- `signatureMatchesRRset`; a denial record (NSEC 47, NSEC3 50) is never the
product of wildcard expansion. -/
def signatureMatchesRRset (sig : VSig) (set : List VRec) : Bool :=
  match set with
  | [] => false
  | h :: _ =>
    !((sig.typ == 47 || sig.typ == 50) && wildcardExpanded h.name sig.labels)
      && isRRset (hdrsOf set) && h.cls == sig.cls && h.typ == sig.typ && decide (sig.labels ≤ countLabel h.name)
      && equalFold h.name sig.name && nameInZone (canonicalName h.name) (canonicalName sig.signer)

/-- `verifyOneSig` (`true` = nil error): `cv` is `cryptoVerify`, `inPeriod`
is `sig.ValidityPeriod(now)`, `supAlg` is `IsSupportedDNSKEYAlgorithm`. -/
def verifyOneSig (cv : VKey → VSig → List VRec → Verdict) (inPeriod : VSig → Bool) (supAlg : Nat → Bool)
    (tagOf : VKey → Nat) (keys : List VKey) (set : List VRec) (sig : VSig) : Bool :=
  let cands := keys.filter (fun k => tagOf k == sig.tag)
  if cands.isEmpty then false
  else if !cands.any (fun k => equalFold sig.signer k.name) then false
  else if !inPeriod sig then false
  else if !supAlg sig.alg then false
  else if !signatureMatchesRRset sig set then false
  else (cands.filter (usableSignatureCandidate tagOf sig)).any (fun k => cv k sig set == Verdict.ok)

structure VMsg where
  answer : List VRec
  ns : List VRec
  sigs : List VSig

def rrKey (r : VRec) : Bytes × Nat × Nat := (lower r.name, r.typ, r.cls)
def sigKey (s : VSig) : Bytes × Nat × Nat := (lower s.name, s.typ, s.cls)

/-- labels of a presentation name: the text between unescaped dots (a dot is
escaped by an odd run of backslashes before it), the root is no label. -/
def splitAux : Bytes → Bytes → Nat → List Bytes
  | [], cur, _ => if cur.isEmpty then [] else [cur.reverse]
  | c :: t, cur, bs =>
    if c == 46 && bs % 2 == 0 then cur.reverse :: splitAux t [] 0
    else splitAux t (c :: cur) (if c == 92 then bs + 1 else 0)

def splitPres (s : Bytes) : List Bytes := if s == [46] then [] else splitAux s [] 0

/-- `isSynthesizedCNAME` (RFC 6672 §3.3): some DNAME `(owner, target)` is a
proper ancestor of the CNAME owner and substituting its target for its owner
gives the CNAME target. -/
def isSynthCNAME (owner target : Bytes) (dnames : List (Bytes × Bytes)) : Bool :=
  let ol := splitPres owner
  dnames.any fun d =>
    let dl := splitPres d.1
    !dl.isEmpty && decide (dl.length < ol.length)
      && (ol.drop (ol.length - dl.length)).map lower == dl.map lower
      && equalFold (fqdn ((ol.take (ol.length - dl.length)).flatMap (fun l => l ++ [46]) ++ d.2)) (fqdn target)

/-- the DNAME records of the signer zone, from both sections. -/
def dnamesOf (z : Bytes) (m : VMsg) : List (Bytes × Bytes) :=
  ((m.answer ++ m.ns).filter (fun r => r.typ == 39 && nameInZone (lower r.name) z)).map (fun r => (r.name, r.target))

/-- a CNAME that needs no signature of its own: the synthesis of an in-zone DNAME of the message. -/
def exempt (z : Bytes) (m : VMsg) (r : VRec) : Bool := r.typ == 5 && isSynthCNAME r.name r.target (dnamesOf z m)

/-- the records `VerifyRRSIG` has to see signed: the answer section and the
authority section without synthesised CNAMEs; from the authority section
also without NS records and without records of other zones. -/
def collected (z : Bytes) (m : VMsg) : List VRec :=
  m.answer.filter (fun r => !exempt z m r)
    ++ m.ns.filter (fun r => r.typ != 2 && !exempt z m r && nameInZone (lower r.name) z)

/-- `VerifyRRSIG` (`true` = `(true, nil)`). `oneSig set sig` is `verifyOneSig`. -/
def verifyRRSIG (oneSig : List VRec → VSig → Bool) (nKeys : Nat) (zone : Bytes) (m : VMsg) : Bool :=
  if nKeys = 0 then false else
  let z := lower (fqdn zone)
  if m.answer.any (fun r => !exempt z m r && !nameInZone (lower r.name) z) then false else
  let recs := collected z m
  if recs.isEmpty then true
  else if m.sigs.isEmpty then false
  else
    let sigIdx := m.sigs.filter (fun s => nameInZone (lower s.name) z)
    recs.all (fun r =>
      let set := recs.filter (fun x => rrKey x == rrKey r)
      let sl := sigIdx.filter (fun s => sigKey s == rrKey r)
      !sl.isEmpty && isRRset (hdrsOf set) && sl.any (fun s => oneSig set s))

/-! ## `VerifyRRSIGWithWork`: the same walk under a work governor -/

/-- Go's string order on byte strings. -/
def bytesLt : Bytes → Bytes → Bool
  | _, [] => false
  | [], _ :: _ => true
  | a :: s, b :: t => if a.toNat < b.toNat then true else if b.toNat < a.toNat then false else bytesLt s t

/-- lexicographic order on a list of (less, equal) comparisons. -/
def lexLt : List (Bool × Bool) → Bool
  | [] => false
  | (lt, eq) :: t => if lt then true else if eq then lexLt t else false

def natC (a b : Nat) : Bool × Bool := (decide (a < b), decide (a = b))
def bytesC (a b : Bytes) : Bool × Bool := (bytesLt a b, decide (a = b))

def insertBy {α : Type} (lt : α → α → Bool) (x : α) : List α → List α
  | [] => [x]
  | y :: t => if lt y x then y :: insertBy lt x t else x :: y :: t

/-- a sort of duplicate-free lists under a total order (stands for `sort.Slice`). -/
def sortBy {α : Type} (lt : α → α → Bool) : List α → List α
  | [] => []
  | x :: t => insertBy lt x (sortBy lt t)

/-- keep the first record of every identity. -/
def dedupBy {α κ : Type} [DecidableEq κ] (key : α → κ) : List α → List κ → List α
  | [], _ => []
  | x :: t, seen => if key x ∈ seen then dedupBy key t seen else x :: dedupBy key t (key x :: seen)

/-- `dnskeyID`: the key with its owner spelled canonically. -/
def keyIdent (k : VKey) : VKey := { k with name := lower (fqdn k.name) }

def keyLt (a b : VKey) : Bool :=
  lexLt [bytesC (lower (fqdn a.name)) (lower (fqdn b.name)), natC a.cls b.cls, natC a.flags b.flags,
    natC a.proto b.proto, natC a.alg b.alg, bytesC a.pk b.pk]

/-- `uniqueSortedDNSKEYs`. -/
def uniqueSortedKeys (keys : List VKey) : List VKey :=
  if keys.length < 2 then keys else sortBy keyLt (dedupBy keyIdent keys [])

/-- `rrsigID`: the signature with owner and signer spelled canonically. -/
def sigIdent (s : VSig) : VSig := { s with name := lower (fqdn s.name), signer := lower (fqdn s.signer) }

def sigLt (a b : VSig) : Bool :=
  lexLt [bytesC (lower (fqdn a.name)) (lower (fqdn b.name)), natC a.cls b.cls, natC a.typ b.typ, natC a.alg b.alg,
    natC a.tag b.tag, bytesC (lower (fqdn a.signer)) (lower (fqdn b.signer)), natC a.labels b.labels,
    natC a.origTTL b.origTTL, natC a.inc b.inc, natC a.exp b.exp, bytesC a.sigText b.sigText]

/-- `uniqueSortedRRSIGs`. -/
def uniqueSortedSigs (sigs : List VSig) : List VSig := sortBy sigLt (dedupBy sigIdent sigs [])

def groupLt (a b : Bytes × Nat × Nat) : Bool := lexLt [bytesC a.1 b.1, natC a.2.1 b.2.1, natC a.2.2 b.2.2]

/-- the governor of the harness: a ceiling on candidate keys per signature,
on public-key operations per RRset, and a total budget of operations. -/
structure Gov where
  maxCand : Nat
  maxSet : Nat
  budget : Nat

inductive WRes | ok | fail | work
deriving Repr, DecidableEq

/-- the candidate loop of `verifyOneSigWithWork`: `(result, operations begun, rrsetUsed)`. -/
def candLoop (cvOk : VKey → Bool) (g : Gov) : List VKey → Nat → Nat → Nat → WRes × Nat × Nat
  | [], _, ru, b => (WRes.fail, b, ru)
  | k :: t, cu, ru, b =>
    if g.maxCand ≤ cu then (WRes.work, b, ru)
    else if g.maxSet ≤ ru then (WRes.work, b, ru)
    else if g.budget ≤ b then (WRes.work, b, ru)
    else if cvOk k then (WRes.ok, b + 1, ru + 1)
    else candLoop cvOk g t (cu + 1) (ru + 1) (b + 1)

/-- `verifyOneSigWithWork`. -/
def oneSigWork (cv : VKey → VSig → List VRec → Verdict) (inPeriod : VSig → Bool) (supAlg : Nat → Bool)
    (tagOf : VKey → Nat) (keys : List VKey) (g : Gov) (set : List VRec) (sig : VSig) (ru b : Nat) : WRes × Nat × Nat :=
  let cands := keys.filter (fun k => tagOf k == sig.tag)
  if cands.isEmpty then (WRes.fail, b, ru)
  else if !cands.any (fun k => equalFold sig.signer k.name) then (WRes.fail, b, ru)
  else if !inPeriod sig then (WRes.fail, b, ru)
  else if !supAlg sig.alg then (WRes.fail, b, ru)
  else if !signatureMatchesRRset sig set then (WRes.fail, b, ru)
  else candLoop (fun k => cv k sig set == Verdict.ok) g
    (uniqueSortedKeys (cands.filter (usableSignatureCandidate tagOf sig))) 0 ru b

/-- the signature loop over one RRset. -/
def sigLoop (one : VSig → Nat → Nat → WRes × Nat × Nat) : List VSig → Nat → Nat → WRes × Nat
  | [], _, b => (WRes.fail, b)
  | s :: t, ru, b =>
    match one s ru b with
    | (WRes.ok, b', _) => (WRes.ok, b')
    | (WRes.work, b', _) => (WRes.work, b')
    | (WRes.fail, b', ru') => sigLoop one t ru' b'

/-- the loop over the RRsets of the message, in key order. -/
def groupLoop (perGroup : (Bytes × Nat × Nat) → Nat → WRes × Nat) : List (Bytes × Nat × Nat) → Nat → WRes × Nat
  | [], b => (WRes.ok, b)
  | k :: t, b =>
    match perGroup k b with
    | (WRes.ok, b') => groupLoop perGroup t b'
    | r => r

/-- `VerifyRRSIGWithWork`: `(result, public-key operations begun)`. -/
def verifyRRSIGWork (cv : VKey → VSig → List VRec → Verdict) (inPeriod : VSig → Bool) (supAlg : Nat → Bool)
    (tagOf : VKey → Nat) (keys : List VKey) (g : Gov) (zone : Bytes) (m : VMsg) : WRes × Nat :=
  if keys.length = 0 then (WRes.fail, 0) else
  let z := lower (fqdn zone)
  if m.answer.any (fun r => !exempt z m r && !nameInZone (lower r.name) z) then (WRes.fail, 0) else
  let recs := collected z m
  if recs.isEmpty then (WRes.ok, 0)
  else if m.sigs.isEmpty then (WRes.fail, 0)
  else
    let sigIdx := m.sigs.filter (fun s => nameInZone (lower s.name) z)
    let groups := sortBy groupLt (dedupBy id (recs.map rrKey) [])
    groupLoop (fun k b =>
      let set := recs.filter (fun x => rrKey x == k)
      let sl := sigIdx.filter (fun s => sigKey s == k)
      if sl.isEmpty then (WRes.fail, b)
      else if !isRRset (hdrsOf set) then (WRes.fail, b)
      else sigLoop (oneSigWork cv inPeriod supAlg tagOf keys g set) (uniqueSortedSigs sl) 0 b) groups 0

/-! ## `VerifyDSWithWork`: the DS walk under a work governor -/

def upperByte (c : UInt8) : UInt8 := if 97 ≤ c.toNat ∧ c.toNat ≤ 122 then UInt8.ofNat (c.toNat - 32) else c

/-- `dsID`: owner canonical, digest text upper-cased. -/
def dsIdent (d : DSRec) : DSRec := { d with name := lower (fqdn d.name), digest := d.digest.map upperByte }

def dsLt (a b : DSRec) : Bool :=
  lexLt [bytesC (lower (fqdn a.name)) (lower (fqdn b.name)), natC a.cls b.cls, natC a.keyTag b.keyTag, natC a.alg b.alg,
    natC a.dt b.dt, bytesC (a.digest.map upperByte) (b.digest.map upperByte)]

/-- `uniqueSortedDSRecords`. -/
def uniqueSortedDS (dss : List DSRec) : List DSRec := sortBy dsLt (dedupBy dsIdent dss [])

def dkeyIdent (k : DKey) : DKey := { k with name := lower (fqdn k.name) }

def dkeyLt (a b : DKey) : Bool :=
  lexLt [bytesC (lower (fqdn a.name)) (lower (fqdn b.name)), natC a.cls b.cls, natC a.flags b.flags,
    natC a.proto b.proto, natC a.alg b.alg, bytesC a.pk b.pk]

/-- `uniqueSortedDNSKEYs` on the DS side. -/
def uniqueSortedDKeys (keys : List DKey) : List DKey :=
  if keys.length < 2 then keys else sortBy dkeyLt (dedupBy dkeyIdent keys [])

/-- the candidate loop of `verifyDS` under a governor: `(result, digests begun)`. -/
def dsCandLoop (dm : DKey → Bool) (g : Gov) : List DKey → Nat → Nat → WRes × Nat
  | [], _, b => (WRes.fail, b)
  | k :: t, cu, b =>
    if g.maxCand ≤ cu then (WRes.work, b)
    else if g.budget ≤ b then (WRes.work, b)
    else if dm k then (WRes.ok, b + 1)
    else dsCandLoop dm g t (cu + 1) (b + 1)

/-- one DS of the sorted set: `(result, digests begun)`; `fail` = go on to the next DS. -/
def dsOneWork (sup : DSRec → Bool) (dmatch : DKey → Nat → Bytes → Bool) (limit : Nat) (keys : List DKey) (g : Gov)
    (d : DSRec) (b : Nat) : WRes × Nat :=
  if !sup d then (WRes.fail, b) else
  let cands := uniqueSortedDKeys (keys.filter (usableDSCandidate limit d))
  if cands.isEmpty then (WRes.fail, b) else
  match hexDecode d.digest with
  | none => (WRes.fail, b)
  | some want =>
    if want.isEmpty then (WRes.fail, b)
    else dsCandLoop (fun k => dmatch k d.dt want) g cands 0 b

def dsLoopWork (one : DSRec → Nat → WRes × Nat) : List DSRec → Nat → WRes × Nat
  | [], b => (WRes.fail, b)
  | d :: t, b =>
    match one d b with
    | (WRes.fail, b') => dsLoopWork one t b'
    | r => r

/-- `VerifyDSWithWork` (`anchored == nil`): `(result, digests begun)`. -/
def verifyDSWork (sup : DSRec → Bool) (dmatch : DKey → Nat → Bytes → Bool) (limit : Nat) (keys : List DKey) (g : Gov)
    (dss : List DSRec) : WRes × Nat :=
  dsLoopWork (dsOneWork sup dmatch limit keys g) (uniqueSortedDS dss) 0

/-! ## which error `VerifyRRSIG` surfaces -/

inductive VErr | ok | missingDnskey | missingSigned | period | alg | badSig | noSigs | other
deriving Repr, DecidableEq

def verr : Verdict → VErr
  | Verdict.ok => VErr.ok
  | Verdict.badSig => VErr.badSig
  | Verdict.noKey => VErr.missingDnskey
  | Verdict.missingSigned => VErr.missingSigned
  | Verdict.err => VErr.other

/-- the candidate loop of `verifyOneSig`: nil at the first key that verifies, else the last key's error. -/
def candErr (cvv : VKey → Verdict) : List VKey → VErr → VErr
  | [], last => last
  | k :: t, _ => if cvv k == Verdict.ok then VErr.ok else candErr cvv t (verr (cvv k))

/-- `verifyOneSig` with its error. -/
def oneSigErr (cv : VKey → VSig → List VRec → Verdict) (inPeriod : VSig → Bool) (supAlg : Nat → Bool)
    (tagOf : VKey → Nat) (keys : List VKey) (set : List VRec) (sig : VSig) : VErr :=
  let cands := keys.filter (fun k => tagOf k == sig.tag)
  if cands.isEmpty then VErr.missingDnskey
  else if !cands.any (fun k => equalFold sig.signer k.name) then VErr.missingDnskey
  else if !inPeriod sig then VErr.period
  else if !supAlg sig.alg then VErr.alg
  else if !signatureMatchesRRset sig set then VErr.missingSigned
  else candErr (fun k => cv k sig set) (uniqueSortedKeys (cands.filter (usableSignatureCandidate tagOf sig))) VErr.missingDnskey

/-- the signature loop over one RRset: nil at the first signature that verifies, else the last error. -/
def sigErr (one : VSig → VErr) : List VSig → VErr → VErr
  | [], last => last
  | s :: t, _ => if one s == VErr.ok then VErr.ok else sigErr one t (one s)

def groupErr (per : (Bytes × Nat × Nat) → VErr) : List (Bytes × Nat × Nat) → VErr
  | [] => VErr.ok
  | k :: t => if per k == VErr.ok then groupErr per t else per k

/-- `VerifyRRSIG` with the error it returns (RRsets in key order, signatures and keys in their sorted order). -/
def verifyRRSIGErr (cv : VKey → VSig → List VRec → Verdict) (inPeriod : VSig → Bool) (supAlg : Nat → Bool)
    (tagOf : VKey → Nat) (keys : List VKey) (zone : Bytes) (m : VMsg) : VErr :=
  if keys.length = 0 then VErr.missingDnskey else
  let z := lower (fqdn zone)
  if m.answer.any (fun r => !exempt z m r && !nameInZone (lower r.name) z) then VErr.missingSigned else
  let recs := collected z m
  if recs.isEmpty then VErr.ok
  else if m.sigs.isEmpty then VErr.noSigs
  else
    let sigIdx := m.sigs.filter (fun s => nameInZone (lower s.name) z)
    let groups := sortBy groupLt (dedupBy id (recs.map rrKey) [])
    groupErr (fun k =>
      let set := recs.filter (fun x => rrKey x == k)
      let sl := sigIdx.filter (fun s => sigKey s == k)
      if sl.isEmpty then VErr.missingSigned
      else if !isRRset (hdrsOf set) then VErr.missingSigned
      else sigErr (oneSigErr cv inPeriod supAlg tagOf keys set) (uniqueSortedSigs sl) VErr.missingSigned) groups

/-! ## which error `VerifyDS` surfaces -/

inductive DErr | ok | missingKSK | mismatchingDS | unsupported
deriving Repr, DecidableEq

/-- the loop of `verifyDS` with `lastErr` and the `supported` counter; `total` is the number of
distinct DS records. -/
def dsErrLoop (sup : DSRec → Bool) (dmatch : DKey → Nat → Bytes → Bool) (limit : Nat) (keys : List DKey) (total : Nat) :
    List DSRec → Nat → Option DErr → DErr
  | [], supd, last =>
    if total = 0 then DErr.missingKSK
    else if supd = 0 then DErr.unsupported
    else last.getD DErr.missingKSK
  | d :: t, supd, last =>
    if !sup d then dsErrLoop sup dmatch limit keys total t supd last
    else
      let cands := uniqueSortedDKeys (keys.filter (usableDSCandidate limit d))
      if cands.isEmpty then dsErrLoop sup dmatch limit keys total t (supd + 1) (some DErr.missingKSK)
      else match hexDecode d.digest with
        | none => dsErrLoop sup dmatch limit keys total t (supd + 1) (some DErr.mismatchingDS)
        | some want =>
          if want.isEmpty then dsErrLoop sup dmatch limit keys total t (supd + 1) (some DErr.mismatchingDS)
          else if cands.any (fun k => dmatch k d.dt want) then DErr.ok
          else dsErrLoop sup dmatch limit keys total t (supd + 1) (some DErr.mismatchingDS)

/-- `VerifyDS` with the error it returns (`unsupported` = `(true, ErrFailedToConvertKSK)`). -/
def verifyDSErr (sup : DSRec → Bool) (dmatch : DKey → Nat → Bytes → Bool) (limit : Nat) (keys : List DKey)
    (dss : List DSRec) : DErr :=
  dsErrLoop sup dmatch limit keys (uniqueSortedDS dss).length (uniqueSortedDS dss) 0 none

end SdnsVerif.Model.DnssecPrim
