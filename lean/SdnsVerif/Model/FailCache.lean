/-
Model of /repo/middleware/cache/failure_cache.go (RFC 9520 failure cache), of
the Store gates in front of it (/repo/middleware/cache/store.go), of the
admission filters (`cacheableResolutionFailure` in cache.go,
`Resolver.recordResolutionZoneFailure` / `handleLookupError` /
`pickFallbackResponse` / the result loop of `Resolver.lookup` in
resolver.go) and of `FailureHit.Response`.  Core Lean only.

Conventions
* names are presentation-format byte strings (`List Nat`, one element per
  byte, miekg escapes kept), exactly what the Go code stores and compares;
* time is `Int` nanoseconds, every `c.now()` is an explicit `now`;
* the 64-bit keys come from two ARBITRARY functions (`Hash.q`, `Hash.z`):
  nothing below, and no theorem, assumes they are injective;
* the backing `internal/cache.Cache` is an association list read through
  `Table.get` (an abstract `UInt64 → Option Entry`); capacity eviction is the
  adversarial `Table.delMany`.
-/
namespace SdnsVerif.Model.FailCache

/-! ### names -/

abbrev Str := List Nat

def dot : Nat := 46
def bslash : Nat := 92

/-- ASCII `A-Z` → `a-z` (the closure in `dns.CanonicalName`, `internal/cache.Key`). -/
def foldByte (c : Nat) : Nat := if 65 ≤ c ∧ c ≤ 90 then c + 32 else c

def foldStr (s : Str) : Str := s.map foldByte

/-- parity of the run of backslashes that ends at the byte just read. A `.`
is escaped iff this is `true` when it is read (miekg counts the run backwards). -/
def escNext (odd : Bool) (c : Nat) : Bool := if c = bslash then !odd else false

/-- `dns.IsFqdn`: the last byte is a dot preceded by an even run of backslashes. -/
def isFqdnAux : Bool → Str → Bool
  | _, [] => false
  | odd, [c] => c == dot && !odd
  | odd, c :: d :: t => isFqdnAux (escNext odd c) (d :: t)

def isFqdn (s : Str) : Bool := isFqdnAux false s

/-- `dns.Fqdn`. -/
def fqdn (s : Str) : Str := if isFqdn s then s else s ++ [dot]

/-- `dns.CanonicalName` (ASCII input). -/
def canonicalName (s : Str) : Str := foldStr (fqdn s)

/-- `dns.NextLabel(s, 0)`: what follows the first unescaped dot that is not
the last byte; `none` is `end == true`. -/
def nextLabel : Bool → Str → Option Str
  | _, [] => none
  | _, [_] => none
  | odd, c :: d :: t =>
    if c = dot ∧ odd = false then some (d :: t) else nextLabel (escNext odd c) (d :: t)

/-- the loop of `walkFailureZones` on an already canonical name: the zones
handed to `visit`, in order (closest first, `"."` last). -/
def walkZonesFuel : Nat → Str → List Str
  | 0, _ => []
  | f + 1, zone =>
    zone :: (if zone = [dot] then [] else
      match nextLabel false zone with
      | none => [[dot]]
      | some r => walkZonesFuel f r)

/-- `walkFailureZones(name, visit)`. -/
def walkZones (name : Str) : List Str :=
  let z := canonicalName name
  walkZonesFuel (z.length + 1) z

/-! ### wire names (`LookupWire`) -/

abbrev Wire := List Nat

/-- `isPresentationSpecial`. -/
def isSpecial (b : Nat) : Bool :=
  b == 46 || b == 32 || b == 39 || b == 64 || b == 59 || b == 40 || b == 41 || b == 34 || b == 92

/-- the escape mapping of `writeWireName` / `WireNameEqualsPresentation` (unfolded). -/
def escByte (b : Nat) : Str :=
  if isSpecial b then [bslash, b]
  else if b < 32 ∨ b > 126 then [bslash, 48 + b / 100, 48 + b / 10 % 10, 48 + b % 10]
  else [b]

/-- body of `writeWireName`: the presentation form of an uncompressed wire
name, `none` when the walk refuses (pointer/reserved label type, overrun,
trailing bytes, no root). -/
def wirePresAux : Nat → Wire → Bool → Option Str
  | 0, _, _ => none
  | _ + 1, [], _ => none
  | f + 1, c :: rest, wrote =>
    if c = 0 then (if rest = [] then some (if wrote then [] else [dot]) else none)
    else if c ≥ 64 then none
    else if c > rest.length then none
    else (wirePresAux f (rest.drop c) true).map
      (fun tl => (rest.take c).flatMap escByte ++ [dot] ++ tl)

def wirePres (w : Wire) : Option Str :=
  if w.length = 0 ∨ w.length > 255 then none else wirePresAux w.length w false

/-- `WireNameEqualsPresentation(wire, name)`. -/
def wireEqPres (w : Wire) (name : Str) : Bool :=
  match wirePres w with
  | some p => foldStr p == foldStr name
  | none => false

/-- `walkWireSuffixes`: the suffixes handed to `visit`. -/
def wireSuffixesFuel : Nat → Wire → List Wire
  | 0, _ => []
  | _ + 1, [] => []
  | f + 1, c :: rest =>
    (c :: rest) :: (if c = 0 ∨ c > 63 ∨ c > rest.length then [] else wireSuffixesFuel f (rest.drop c))

def wireSuffixes (w : Wire) : List Wire := wireSuffixesFuel (w.length + 1) w

/-! ### keys and entries -/

/-- `netip.Prefix` (valid ones). -/
structure Prefix where
  v6 : Bool
  bits : Nat
  addr : Nat
deriving DecidableEq, Repr

def Prefix.width (p : Prefix) : Nat := if p.v6 then 128 else 32

/-- `none` is the invalid prefix `netip.Prefix{}`. -/
abbrev Scope := Option Prefix

/-- `normalizeKeyScope`: invalid and /0 are the shared audience; otherwise `Masked()`. -/
def normalizeScope : Scope → Scope
  | none => none
  | some p =>
    if p.bits = 0 ∨ p.bits > p.width then none
    else some { p with addr := p.addr / 2 ^ (p.width - p.bits) * 2 ^ (p.width - p.bits) }

/-- `FailureQuestionKey`. -/
structure QKey where
  name : Str
  qtype : Nat
  qclass : Nat
  cd : Bool
  scope : Scope
deriving DecidableEq, Repr

/-- `FailureZoneKey`. -/
structure ZKey where
  zone : Str
  qclass : Nat
deriving DecidableEq, Repr

/-- `normalizeFailureQuestionKey`. -/
def normalizeQ (k : QKey) : QKey :=
  { k with name := canonicalName k.name, scope := normalizeScope k.scope }

/-- `normalizeFailureZoneKey`. -/
def normalizeZ (k : ZKey) : ZKey := { k with zone := canonicalName k.zone }

inductive Kind | question | zone
deriving DecidableEq, Repr

/-- `failureEntry`; `witness = 0` is the nil witness, `prov` an opaque tag. -/
structure Entry where
  kind : Kind
  prov : Nat
  streak : Nat
  retryAfter : Int
  q : QKey
  z : ZKey
  witness : Nat
deriving DecidableEq, Repr

def zeroQ : QKey := ⟨[], 0, 0, false, none⟩
def zeroZ : ZKey := ⟨[], 0⟩

/-- `failureQuestionHash` and `failureZoneHash` (salts included): arbitrary. -/
structure Hash where
  q : QKey → UInt64
  z : ZKey → UInt64

/-! ### the backing table -/

abbrev Table := List (UInt64 × Entry)

def Table.get : Table → UInt64 → Option Entry
  | [], _ => none
  | (k, e) :: r, h => if k = h then some e else Table.get r h

def Table.del (t : Table) (h : UInt64) : Table := t.filter (fun p => p.1 != h)

def Table.set (t : Table) (h : UInt64) (e : Entry) : Table := (h, e) :: Table.del t h

/-- capacity eviction / any set of deletions. -/
def Table.delMany (t : Table) (hs : List UInt64) : Table := hs.foldl Table.del t

/-! ### configuration -/

def second : Nat := 1000000000
def defaultInitial : Nat := 5 * second
def defaultMax : Nat := 300 * second
/-- the hard ceiling (`errFailureCacheTTLCeiling`). -/
def ceiling : Nat := 300 * second

structure Cfg where
  initial : Nat
  max : Nat
deriving DecidableEq, Repr

inductive CfgErr | size | initial | max | ceiling
deriving DecidableEq, Repr

/-- "zero means the default". -/
def orDefault (v : Int) (d : Nat) : Int := if v = 0 then (d : Int) else v

/-- `NewFailureCache` validation (durations in ns, may be negative). -/
def newCfg (size : Int) (initial max : Int) : Except CfgErr Cfg :=
  if size ≤ 0 then .error .size
  else if orDefault initial defaultInitial < (second : Int) then .error .initial
  else if orDefault max defaultMax < orDefault initial defaultInitial then .error .max
  else if orDefault max defaultMax > (ceiling : Int) then .error .ceiling
  else .ok ⟨(orDefault initial defaultInitial).toNat, (orDefault max defaultMax).toNat⟩

/-- the failure-cache bounds a `Cache` built by `cache.New` runs with:
`RecursionFirewallConfig.Normalize` (zero size → default), `NewFailureCache`,
and on rejection the stock defaults ("validation failed, using defaults").
No other setting (expire, cache size, …) takes part. -/
def cacheNewCfg (size : Int) (initial max : Int) : Cfg :=
  match newCfg (if size = 0 then 4096 else size) initial max with
  | .ok c => c
  | .error _ => ⟨defaultInitial, defaultMax⟩

def Cfg.Valid (c : Cfg) : Prop := second ≤ c.initial ∧ c.initial ≤ c.max ∧ c.max ≤ ceiling

/-- the loop of `FailureCache.backoff`; the first argument is the number of
remaining iterations (`streak - 1`). -/
def backoffLoop (max : Nat) : Nat → Nat → Nat
  | 0, ttl => if ttl > max then max else ttl
  | n + 1, ttl =>
    if ttl < max then
      (if ttl > max / 2 then max else backoffLoop max n (ttl * 2))
    else (if ttl > max then max else ttl)

/-- `FailureCache.backoff(streak)`. -/
def backoff (c : Cfg) (streak : Nat) : Nat := backoffLoop c.max (streak - 1) c.initial

def maxStreak : Nat := 4294967295

/-! ### record -/

/-- `failureEntriesSameKey`. -/
def sameKey (a b : Entry) : Bool :=
  a.kind == b.kind &&
    (match a.kind with
     | .question => a.q == b.q
     | .zone => a.z == b.z)

/-- `FailureCache.record` (one uncontended pass of its CAS loop). -/
def record (c : Cfg) (t : Table) (now : Int) (h : UInt64) (cand : Entry) : Table × Entry :=
  let first : Entry := { cand with streak := 1, retryAfter := now + c.initial }
  match t.get h with
  | none => (t.set h first, first)
  | some cur =>
    if sameKey cur cand then
      if now < cur.retryAfter then (t, cur)
      else
        let streak :=
          if now - cur.retryAfter ≥ (c.max : Int) then 1
          else if cur.streak < maxStreak then cur.streak + 1 else cur.streak
        let next : Entry := { cur with streak := streak, prov := cand.prov, witness := cand.witness,
                                       retryAfter := now + backoff c streak }
        (t.set h next, next)
    else (t.set h first, first)

def questionCandidate (nk : QKey) (prov wit : Nat) : Entry :=
  { kind := .question, prov := prov, streak := 0, retryAfter := 0, q := nk, z := zeroZ, witness := wit }

def zoneCandidate (nk : ZKey) (prov wit : Nat) : Entry :=
  { kind := .zone, prov := prov, streak := 0, retryAfter := 0, q := zeroQ, z := nk, witness := wit }

/-- `FailureCache.RecordQuestion`. -/
def recordQuestion (H : Hash) (c : Cfg) (t : Table) (now : Int) (k : QKey) (prov wit : Nat) : Table × Entry :=
  let nk := normalizeQ k
  record c t now (H.q nk) (questionCandidate nk prov wit)

/-- `FailureCache.RecordZone`. -/
def recordZone (H : Hash) (c : Cfg) (t : Table) (now : Int) (k : ZKey) (prov wit : Nat) : Table × Entry :=
  let nk := normalizeZ k
  record c t now (H.z nk) (zoneCandidate nk prov wit)

/-! ### lookups -/

/-- `loadQuestionWithHash` (the key is used as given). -/
def loadQuestion (H : Hash) (t : Table) (k : QKey) : Option Entry :=
  match t.get (H.q k) with
  | some e => if e.kind = .question ∧ e.q = k then some e else none
  | none => none

/-- `loadZoneWithHash` (normalises the key once more). -/
def loadZone (H : Hash) (t : Table) (k : ZKey) : Option Entry :=
  let nk := normalizeZ k
  match t.get (H.z nk) with
  | some e => if e.kind = .zone ∧ e.z = nk then some e else none
  | none => none

/-- the zone walk of `Lookup`: first zone with an active verified entry. -/
def firstActiveZone (H : Hash) (t : Table) (now : Int) (cls : Nat) : List Str → Option Entry
  | [] => none
  | z :: rest =>
    match loadZone H t ⟨z, cls⟩ with
    | some e => if now < e.retryAfter then some e else firstActiveZone H t now cls rest
    | none => firstActiveZone H t now cls rest

/-- `FailureCache.Lookup`. -/
def lookup (H : Hash) (t : Table) (now : Int) (k : QKey) : Option Entry :=
  let nk := normalizeQ k
  let zonePart := firstActiveZone H t now nk.qclass (walkZones nk.name)
  match loadQuestion H t nk with
  | some e => if now < e.retryAfter then some e else zonePart
  | none => zonePart

/-- the exact probe of `LookupWire`. -/
def wireExact (H : Hash) (t : Table) (now : Int) (w : Wire) (qtype qclass : Nat) (cd : Bool) : Option Entry :=
  match wirePres w with
  | none => none
  | some p =>
    match t.get (H.q ⟨foldStr p, qtype, qclass, cd, none⟩) with
    | some e =>
      if e.kind = .question ∧ e.q.scope = none ∧ e.q.qtype = qtype ∧ e.q.qclass = qclass ∧ e.q.cd = cd ∧
          wireEqPres w e.q.name = true ∧ now < e.retryAfter then some e else none
    | none => none

/-- the suffix walk of `LookupWire`. -/
def wireFirstActiveZone (H : Hash) (t : Table) (now : Int) (cls : Nat) : List Wire → Option Entry
  | [] => none
  | s :: rest =>
    match wirePres s with
    | none => wireFirstActiveZone H t now cls rest
    | some p =>
      match t.get (H.z ⟨foldStr p, cls⟩) with
      | some e =>
        if e.kind = .zone ∧ e.z.qclass = cls ∧ wireEqPres s e.z.zone = true ∧ now < e.retryAfter then some e
        else wireFirstActiveZone H t now cls rest
      | none => wireFirstActiveZone H t now cls rest

/-- `FailureCache.LookupWire`. -/
def lookupWire (H : Hash) (t : Table) (now : Int) (w : Wire) (qtype qclass : Nat) (cd : Bool) : Option Entry :=
  match wireExact H t now w qtype qclass cd with
  | some e => some e
  | none => wireFirstActiveZone H t now qclass (wireSuffixes w)

/-- the zone walk of `RetryKey`; outer `none` = an active zone was met,
inner option = hash of the closest expired zone state. -/
def retryWalk (H : Hash) (t : Table) (now : Int) (cls : Nat) : List Str → Option UInt64 → Option (Option UInt64)
  | [], acc => some acc
  | z :: rest, acc =>
    match loadZone H t ⟨z, cls⟩ with
    | none => retryWalk H t now cls rest acc
    | some e =>
      if now < e.retryAfter then none
      else retryWalk H t now cls rest (match acc with | some a => some a | none => some (H.z (normalizeZ ⟨z, cls⟩)))

/-- `FailureCache.RetryKey`. -/
def retryKey (H : Hash) (t : Table) (now : Int) (k : QKey) : Option UInt64 :=
  let nk := normalizeQ k
  let zones := retryWalk H t now nk.qclass (walkZones nk.name) none
  let finish (exact : Option UInt64) : Option UInt64 :=
    match zones with
    | none => none
    | some (some hz) => some hz
    | some none => exact
  match loadQuestion H t nk with
  | some e => if now < e.retryAfter then none else finish (some (H.q nk))
  | none => finish none

/-! ### resets -/

/-- `FailureCache.ResetQuestion`. -/
def resetQuestion (H : Hash) (t : Table) (k : QKey) : Table × Bool :=
  let nk := normalizeQ k
  match t.get (H.q nk) with
  | some e => if e.kind = .question ∧ e.q = nk then (t.del (H.q nk), true) else (t, false)
  | none => (t, false)

/-- `FailureCache.ResetZone`. -/
def resetZone (H : Hash) (t : Table) (k : ZKey) : Table × Bool :=
  let nk := normalizeZ k
  match t.get (H.z nk) with
  | some e => if e.kind = .zone ∧ e.z = nk then (t.del (H.z nk), true) else (t, false)
  | none => (t, false)

def resetZones (H : Hash) (cls : Nat) : List Str → Table → Nat → Table × Nat
  | [], t, n => (t, n)
  | z :: rest, t, n =>
    let r := resetZone H t ⟨z, cls⟩
    resetZones H cls rest r.1 (if r.2 then n + 1 else n)

/-- `FailureCache.ResetMatching`. -/
def resetMatching (H : Hash) (t : Table) (k : QKey) : Table × Nat :=
  let nk := normalizeQ k
  let r := resetQuestion H t nk
  resetZones H nk.qclass (walkZones nk.name) r.1 (if r.2 then 1 else 0)

def purgeMatch (name : Str) (qtype qclass : Nat) (e : Entry) : Bool :=
  match e.kind with
  | .question => e.q.name == name && e.q.qtype == qtype && e.q.qclass == qclass
  | .zone => e.z.zone == name && e.z.qclass == qclass

/-- `FailureCache.PurgeQuestion`. -/
def purgeQuestion (t : Table) (name : Str) (qtype qclass : Nat) : Table × Nat :=
  let cn := canonicalName name
  let ms := t.filter (fun p => purgeMatch cn qtype qclass p.2)
  (t.delMany (ms.map (·.1)), ms.length)

/-! ### the Store gates (store.go) -/

structure Store where
  disabled : Bool
  cfg : Cfg
  tab : Table

/-- `Store.RecordFailure` / `recordFailureQuestion`: CD strips the witness. -/
def Store.recordFailure (H : Hash) (s : Store) (now : Int) (k : QKey) (prov wit : Nat) : Store :=
  if s.disabled then s
  else { s with tab := (recordQuestion H s.cfg s.tab now k prov (if k.cd then 0 else wit)).1 }

/-- `Store.RecordZoneFailure` (provenance "authority" = 2, no witness). -/
def Store.recordZoneFailure (H : Hash) (s : Store) (now : Int) (qclass : Nat) (zone : Str) : Store :=
  if s.disabled ∨ zone = [] then s
  else { s with tab := (recordZone H s.cfg s.tab now ⟨zone, qclass⟩ 2 0).1 }

/-- `Store.ClearZoneFailure`. -/
def Store.clearZoneFailure (H : Hash) (s : Store) (qclass : Nat) (zone : Str) : Store :=
  if s.disabled ∨ zone = [] then s
  else { s with tab := (resetZone H s.tab ⟨zone, qclass⟩).1 }

/-- `Store.LookupFailure`. -/
def Store.lookupFailure (H : Hash) (s : Store) (now : Int) (k : QKey) : Option Entry :=
  if s.disabled then none else lookup H s.tab now k

/-- `Store.LookupFailureWire`. -/
def Store.lookupFailureWire (H : Hash) (s : Store) (now : Int) (w : Wire) (qtype qclass : Nat) (cd : Bool) : Option Entry :=
  if s.disabled then none else lookupWire H s.tab now w qtype qclass cd

/-- `Store.FailureRetryKey`. -/
def Store.failureRetryKey (H : Hash) (s : Store) (now : Int) (k : QKey) : Option UInt64 :=
  if s.disabled then none else retryKey H s.tab now k

/-- `Store.resetQuestionFailure`. -/
def Store.resetQuestionFailure (H : Hash) (s : Store) (k : QKey) : Store :=
  if s.disabled then s else { s with tab := (resetQuestion H s.tab k).1 }

/-- `Store.resetMatchingFailures`. -/
def Store.resetMatchingFailures (H : Hash) (s : Store) (k : QKey) : Store :=
  if s.disabled then s else { s with tab := (resetMatching H s.tab k).1 }

/-- the failure-cache part of `Store.Purge`. -/
def Store.purge (s : Store) (name : Str) (qtype qclass : Nat) : Store :=
  if s.disabled then s else { s with tab := (purgeQuestion s.tab name qtype qclass).1 }

/-- `Store.FailureLen`. -/
def Store.failureLen (s : Store) : Nat := if s.disabled then 0 else s.tab.length

/-- the response classes of `Store.setFromResponseWithKey`. -/
inductive RespClass | useful | servfail | other
deriving DecidableEq, Repr

/-- failure-cache effect of `Store.setFromResponseWithKey` (`isScoped` = the
write carried a valid ECS scope): a useful unscoped answer resets the exact
question, an unscoped SERVFAIL records it ("response" = 1, no witness). -/
def Store.setFromResponse (H : Hash) (s : Store) (now : Int) (name : Str) (qtype qclass : Nat) (keyCD isScoped : Bool)
    (rc : RespClass) : Store :=
  match rc with
  | .useful => if isScoped then s else s.resetQuestionFailure H ⟨name, qtype, qclass, keyCD, none⟩
  | .servfail => if isScoped then s else s.recordFailure H now ⟨name, qtype, qclass, keyCD, none⟩ 1 0
  | .other => s

/-- the success tail of `ResponseWriter.WriteMsg`: the answer is stored
(`answerScoped` = it was filed under a valid clamped ECS SCOPE; otherwise it is
a shared answer and resets the shared exact question), then exact + covering
zone history of the audience THAT ASKED (`k.scope` = the client's ECS source
prefix) is reset. -/
def Store.writeBackAnswer (H : Hash) (s : Store) (now : Int) (k : QKey) (answerScoped : Bool) : Store :=
  (s.setFromResponse H now k.name k.qtype k.qclass k.cd answerScoped .useful).resetMatchingFailures H k

/-- the key `Cache.ServeDNS` joins the single-flight (`waitgroup`) under on a
miss: the retained failure generation when there is one (`FailureRetryKey`),
otherwise the exact question in the client's audience. -/
inductive DedupKey
  | retry (h : UInt64)
  | question (k : QKey)
deriving DecidableEq, Repr

def Store.dedupKey (H : Hash) (s : Store) (now : Int) (k : QKey) : DedupKey :=
  match s.failureRetryKey H now k with
  | some h => .retry h
  | none => .question (normalizeQ k)

/-- number of distinct keys = number of leaders `JoinGeneration` elects while
every leader is still running. -/
def distinctCount : List DedupKey → Nat
  | [] => 0
  | x :: t => (if t.contains x then 0 else 1) + distinctCount t

/-- a batch of requests arriving together: (leaders elected, requests served
from the failure cache). -/
def Store.probeBatch (H : Hash) (s : Store) (now : Int) (ks : List QKey) : Nat × Nat :=
  let misses := ks.filter (fun k => (s.lookupFailure H now k).isNone)
  (distinctCount (misses.map (s.dedupKey H now)), ks.length - misses.length)

/-! ### admission filters -/

/-- why a failure may be private to one request. -/
inductive Cause
  | none | workLimit | attemptLimit | probeLimit | loadShed | maxRecursion | canceled | deadline | other
deriving DecidableEq, Repr

/-- `middleware.IsRequestLocalResolutionError`. -/
def Cause.isRequestLocal : Cause → Bool
  | .workLimit | .attemptLimit | .probeLimit | .loadShed | .maxRecursion | .canceled | .deadline => true
  | .none | .other => false

/-- what the admission filters read from the request context. -/
structure Ctx where
  /-- `contextutil.EffectiveError(ctx) != nil` (cancelled or past its deadline) -/
  ended : Bool
  /-- `middleware.IsBestEffortRecursionWork(ctx)` (optional enrichment) -/
  bestEffort : Bool
  /-- `middleware.RecursionWorkEnforcementError(ctx) != nil` -/
  workLimit : Bool
  /-- the cause passed to `MarkRequestLocalFailureResponse` for exactly this response -/
  marked : Cause
deriving DecidableEq, Repr

/-- `cacheableResolutionFailure`. -/
def cacheableResolutionFailure (c : Ctx) : Bool :=
  !c.ended && !c.bestEffort && !c.workLimit && !c.marked.isRequestLocal

/-- the SERVFAIL branch of `ResponseWriter.WriteMsg`: record iff cacheable. -/
def Store.writeBackFailure (H : Hash) (s : Store) (now : Int) (ctx : Ctx) (k : QKey) (wit : Nat) : Store :=
  if cacheableResolutionFailure ctx then s.recordFailure H now k 1 wit else s

/-! ### the failover route (middleware/failover) -/

/-- what the handler behind the cache (primary path) or a fallback server produced. -/
inductive Upstream
  | servfail | refused | useful | nxdomain
  | localFail (c : Cause)      -- SERVFAIL marked with cause `c` for exactly this response
deriving DecidableEq, Repr

/-- what `failover.ResponseWriter.WriteMsg` hands to the cache writer: was the
fallback asked, the reply's rcode, its class, and the request-local mark it carries. -/
structure FailoverOut where
  fallbackAsked : Bool
  rcode : Nat
  cls : RespClass
  marked : Cause
deriving DecidableEq, Repr

def Upstream.mark : Upstream → Cause
  | .localFail c => if c.isRequestLocal then c else .none
  | _ => .none

/-- `failover.ResponseWriter.WriteMsg` (live request tree, no work-limit): only a
SERVFAIL of the primary path engages the fallback; the cache's own probe shed
does not; a fallback answer wins; a failing fallback's response is written and
inherits the primary's request-local provenance. -/
def failoverWrite (primary fallback : Upstream) : FailoverOut :=
  match primary with
  | .useful => ⟨false, 0, .useful, .none⟩
  | .nxdomain => ⟨false, 3, .useful, .none⟩
  | .refused => ⟨false, 5, .servfail, .none⟩
  | p =>
    if p.mark = .probeLimit then ⟨false, 2, .servfail, .probeLimit⟩
    else match fallback with
      | .useful => ⟨true, 0, .useful, .none⟩
      | .nxdomain => ⟨true, 3, .useful, .none⟩
      | .refused => ⟨true, 5, .servfail, p.mark⟩
      | _ => ⟨true, 2, .servfail, p.mark⟩

/-- the cache writer's effect for a client question `k` answered through the failover route. -/
def Store.serveViaFailover (H : Hash) (s : Store) (now : Int) (k : QKey) (primary fallback : Upstream) : Store :=
  let o := failoverWrite primary fallback
  match o.cls with
  | .servfail => s.writeBackFailure H now ⟨false, false, false, o.marked⟩ k 0
  | _ => s.writeBackAnswer H now k false

/-- an `error` as the resolver classifies it. -/
structure LErr where
  fatal : Bool
  cause : Cause
deriving DecidableEq, Repr

/-- guard of `Resolver.recordResolutionZoneFailure`. -/
def zoneFailureAdmitted (ctx : Ctx) (zoneEmpty : Bool) (cause : Cause) : Bool :=
  !zoneEmpty && !ctx.bestEffort && !ctx.ended &&
    !(cause == .canceled || cause == .deadline || cause == .workLimit || cause == .attemptLimit ||
      cause == .maxRecursion)

/-- `Resolver.handleLookupError` for a non-minimized query: is the zone recorded? -/
def handleLookupErrorRecords (ctx : Ctx) (zoneEmpty nsLookup : Bool) (e : LErr) : Bool :=
  if e.cause == .workLimit || e.cause == .maxRecursion then false
  else if e.cause == .attemptLimit then false
  else if e.fatal then (if nsLookup then false else zoneFailureAdmitted ctx zoneEmpty e.cause)
  else false

/-- what one server of the set produced in `Resolver.lookup`. -/
inductive Outcome
  | err (cause : Cause)        -- no reply / connection error / local rejection
  | rcode (rc : Nat)           -- a response with rcode ≠ NOERROR
  | bogusReferral              -- NOERROR referral rejected by `validReferral`
  | good                       -- NOERROR, returned to the caller at once
deriving DecidableEq, Repr

inductive LookupResult
  | resp (rcode : Nat)         -- a response with that rcode (0 = the winner or a config-error referral)
  | error (e : LErr)
deriving DecidableEq, Repr

def nxdomain : Nat := 3

/-- `pickFallbackResponse(responseErrors, configErrors, fatalErrors)` on rcodes / causes. -/
def pickFallback (resp : List Nat) (config : Nat) (fatal : List Cause) : LookupResult :=
  if fatal.contains .workLimit then .error ⟨false, .workLimit⟩
  else if resp.contains nxdomain then .resp nxdomain
  else if fatal.contains .attemptLimit then .error ⟨false, .attemptLimit⟩
  else match resp with
    | r :: _ => .resp r
    | [] =>
      if config > 0 then .resp 0
      else .error ⟨true, .other⟩   -- errConnectionFailed (or errNoRootServers)

/-- the result loop of `Resolver.lookup` over the outcomes in arrival order
(`lowLevel` = `level < 2`). -/
def lookupFold (lowLevel : Bool) : List Outcome → List Nat → Nat → List Cause → LookupResult
  | [], resp, config, fatal => pickFallback resp config fatal
  | o :: rest, resp, config, fatal =>
    match o with
    | .err c =>
      if c = .workLimit then .error ⟨false, .workLimit⟩
      else lookupFold lowLevel rest resp config (fatal ++ [c])
    | .rcode rc =>
      let resp' := resp ++ [rc]
      if (resp'.length > 2 ∨ lowLevel = true) ∧ rc = nxdomain then pickFallback resp' config fatal
      else lookupFold lowLevel rest resp' config fatal
    | .bogusReferral => lookupFold lowLevel rest resp (config + 1) fatal
    | .good => .resp 0

/-- `dnsutil.ClassifyResponse == TypeServerFailure` for a non-NOERROR rcode. -/
def failureRcode (rc : Nat) : Bool := rc != 0 && rc != nxdomain

/-- the tail of `Resolver.resolve` after `groupLookup` for a non-minimized
query: does this lookup publish a zone failure? -/
def resolveRecordsZone (ctx : Ctx) (zoneEmpty nsLookup : Bool) : LookupResult → Bool
  | .error e => handleLookupErrorRecords ctx zoneEmpty nsLookup e
  | .resp rc => failureRcode rc && zoneFailureAdmitted ctx zoneEmpty .none

/-- one name-server host's address sub-lookup (`lookupNSAddrV4`): addresses,
or a failure whose typed cause is `.none`/`.other` for a genuine one (SERVFAIL,
empty answer, transport error) and the request-local cause when the
sub-pipeline refused for this request tree's own reasons — returned as an
error or as a marked SERVFAIL response. -/
inductive NSAddr
  | found
  | failed (c : Cause)
deriving DecidableEq, Repr

inductive NssResult
  | servers                 -- the delegation has at least one server address
  | noServers               -- nil error, empty list: the caller publishes the zone as unreachable
  | error (c : Cause)       -- returned to the caller as such, nothing is published
deriving DecidableEq, Repr

/-- `Resolver.lookupV4Nss` over the hosts in order (`have` = some server is
already known, e.g. from glue; `soft` = the remembered attempt-limit /
load-shed refusal). -/
def lookupV4Nss : List NSAddr → Bool → Option Cause → NssResult
  | [], have_, soft =>
    if have_ then .servers else
    match soft with
    | some c => .error c
    | none => .noServers
  | .found :: rest, _, soft => lookupV4Nss rest true soft
  | .failed c :: rest, have_, soft =>
    if c = .workLimit ∨ c = .maxRecursion ∨ c = .canceled ∨ c = .deadline then .error c
    else if c = .attemptLimit ∨ c = .loadShed then lookupV4Nss rest have_ (some c)
    else lookupV4Nss rest have_ soft

/-- `lookupV4Nss` together with the PROVISIONAL delegation it publishes while it
is still collecting (`delegations.SetUntil` before each host lookup once a
server is known): the second component says whether such an entry is left in
the delegation cache when the function returns. A request that gives up in
the middle (work budget, recursion bound, cancellation, deadline) removes the
entry it published. -/
def lookupV4NssProv : List NSAddr → Bool → Option Cause → Bool → NssResult × Bool
  | [], have_, soft, prov => (lookupV4Nss [] have_ soft, prov)
  | .found :: rest, have_, soft, prov => lookupV4NssProv rest true soft (prov || have_)
  | .failed c :: rest, have_, soft, prov =>
    if c = .workLimit ∨ c = .maxRecursion ∨ c = .canceled ∨ c = .deadline then (.error c, false)
    else if c = .attemptLimit ∨ c = .loadShed then lookupV4NssProv rest have_ (some c) (prov || have_)
    else lookupV4NssProv rest have_ soft (prov || have_)

/-- the request tree of the detached IPv6 name-server address job
(`Resolver.lookupV6Nss`): whatever tree it was started from — with or without
a recursion-work ledger — it runs marked as optional (best-effort) work. -/
def v6JobCtx (c : Ctx) : Ctx := { c with bestEffort := true }

/-- `processDelegation` after `lookupV4Nss` (non-minimized): is the zone
published as unreachable (`errNoReachableAuth`)? -/
def delegationRecordsZone (ctx : Ctx) (zoneEmpty : Bool) : NssResult → Bool
  | .noServers => zoneFailureAdmitted ctx zoneEmpty .other
  | _ => false

/-! ### the per-address circuit breaker (middleware/resolver/circuit_breaker.go) -/

/-- `serverFailure`: consecutive failures, the last failure (whole Unix
seconds, as the code stores it) and the open flag. -/
structure SF where
  count : Nat
  last : Int
  disabled : Bool
deriving DecidableEq, Repr

/-- `circuitBreaker.failures`: at most one record per address. -/
abbrev Breaker := List (String × SF)

def Breaker.get : Breaker → String → Option SF
  | [], _ => none
  | (k, v) :: r, a => if k = a then some v else Breaker.get r a

def Breaker.put (b : Breaker) (a : String) (v : SF) : Breaker :=
  (a, v) :: b.filter (fun p => p.1 != a)

/-- `canQuery(server)` at wall-clock `nowMs` (milliseconds): an open breaker is
closed again (count reset) once more than 30 s passed since the last failure. -/
def Breaker.canQuery (b : Breaker) (nowMs : Int) (a : String) : Breaker × Bool :=
  match b.get a with
  | none => (b, true)
  | some sf =>
    if sf.disabled then
      if nowMs - sf.last * 1000 > 30000 then (b.put a { sf with disabled := false, count := 0 }, true)
      else (b, false)
    else (b, true)

/-- `recordFailure(server)`: count up, stamp the second, open at five. -/
def Breaker.recordFailure (b : Breaker) (nowMs : Int) (a : String) : Breaker :=
  let sf := (b.get a).getD ⟨0, 0, false⟩
  let count := sf.count + 1
  b.put a { count := count, last := nowMs / 1000, disabled := sf.disabled || decide (count ≥ 5) }

/-- `recordSuccess(server)`: an existing record is closed and its count cleared. -/
def Breaker.recordSuccess (b : Breaker) (a : String) : Breaker :=
  match b.get a with
  | none => b
  | some sf => b.put a { sf with count := 0, disabled := false }

/-- `cleanupOnce(now)`: drop every record idle for more than 300 s. -/
def Breaker.cleanupOnce (b : Breaker) (nowS : Int) : Breaker :=
  b.filter (fun p => !decide (nowS - p.2.last > 300))

/-- how ONE upstream attempt of `Resolver.queryServer` ended. -/
inductive Attempt
  | reply (rcode : Nat)        -- the authority answered (any rcode)
  | silent                     -- no reply / connection error while the request tree is still live
  | refused (c : Cause)        -- `exchange` returned an error with typed cause `c` (policy refusals, or `.other`)
  | endedBefore                -- the attempt's context had ended before anything was sent
  | endedDuring                -- cancelled / past the client's deadline while waiting
deriving DecidableEq, Repr

inductive Feed | failure | success | nothing
deriving DecidableEq, Repr

/-- what `queryServer` tells the circuit breaker about the address: the switch
after `r.exchange` (work / attempt / probe / recursion-depth refusals and an
ended context say nothing about the authority; any other error is a failure;
any reply is a success). -/
def breakerFeed : Attempt → Feed
  | .reply _ => .success
  | .silent => .failure
  | .refused c =>
    if c = .workLimit ∨ c = .attemptLimit ∨ c = .probeLimit ∨ c = .maxRecursion then .nothing else .failure
  | .endedBefore => .nothing
  | .endedDuring => .nothing

/-- the breaker after the attempt. -/
def Breaker.feed (b : Breaker) (nowMs : Int) (a : String) (at_ : Attempt) : Breaker :=
  match breakerFeed at_ with
  | .failure => b.recordFailure nowMs a
  | .success => b.recordSuccess a
  | .nothing => b

/-! ### `FailureHit.Response` -/

structure ReqOpt where
  udp : Nat
  dobit : Bool
  options : List Nat      -- option codes the client sent
deriving DecidableEq, Repr

structure Req where
  rd : Bool
  cd : Bool
  opt : Option ReqOpt
deriving DecidableEq, Repr

structure RespOpt where
  udp : Nat
  dobit : Bool
  /-- (option code, EDE info code) of every option in the reply -/
  options : List (Nat × Nat)
deriving DecidableEq, Repr

structure Resp where
  qr : Bool
  rcode : Nat
  ra : Bool
  aa : Bool
  ad : Bool
  tc : Bool
  rd : Bool
  cd : Bool
  answers : Nat
  authority : Nat
  opt : Option RespOpt
deriving DecidableEq, Repr

def servfail : Nat := 2
def optCodeEDE : Nat := 15
def edeCachedError : Nat := 13

/-- `FailureHit.Response(req)`. -/
def response (req : Option Req) : Resp :=
  let base : Resp := { qr := true, rcode := servfail, ra := true, aa := false, ad := false, tc := false,
                       rd := false, cd := false, answers := 0, authority := 0, opt := none }
  match req with
  | none => base
  | some r =>
    { base with rd := r.rd, cd := r.cd,
                opt := r.opt.map (fun o => { udp := o.udp, dobit := o.dobit, options := [(optCodeEDE, edeCachedError)] }) }

end SdnsVerif.Model.FailCache
